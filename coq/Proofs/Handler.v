(** C03 / C15 — proofs about Model/Msg.v, Model/Handler.v and Model/Plugins.v. *)
From Verif Require Import Base.Prelude Gen.Constants Model.Msg Model.Handler Model.Sequence Model.Plugins.
From Verif Require Import Proofs.Sequence.
From Verif Require Model.CacheKey Proofs.CacheKey.
Open Scope N_scope.

(** * The sequence interpreter preserves what every plugin preserves *)

Definition ost {S : Type} (o : outcome S) : S := snd (fst o).
Definition oerr {S : Type} (o : outcome S) : option N := snd o.

Lemma ost_pre {S} t (o : outcome S) : ost (pre t o) = ost o.
Proof. destruct o as [[t' s] r]. reflexivity. Qed.
Lemma oerr_pre {S} t (o : outcome S) : oerr (pre t o) = oerr o.
Proof. destruct o as [[t' s] r]. reflexivity. Qed.

Section MachineInv.
  Variable S : Type.
  Variable E : env S.
  Variable X : Type.
  Variable I : X -> S -> Prop.

  (** A continuation keeps the invariant, whatever the index *)
  Definition okk (k : S -> outcome S) : Prop := forall x s, I x s -> I x (ost (k s)).

  Hypothesis Hexec : forall e x s, I x s -> I x (fst (exec_o E e s)).
  Hypothesis Hrej : forall rc x s, I x s -> I x (reject_o E rc s).
  Hypothesis Hwrap : forall w k, okk k -> okk (wrap_o E w k).

  Lemma okk_done : okk done.
  Proof. intros x s H. exact H. Qed.

  Lemma machine_ok rs : forall k, okk k -> okk (machine E rs k).
  Proof.
    induction rs using rules_mind with
      (P0 := fun r => forall rest, (forall k, okk k -> okk (machine E rest k)) ->
                       forall k, okk k -> okk (machine E (RCons r rest) k))
      (P1 := fun a => forall ms rest, (forall k, okk k -> okk (machine E rest k)) ->
                       forall k, okk k -> okk (machine E (RCons (Rule ms a) rest) k)).
    - intros k Hk. exact Hk.
    - intros k Hk. apply IHrs; assumption.
    - intros rest Hrest k Hk. apply IHrs; assumption.
    - (* Exec *)
      intros ms rest Hrest k Hk x s Hs. cbn [machine].
      destruct (match_loop E ms s) as [tm v]. destruct v.
      + pose proof (Hexec e x s Hs) as H1. destruct (exec_o E e s) as [s' err]. cbn [fst] in H1.
        destruct err; [exact H1|]. rewrite ost_pre. apply Hrest; assumption.
      + rewrite ost_pre. apply Hrest; assumption.
      + exact Hs.
    - (* Wrap *)
      intros ms rest Hrest k Hk x s Hs. cbn [machine].
      destruct (match_loop E ms s) as [tm v]. destruct v.
      + rewrite ost_pre. apply Hwrap; [apply Hrest; assumption | exact Hs].
      + rewrite ost_pre. apply Hrest; assumption.
      + exact Hs.
    - (* Accept *)
      intros ms rest Hrest k Hk x s Hs. cbn [machine].
      destruct (match_loop E ms s) as [tm v]. destruct v.
      + exact Hs.
      + rewrite ost_pre. apply Hrest; assumption.
      + exact Hs.
    - (* Reject *)
      intros ms rest Hrest k Hk x s Hs. cbn [machine].
      destruct (match_loop E ms s) as [tm v]. destruct v.
      + apply Hrej; exact Hs.
      + rewrite ost_pre. apply Hrest; assumption.
      + exact Hs.
    - (* Return *)
      intros ms rest Hrest k Hk x s Hs. cbn [machine].
      destruct (match_loop E ms s) as [tm v]. destruct v.
      + rewrite ost_pre. apply Hk; exact Hs.
      + rewrite ost_pre. apply Hrest; assumption.
      + exact Hs.
    - (* Jump *)
      intros ms rest Hrest k Hk x s Hs. cbn [machine].
      destruct (match_loop E ms s) as [tm v]. destruct v.
      + rewrite ost_pre. apply IHrs; [apply Hrest; assumption | exact Hs].
      + rewrite ost_pre. apply Hrest; assumption.
      + exact Hs.
    - (* Goto *)
      intros ms rest Hrest k Hk x s Hs. cbn [machine].
      destruct (match_loop E ms s) as [tm v]. destruct v.
      + rewrite ost_pre. apply IHrs; [apply okk_done | exact Hs].
      + rewrite ost_pre. apply Hrest; assumption.
      + exact Hs.
    - (* Call: a sequence used as a plain executable *)
      intros ms rest Hrest k Hk x s Hs. cbn [machine].
      destruct (match_loop E ms s) as [tm v]. destruct v.
      + pose proof (IHrs done okk_done x s Hs) as H1.
        destruct (machine E rs done s) as [[t s'] err]. unfold ost in H1. cbn [fst snd] in H1.
        destruct err; [exact H1|]. rewrite ost_pre. apply Hrest; assumption.
      + rewrite ost_pre. apply Hrest; assumption.
      + exact Hs.
  Qed.

  Lemma run_seq_ok prog x s : I x s -> I x (ost (run_seq E prog s)).
  Proof. intro H. unfold run_seq. apply machine_ok; [apply okk_done | exact H]. Qed.
End MachineInv.
Arguments okk {S X} I k.

Lemma okk_ext {S X} (I I' : X -> S -> Prop) k :
  (forall x s, I x s <-> I' x s) -> okk I k -> okk I' k.
Proof. intros E H x s Hs. apply E. apply H. apply E. exact Hs. Qed.

(** * Plugins that run (part of) the chain on copies of the context

    An invariant that is a condition on the context and a condition on the
    plugin state survives fallback and dual_selector as soon as the context
    part is insensitive to the identity of the response object, survives
    adopting a response / a whole copy that satisfies it, and the state part
    survives the counters. Proved once, instantiated five times below. *)
Section CopyInv.
  Variable X : Type.
  Variable IC : X -> ctx -> Prop.
  Variable IW : world -> Prop.
  Definition Icw (x : X) (s : state) : Prop := IC x (fst s) /\ IW (snd s).

  Hypothesis IC_rid : forall x c rid, IC x c ->
    IC x (Ctx (c_query c) (c_client_opt c) (c_resp c) rid (c_resp_opt c) (c_upstream_opt c) (c_from_udp c) (c_client_addr c)).
  Hypothesis IW_bump : forall w, IW w -> IW (bump w).

  Lemma Icw_copy x s : Icw x s -> Icw x (ctx_copy s).
  Proof. destruct s as [c w]. intros [H1 H2]. split; cbn; [apply IC_rid | apply IW_bump]; assumption. Qed.

  (** fallback: SetResponse with the response of a copy *)
  Hypothesis IC_adopt_resp : forall x c c' rid r, IC x c -> IC x c' -> c_resp c' = Some r -> IC x (set_response c rid r).

  Lemma fallback_Icw runsub pr se sb :
    (forall rs, okk Icw (runsub rs)) -> forall x s, Icw x s -> Icw x (fst (fallback_exec runsub pr se sb s)).
  Proof.
    intros Hsub x [c w] Hs. unfold fallback_exec.
    pose proof (Hsub pr x _ (Icw_copy x _ Hs)) as Hp.
    destruct (runsub pr (ctx_copy (c, w))) as [[tp [cp w1]] errp]. unfold ost in Hp. cbn [fst snd] in Hp.
    destruct Hs as [Hc Hw]. destruct Hp as [Hcp Hw1]. cbn [fst snd] in *.
    set (rp := match errp with
               | Some _ => None
               | None => match c_resp cp with Some r => Some (c_rid cp, r) | None => None end
               end).
    assert (Hrp : forall rid r, rp = Some (rid, r) -> c_resp cp = Some r).
    { subst rp. intros rid r E. destruct errp; [discriminate|]. destruct (c_resp cp); inversion E. reflexivity. }
    destruct (sb || match rp with Some _ => false | None => true end).
    - pose proof (Hsub se x (ctx_copy (c, w1)) (Icw_copy x (c, w1) (conj Hc Hw1))) as Hq.
      destruct (runsub se (ctx_copy (c, w1))) as [[ts [cs w2]] errs]. unfold ost in Hq. cbn [fst snd] in Hq.
      destruct Hq as [Hcs Hw2].
      set (rs := match errs with
                 | Some _ => None
                 | None => match c_resp cs with Some r => Some (c_rid cs, r) | None => None end
                 end).
      assert (Hrs : forall rid r, rs = Some (rid, r) -> c_resp cs = Some r).
      { subst rs. intros rid r E. destruct errs; [discriminate|]. destruct (c_resp cs); inversion E. reflexivity. }
      destruct rp as [[rid r]|].
      + split; cbn; [|exact Hw2]. eapply IC_adopt_resp; [exact Hc | exact Hcp | eapply Hrp; reflexivity].
      + destruct rs as [[rid r]|]; (split; cbn; [|exact Hw2]); [|exact Hc].
        eapply IC_adopt_resp; [exact Hc | exact Hcs | eapply Hrs; reflexivity].
    - destruct rp as [[rid r]|]; (split; cbn; [|exact Hw1]); [|exact Hc].
      eapply IC_adopt_resp; [exact Hc | exact Hcp | eapply Hrp; reflexivity].
  Qed.

  (** dual_selector: the reference query runs under another index *)
  Variable refx : X -> N -> X.
  Hypothesis IC_ref : forall x c t, IC x c -> (t = type_a \/ t = type_aaaa) ->
    IC (refx x t) (with_query c (set_q0_type (c_query c) t)).
  Hypothesis IC_local : forall x c rid, IC x c -> IC x (set_response c rid (gen_empty_reply (c_query c))).
  Hypothesis IC_adopt_ctx : forall x c co, IC x c -> IC x co -> IC x (with_query co (c_query c)).
  Hypothesis IW_pref : forall w i n, IW w -> IW (add_pref w i n).

  Lemma dual_Icw inst v6 k : okk Icw k -> okk Icw (dual_exec inst v6 k).
  Proof.
    intros Hk x [c w] Hs. unfold dual_exec.
    destruct (m_question (c_query c)) as [|qu [|]]; try (apply Hk; exact Hs).
    destruct (negb ((qtype qu =? type_a) || (qtype qu =? type_aaaa))); [apply Hk; exact Hs|].
    destruct (qtype qu =? (if v6 then type_aaaa else type_a)).
    - specialize (Hk x _ Hs). destruct (k (c, w)) as [[t [c2 w2]] err]. unfold ost in *. cbn [fst snd] in *.
      destruct err; [exact Hk|]. destruct Hk as [H1 H2].
      destruct (match c_resp c2 with Some r => msg_ans_has_rr r (if v6 then type_aaaa else type_a) | None => false end);
        split; cbn; try assumption. apply IW_pref. exact H2.
    - destruct Hs as [Hc Hw]. cbn [fst snd] in *.
      destruct (existsb (name_eqb (qname qu)) (w_pref w inst)).
      + unfold ost, set_fresh. cbn [fst snd]. split; cbn; [apply IC_local; exact Hc | apply IW_bump; exact Hw].
      + pose proof (Icw_copy x (c, w) (conj Hc Hw)) as Hcp. cbv zeta.
        destruct (ctx_copy (c, w)) as [cr0 wr0]. destruct Hcp as [Hc0 Hw0]. cbn [fst snd] in *.
        assert (Hr : Icw (refx x (if v6 then type_aaaa else type_a))
                         (with_query cr0 (set_q0_type (c_query cr0) (if v6 then type_aaaa else type_a)), wr0)).
        { split; cbn [fst snd]; [|exact Hw0]. apply IC_ref; [exact Hc0|]. destruct v6; auto. }
        pose proof (Hk _ _ Hr) as Hr'.
        match goal with |- context [k (?c1, wr0)] => destruct (k (c1, wr0)) as [[t1 [cr w1]] errr] end.
        unfold ost in Hr'. cbn [fst snd] in Hr'. destruct Hr' as [_ Hw1].
        set (block := match errr with
                      | Some _ => false
                      | None => match c_resp cr with Some r => msg_ans_has_rr r (if v6 then type_aaaa else type_a) | None => false end
                      end).
        assert (Hw1' : IW (if block then add_pref w1 inst (qname qu) else w1)) by (destruct block; [apply IW_pref|]; exact Hw1).
        set (w1' := if block then add_pref w1 inst (qname qu) else w1) in *.
        pose proof (Hk x _ (Icw_copy x (c, w1') (conj Hc Hw1'))) as Ho.
        destruct (k (ctx_copy (c, w1'))) as [[t2 [co w2]] erro]. unfold ost in *. cbn [fst snd] in *.
        destruct Ho as [Hco Hw2]. destruct block.
        * unfold set_fresh. split; cbn; [apply IC_local; exact Hc | apply IW_bump; exact Hw2].
        * split; cbn; [apply IC_adopt_ctx; assumption | exact Hw2].
  Qed.

  (** cache (with the lazy update, which runs the rest of the chain on a copy) *)
  Variable clock : N -> option N.
  Hypothesis IC_hit : forall x c w rid inst key v f,
    IC x c -> IW w -> msg_key (c_query c) = Some key -> lookup key (w_store w inst) = Some v ->
    IC x (set_response c rid (with_id (map_ttl_msg f v) (m_id (c_query c)))).
  Hypothesis IW_save : forall x c c2 w2 inst key r,
    IC x c -> IC x c2 -> msg_key (c_query c) = Some key -> IW w2 -> c_resp c2 = Some r ->
    answers_question r (c_query c2) = true -> IW (save inst key r w2).

  Lemma try_save_Icw x c c2 w2 inst key :
    IC x c -> IC x c2 -> msg_key (c_query c) = Some key -> IW w2 -> IW (try_save inst key c2 w2).
  Proof.
    intros Hc Hc2 Ek Hw2. unfold try_save. destruct (c_resp c2) as [r|] eqn:Er; [|exact Hw2].
    destruct (answers_question r (c_query c2)) eqn:Ea; [|exact Hw2].
    exact (IW_save x c c2 w2 inst key r Hc Hc2 Ek Hw2 Er Ea).
  Qed.

  Lemma cache_Icw inst lazy k : okk Icw k -> okk Icw (cache_exec clock inst lazy k).
  Proof.
    intros Hk x [c w] [Hc Hw]. cbn [fst snd] in Hc, Hw. unfold cache_exec.
    destruct (msg_key (c_query c)) as [key|] eqn:Ek; [|apply Hk; split; assumption].
    set (found := cache_find clock inst lazy key w).
    assert (Hf : forall r, fst found = Some r -> IC x (set_response c (w_next w) (with_id r (m_id (c_query c))))).
    { subst found. unfold cache_find. intros r E.
      destruct (existsb (same_entry inst key) (w_stale w)).
      - destruct (0 <? lazy); [|discriminate]. destruct (lookup key (w_store w inst)) as [v|] eqn:El; [|discriminate].
        cbn in E. inversion E; subst r. unfold set_ttl. exact (IC_hit x c w (w_next w) inst key v _ Hc Hw Ek El).
      - cbn in E. unfold get_cached in E. destruct (lookup key (w_store w inst)) as [v|] eqn:El; [|discriminate].
        destruct (clock (w_next w)); [|discriminate]. inversion E; subst r. unfold subtract_ttl.
        exact (IC_hit x c w (w_next w) inst key v _ Hc Hw Ek El). }
    set (w1 := if snd found && negb (w_sf (bump w))
               then let '(_, (cb, wb), _) := k (ctx_copy (c, bump w)) in try_save inst key cb wb
               else bump w).
    assert (Hw1 : IW w1).
    { subst w1. destruct (snd found && negb (w_sf (bump w))); [|apply IW_bump; exact Hw].
      pose proof (Hk x _ (Icw_copy x (c, bump w) (conj Hc (IW_bump w Hw)))) as Hb.
      destruct (k (ctx_copy (c, bump w))) as [[tb [cb wb]] eb]. unfold ost in Hb. cbn [fst snd] in Hb.
      destruct Hb as [Hcb Hwb]. exact (try_save_Icw x c cb wb inst key Hc Hcb Ek Hwb). }
    clearbody w1.
    set (c1 := match fst found with
               | Some r => set_response c (w_next w) (with_id r (m_id (c_query c)))
               | None => c end).
    assert (Hc1 : IC x c1) by (subst c1; destruct (fst found) as [r|] eqn:Ef; [apply Hf; reflexivity | exact Hc]).
    clearbody c1.
    pose proof (Hk x (c1, w1) (conj Hc1 Hw1)) as H2. destruct (k (c1, w1)) as [[t [c2 w2]] err].
    unfold ost in *. cbn [fst snd] in *. destruct H2 as [Hc2 Hw2]. split; cbn [fst snd]; [exact Hc2|].
    destruct (match fst found with Some _ => c_rid c2 =? w_next w | None => false end); [exact Hw2|].
    exact (try_save_Icw x c c2 w2 inst key Hc Hc2 Ek Hw2).
  Qed.
End CopyInv.
Arguments Icw {X} IC IW x s.

(** * From the plugins to every program at every nesting depth *)
Section EnvInv.
  Variable ups : N -> msg -> option msg.
  Variable clock : N -> option N.
  Variable xp : N -> xplugin.
  Variable wp : N -> wplugin.
  Variable mp : N -> matcher.
  Variable X : Type.
  Variable I : X -> state -> Prop.
  Hypothesis Hx : forall runsub, (forall rs, okk I (runsub rs)) ->
    forall p x s, I x s -> I x (fst (exec_x ups runsub p s)).
  Hypothesis Hr : forall rc x s, I x s -> I x (reject_x rc s).
  Hypothesis Hw : forall w k, okk I k -> okk I (wrap_w clock (wp w) k).

  Lemma plug_env_ok d : forall prog, okk I (run_seq (plug_env ups clock xp wp mp d) prog).
  Proof.
    induction d as [|d IH]; intros prog x s H; cbn [plug_env]; unfold env_with.
    - apply (run_seq_ok state _ X I); try assumption.
      intros e x0 s0 H0. cbn [exec_o]. apply Hx; [|exact H0]. intros rs x1 s1 H1. exact H1.
    - apply (run_seq_ok state _ X I); try assumption.
      intros e x0 s0 H0. cbn [exec_o]. apply Hx; [|exact H0]. intros rs. apply IH.
  Qed.

  Lemma entry_ok d prog x s : I x s -> I x (fst (entry ups clock xp wp mp d prog s)).
  Proof.
    intro H. unfold entry. pose proof (plug_env_ok d prog x s H) as R.
    destruct (run_seq (plug_env ups clock xp wp mp d) prog s) as [[t s'] err]. exact R.
  Qed.
End EnvInv.

(** * Decidable equalities decide equality *)
Lemma name_eqb_true a b : name_eqb a b = true -> a = b.
Proof. apply CacheKey.eqb_bytes_iff. Qed.

Lemma eopt_eqb_true a b : eopt_eqb a b = true -> a = b.
Proof.
  destruct a, b. unfold eopt_eqb. cbn. intro H. apply andb_true_iff in H as [H1 H2].
  apply N.eqb_eq in H1, H2. congruence.
Qed.

Lemma list_eqb_true {A} (eqb : A -> A -> bool) :
  (forall x y, eqb x y = true -> x = y) -> forall a b, list_eqb eqb a b = true -> a = b.
Proof.
  intros H a. induction a as [|x a IH]; intros [|y b] E; cbn in E; try discriminate; [reflexivity|].
  apply andb_true_iff in E as [E1 E2]. f_equal; auto.
Qed.

Lemma opt_eqb_true a b : opt_eqb a b = true -> a = b.
Proof.
  destruct a, b. unfold opt_eqb. cbn. intro H.
  repeat (apply andb_true_iff in H as [H ?]).
  apply N.eqb_eq in H. apply Bool.eqb_prop in H3. apply N.eqb_eq in H2, H1.
  apply (list_eqb_true _ eopt_eqb_true) in H0. congruence.
Qed.

Lemma rdata_eqb_true a b : rdata_eqb a b = true -> a = b.
Proof.
  destruct a, b; cbn; intro H; try discriminate.
  - apply N.eqb_eq in H. congruence.
  - apply name_eqb_true in H. congruence.
Qed.

Lemma rr_eqb_true a b : rr_eqb a b = true -> a = b.
Proof.
  destruct a, b; cbn; intro H; try discriminate.
  - repeat (apply andb_true_iff in H as [H ?]).
    apply name_eqb_true in H. apply N.eqb_eq in H3, H2, H1. apply rdata_eqb_true in H0. congruence.
  - apply opt_eqb_true in H. congruence.
Qed.

Lemma question_eqb_true a b : question_eqb a b = true -> a = b.
Proof. apply CacheKey.question_eqb_iff. Qed.

Lemma msg_eqb_true a b : msg_eqb a b = true -> a = b.
Proof.
  destruct a, b. unfold msg_eqb. cbn. intro H.
  repeat (apply andb_true_iff in H as [H ?]).
  repeat match goal with
         | E : (_ =? _) = true |- _ => apply N.eqb_eq in E
         | E : Bool.eqb _ _ = true |- _ => apply Bool.eqb_prop in E
         | E : list_eqb rr_eqb _ _ = true |- _ => apply (list_eqb_true _ rr_eqb_true) in E
         | E : list_eqb question_eqb _ _ = true |- _ => apply (list_eqb_true _ question_eqb_true) in E
         end.
  subst. reflexivity.
Qed.

(** * OPT records of a section *)
Lemma opts_of_app a b : opts_of (a ++ b) = opts_of a ++ opts_of b.
Proof. induction a as [|[] a IH]; cbn; rewrite ?IH; reflexivity. Qed.

Lemma no_opt_iff l : no_opt l = true <-> opts_of l = [].
Proof.
  induction l as [|[] l IH]; cbn; [tauto | exact IH | split; discriminate].
Qed.

Lemma pop_opt_none ex : pop_opt ex = None <-> opts_of ex = [].
Proof.
  induction ex as [|x t IH]; cbn; [tauto|].
  destruct (pop_opt t) as [[t' o]|].
  - split; [discriminate|]. intro H. destruct x; cbn in H; [|discriminate].
    apply IH in H. discriminate.
  - destruct x; cbn; [tauto | split; discriminate].
Qed.

Lemma pop_opt_some ex : forall ex' o, pop_opt ex = Some (ex', o) -> opts_of ex = opts_of ex' ++ [o].
Proof.
  induction ex as [|x t IH]; cbn; intros ex' o H; [discriminate|].
  destruct (pop_opt t) as [[t' o']|] eqn:Ht.
  - inversion H; subst. specialize (IH _ _ eq_refl). destruct x; cbn; rewrite IH; reflexivity.
  - destruct x; [discriminate|]. inversion H; subst. apply pop_opt_none in Ht. cbn. now rewrite Ht.
Qed.

Lemma pop_opt_last ex l o : opts_of ex = l ++ [o] -> exists ex', pop_opt ex = Some (ex', o) /\ opts_of ex' = l.
Proof.
  intro H. destruct (pop_opt ex) as [[ex' o']|] eqn:Hp.
  - apply pop_opt_some in Hp. rewrite Hp in H. apply app_inj_tail in H as [E1 E2]. subst o'. eauto.
  - apply pop_opt_none in Hp. rewrite Hp in H. destruct l; discriminate.
Qed.

Lemma find_opt_last ex l o : opts_of ex = l ++ [o] -> find_opt ex = Some o.
Proof. intro H. unfold find_opt. destruct (pop_opt_last _ _ _ H) as (ex' & -> & _). reflexivity. Qed.

Lemma find_opt_none ex : opts_of ex = [] -> find_opt ex = None.
Proof. intro H. unfold find_opt. apply pop_opt_none in H. now rewrite H. Qed.

Lemma find_opt_in ex o : find_opt ex = Some o -> In o (opts_of ex).
Proof.
  unfold find_opt. destruct (pop_opt ex) as [[ex' o']|] eqn:H; [|discriminate].
  intro E. inversion E; subst. rewrite (pop_opt_some _ _ _ H). apply in_or_app. right. now left.
Qed.

Lemma map_last_opt_none g ex : map_last_opt g ex = None <-> opts_of ex = [].
Proof.
  induction ex as [|x t IH]; cbn; [tauto|].
  destruct (map_last_opt g t) as [t'|].
  - split; [discriminate|]. intro H. destruct x; cbn in H; [|discriminate].
    apply IH in H. discriminate.
  - destruct x; cbn; [tauto | split; discriminate].
Qed.

Lemma map_last_opt_some g ex : forall ex', map_last_opt g ex = Some ex' ->
  exists l o, opts_of ex = l ++ [o] /\ opts_of ex' = l ++ [g o].
Proof.
  induction ex as [|x t IH]; cbn; intros ex' H; [discriminate|].
  destruct (map_last_opt g t) as [t'|] eqn:Ht.
  - inversion H; subst. destruct (IH _ eq_refl) as (l & o & E1 & E2).
    destruct x; cbn; rewrite E1, E2.
    + exists l, o. auto.
    + exists (o0 :: l), o. auto.
  - destruct x; [discriminate|]. inversion H; subst. apply map_last_opt_none in Ht.
    exists [], o. cbn. rewrite Ht. auto.
Qed.

Lemma map_last_opt_last g ex l o :
  opts_of ex = l ++ [o] -> exists ex', map_last_opt g ex = Some ex' /\ opts_of ex' = l ++ [g o].
Proof.
  intro H. destruct (map_last_opt g ex) as [ex'|] eqn:Hm.
  - destruct (map_last_opt_some _ _ _ Hm) as (l' & o' & E1 & E2). rewrite E1 in H.
    apply app_inj_tail in H as [E3 E4]. subst l' o'. eauto.
  - apply map_last_opt_none in Hm. rewrite Hm in H. destruct l; discriminate.
Qed.

Lemma swap_opt_none f ex : swap_opt f ex = None <-> opts_of ex = [].
Proof.
  induction ex as [|x t IH]; cbn; [tauto|].
  destruct (swap_opt f t) as [[t' o]|].
  - split; [discriminate|]. intro H. destruct x; cbn in H; [|discriminate].
    apply IH in H. discriminate.
  - destruct x; cbn; [tauto | split; discriminate].
Qed.

Lemma swap_opt_some f ex : forall ex' o, swap_opt f ex = Some (ex', o) ->
  exists l, opts_of ex = l ++ [o] /\ opts_of ex' = l ++ [f].
Proof.
  induction ex as [|x t IH]; cbn; intros ex' o H; [discriminate|].
  destruct (swap_opt f t) as [[t' o']|] eqn:Ht.
  - inversion H; subst. destruct (IH _ _ eq_refl) as (l & E1 & E2).
    destruct x; cbn; rewrite E1, E2.
    + exists l. auto.
    + exists (o0 :: l). auto.
  - destruct x; [discriminate|]. inversion H; subst. apply swap_opt_none in Ht.
    exists []. cbn. rewrite Ht. auto.
Qed.

(** * pkg/dnsutils: the TTL helpers leave every OPT record alone, in place *)
Lemma map_ttl_opt f r : is_opt r = true -> map_ttl f r = r.
Proof. destruct r; [discriminate | reflexivity]. Qed.

Lemma opts_of_map_ttl f l : opts_of (map (map_ttl f) l) = opts_of l.
Proof. induction l as [|[] l IH]; cbn; rewrite ?IH; reflexivity. Qed.

Lemma map_ttl_positions f l : map is_opt (map (map_ttl f) l) = map is_opt l.
Proof. induction l as [|[] l IH]; cbn; rewrite ?IH; reflexivity. Qed.

Definition same_opts (m m' : msg) : Prop :=
  opts_of (m_answer m') = opts_of (m_answer m) /\ opts_of (m_ns m') = opts_of (m_ns m)
  /\ opts_of (m_extra m') = opts_of (m_extra m)
  /\ map is_opt (m_answer m') = map is_opt (m_answer m) /\ map is_opt (m_ns m') = map is_opt (m_ns m)
  /\ map is_opt (m_extra m') = map is_opt (m_extra m).

Lemma same_opts_refl m : same_opts m m.
Proof. repeat split. Qed.
Lemma same_opts_trans a b c : same_opts a b -> same_opts b c -> same_opts a c.
Proof. unfold same_opts. intuition congruence. Qed.

Lemma map_ttl_msg_same_opts f m : same_opts m (map_ttl_msg f m).
Proof.
  unfold same_opts, map_ttl_msg. cbn. rewrite !opts_of_map_ttl, !map_ttl_positions. repeat split.
Qed.

Lemma ttl_apply_same_opts fx mn mx m : same_opts m (ttl_apply fx mn mx m).
Proof.
  unfold ttl_apply. destruct (0 <? fx); [apply map_ttl_msg_same_opts|].
  destruct (0 <? mn), (0 <? mx);
    repeat first [apply same_opts_refl | apply map_ttl_msg_same_opts
                  | eapply same_opts_trans; [apply map_ttl_msg_same_opts|] ].
Qed.

Lemma ttl_apply_header fx mn mx m :
  m_id (ttl_apply fx mn mx m) = m_id m /\ m_qr (ttl_apply fx mn mx m) = m_qr m
  /\ m_question (ttl_apply fx mn mx m) = m_question m /\ m_rcode (ttl_apply fx mn mx m) = m_rcode m.
Proof.
  unfold ttl_apply. destruct (0 <? fx); [repeat split|].
  destruct (0 <? mn), (0 <? mx); repeat split.
Qed.

(** copyNoOpt leaves no OPT in the additional section *)
Lemma copy_no_opt_extra m : opts_of (m_extra (copy_no_opt m)) = [].
Proof.
  unfold copy_no_opt. cbn. induction (m_extra m) as [|[] l IH]; cbn; auto.
Qed.

(** * Context bookkeeping: which operation touches which field *)
Lemma set_response_fields c rid m :
  c_query (set_response c rid m) = c_query c /\ c_client_opt (set_response c rid m) = c_client_opt c
  /\ c_client_addr (set_response c rid m) = c_client_addr c /\ c_resp_opt (set_response c rid m) = c_resp_opt c
  /\ c_from_udp (set_response c rid m) = c_from_udp c.
Proof. unfold set_response. destruct (pop_opt (m_extra m)) as [[ex o]|]; cbn; repeat split. Qed.

Lemma set_q0_name_extra q n : m_extra (set_q0_name q n) = m_extra q.
Proof. unfold set_q0_name. destruct (m_question q); reflexivity. Qed.

Lemma set_q0_type_extra q t : m_extra (set_q0_type q t) = m_extra q.
Proof. unfold set_q0_type. destruct (m_question q); reflexivity. Qed.

Definition client_opts (co : option opt) : list eopt :=
  match co with Some o => o_opts o | None => [] end.

Lemma first_code_some code l e : first_code code l = Some e -> In e l /\ fst e = code.
Proof.
  unfold first_code. intro H. apply find_some in H as [H1 H2]. apply N.eqb_eq in H2. auto.
Qed.

Lemma pick_codes_in codes l e : In e (pick_codes codes l) -> In e l /\ In (fst e) codes.
Proof.
  unfold pick_codes. intro H. apply filter_In in H as [H1 H2]. split; [exact H1|].
  apply existsb_exists in H2 as (c & Hc & E). apply N.eqb_eq in E. now subst.
Qed.

Lemma lookup_in key st v : lookup key st = Some v -> In (key, v) st.
Proof.
  induction st as [|[k' v'] t IH]; cbn; [discriminate|].
  destruct (list_eqb N.eqb key k') eqn:E.
  - intro H. inversion H; subst. apply CacheKey.eqb_bytes_iff in E. subst. now left.
  - intro H. right. auto.
Qed.

Lemma save_log inst key r w : w_log (save inst key r w) = w_log w.
Proof. unfold save. destruct (0 <? save_ttl r); reflexivity. Qed.

Lemma save_store_in inst key r w i k v :
  In (k, v) (w_store (save inst key r w) i) -> In (k, v) (w_store w i) \/ (i = inst /\ k = key /\ v = copy_no_opt r).
Proof.
  unfold save. destruct (0 <? save_ttl r); [|auto]. cbn. destruct (i =? inst) eqn:E; [|auto].
  apply N.eqb_eq in E. subst i. intros [H|H]; [inversion H; auto | auto].
Qed.

(** * C15, upstream side: what is handed to an upstream *)
Section UpstreamSide.
  Variable ups : N -> msg -> option msg.
  Variable clock : N -> option N.
  Variable xp : N -> xplugin.
  Variable wp : N -> wplugin.
  Variable mp : N -> matcher.
  Variable co : option opt.        (* the client's OPT *)
  Variable ca : option addr.       (* the client's address *)

  (** An option a plugin of the table puts into the query OPT: a client option
      whose code a forward_edns0opt is configured for, the client's
      client-subnet option through a forwarding ecs_handler, or the
      client-subnet option an ecs_handler makes from its preset / the client
      address. *)
  Definition allowed_up (e : eopt) : Prop :=
    (exists w codes, wp w = WFwdOpt codes /\ In (fst e) codes /\ In e (client_opts co))
    \/ (exists w fwd send preset m4 m6, wp w = WEcs fwd send preset m4 m6 /\
          ((fwd = true /\ fst e = ecs_code /\ In e (client_opts co))
           \/ (exists a, preset = Some a /\ e = new_subnet a m4 m6)
           \/ (exists a, send = true /\ ca = Some a /\ e = new_subnet a m4 m6))).

  Definition fresh_ok (o : opt) : Prop :=
    o_udp o = edns0_size /\ o_do o = false /\ o_ver o = 0 /\ Forall allowed_up (o_opts o).
  Definition one_fresh (m : msg) : Prop := exists o, opts_of (m_extra m) = [o] /\ fresh_ok o.

  Definition invU (_ : unit) (s : state) : Prop :=
    c_client_opt (fst s) = co /\ c_client_addr (fst s) = ca /\ one_fresh (c_query (fst s))
    /\ Forall (fun x => one_fresh (snd x)) (w_log (snd s)).

  Lemma invU_frame s s' :
    c_client_opt (fst s') = c_client_opt (fst s) -> c_client_addr (fst s') = c_client_addr (fst s) ->
    m_extra (c_query (fst s')) = m_extra (c_query (fst s)) -> w_log (snd s') = w_log (snd s) ->
    forall x, invU x s -> invU x s'.
  Proof.
    intros E1 E2 E3 E4 x (H1 & H2 & H3 & H4). unfold invU, one_fresh in *.
    rewrite E1, E2, E3, E4. auto.
  Qed.

  Lemma one_fresh_wire m : one_fresh m -> one_fresh (wire m).
  Proof.
    intros (o & Ho & H1 & H2 & H3 & H4). unfold wire.
    destruct (map_last_opt_last (fun o => with_ext o (m_rcode m / 16)) (m_extra m) [] o Ho) as (ex' & -> & E).
    exists (with_ext o (m_rcode m / 16)). split; [exact E|]. repeat split; assumption.
  Qed.

  Lemma set_fresh_invU s r x : invU x s -> invU x (set_fresh s r).
  Proof.
    destruct s as [c w]. unfold set_fresh. apply invU_frame; cbn; try reflexivity;
      destruct (set_response_fields c (w_next w) r) as (E1 & E2 & E3 & _); congruence.
  Qed.

  (** context part / state part *)
  Definition ICU (_ : unit) (c : ctx) : Prop :=
    c_client_opt c = co /\ c_client_addr c = ca /\ one_fresh (c_query c).
  Definition IWU (w : world) : Prop := Forall (fun x => one_fresh (snd x)) (w_log w).
  Lemma invU_iff x s : invU x s <-> Icw ICU IWU x s.
  Proof. unfold invU, Icw, ICU, IWU. tauto. Qed.

  Lemma ICU_set_response x c rid m : ICU x c -> ICU x (set_response c rid m).
  Proof.
    unfold ICU. destruct (set_response_fields c rid m) as (E1 & E2 & E3 & _). rewrite E1, E2, E3. auto.
  Qed.

  Lemma fallback_invU runsub pr se sb :
    (forall rs, okk invU (runsub rs)) -> forall x s, invU x s -> invU x (fst (fallback_exec runsub pr se sb s)).
  Proof.
    intros Hsub x s H. apply invU_iff.
    refine (fallback_Icw unit ICU IWU _ _ _ runsub pr se sb _ x s _).
    - intros x0 c rid Hc. exact Hc.
    - intros w Hw. exact Hw.
    - intros x0 c c' rid r Hc _ _. apply ICU_set_response. exact Hc.
    - intro rs. apply (okk_ext invU); [apply invU_iff | apply Hsub].
    - apply invU_iff. exact H.
  Qed.

  Lemma dual_invU inst v6 k : okk invU k -> okk invU (dual_exec inst v6 k).
  Proof.
    intro Hk. apply (okk_ext (Icw ICU IWU)); [intros; symmetry; apply invU_iff|].
    refine (dual_Icw unit ICU IWU _ _ (fun x _ => x) _ _ _ _ inst v6 k _).
    - intros x0 c rid Hc. exact Hc.
    - intros w Hw. exact Hw.
    - intros x0 c t (H1 & H2 & H3) _. repeat split; try assumption. unfold one_fresh in *. cbn.
      rewrite set_q0_type_extra. exact H3.
    - intros x0 c rid Hc. apply ICU_set_response. exact Hc.
    - intros x0 c c' (H1 & H2 & H3) (G1 & G2 & G3). repeat split; assumption.
    - intros w i n Hw. exact Hw.
    - apply (okk_ext invU); [apply invU_iff | exact Hk].
  Qed.

  Lemma exec_x_invU runsub p x s :
    (forall rs, okk invU (runsub rs)) -> invU x s -> invU x (fst (exec_x ups runsub p s)).
  Proof.
    intros Hsub H. destruct s as [c w]. destruct p; cbn [exec_x]; [| | | | | |apply fallback_invU; assumption].
    - unfold set_opt. destruct (hosts_reply h (c_query c)); cbn [fst]; [apply set_fresh_invU|]; exact H.
    - unfold set_opt. destruct (black_hole_reply v4 v6 (c_query c)); cbn [fst]; [apply set_fresh_invU|]; exact H.
    - unfold set_opt. destruct (arbitrary_reply z (c_query c)); cbn [fst]; [apply set_fresh_invU|]; exact H.
    - destruct (c_resp c); cbn [fst]; [|exact H]. revert H. apply invU_frame; reflexivity.
    - assert (H' : invU x (c, log_up w u (wire (c_query c)))).
      { destruct H as (H1 & H2 & H3 & H4). repeat split; cbn; try assumption.
        constructor; [cbn; apply one_fresh_wire; exact H3 | exact H4]. }
      destruct (ups u (wire (c_query c))); cbn [fst]; [apply set_fresh_invU|]; exact H'.
    - cbn [fst]. revert H. apply invU_frame; reflexivity.
  Qed.

  Lemma reject_x_invU rc x s : invU x s -> invU x (reject_x rc s).
  Proof. intro H. unfold reject_x. apply set_fresh_invU. exact H. Qed.

  (** appending allowed options to the query OPT *)
  Lemma q_add_opts_fields c es :
    c_client_opt (q_add_opts c es) = c_client_opt c /\ c_client_addr (q_add_opts c es) = c_client_addr c
    /\ c_resp (q_add_opts c es) = c_resp c /\ c_resp_opt (q_add_opts c es) = c_resp_opt c
    /\ c_upstream_opt (q_add_opts c es) = c_upstream_opt c /\ c_rid (q_add_opts c es) = c_rid c
    /\ m_question (c_query (q_add_opts c es)) = m_question (c_query c)
    /\ m_id (c_query (q_add_opts c es)) = m_id (c_query c).
  Proof. unfold q_add_opts. destruct (map_last_opt _ _); cbn; repeat split. Qed.

  Lemma q_add_opts_invU c w es x :
    Forall allowed_up es -> invU x (c, w) -> invU x (q_add_opts c es, w).
  Proof.
    intros Hes (H1 & H2 & (o & Ho & F1 & F2 & F3 & F4) & H4).
    destruct (q_add_opts_fields c es) as (E1 & E2 & _).
    unfold invU. cbn [fst snd] in *. rewrite E1, E2. repeat split; try assumption.
    unfold q_add_opts.
    destruct (map_last_opt_last (fun o => add_opts o es) (m_extra (c_query c)) [] o Ho) as (ex' & -> & E).
    exists (add_opts o es). cbn. split; [exact E|]. repeat split; try assumption.
    cbn. apply Forall_app. split; assumption.
  Qed.

  Lemma cache_invU inst lazy k : okk invU k -> okk invU (cache_exec clock inst lazy k).
  Proof.
    intro Hk. apply (okk_ext (Icw ICU IWU)); [intros; symmetry; apply invU_iff|].
    refine (cache_Icw unit ICU IWU _ _ clock _ _ inst lazy k _).
    - intros x c rid Hc. exact Hc.
    - intros w Hw. exact Hw.
    - intros x c w rid i key v f Hc _ _ _. apply ICU_set_response. exact Hc.
    - intros x c c2 w2 i key r _ _ _ Hw _ _. unfold IWU. rewrite save_log. exact Hw.
    - apply (okk_ext invU); [apply invU_iff | exact Hk].
  Qed.

  Lemma redirect_invU f k : okk invU k -> okk invU (redirect_exec f k).
  Proof.
    intros Hk x [c w] Hs. unfold redirect_exec.
    destruct (m_question (c_query c)) as [|qu [|]]; try (apply Hk; exact Hs).
    destruct (negb (qclass qu =? class_inet)); [apply Hk; exact Hs|].
    destruct (f (qname qu)) as [tgt|]; [|apply Hk; exact Hs].
    assert (H1 : invU x (with_query c (set_q0_name (c_query c) tgt), w)).
    { revert Hs. apply invU_frame; cbn; try reflexivity. apply set_q0_name_extra. }
    specialize (Hk x _ H1). destruct (k (with_query c (set_q0_name (c_query c) tgt), w)) as [[t [c2 w2]] err].
    unfold ost in *. cbn [fst snd] in *. revert Hk. apply invU_frame; cbn [fst snd].
    - destruct (c_resp c2); reflexivity.
    - destruct (c_resp c2); reflexivity.
    - destruct (c_resp c2); cbn; rewrite set_q0_name_extra; reflexivity.
    - reflexivity.
  Qed.

  Lemma resp_add_opts_frame c es :
    c_client_opt (resp_add_opts c es) = c_client_opt c /\ c_client_addr (resp_add_opts c es) = c_client_addr c
    /\ c_query (resp_add_opts c es) = c_query c /\ c_resp (resp_add_opts c es) = c_resp c
    /\ c_upstream_opt (resp_add_opts c es) = c_upstream_opt c.
  Proof. unfold resp_add_opts. destruct (c_resp_opt c); cbn; repeat split. Qed.

  Lemma resp_add_opts_invU c w es x : invU x (c, w) -> invU x (resp_add_opts c es, w).
  Proof.
    apply invU_frame; cbn; destruct (resp_add_opts_frame c es) as (E1 & E2 & E3 & _); congruence.
  Qed.

  Lemma ecs_invU w fwd send preset m4 m6 k :
    wp w = WEcs fwd send preset m4 m6 -> okk invU k -> okk invU (ecs_exec fwd send preset m4 m6 k).
  Proof.
    intros Hw Hk x [c wd] Hs. unfold ecs_exec.
    destruct (add_ecs fwd send preset m4 m6 c) as [[c1 forwarded]|] eqn:Ha; [|exact Hs].
    assert (H1 : invU x (c1, wd)).
    { unfold add_ecs in Ha. destruct (q_opt c) as [qo|]; [|discriminate].
      destruct (m_question (c_query c)) as [|qu qs]; [discriminate|].
      destruct (has_code ecs_code (o_opts qo)); [inversion Ha; subst; exact Hs|].
      destruct (negb (qclass qu =? class_inet)); [inversion Ha; subst; exact Hs|].
      destruct Hs as (Hco & Hca & Hq & Hl). cbn [fst snd] in *.
      destruct (if fwd then match c_client_opt c with Some co0 => first_code ecs_code (o_opts co0) | None => None end else None)
        as [o|] eqn:Hf.
      - inversion Ha; subst c1 forwarded. apply q_add_opts_invU; [|repeat split; assumption].
        constructor; [|constructor]. right. exists w, fwd, send, preset, m4, m6. split; [exact Hw|]. left.
        destruct fwd; [|discriminate]. rewrite Hco in Hf. destruct co as [co0|]; [|discriminate].
        apply first_code_some in Hf as [Hin Hc]. auto.
      - destruct preset as [a|].
        + inversion Ha; subst c1 forwarded. apply q_add_opts_invU; [|repeat split; assumption].
          constructor; [|constructor]. right. exists w, fwd, send, (Some a), m4, m6. split; [exact Hw|].
          right. left. eauto.
        + destruct send.
          * destruct (c_client_addr c) as [a|] eqn:Hadr; inversion Ha; subst c1 forwarded;
              [|repeat split; cbn; first [assumption | congruence]].
            apply q_add_opts_invU; [|repeat split; cbn; first [assumption | congruence]].
            constructor; [|constructor]. right. exists w, fwd, true, None, m4, m6. split; [exact Hw|].
            right. right. exists a. repeat split; congruence.
          * inversion Ha; subst. repeat split; assumption. }
    specialize (Hk x _ H1). destruct (k (c1, wd)) as [[t [c2 w2]] err]. unfold ost in *. cbn [fst snd] in *.
    destruct err; [exact Hk|]. destruct forwarded; [|exact Hk].
    destruct (c_resp_opt c2); [|exact Hk]. destruct (c_upstream_opt c2) as [uo|]; [|exact Hk].
    destruct (first_code ecs_code (o_opts uo)); [|exact Hk].
    apply resp_add_opts_invU. exact Hk.
  Qed.

  Lemma fwdopt_invU w codes k :
    wp w = WFwdOpt codes -> okk invU k -> okk invU (fwdopt_exec codes k).
  Proof.
    intros Hw Hk x [c wd] Hs. unfold fwdopt_exec.
    destruct (q_opt c); [|exact Hs].
    assert (H1 : invU x (match c_client_opt c with
                         | Some co0 => q_add_opts c (pick_codes codes (o_opts co0))
                         | None => c end, wd)).
    { destruct (c_client_opt c) as [co0|] eqn:Hc; [|exact Hs].
      apply q_add_opts_invU; [|exact Hs]. apply Forall_forall. intros e He.
      apply pick_codes_in in He as [Hin Hcode]. left. exists w, codes. split; [exact Hw|]. split; [exact Hcode|].
      destruct Hs as (Hco & _). cbn in Hco. rewrite Hc in Hco. rewrite <- Hco. exact Hin. }
    specialize (Hk x _ H1).
    destruct (k (match c_client_opt c with
                 | Some co0 => q_add_opts c (pick_codes codes (o_opts co0))
                 | None => c end, wd)) as [[t [c2 w2]] err].
    unfold ost in *. cbn [fst snd] in *.
    destruct err; [exact Hk|]. destruct (c_upstream_opt c2) as [uo|]; [|exact Hk].
    destruct (c_resp_opt c2); [|exact Hk]. apply resp_add_opts_invU. exact Hk.
  Qed.

  Lemma wrap_w_invU w k : okk invU k -> okk invU (wrap_w clock (wp w) k).
  Proof.
    intro Hk. destruct (wp w) eqn:Hw; cbn [wrap_w].
    - apply cache_invU; exact Hk.
    - apply redirect_invU; exact Hk.
    - eapply ecs_invU; eassumption.
    - eapply fwdopt_invU; eassumption.
    - apply dual_invU; exact Hk.
  Qed.

  Lemma entry_invU d prog s : invU tt s -> invU tt (fst (entry ups clock xp wp mp d prog s)).
  Proof.
    apply (entry_ok ups clock xp wp mp unit invU).
    - intros runsub Hsub p x s0. apply exec_x_invU. exact Hsub.
    - exact reject_x_invU.
    - exact wrap_w_invU.
  Qed.
End UpstreamSide.

(** * Caches never hold an OPT in the additional section (no hypothesis at all) *)
Section StoreSide.
  Variable ups : N -> msg -> option msg.
  Variable clock : N -> option N.
  Variable xp : N -> xplugin.
  Variable wp : N -> wplugin.
  Variable mp : N -> matcher.

  Definition stores_no_opt (w : world) : Prop :=
    forall i k v, In (k, v) (w_store w i) -> opts_of (m_extra v) = [].
  Definition invS (_ : unit) (s : state) : Prop := stores_no_opt (snd s).

  Lemma save_no_opt inst key r w : stores_no_opt w -> stores_no_opt (save inst key r w).
  Proof.
    intros H i k v Hin. apply save_store_in in Hin as [Hin | (_ & _ & ->)]; [eapply H; exact Hin | apply copy_no_opt_extra].
  Qed.

  Lemma set_fresh_store s r : w_store (snd (set_fresh s r)) = w_store (snd s).
  Proof. destruct s as [c w]. reflexivity. Qed.

  Lemma invS_iff x s : invS x s <-> Icw (fun (_ : unit) (_ : ctx) => True) stores_no_opt x s.
  Proof. unfold invS, Icw. tauto. Qed.

  Lemma fallback_invS runsub pr se sb :
    (forall rs, okk invS (runsub rs)) -> forall x s, invS x s -> invS x (fst (fallback_exec runsub pr se sb s)).
  Proof.
    intros Hsub x s H. apply invS_iff.
    refine (fallback_Icw unit _ stores_no_opt _ _ _ runsub pr se sb _ x s _); try (intros; exact I).
    - intros w Hw. exact Hw.
    - intro rs. apply (okk_ext invS); [apply invS_iff | apply Hsub].
    - apply invS_iff. exact H.
  Qed.

  Lemma dual_invS inst v6 k : okk invS k -> okk invS (dual_exec inst v6 k).
  Proof.
    intro Hk. apply (okk_ext (Icw (fun (_ : unit) (_ : ctx) => True) stores_no_opt)); [intros; symmetry; apply invS_iff|].
    refine (dual_Icw unit _ stores_no_opt _ _ (fun x _ => x) _ _ _ _ inst v6 k _); try (intros; exact I).
    - intros w Hw. exact Hw.
    - intros w i n Hw. exact Hw.
    - apply (okk_ext invS); [apply invS_iff | exact Hk].
  Qed.

  Lemma cache_invS inst lazy k : okk invS k -> okk invS (cache_exec clock inst lazy k).
  Proof.
    intro Hk. apply (okk_ext (Icw (fun (_ : unit) (_ : ctx) => True) stores_no_opt)); [intros; symmetry; apply invS_iff|].
    refine (cache_Icw unit _ stores_no_opt _ _ clock _ _ inst lazy k _); try (intros; exact I).
    - intros w Hw. exact Hw.
    - intros x c c2 w2 i key r _ _ _ Hw _ _. apply save_no_opt. exact Hw.
    - apply (okk_ext invS); [apply invS_iff | exact Hk].
  Qed.

  Lemma exec_x_invS runsub p x s :
    (forall rs, okk invS (runsub rs)) -> invS x s -> invS x (fst (exec_x ups runsub p s)).
  Proof.
    intros Hsub H. destruct s as [c w]. destruct p; cbn [exec_x]; unfold set_opt;
      [| | | | | |apply fallback_invS; assumption].
    - destruct (hosts_reply h (c_query c)); exact H.
    - destruct (black_hole_reply v4 v6 (c_query c)); exact H.
    - destruct (arbitrary_reply z (c_query c)); exact H.
    - destruct (c_resp c); exact H.
    - destruct (ups u (wire (c_query c))); exact H.
    - exact H.
  Qed.

  Lemma reject_x_invS rc x s : invS x s -> invS x (reject_x rc s).
  Proof. unfold invS, stores_no_opt, reject_x. rewrite set_fresh_store. auto. Qed.

  Lemma wrap_w_invS w k : okk invS k -> okk invS (wrap_w clock (wp w) k).
  Proof.
    intros Hk x [c wd] Hs. destruct (wp w); cbn [wrap_w].
    - apply cache_invS; [exact Hk | exact Hs].
    - unfold redirect_exec.
      destruct (m_question (c_query c)) as [|qu [|]]; try (apply Hk; exact Hs).
      destruct (negb (qclass qu =? class_inet)); [apply Hk; exact Hs|].
      destruct (f (qname qu)) as [tgt|]; [|apply Hk; exact Hs].
      match goal with |- context [k (?c1, wd)] => specialize (Hk x (c1, wd) Hs); destruct (k (c1, wd)) as [[t [c2 w2]] err] end.
      exact Hk.
    - unfold ecs_exec. destruct (add_ecs fwd send preset mask4 mask6 c) as [[c1 forwarded]|]; [|exact Hs].
      specialize (Hk x (c1, wd) Hs). destruct (k (c1, wd)) as [[t [c2 w2]] err].
      unfold ost in *. cbn [fst snd] in *.
      destruct err; [exact Hk|]. destruct forwarded; [|exact Hk].
      destruct (c_resp_opt c2); [|exact Hk]. destruct (c_upstream_opt c2) as [uo|]; [|exact Hk].
      destruct (first_code ecs_code (o_opts uo)); exact Hk.
    - unfold fwdopt_exec. destruct (q_opt c); [|exact Hs].
      match goal with |- context [k (?c1, wd)] => specialize (Hk x (c1, wd) Hs); destruct (k (c1, wd)) as [[t [c2 w2]] err] end.
      unfold ost in *. cbn [fst snd] in *.
      destruct err; [exact Hk|]. destruct (c_upstream_opt c2) as [uo|]; [|exact Hk].
      destruct (c_resp_opt c2); exact Hk.
    - apply dual_invS; [exact Hk | exact Hs].
  Qed.

  Lemma entry_invS d prog s : stores_no_opt (snd s) -> stores_no_opt (snd (fst (entry ups clock xp wp mp d prog s))).
  Proof.
    apply (entry_ok ups clock xp wp mp unit invS) with (x := tt).
    - intros runsub Hsub p x s0. apply exec_x_invS. exact Hsub.
    - exact reject_x_invS.
    - exact wrap_w_invS.
  Qed.
End StoreSide.

(** * C15, client side: the response OPT, and no OPT in R() *)
Lemma hosts_reply_extra h q r : hosts_reply h q = Some r -> m_extra r = [].
Proof.
  unfold hosts_reply. destruct (m_question q) as [|qu [|]]; try discriminate.
  destruct (negb (qclass qu =? class_inet) || negb ((qtype qu =? type_a) || (qtype qu =? type_aaaa))); [discriminate|].
  destruct (h (qname qu)) as [v4 v6]. destruct (length v4 + length v6 =? 0)%nat; [discriminate|].
  intro H. inversion H. match goal with |- context [match ?a with [] => _ | _ => _ end] => destruct a end; reflexivity.
Qed.

Lemma black_hole_reply_extra v4 v6 q r : black_hole_reply v4 v6 q = Some r -> m_extra r = [].
Proof.
  unfold black_hole_reply. destruct (m_question q) as [|qu [|]]; try discriminate.
  destruct ((qtype qu =? type_a) && (0 <? length v4)%nat); [intro H; inversion H; reflexivity|].
  destruct ((qtype qu =? type_aaaa) && (0 <? length v6)%nat); [intro H; inversion H; reflexivity|discriminate].
Qed.

Lemma arbitrary_reply_extra z q r : arbitrary_reply z q = Some r -> m_extra r = [].
Proof.
  unfold arbitrary_reply. destruct (flat_map z (m_question q)); [discriminate|].
  intro H. inversion H. reflexivity.
Qed.

Section ClientSide.
  Variable ups : N -> msg -> option msg.
  Variable clock : N -> option N.
  Variable xp : N -> xplugin.
  Variable wp : N -> wplugin.
  Variable mp : N -> matcher.
  Variable co : option opt.        (* the client's OPT *)

  (** Upstream replies carry at most one OPT (in the additional section). *)
  Hypothesis up_ok : forall u q r, ups u q = Some r -> (count_opt (m_extra r) <= 1)%nat.

  (** [e] is an option of the OPT of some upstream reply *)
  Definition from_upstream (e : eopt) : Prop :=
    exists u q r o, ups u q = Some r /\ find_opt (m_extra r) = Some o /\ In e (o_opts o).
  (** a plugin of the table hands options with this code back to the client *)
  Definition forwards_down (e : eopt) : Prop :=
    (exists w codes, wp w = WFwdOpt codes /\ In (fst e) codes)
    \/ (exists w send preset m4 m6, wp w = WEcs true send preset m4 m6 /\ fst e = ecs_code).
  Definition allowed_down (e : eopt) : Prop := from_upstream e /\ forwards_down e.

  Definition resp_opt_ok (ro : option opt) : Prop :=
    match co with
    | None => ro = None
    | Some o => exists r, ro = Some r /\ o_udp r = edns0_size /\ o_do r = o_do o /\ o_ver r = 0 /\ o_ext r = 0
                          /\ Forall allowed_down (o_opts r)
    end.

  Definition invD (_ : unit) (s : state) : Prop :=
    c_client_opt (fst s) = co /\ resp_opt_ok (c_resp_opt (fst s))
    /\ (forall uo, c_upstream_opt (fst s) = Some uo -> Forall from_upstream (o_opts uo))
    /\ (forall r, c_resp (fst s) = Some r -> opts_of (m_extra r) = [])
    /\ stores_no_opt (snd s).

  Lemma invD_frame s s' :
    c_client_opt (fst s') = c_client_opt (fst s) -> c_resp_opt (fst s') = c_resp_opt (fst s) ->
    c_upstream_opt (fst s') = c_upstream_opt (fst s) -> c_resp (fst s') = c_resp (fst s) ->
    w_store (snd s') = w_store (snd s) ->
    forall x, invD x s -> invD x s'.
  Proof.
    intros E1 E2 E3 E4 E5 x (H1 & H2 & H3 & H4 & H5). unfold invD, stores_no_opt in *.
    rewrite E1, E2, E3, E4, E5. auto.
  Qed.

  (** SetResponse with a message that has at most one OPT, whose options come from an upstream *)
  Lemma set_response_invD c w w' rid m x :
    (count_opt (m_extra m) <= 1)%nat ->
    (forall o, find_opt (m_extra m) = Some o -> Forall from_upstream (o_opts o)) ->
    w_store w' = w_store w ->
    invD x (c, w) -> invD x (set_response c rid m, w').
  Proof.
    intros Hc Hf Ew (H1 & H2 & H3 & H4 & H5).
    destruct (set_response_fields c rid m) as (_ & E2 & _ & E4 & _).
    unfold invD, stores_no_opt. cbn [fst snd] in *. rewrite E2, E4, Ew.
    split; [exact H1|]. split; [exact H2|].
    unfold set_response. destruct (pop_opt (m_extra m)) as [[ex o]|] eqn:Hp; cbn.
    - pose proof (pop_opt_some _ _ _ Hp) as Ho. split; [|split; [|exact H5]].
      + intros uo E. inversion E; subst uo. apply Hf. unfold find_opt. now rewrite Hp.
      + intros r E. inversion E; subst r. cbn. unfold count_opt in Hc. rewrite Ho, app_length in Hc.
        cbn in Hc. destruct (opts_of ex); [reflexivity | cbn in Hc; lia].
    - split; [discriminate|]. split; [|exact H5]. intros r E. inversion E; subst r. now apply pop_opt_none.
  Qed.

  Lemma set_fresh_local_invD s r x : m_extra r = [] -> invD x s -> invD x (set_fresh s r).
  Proof.
    intros He H. destruct s as [c w]. unfold set_fresh. apply set_response_invD with (w := w); try exact H.
    - rewrite He. cbn. lia.
    - rewrite He. cbn. discriminate.
    - reflexivity.
  Qed.

  (** context part / state part *)
  Definition ICD (_ : unit) (c : ctx) : Prop :=
    c_client_opt c = co /\ resp_opt_ok (c_resp_opt c)
    /\ (forall uo, c_upstream_opt c = Some uo -> Forall from_upstream (o_opts uo))
    /\ (forall r, c_resp c = Some r -> opts_of (m_extra r) = []).
  Lemma invD_iff x s : invD x s <-> Icw ICD stores_no_opt x s.
  Proof. unfold invD, Icw, ICD. tauto. Qed.

  Lemma empty_no_opt : stores_no_opt empty_world.
  Proof. intros i k v []. Qed.

  Lemma ICD_set_response x c rid m :
    (count_opt (m_extra m) <= 1)%nat ->
    (forall o, find_opt (m_extra m) = Some o -> Forall from_upstream (o_opts o)) ->
    ICD x c -> ICD x (set_response c rid m).
  Proof.
    intros H1 H2 Hc.
    assert (H : invD x (c, empty_world)) by (apply invD_iff; split; [exact Hc | exact empty_no_opt]).
    apply (set_response_invD c empty_world empty_world rid m x H1 H2 eq_refl) in H.
    apply invD_iff in H. exact (proj1 H).
  Qed.

  Lemma ICD_adopt x c c' rid r : ICD x c -> ICD x c' -> c_resp c' = Some r -> ICD x (set_response c rid r).
  Proof.
    intros Hc (_ & _ & _ & H4) Hr. specialize (H4 r Hr). apply ICD_set_response; [| |exact Hc].
    - unfold count_opt. rewrite H4. cbn. lia.
    - intros o Ho. apply find_opt_in in Ho. rewrite H4 in Ho. destruct Ho.
  Qed.

  Lemma fallback_invD runsub pr se sb :
    (forall rs, okk invD (runsub rs)) -> forall x s, invD x s -> invD x (fst (fallback_exec runsub pr se sb s)).
  Proof.
    intros Hsub x s H. apply invD_iff.
    refine (fallback_Icw unit ICD stores_no_opt _ _ _ runsub pr se sb _ x s _).
    - intros x0 c rid Hc. exact Hc.
    - intros w Hw. exact Hw.
    - exact ICD_adopt.
    - intro rs. apply (okk_ext invD); [apply invD_iff | apply Hsub].
    - apply invD_iff. exact H.
  Qed.

  Lemma dual_invD inst v6 k : okk invD k -> okk invD (dual_exec inst v6 k).
  Proof.
    intro Hk. apply (okk_ext (Icw ICD stores_no_opt)); [intros; symmetry; apply invD_iff|].
    refine (dual_Icw unit ICD stores_no_opt _ _ (fun x _ => x) _ _ _ _ inst v6 k _).
    - intros x0 c rid Hc. exact Hc.
    - intros w Hw. exact Hw.
    - intros x0 c t Hc _. exact Hc.
    - intros x0 c rid Hc. apply ICD_set_response; [cbn; lia | cbn; discriminate | exact Hc].
    - intros x0 c c' _ Hc'. exact Hc'.
    - intros w i n Hw. exact Hw.
    - apply (okk_ext invD); [apply invD_iff | exact Hk].
  Qed.

  Lemma exec_x_invD runsub p x s :
    (forall rs, okk invD (runsub rs)) -> invD x s -> invD x (fst (exec_x ups runsub p s)).
  Proof.
    intros Hsub H. destruct s as [c w]. destruct p; cbn [exec_x]; [| | | | | |apply fallback_invD; assumption].
    - unfold set_opt. destruct (hosts_reply h (c_query c)) eqn:E; cbn [fst]; [|exact H].
      apply set_fresh_local_invD; [eapply hosts_reply_extra; exact E | exact H].
    - unfold set_opt. destruct (black_hole_reply v4 v6 (c_query c)) eqn:E; cbn [fst]; [|exact H].
      apply set_fresh_local_invD; [eapply black_hole_reply_extra; exact E | exact H].
    - unfold set_opt. destruct (arbitrary_reply z (c_query c)) eqn:E; cbn [fst]; [|exact H].
      apply set_fresh_local_invD; [eapply arbitrary_reply_extra; exact E | exact H].
    - destruct (c_resp c) as [r|] eqn:Er; cbn [fst]; [|exact H].
      destruct H as (H1 & H2 & H3 & H4 & H5). repeat split; try assumption.
      cbn. intros r' E. inversion E; subst r'.
      destruct (ttl_apply_same_opts fix_ mn mx r) as (_ & _ & E3 & _). rewrite E3. apply H4. exact Er.
    - assert (H' : invD x (c, log_up w u (wire (c_query c)))) by (revert H; apply invD_frame; reflexivity).
      destruct (ups u (wire (c_query c))) as [r|] eqn:Eu; cbn [fst]; [|exact H'].
      unfold set_fresh. eapply set_response_invD; [eapply up_ok; exact Eu | | reflexivity | exact H'].
      intros o Ho. apply Forall_forall. intros e He. exists u, (wire (c_query c)), r, o. auto.
    - cbn [fst]. destruct H as (H1 & H2 & H3 & H4 & H5). repeat split; try assumption; cbn; discriminate.
  Qed.

  Lemma reject_x_invD rc x s : invD x s -> invD x (reject_x rc s).
  Proof. intro H. unfold reject_x. apply set_fresh_local_invD; [reflexivity | exact H]. Qed.

  Lemma cache_invD inst lazy k : okk invD k -> okk invD (cache_exec clock inst lazy k).
  Proof.
    intro Hk. apply (okk_ext (Icw ICD stores_no_opt)); [intros; symmetry; apply invD_iff|].
    refine (cache_Icw unit ICD stores_no_opt _ _ clock _ _ inst lazy k _).
    - intros x c rid Hc. exact Hc.
    - intros w Hw. exact Hw.
    - intros x c w rid i key v f Hc Hw _ El. apply lookup_in in El.
      assert (Hv : opts_of (m_extra (with_id (map_ttl_msg f v) (m_id (c_query c)))) = []).
      { cbn. rewrite opts_of_map_ttl. eapply Hw. exact El. }
      apply ICD_set_response; [| |exact Hc].
      + unfold count_opt. rewrite Hv. cbn. lia.
      + intros o Ho. apply find_opt_in in Ho. rewrite Hv in Ho. destruct Ho.
    - intros x c c2 w2 i key r _ _ _ Hw _ _. apply save_no_opt. exact Hw.
    - apply (okk_ext invD); [apply invD_iff | exact Hk].
  Qed.

  Lemma redirect_invD f k : okk invD k -> okk invD (redirect_exec f k).
  Proof.
    intros Hk x [c w] Hs. unfold redirect_exec.
    destruct (m_question (c_query c)) as [|qu [|]]; try (apply Hk; exact Hs).
    destruct (negb (qclass qu =? class_inet)); [apply Hk; exact Hs|].
    destruct (f (qname qu)) as [tgt|]; [|apply Hk; exact Hs].
    assert (H1 : invD x (with_query c (set_q0_name (c_query c) tgt), w)) by (revert Hs; apply invD_frame; reflexivity).
    specialize (Hk x _ H1). destruct (k (with_query c (set_q0_name (c_query c) tgt), w)) as [[t [c2 w2]] err].
    unfold ost in *. cbn [fst snd] in *.
    destruct (c_resp c2) as [r|] eqn:Er.
    - destruct Hk as (H2 & H3 & H4 & H5 & H6). repeat split; try assumption.
      cbn. intros r' E. inversion E; subst r'. cbn. apply H5. exact Er.
    - revert Hk. apply invD_frame; cbn; first [reflexivity | symmetry; exact Er].
  Qed.

  Lemma resp_add_opts_invD c w es x :
    Forall allowed_down es -> invD x (c, w) -> invD x (resp_add_opts c es, w).
  Proof.
    intros Hes (H1 & H2 & H3 & H4 & H5).
    destruct (resp_add_opts_frame c es) as (E1 & _ & _ & E4 & E5).
    unfold invD. cbn [fst snd] in *. rewrite E1, E4, E5. repeat split; try assumption.
    unfold resp_add_opts, resp_opt_ok in *. destruct co as [o|].
    - destruct H2 as (r & -> & F1 & F2 & F3 & F4 & F5). cbn. exists (add_opts r es). repeat split; try assumption.
      cbn. apply Forall_app. split; assumption.
    - rewrite H2. exact H2.
  Qed.

  Lemma add_ecs_forwarded fwd send preset m4 m6 c c1 : add_ecs fwd send preset m4 m6 c = Some (c1, true) -> fwd = true.
  Proof.
    unfold add_ecs. destruct (q_opt c) as [qo|]; [|discriminate].
    destruct (m_question (c_query c)) as [|qu qs]; [discriminate|].
    destruct (has_code ecs_code (o_opts qo)); [discriminate|].
    destruct (negb (qclass qu =? class_inet)); [discriminate|].
    destruct fwd; [reflexivity|]. destruct preset; [discriminate|]. destruct send; [|discriminate].
    destruct (c_client_addr c); discriminate.
  Qed.

  Lemma add_ecs_frame fwd send preset m4 m6 c c1 b :
    add_ecs fwd send preset m4 m6 c = Some (c1, b) ->
    c_client_opt c1 = c_client_opt c /\ c_resp_opt c1 = c_resp_opt c /\ c_upstream_opt c1 = c_upstream_opt c
    /\ c_resp c1 = c_resp c /\ c_rid c1 = c_rid c /\ m_question (c_query c1) = m_question (c_query c)
    /\ m_id (c_query c1) = m_id (c_query c).
  Proof.
    unfold add_ecs. destruct (q_opt c) as [qo|]; [|discriminate].
    destruct (m_question (c_query c)) as [|qu qs] eqn:Eq; [discriminate|].
    destruct (has_code ecs_code (o_opts qo)); [intro H; inversion H; subst; repeat split; exact Eq|].
    destruct (negb (qclass qu =? class_inet)); [intro H; inversion H; subst; repeat split; exact Eq|].
    destruct (if fwd then _ else None); [|destruct preset; [|destruct send; [destruct (c_client_addr c)|]]];
      intro H; inversion H; subst; try (repeat split; exact Eq);
      match goal with |- context [q_add_opts c ?es] => destruct (q_add_opts_fields c es) as (? & ? & ? & ? & ? & ? & ? & ?) end;
      repeat split; congruence.
  Qed.

  Lemma ecs_invD w fwd send preset m4 m6 k :
    wp w = WEcs fwd send preset m4 m6 -> okk invD k -> okk invD (ecs_exec fwd send preset m4 m6 k).
  Proof.
    intros Hw Hk x [c wd] Hs. unfold ecs_exec.
    destruct (add_ecs fwd send preset m4 m6 c) as [[c1 forwarded]|] eqn:Ha; [|exact Hs].
    assert (H1 : invD x (c1, wd)).
    { destruct (add_ecs_frame _ _ _ _ _ _ _ _ Ha) as (E1 & E2 & E3 & E4 & _).
      revert Hs. apply invD_frame; cbn; congruence. }
    specialize (Hk x _ H1). destruct (k (c1, wd)) as [[t [c2 w2]] err]. unfold ost in *. cbn [fst snd] in *.
    destruct err; [exact Hk|]. destruct forwarded; [|exact Hk].
    destruct (c_resp_opt c2) as [ro|]; [|exact Hk]. destruct (c_upstream_opt c2) as [uo|] eqn:Eu; [|exact Hk].
    destruct (first_code ecs_code (o_opts uo)) as [e0|] eqn:Ef; [|exact Hk].
    apply resp_add_opts_invD; [|exact Hk]. constructor; [|constructor].
    apply first_code_some in Ef as [Hin Hc]. split.
    - destruct Hk as (_ & _ & H3 & _). specialize (H3 _ Eu). rewrite Forall_forall in H3. apply H3. exact Hin.
    - right. apply add_ecs_forwarded in Ha. subst fwd. exists w, send, preset, m4, m6. auto.
  Qed.

  Lemma fwdopt_invD w codes k :
    wp w = WFwdOpt codes -> okk invD k -> okk invD (fwdopt_exec codes k).
  Proof.
    intros Hw Hk x [c wd] Hs. unfold fwdopt_exec.
    destruct (q_opt c); [|exact Hs].
    assert (H1 : invD x (match c_client_opt c with
                         | Some co0 => q_add_opts c (pick_codes codes (o_opts co0))
                         | None => c end, wd)).
    { destruct (c_client_opt c) as [co0|]; [|exact Hs].
      destruct (q_add_opts_fields c (pick_codes codes (o_opts co0))) as (E1 & _ & E3 & E4 & E5 & _).
      revert Hs. apply invD_frame; cbn; congruence. }
    specialize (Hk x _ H1).
    destruct (k (match c_client_opt c with
                 | Some co0 => q_add_opts c (pick_codes codes (o_opts co0))
                 | None => c end, wd)) as [[t [c2 w2]] err].
    unfold ost in *. cbn [fst snd] in *.
    destruct err; [exact Hk|]. destruct (c_upstream_opt c2) as [uo|] eqn:Eu; [|exact Hk].
    destruct (c_resp_opt c2); [|exact Hk]. apply resp_add_opts_invD; [|exact Hk].
    apply Forall_forall. intros e He. apply pick_codes_in in He as [Hin Hc]. split.
    - destruct Hk as (_ & _ & H3 & _). specialize (H3 _ Eu). rewrite Forall_forall in H3. apply H3. exact Hin.
    - left. exists w, codes. auto.
  Qed.

  Lemma wrap_w_invD w k : okk invD k -> okk invD (wrap_w clock (wp w) k).
  Proof.
    intro Hk. destruct (wp w) eqn:Hw; cbn [wrap_w].
    - apply cache_invD; exact Hk.
    - apply redirect_invD; exact Hk.
    - eapply ecs_invD; eassumption.
    - eapply fwdopt_invD; eassumption.
    - apply dual_invD; exact Hk.
  Qed.

  Lemma entry_invD d prog s : invD tt s -> invD tt (fst (entry ups clock xp wp mp d prog s)).
  Proof.
    apply (entry_ok ups clock xp wp mp unit invD).
    - intros runsub Hsub p x s0. apply exec_x_invD. exact Hsub.
    - exact reject_x_invD.
    - exact wrap_w_invD.
  Qed.
End ClientSide.

(** * The entry handler *)

Lemma valid_query_shape q :
  valid_query q = true ->
  m_qr q = false /\ (exists qu, m_question q = [qu]) /\ m_answer q = [] /\ m_ns q = []
  /\ (m_extra q = [] \/ exists x, m_extra q = [x]).
Proof.
  unfold valid_query. intro H. apply negb_true_iff in H.
  apply orb_false_iff in H as [H H4]. apply orb_false_iff in H as [H H3]. apply orb_false_iff in H as [H1 H2].
  apply negb_false_iff in H2. apply Nat.eqb_eq in H2. apply Nat.ltb_ge in H3, H4.
  split; [exact H1|]. split.
  - destruct (m_question q) as [|qu [|]]; try discriminate. eauto.
  - destruct (m_answer q); [|cbn in H3; lia]. destruct (m_ns q); [|cbn in H3; lia].
    repeat split. destruct (m_extra q) as [|x [|]]; [auto | eauto | cbn in H4; lia].
Qed.

Lemma new_context_client_opt q udp ca : c_client_opt (new_context q udp ca) = find_opt (m_extra q).
Proof.
  unfold new_context. destruct (swap_opt new_opt (m_extra q)) as [[ex old]|] eqn:E; cbn.
  - destruct (swap_opt_some _ _ _ _ E) as (l & E1 & _). symmetry. eapply find_opt_last. exact E1.
  - apply swap_opt_none in E. symmetry. apply find_opt_none. exact E.
Qed.

Lemma new_context_fields q udp ca :
  c_client_addr (new_context q udp ca) = ca /\ c_from_udp (new_context q udp ca) = udp
  /\ c_resp (new_context q udp ca) = None /\ c_upstream_opt (new_context q udp ca) = None
  /\ m_question (c_query (new_context q udp ca)) = m_question q /\ m_id (c_query (new_context q udp ca)) = m_id q
  /\ m_opcode (c_query (new_context q udp ca)) = m_opcode q /\ m_rd (c_query (new_context q udp ca)) = m_rd q
  /\ m_cd (c_query (new_context q udp ca)) = m_cd q.
Proof. unfold new_context. destruct (swap_opt new_opt (m_extra q)) as [[ex old]|]; cbn; repeat split. Qed.

(** The query of a fresh context: exactly one OPT, the fresh one *)
Lemma new_context_query_opt q udp ca :
  valid_query q = true -> opts_of (m_extra (c_query (new_context q udp ca))) = [new_opt].
Proof.
  intro Hv. destruct (valid_query_shape q Hv) as (_ & _ & _ & _ & [E | [x E]]); unfold new_context; rewrite E; cbn.
  - reflexivity.
  - destruct x; cbn; reflexivity.
Qed.

Lemma new_context_resp_opt q udp ca :
  match find_opt (m_extra q) with
  | None => c_resp_opt (new_context q udp ca) = None
  | Some o => exists r, c_resp_opt (new_context q udp ca) = Some r /\ o_udp r = edns0_size /\ o_do r = o_do o
                        /\ o_ver r = 0 /\ o_ext r = 0 /\ o_opts r = []
  end.
Proof.
  rewrite <- (new_context_client_opt q udp ca).
  unfold new_context. destruct (swap_opt new_opt (m_extra q)) as [[ex old]|]; cbn; [|reflexivity].
  exists (set_do new_opt (o_do old)). unfold set_do. destruct (o_do old); cbn; repeat split.
Qed.

Lemma new_context_invU wp q udp ca w :
  valid_query q = true ->
  Forall (fun x => one_fresh wp (find_opt (m_extra q)) ca (snd x)) (w_log w) ->
  invU wp (find_opt (m_extra q)) ca tt (new_context q udp ca, w).
Proof.
  intros Hv Hl. destruct (new_context_fields q udp ca) as (E1 & _).
  unfold invU. cbn [fst snd]. rewrite new_context_client_opt, E1. repeat split; try assumption.
  exists new_opt. split; [apply new_context_query_opt; exact Hv|]. repeat split. constructor.
Qed.

Lemma new_context_invD ups wp q udp ca w :
  stores_no_opt w -> invD ups wp (find_opt (m_extra q)) tt (new_context q udp ca, w).
Proof.
  intro Hs. destruct (new_context_fields q udp ca) as (_ & _ & E3 & E4 & _).
  unfold invD. cbn [fst snd]. rewrite new_context_client_opt, E3, E4.
  split; [reflexivity|]. split; [|repeat split; try discriminate; exact Hs].
  unfold resp_opt_ok. pose proof (new_context_resp_opt q udp ca) as H.
  destruct (find_opt (m_extra q)); [|exact H].
  destruct H as (r & -> & F1 & F2 & F3 & F4 & F5). exists r. repeat split; try assumption.
  rewrite F5. constructor.
Qed.

(** ** The contract of Msg.Truncate and the OPT record *)
Lemma is_prefix_rr_app a : forall b, is_prefix_rr a b = true -> exists c, b = a ++ c.
Proof.
  induction a as [|x a IH]; intros b H; cbn in H; [exists b; reflexivity|].
  destruct b as [|y b]; [discriminate|]. apply andb_true_iff in H as [H1 H2].
  apply rr_eqb_true in H1. subst y. destruct (IH _ H2) as (c & ->). exists c. reflexivity.
Qed.

Lemma prefix_no_opt a b : is_prefix_rr a b = true -> opts_of b = [] -> opts_of a = [].
Proof.
  intros H Hb. destruct (is_prefix_rr_app _ _ H) as (c & ->). rewrite opts_of_app in Hb.
  now apply app_eq_nil in Hb.
Qed.

Lemma extra_rel_opts ex ex' :
  extra_rel ex ex' = true -> (length (opts_of ex) <= 1)%nat -> opts_of ex' = opts_of ex.
Proof.
  unfold extra_rel. intros H Hl. apply orb_true_iff in H as [H|H].
  - apply (list_eqb_true _ rr_eqb_true) in H. now subst.
  - destruct (pop_opt ex) as [[rest o]|] eqn:Hp.
    + destruct (pop_opt ex') as [[rest' o']|] eqn:Hp'; [|discriminate].
      apply andb_true_iff in H as [H _]. apply andb_true_iff in H as [Ho Hpre].
      apply opt_eqb_true in Ho. subst o'. apply pop_opt_some in Hp, Hp'.
      rewrite Hp in Hl. rewrite app_length in Hl. cbn in Hl.
      assert (Hr : opts_of rest = []) by (destruct (opts_of rest); [reflexivity | cbn in Hl; lia]).
      rewrite Hp, Hp', Hr, (prefix_no_opt _ _ Hpre Hr). reflexivity.
    + apply pop_opt_none in Hp. rewrite Hp. eapply prefix_no_opt; eassumption.
Qed.

Lemma trunc_rel_parts m m' :
  trunc_rel m m' = true ->
  m_id m' = m_id m /\ m_qr m' = m_qr m /\ m_ra m' = m_ra m /\ m_rcode m' = m_rcode m
  /\ m_question m' = m_question m /\ m_opcode m' = m_opcode m
  /\ extra_rel (m_extra m) (m_extra m') = true
  /\ m_tc m' = (m_tc m || dropped m m')
  /\ is_prefix_rr (m_answer m') (m_answer m) = true /\ is_prefix_rr (m_ns m') (m_ns m) = true.
Proof.
  unfold trunc_rel. intro H.
  apply andb_true_iff in H as [H Htc]. apply andb_true_iff in H as [H Hex].
  apply andb_true_iff in H as [H Hns]. apply andb_true_iff in H as [H Han].
  apply msg_eqb_true in H. apply Bool.eqb_prop in Htc.
  destruct m, m'. cbn in *. inversion H; subst. repeat split; assumption.
Qed.

Section Reply.
  Variable truncate : N -> msg -> msg.
  (** The contract of miekg's Msg.Truncate (checked on every observed reply by Judge.C15.agree) *)
  Hypothesis trunc_contract : forall size m, trunc_rel m (truncate size m) = true.

  Lemma truncate_opts size m : (length (opts_of (m_extra m)) <= 1)%nat ->
    opts_of (m_extra (truncate size m)) = opts_of (m_extra m).
  Proof.
    intro H. destruct (trunc_rel_parts _ _ (trunc_contract size m)) as (_ & _ & _ & _ & _ & _ & He & _).
    apply extra_rel_opts; assumption.
  Qed.

  (** the message before the optional truncation *)
  Definition pre_reply (c : ctx) (err : option N) : msg := reply_msg (fun _ m => m) c err.

  Lemma reply_msg_truncate c err :
    reply_msg truncate c err =
    if c_from_udp c then truncate (valid_udp_size (c_client_opt c)) (pre_reply c err) else pre_reply c err.
  Proof. unfold pre_reply, reply_msg. destruct (c_from_udp c); reflexivity. Qed.

  Lemma pre_reply_opts c err :
    (forall r, c_resp c = Some r -> opts_of (m_extra r) = []) ->
    opts_of (m_extra (pre_reply c err)) = match c_resp_opt c with Some o => [o] | None => [] end.
  Proof.
    intro H. unfold pre_reply, reply_msg.
    set (resp := match chain_result_of c err with
                 | ChainErr => with_rcode (set_reply (c_query c)) rcode_servfail
                 | ChainNone => with_rcode (set_reply (c_query c)) Msg.rcode_refused
                 | ChainAnswer r => r end).
    assert (Hr : opts_of (m_extra resp) = []).
    { subst resp. unfold chain_result_of. destruct err; [reflexivity|].
      destruct (c_resp c) eqn:E; [apply H; reflexivity | reflexivity]. }
    cbv zeta. fold resp. clearbody resp.
    destruct (c_from_udp c), (c_resp_opt c); cbn; rewrite ?opts_of_app, ?Hr; reflexivity.
  Qed.

  Lemma reply_msg_opts c err :
    (forall r, c_resp c = Some r -> opts_of (m_extra r) = []) ->
    opts_of (m_extra (reply_msg truncate c err)) = match c_resp_opt c with Some o => [o] | None => [] end.
  Proof.
    intro H. rewrite reply_msg_truncate. pose proof (pre_reply_opts c err H) as E.
    destruct (c_from_udp c); [|exact E]. rewrite truncate_opts; [exact E|].
    rewrite E. destruct (c_resp_opt c); cbn; lia.
  Qed.
End Reply.

(** * C15: the theorems *)
Section C15.
  Variable ups : N -> msg -> option msg.
  Variable clock : N -> option N.
  Variable xp : N -> xplugin.
  Variable wp : N -> wplugin.
  Variable mp : N -> matcher.
  Variable truncate : N -> msg -> msg.
  Variable packs : msg -> bool.
  Variable depth : nat.             (* nesting bound of fallback sub-sequences *)

  Notation run prog := (handle truncate packs (entry ups clock xp wp mp depth prog)).

  (** Everything handed to an upstream while a query is handled carries
      exactly one OPT, and it is a fresh one. *)
  Lemma upstream_query_one_fresh_opt prog w q udp ca :
    w_log w = [] ->
    forall u m, In (u, m) (w_log (fst (run prog w q udp ca))) ->
    exists o, opts_of (m_extra m) = [o] /\ o_udp o = edns0_size /\ o_do o = false /\ o_ver o = 0
              /\ forall e, In e (o_opts o) -> allowed_up wp (find_opt (m_extra q)) ca e.
  Proof.
    intros Hl u m Hin. unfold handle in Hin. destruct (valid_query q) eqn:Hv.
    - assert (H0 : invU wp (find_opt (m_extra q)) ca tt (new_context q udp ca, w)).
      { apply new_context_invU; [exact Hv | rewrite Hl; constructor]. }
      pose proof (entry_invU ups clock xp wp mp _ _ depth prog _ H0) as H1.
      destruct (entry ups clock xp wp mp depth prog (new_context q udp ca, w)) as [[c w'] err].
      cbn [fst snd] in *. destruct H1 as (_ & _ & _ & H4). rewrite Forall_forall in H4.
      destruct (H4 _ Hin) as (o & Ho & F1 & F2 & F3 & F4). exists o. repeat split; try assumption.
      rewrite Forall_forall in F4. exact F4.
    - cbn in Hin. rewrite Hl in Hin. destruct Hin.
  Qed.

  (** The caches never hold an OPT in an additional section, whatever happens. *)
  Lemma cache_stores_no_opt prog w q udp ca :
    stores_no_opt w -> stores_no_opt (fst (run prog w q udp ca)).
  Proof.
    intro H. unfold handle. destruct (valid_query q); [|exact H].
    pose proof (entry_invS ups clock xp wp mp depth prog (new_context q udp ca, w) H) as H1.
    destruct (entry ups clock xp wp mp depth prog (new_context q udp ca, w)) as [[c w'] err]. exact H1.
  Qed.

  Hypothesis up_ok : forall u q r, ups u q = Some r -> (count_opt (m_extra r) <= 1)%nat.
  Hypothesis trunc_contract : forall size m, trunc_rel m (truncate size m) = true.

  (** The reply's OPT records: none when the client sent none; otherwise
      exactly one, fresh, DO mirrored, options only from upstream replies and
      only through a plugin that forwards their code. *)
  Lemma reply_opt_shape prog w q udp ca w' r :
    stores_no_opt w ->
    run prog w q udp ca = (w', Some r) ->
    match find_opt (m_extra q) with
    | None => opts_of (m_extra r) = []
    | Some co => exists ro, opts_of (m_extra r) = [ro] /\ o_udp ro = edns0_size /\ o_do ro = o_do co
                            /\ o_ver ro = 0 /\ Forall (allowed_down ups wp) (o_opts ro)
    end.
  Proof.
    intros Hs Hr. unfold handle in Hr. destruct (valid_query q) eqn:Hv; [|discriminate].
    pose proof (entry_invD ups clock xp wp mp _ up_ok depth prog _ (new_context_invD ups wp q udp ca w Hs)) as H1.
    destruct (entry ups clock xp wp mp depth prog (new_context q udp ca, w)) as [[c w1] err].
    destruct (packs (reply_msg truncate c err)); [|discriminate]. inversion Hr; subst w' r. clear Hr.
    destruct H1 as (_ & H2 & _ & H4 & _). cbn [fst snd] in *.
    rewrite (reply_msg_opts truncate trunc_contract c err H4).
    unfold resp_opt_ok in H2. destruct (find_opt (m_extra q)) as [co|].
    - destruct H2 as (ro & -> & F1 & F2 & F3 & F4 & F5). exists ro. repeat split; assumption.
    - rewrite H2. reflexivity.
  Qed.
End C15.

(** * Corollaries in the words of the property, and reflexivity of the contract *)
Section C15Corollaries.
  Variable ups : N -> msg -> option msg.
  Variable clock : N -> option N.
  Variable xp : N -> xplugin.
  Variable wp : N -> wplugin.
  Variable mp : N -> matcher.
  Variable truncate : N -> msg -> msg.
  Variable packs : msg -> bool.
  Variable depth : nat.             (* nesting bound of fallback sub-sequences *)
  Hypothesis up_ok : forall u q r, ups u q = Some r -> (count_opt (m_extra r) <= 1)%nat.
  Hypothesis trunc_contract : forall size m, trunc_rel m (truncate size m) = true.
  Notation run prog := (handle truncate packs (entry ups clock xp wp mp depth prog)).

  Lemma reply_opt_iff_client_opt prog w q udp ca w' r :
    stores_no_opt w -> run prog w q udp ca = (w', Some r) ->
    count_opt (m_extra r) = match find_opt (m_extra q) with Some _ => 1%nat | None => 0%nat end.
  Proof.
    intros Hs Hr. pose proof (reply_opt_shape ups clock xp wp mp truncate packs depth up_ok trunc_contract _ _ _ _ _ _ _ Hs Hr) as H.
    unfold count_opt. destruct (find_opt (m_extra q)).
    - destruct H as (ro & -> & _). reflexivity.
    - rewrite H. reflexivity.
  Qed.

  Lemma do_mirrored prog w q udp ca w' r co ro :
    stores_no_opt w -> run prog w q udp ca = (w', Some r) ->
    find_opt (m_extra q) = Some co -> In ro (opts_of (m_extra r)) ->
    o_do ro = o_do co /\ o_udp ro = edns0_size /\ o_ver ro = 0.
  Proof.
    intros Hs Hr Hc Hin. pose proof (reply_opt_shape ups clock xp wp mp truncate packs depth up_ok trunc_contract _ _ _ _ _ _ _ Hs Hr) as H.
    rewrite Hc in H. destruct H as (ro' & E & F1 & F2 & F3 & _). rewrite E in Hin.
    destruct Hin as [<-|[]]. auto.
  Qed.

  Lemma reply_options_only_forwarded prog w q udp ca w' r ro e :
    stores_no_opt w -> run prog w q udp ca = (w', Some r) ->
    In ro (opts_of (m_extra r)) -> In e (o_opts ro) ->
    allowed_down ups wp e.
  Proof.
    intros Hs Hr Hin He. pose proof (reply_opt_shape ups clock xp wp mp truncate packs depth up_ok trunc_contract _ _ _ _ _ _ _ Hs Hr) as H.
    destruct (find_opt (m_extra q)).
    - destruct H as (ro' & E & _ & _ & _ & F). rewrite E in Hin. destruct Hin as [<-|[]].
      rewrite Forall_forall in F. apply F. exact He.
    - rewrite H in Hin. destruct Hin.
  Qed.

  (** What the chain leaves in R() never holds an OPT in its additional section. *)
  Lemma response_has_no_opt prog w q udp ca c w' err r :
    stores_no_opt w ->
    entry ups clock xp wp mp depth prog (new_context q udp ca, w) = ((c, w'), err) ->
    c_resp c = Some r -> opts_of (m_extra r) = [].
  Proof.
    intros Hs He Hr.
    pose proof (entry_invD ups clock xp wp mp _ up_ok depth prog _ (new_context_invD ups wp q udp ca w Hs)) as H1.
    rewrite He in H1. destruct H1 as (_ & _ & _ & H4 & _). apply H4. exact Hr.
  Qed.
End C15Corollaries.

Lemma trunc_rel_keeps_opts m m' :
  trunc_rel m m' = true -> (count_opt (m_extra m) <= 1)%nat -> opts_of (m_extra m') = opts_of (m_extra m).
Proof.
  intros H Hl. destruct (trunc_rel_parts _ _ H) as (_ & _ & _ & _ & _ & _ & He & _).
  apply extra_rel_opts; assumption.
Qed.

Lemma name_eqb_refl a : name_eqb a a = true.
Proof. apply CacheKey.eqb_bytes_refl. Qed.
Lemma list_eqb_refl {A} (eqb : A -> A -> bool) : (forall x, eqb x x = true) -> forall l, list_eqb eqb l l = true.
Proof. intros H l. induction l; cbn; [reflexivity | now rewrite H, IHl]. Qed.
Lemma eopt_eqb_refl a : eopt_eqb a a = true.
Proof. unfold eopt_eqb. now rewrite !N.eqb_refl. Qed.
Lemma opt_eqb_refl a : opt_eqb a a = true.
Proof. unfold opt_eqb. now rewrite !N.eqb_refl, Bool.eqb_reflx, (list_eqb_refl _ eopt_eqb_refl). Qed.
Lemma rr_eqb_refl a : rr_eqb a a = true.
Proof.
  destruct a; cbn; [|apply opt_eqb_refl]. rewrite name_eqb_refl, !N.eqb_refl. destruct rd; cbn; [apply N.eqb_refl | apply name_eqb_refl].
Qed.
Lemma question_eqb_refl a : question_eqb a a = true.
Proof. now apply CacheKey.question_eqb_iff. Qed.
Lemma msg_eqb_refl a : msg_eqb a a = true.
Proof.
  unfold msg_eqb. now rewrite !N.eqb_refl, !Bool.eqb_reflx, (list_eqb_refl _ question_eqb_refl), !(list_eqb_refl _ rr_eqb_refl).
Qed.
Lemma is_prefix_rr_refl l : is_prefix_rr l l = true.
Proof. induction l; cbn; [reflexivity | now rewrite rr_eqb_refl]. Qed.

(** Leaving the message alone satisfies the relational part of the contract. *)
Lemma trunc_rel_refl m : trunc_rel m m = true.
Proof.
  unfold trunc_rel, extra_rel, dropped. rewrite msg_eqb_refl, !is_prefix_rr_refl, (list_eqb_refl _ rr_eqb_refl), !Nat.ltb_irrefl.
  cbn. rewrite orb_false_r. apply Bool.eqb_reflx.
Qed.

Lemma ttl_ops_skip_opt fx mn mx delta t m :
  same_opts m (ttl_apply fx mn mx m) /\ same_opts m (set_ttl t m) /\ same_opts m (apply_min_ttl t m)
  /\ same_opts m (apply_max_ttl t m) /\ same_opts m (subtract_ttl delta m).
Proof.
  split; [apply ttl_apply_same_opts|]. repeat split; apply map_ttl_msg_same_opts.
Qed.

(** Without a forwarding plugin no option is ever put into the query OPT. *)
Lemma upstream_no_options_without_plugin ups clock xp wp mp truncate packs depth prog w q udp ca :
  (forall i, match wp i with WCache _ _ | WRedirect _ => True | _ => False end) ->
  w_log w = [] ->
  forall u m, In (u, m) (w_log (fst (handle truncate packs (entry ups clock xp wp mp depth prog) w q udp ca))) ->
  exists o, opts_of (m_extra m) = [o] /\ o_opts o = [].
Proof.
  intros Hn Hl u m Hin.
  destruct (upstream_query_one_fresh_opt ups clock xp wp mp truncate packs depth prog w q udp ca Hl u m Hin)
    as (o & Ho & _ & _ & _ & Ha).
  exists o. split; [exact Ho|]. destruct (o_opts o) as [|e l]; [reflexivity|]. exfalso.
  destruct (Ha e (or_introl eq_refl)) as [(i & codes & Hi & _) | (i & f & s & p & a & b & Hi & _)];
    specialize (Hn i); rewrite Hi in Hn; exact Hn.
Qed.

(** * C03: every reply carries the query's id and question *)

Lemma wire_fields m :
  m_id (wire m) = m_id m /\ m_question (wire m) = m_question m /\ m_qr (wire m) = m_qr m
  /\ m_opcode (wire m) = m_opcode m /\ m_rcode (wire m) = m_rcode m.
Proof. unfold wire. destruct (map_last_opt _ _); repeat split. Qed.

Lemma set_response_resp c rid m r :
  c_resp (set_response c rid m) = Some r ->
  m_id r = m_id m /\ m_qr r = m_qr m /\ m_question r = m_question m /\ m_rcode r = m_rcode m
  /\ m_answer r = m_answer m /\ m_ns r = m_ns m.
Proof.
  unfold set_response. destruct (pop_opt (m_extra m)) as [[ex o]|]; cbn; intro H; inversion H; repeat split.
Qed.

Lemma set_response_some c rid m : exists r, c_resp (set_response c rid m) = Some r.
Proof. unfold set_response. destruct (pop_opt (m_extra m)) as [[ex o]|]; cbn; eauto. Qed.

Lemma hosts_reply_hdr h q r : hosts_reply h q = Some r ->
  m_id r = m_id q /\ m_qr r = true /\ m_question r = firstn 1 (m_question q).
Proof.
  unfold hosts_reply. destruct (m_question q) as [|qu [|]] eqn:Eq; try discriminate.
  destruct (negb (qclass qu =? class_inet) || negb ((qtype qu =? type_a) || (qtype qu =? type_aaaa))); [discriminate|].
  destruct (h (qname qu)) as [v4 v6]. destruct (length v4 + length v6 =? 0)%nat; [discriminate|].
  intro H. inversion H. unfold set_reply. rewrite Eq.
  match goal with |- context [match ?a with [] => _ | _ => _ end] => destruct a end; repeat split.
Qed.

Lemma black_hole_reply_hdr v4 v6 q r : black_hole_reply v4 v6 q = Some r ->
  m_id r = m_id q /\ m_qr r = true /\ m_question r = firstn 1 (m_question q).
Proof.
  unfold black_hole_reply. destruct (m_question q) as [|qu [|]] eqn:Eq; try discriminate.
  destruct ((qtype qu =? type_a) && (0 <? length v4)%nat);
    [intro H; inversion H; unfold set_reply; rewrite Eq; repeat split|].
  destruct ((qtype qu =? type_aaaa) && (0 <? length v6)%nat);
    [intro H; inversion H; unfold set_reply; rewrite Eq; repeat split|discriminate].
Qed.

Lemma arbitrary_reply_hdr z q r : arbitrary_reply z q = Some r ->
  m_id r = m_id q /\ m_qr r = true /\ m_question r = firstn 1 (m_question q).
Proof.
  unfold arbitrary_reply. destruct (flat_map z (m_question q)); [discriminate|].
  intro H. inversion H. repeat split.
Qed.

Lemma map_ttl_msg_hdr f m :
  m_id (map_ttl_msg f m) = m_id m /\ m_qr (map_ttl_msg f m) = m_qr m /\ m_question (map_ttl_msg f m) = m_question m.
Proof. repeat split. Qed.


Lemma msg_key_single q key qu :
  msg_key q = Some key -> m_question q = [qu] -> key = CacheKey.key_of (m_ad q) (m_cd q) (msg_do q) qu.
Proof.
  unfold msg_key. intros H E. rewrite E in H.
  destruct (m_qr q || negb (m_opcode q =? opcode_query) || negb (length [qu] =? 1)%nat); [discriminate|].
  inversion H. reflexivity.
Qed.

Lemma name_eqb_false a b : name_eqb a b = false -> a <> b.
Proof. intros H E. subst. rewrite name_eqb_refl in H. discriminate. Qed.

Definition is_some {A} (o : option A) : bool := match o with Some _ => true | None => false end.

Ltac split5 := refine (conj _ (conj _ (conj _ (conj _ _)))).

(** index of the C03 invariant: the current query name, the names below it on
    the stack of enclosing redirects, the current query type, and whether the
    response is held to the client's id and question (it is not inside the
    reference query of dual_selector, whose result is thrown away) *)
Record idx := Idx { x_name : bytes; x_below : list bytes; x_ty : N; x_strict : bool }.

Section C03Inv.
  Variable ups : N -> msg -> option msg.
  Variable clock : N -> option N.
  Variable xp : N -> xplugin.
  Variable wp : N -> wplugin.
  Variable mp : N -> matcher.
  (** the client's id and question class, and whether it sent an OPT *)
  Variable id0 cl0 : N.
  Variable ho : bool.
  Hypothesis Hcl : cl0 < 65536.

  (** The upstreams echo the question: a reply has QR set and the id and
      question of the message it answers. *)
  Hypothesis ups_echo : forall u q r, ups u q = Some r ->
    m_id r = m_id q /\ m_question r = m_question q /\ m_qr r = true.

  (** A response in the context: QR, the client's id, and the current
      question up to the name, which is one of the names on the stack. *)
  Definition resp_ok (x : idx) (r : msg) : Prop :=
    m_qr r = true
    /\ (x_strict x = true ->
        m_id r = id0 /\ exists n, m_question r = [mkqu n (x_ty x) cl0] /\ In n (x_name x :: x_below x)).

  (** Every cache entry answers the question its key was built from. *)
  Definition store_ok (w : world) : Prop :=
    forall i k v, In (k, v) (w_store w i) ->
      m_qr v = true /\ exists a c d qu, k = CacheKey.key_of a c d qu /\ m_question v = [qu] /\ CacheKey.wf_question qu.

  Definition IC03 (x : idx) (c : ctx) : Prop :=
    m_id (c_query c) = id0 /\ m_question (c_query c) = [mkqu (x_name x) (x_ty x) cl0] /\ x_ty x < 65536
    /\ (forall r, c_resp c = Some r -> resp_ok x r)
    /\ is_some (c_resp_opt c) = ho.

  Definition inv03 : idx -> state -> Prop := Icw IC03 store_ok.

  Lemma inv03_frame s s' :
    m_id (c_query (fst s')) = m_id (c_query (fst s)) -> m_question (c_query (fst s')) = m_question (c_query (fst s)) ->
    c_resp (fst s') = c_resp (fst s) -> c_resp_opt (fst s') = c_resp_opt (fst s) -> w_store (snd s') = w_store (snd s) ->
    forall x, inv03 x s -> inv03 x s'.
  Proof.
    intros E1 E2 E3 E4 E5 x ((H1 & H2 & Ht & H3 & H4) & H5). unfold inv03, Icw, IC03, store_ok in *.
    rewrite E1, E2, E3, E4, E5. split; [split5; assumption | exact H5].
  Qed.

  (** a response with the query's id and question *)
  Lemma resp_ok_query x c m :
    IC03 x c -> m_id m = m_id (c_query c) -> m_qr m = true -> m_question m = firstn 1 (m_question (c_query c)) ->
    resp_ok x m.
  Proof.
    intros (H1 & H2 & _) E1 E2 E3. split; [exact E2|]. intros _. split; [congruence|].
    exists (x_name x). split; [|now left]. rewrite E3, H2. reflexivity.
  Qed.

  Lemma resp_ok_hdr x r r' : m_id r' = m_id r -> m_qr r' = m_qr r -> m_question r' = m_question r -> resp_ok x r -> resp_ok x r'.
  Proof. unfold resp_ok. intros -> -> ->. auto. Qed.

  (** SetResponse *)
  Lemma IC03_set_response x c rid m : resp_ok x m -> IC03 x c -> IC03 x (set_response c rid m).
  Proof.
    intros Hm (H1 & H2 & Ht & H3 & H4).
    destruct (set_response_fields c rid m) as (F1 & _ & _ & F4 & _).
    unfold IC03. rewrite F1, F4. split5; try assumption.
    intros r H. destruct (set_response_resp _ _ _ _ H) as (G1 & G2 & G3 & _).
    revert Hm. apply resp_ok_hdr; assumption.
  Qed.

  Lemma set_fresh_inv03 s m x :
    m_id m = m_id (c_query (fst s)) -> m_qr m = true -> m_question m = firstn 1 (m_question (c_query (fst s))) ->
    inv03 x s -> inv03 x (set_fresh s m).
  Proof.
    destruct s as [c w]. intros E1 E2 E3 (Hc & Hw). unfold set_fresh. split; cbn [fst snd]; [|exact Hw].
    apply IC03_set_response; [|exact Hc]. eapply resp_ok_query; eassumption.
  Qed.

  Lemma IC03_rid x c rid : IC03 x c ->
    IC03 x (Ctx (c_query c) (c_client_opt c) (c_resp c) rid (c_resp_opt c) (c_upstream_opt c) (c_from_udp c) (c_client_addr c)).
  Proof. intro H. exact H. Qed.

  Lemma fallback_inv03 runsub pr se sb :
    (forall rs, okk inv03 (runsub rs)) -> forall x s, inv03 x s -> inv03 x (fst (fallback_exec runsub pr se sb s)).
  Proof.
    intros Hsub x s H.
    refine (fallback_Icw idx IC03 store_ok IC03_rid _ _ runsub pr se sb Hsub x s H).
    - intros w Hw. exact Hw.
    - intros x0 c c' rid r Hc (_ & _ & _ & H3 & _) Hr. apply IC03_set_response; [apply H3; exact Hr | exact Hc].
  Qed.

  Lemma dual_inv03 inst v6 k : okk inv03 k -> okk inv03 (dual_exec inst v6 k).
  Proof.
    intro Hk.
    refine (dual_Icw idx IC03 store_ok IC03_rid _ (fun x t => Idx (x_name x) (x_below x) t false) _ _ _ _ inst v6 k Hk).
    - intros w Hw. exact Hw.
    - (* the reference query: another type, response unconstrained *)
      intros x c t (H1 & H2 & Ht & H3 & H4) Htt. unfold IC03. cbn [with_query c_query c_resp c_resp_opt x_name x_ty].
      unfold set_q0_type. rewrite H2. cbn. split5; try assumption; try reflexivity.
      + destruct Htt as [-> | ->]; reflexivity.
      + intros r Hr. split; [apply (H3 r Hr) | discriminate].
    - intros x c rid Hc. apply IC03_set_response; [|exact Hc].
      eapply resp_ok_query; [exact Hc | reflexivity | reflexivity | reflexivity].
    - intros x c co (H1 & H2 & Ht & _ & _) (_ & _ & _ & G3 & G4). unfold IC03. cbn. split5; assumption.
    - intros w i n Hw. exact Hw.
  Qed.

  Lemma exec_x_inv03 runsub p x s :
    (forall rs, okk inv03 (runsub rs)) -> inv03 x s -> inv03 x (fst (exec_x ups runsub p s)).
  Proof.
    intros Hsub H. destruct s as [c w]. destruct p; cbn [exec_x]; [| | | | | |apply fallback_inv03; assumption].
    - unfold set_opt. destruct (hosts_reply h (c_query c)) eqn:E; cbn [fst]; [|exact H].
      destruct (hosts_reply_hdr _ _ _ E) as (E1 & E2 & E3). apply set_fresh_inv03; assumption.
    - unfold set_opt. destruct (black_hole_reply v4 v6 (c_query c)) eqn:E; cbn [fst]; [|exact H].
      destruct (black_hole_reply_hdr _ _ _ _ E) as (E1 & E2 & E3). apply set_fresh_inv03; assumption.
    - unfold set_opt. destruct (arbitrary_reply z (c_query c)) eqn:E; cbn [fst]; [|exact H].
      destruct (arbitrary_reply_hdr _ _ _ E) as (E1 & E2 & E3). apply set_fresh_inv03; assumption.
    - destruct (c_resp c) as [r|] eqn:Er; cbn [fst]; [|exact H].
      destruct H as ((H1 & H2 & Ht & H3 & H4) & H5). split; [|exact H5]. cbn [fst snd] in *.
      unfold IC03. cbn. split5; try assumption.
      intros r0 H. inversion H; subst r0. destruct (ttl_apply_header fix_ mn mx r) as (G1 & G2 & G3 & _).
      generalize (H3 r Er). apply resp_ok_hdr; assumption.
    - assert (H' : inv03 x (c, log_up w u (wire (c_query c)))) by (revert H; apply inv03_frame; reflexivity).
      destruct (ups u (wire (c_query c))) as [r|] eqn:Eu; cbn [fst]; [|exact H'].
      destruct (ups_echo _ _ _ Eu) as (E1 & E2 & E3). destruct (wire_fields (c_query c)) as (W1 & W2 & _).
      apply set_fresh_inv03; cbn [fst]; try assumption; [congruence|].
      rewrite E2, W2. destruct H as ((_ & H2 & _) & _). cbn in H2. rewrite H2. reflexivity.
    - cbn [fst]. destruct H as ((H1 & H2 & Ht & H3 & H4) & H5). split; [|exact H5].
      unfold IC03. cbn. split5; try assumption. discriminate.
  Qed.

  Lemma reject_x_inv03 rc x s : inv03 x s -> inv03 x (reject_x rc s).
  Proof. intro H. unfold reject_x. apply set_fresh_inv03; try reflexivity. exact H. Qed.

  Lemma cache_inv03 inst lazy k : okk inv03 k -> okk inv03 (cache_exec clock inst lazy k).
  Proof.
    intro Hk. refine (cache_Icw idx IC03 store_ok IC03_rid _ clock _ _ inst lazy k Hk).
    - intros w Hw. exact Hw.
    - (* a hit: the entry answers the question its key was built from, which is the current one *)
      intros x c w rid i key v f Hc Hw Ek El. pose proof Hc as (S1 & S2 & St & S3 & S4).
      pose proof (msg_key_single _ _ _ Ek S2) as Ekey.
      apply lookup_in in El. destruct (Hw _ _ _ El) as (V1 & a & cc & dd & qu & V2 & V3 & V4).
      assert (Equ : qu = mkqu (x_name x) (x_ty x) cl0).
      { rewrite V2 in Ekey. apply CacheKey.key_of_inj in Ekey; [|exact V4|split; assumption].
        destruct Ekey as (_ & _ & _ & N1 & N2 & N3). destruct qu; cbn in *. congruence. }
      apply IC03_set_response; [|exact Hc]. eapply resp_ok_query; [exact Hc | reflexivity | exact V1 |].
      cbn. rewrite V3, S2, Equ. reflexivity.
    - (* a store: the response carries the question of the query the key was built from *)
      intros x c c2 w2 i key r (S1 & S2 & St & _ & _) (K1 & K2 & Kt & K3 & K4) Ek Hw Er Ea.
      pose proof (msg_key_single _ _ _ Ek S2) as Ekey.
      intros i0 k0 v Hin. apply save_store_in in Hin as [Hin | (_ & -> & ->)]; [eapply Hw; exact Hin|].
      destruct (K3 r Er) as (R2 & _). cbn. split; [exact R2|].
      unfold answers_question in Ea. rewrite K2 in Ea.
      destruct (m_question r) as [|qa [|]] eqn:Eqr; try discriminate. apply question_eqb_true in Ea. subst qa.
      exists (m_ad (c_query c)), (m_cd (c_query c)), (msg_do (c_query c)), (mkqu (x_name x) (x_ty x) cl0).
      split; [exact Ekey|]. split; [reflexivity | split; assumption].
  Qed.

  Lemma set_q0_name_fields q n qu t :
    m_question q = qu :: t ->
    m_id (set_q0_name q n) = m_id q /\ m_question (set_q0_name q n) = mkqu n (qtype qu) (qclass qu) :: t.
  Proof. intro E. unfold set_q0_name. rewrite E. repeat split. Qed.

  Lemma redirect_inv03 f k : okk inv03 k -> okk inv03 (redirect_exec f k).
  Proof.
    intros Hk x [c w] Hs. unfold redirect_exec.
    pose proof Hs as ((S1 & S2 & St & S3 & S4) & S5). cbn [fst snd] in *. rewrite S2.
    destruct (negb (qclass (mkqu (x_name x) (x_ty x) cl0) =? class_inet)); [apply Hk; exact Hs|].
    cbn [qname]. destruct (f (x_name x)) as [tgt|]; [|apply Hk; exact Hs].
    destruct (set_q0_name_fields (c_query c) tgt _ _ S2) as (Q1 & Q2). cbn [qtype qclass] in Q2.
    set (x' := Idx tgt (x_name x :: x_below x) (x_ty x) (x_strict x)).
    assert (H1 : inv03 x' (with_query c (set_q0_name (c_query c) tgt), w)).
    { split; [|exact S5]. unfold IC03. cbn [fst snd with_query c_query c_resp c_resp_opt x_name x_ty x'].
      split5; try assumption; try congruence.
      intros r H. destruct (S3 r H) as (R2 & R). split; [exact R2|]. cbn [x_strict x_name x_below x_ty]. intro Hst.
      destruct (R Hst) as (R1 & n & R3 & R4). split; [exact R1|]. exists n. split; [exact R3 | now right]. }
    specialize (Hk _ _ H1). destruct (k (with_query c (set_q0_name (c_query c) tgt), w)) as [[t [c2 w2]] err].
    unfold ost in *. cbn [fst snd] in *. destruct Hk as ((K1 & K2 & Kt & K3 & K4) & K5). subst x'. unfold resp_ok in K3. cbn [fst snd x_name x_below x_ty x_strict] in *.
    set (c3 := match c_resp c2 with
               | Some r => with_resp_inplace c2
                   (with_answer (with_question r (map (rename_question tgt (x_name x)) (m_question r)))
                      (RR (x_name x) type_cname class_inet 1 (RName tgt)
                       :: m_answer (with_question r (map (rename_question tgt (x_name x)) (m_question r)))))
               | None => c2 end).
    assert (C3q : c_query c3 = c_query c2) by (subst c3; destruct (c_resp c2); reflexivity).
    assert (C3o : c_resp_opt c3 = c_resp_opt c2) by (subst c3; destruct (c_resp c2); reflexivity).
    destruct (set_q0_name_fields (c_query c3) (x_name x) _ _ (eq_trans (f_equal m_question C3q) K2)) as (Q3 & Q4).
    cbn [qtype qclass] in Q4.
    split; [|exact K5]. unfold IC03. cbn [fst snd with_query c_query c_resp c_resp_opt]. rewrite Q3, Q4, C3q, C3o.
    split5; try assumption; try reflexivity.
    intros r H. subst c3. destruct (c_resp c2) as [r2|] eqn:Er; [|rewrite Er in H; discriminate].
    cbn in H. inversion H; subst r. destruct (K3 r2 eq_refl) as (R2 & R). split; [exact R2|]. intro Hst.
    cbn [x_name x_below x_ty x_strict] in R.
    destruct (R Hst) as (R1 & n & R3 & R4). split; [exact R1|]. cbn.
    rewrite R3. cbn. unfold rename_question. cbn [qname qtype qclass].
    destruct (name_eqb n tgt) eqn:En.
    - exists (x_name x). split; [reflexivity | now left].
    - exists n. split; [reflexivity|]. apply name_eqb_false in En. cbn [x_name x_below] in R4.
      destruct R4 as [R4|R4]; [congruence | exact R4].
  Qed.

  Lemma resp_add_opts_inv03 c w es x : inv03 x (c, w) -> inv03 x (resp_add_opts c es, w).
  Proof.
    intros ((H1 & H2 & Ht & H3 & H4) & H5). destruct (resp_add_opts_frame c es) as (_ & _ & E3 & E4 & _).
    split; [|exact H5]. unfold IC03. cbn [fst snd] in *. rewrite E3, E4. split5; try assumption.
    unfold resp_add_opts. destruct (c_resp_opt c) eqn:Eo; cbn; [exact H4 | rewrite Eo; exact H4].
  Qed.

  Lemma ecs_inv03 fwd send preset m4 m6 k : okk inv03 k -> okk inv03 (ecs_exec fwd send preset m4 m6 k).
  Proof.
    intros Hk x [c wd] Hs. unfold ecs_exec.
    destruct (add_ecs fwd send preset m4 m6 c) as [[c1 forwarded]|] eqn:Ha; [|exact Hs].
    assert (H1 : inv03 x (c1, wd)).
    { destruct (add_ecs_frame _ _ _ _ _ _ _ _ Ha) as (_ & E2 & _ & E4 & _ & E6 & E7).
      revert Hs. apply inv03_frame; cbn; congruence. }
    specialize (Hk x _ H1). destruct (k (c1, wd)) as [[t [c2 w2]] err]. unfold ost in *. cbn [fst snd] in *.
    destruct err; [exact Hk|]. destruct forwarded; [|exact Hk].
    destruct (c_resp_opt c2) as [ro|] eqn:Ero; [|exact Hk]. destruct (c_upstream_opt c2) as [uo|]; [|exact Hk].
    destruct (first_code ecs_code (o_opts uo)); [|exact Hk].
    apply resp_add_opts_inv03. exact Hk.
  Qed.

  Lemma fwdopt_inv03 codes k : okk inv03 k -> okk inv03 (fwdopt_exec codes k).
  Proof.
    intros Hk x [c wd] Hs. unfold fwdopt_exec.
    destruct (q_opt c); [|exact Hs].
    assert (H1 : inv03 x (match c_client_opt c with
                          | Some co0 => q_add_opts c (pick_codes codes (o_opts co0))
                          | None => c end, wd)).
    { destruct (c_client_opt c) as [co0|]; [|exact Hs].
      destruct (q_add_opts_fields c (pick_codes codes (o_opts co0))) as (_ & _ & E3 & E4 & _ & _ & E7 & E8).
      revert Hs. apply inv03_frame; cbn; congruence. }
    specialize (Hk x _ H1).
    destruct (k (match c_client_opt c with
                 | Some co0 => q_add_opts c (pick_codes codes (o_opts co0))
                 | None => c end, wd)) as [[t [c2 w2]] err].
    unfold ost in *. cbn [fst snd] in *.
    destruct err; [exact Hk|]. destruct (c_upstream_opt c2) as [uo|]; [|exact Hk].
    destruct (c_resp_opt c2); [|exact Hk]. apply resp_add_opts_inv03. exact Hk.
  Qed.

  Lemma wrap_w_inv03 w k : okk inv03 k -> okk inv03 (wrap_w clock (wp w) k).
  Proof.
    intro Hk. destruct (wp w); cbn [wrap_w].
    - apply cache_inv03; exact Hk.
    - apply redirect_inv03; exact Hk.
    - apply ecs_inv03; exact Hk.
    - apply fwdopt_inv03; exact Hk.
    - apply dual_inv03; exact Hk.
  Qed.

  Lemma entry_inv03 d prog x s : inv03 x s -> inv03 x (fst (entry ups clock xp wp mp d prog s)).
  Proof.
    apply (entry_ok ups clock xp wp mp idx inv03).
    - intros runsub Hsub p x0 s0. apply exec_x_inv03. exact Hsub.
    - exact reject_x_inv03.
    - exact wrap_w_inv03.
  Qed.
End C03Inv.


(** * ServerMeta and the client's OPT are read-only *)
Definition meta (c : ctx) : option opt * bool * option addr := (c_client_opt c, c_from_udp c, c_client_addr c).

Section Meta.
  Variable ups : N -> msg -> option msg.
  Variable clock : N -> option N.
  Variable xp : N -> xplugin.
  Variable wp : N -> wplugin.
  Variable mp : N -> matcher.

  Definition invM (m : option opt * bool * option addr) (s : state) : Prop := meta (fst s) = m.

  Lemma set_response_meta c rid m : meta (set_response c rid m) = meta c.
  Proof. unfold meta. destruct (set_response_fields c rid m) as (_ & E2 & E3 & _ & E5). congruence. Qed.

  Lemma set_fresh_meta s m : meta (fst (set_fresh s m)) = meta (fst s).
  Proof. destruct s as [c w]. apply set_response_meta. Qed.

  Lemma q_add_opts_meta c es : meta (q_add_opts c es) = meta c.
  Proof. unfold q_add_opts. destruct (map_last_opt _ _); reflexivity. Qed.

  Lemma resp_add_opts_meta c es : meta (resp_add_opts c es) = meta c.
  Proof. unfold resp_add_opts. destruct (c_resp_opt c); reflexivity. Qed.

  Lemma add_ecs_meta fwd send preset m4 m6 c c1 b : add_ecs fwd send preset m4 m6 c = Some (c1, b) -> meta c1 = meta c.
  Proof.
    unfold add_ecs. destruct (q_opt c) as [qo|]; [|discriminate].
    destruct (m_question (c_query c)) as [|qu qs]; [discriminate|].
    destruct (has_code ecs_code (o_opts qo)); [intro H; inversion H; reflexivity|].
    destruct (negb (qclass qu =? class_inet)); [intro H; inversion H; reflexivity|].
    destruct (if fwd then _ else None); [|destruct preset; [|destruct send; [destruct (c_client_addr c) eqn:Ea|]]];
      intro H; inversion H; subst; try reflexivity; apply q_add_opts_meta.
  Qed.

  Definition ICM (m : option opt * bool * option addr) (c : ctx) : Prop := meta c = m.
  Lemma invM_iff m s : invM m s <-> Icw ICM (fun _ => True) m s.
  Proof. unfold invM, Icw, ICM. tauto. Qed.

  Lemma fallback_invM runsub pr se sb :
    (forall rs, okk invM (runsub rs)) -> forall x s, invM x s -> invM x (fst (fallback_exec runsub pr se sb s)).
  Proof.
    intros Hsub x s H. apply invM_iff.
    refine (fallback_Icw _ ICM (fun _ => True) _ _ _ runsub pr se sb _ x s _); try (intros; exact I).
    - intros x0 c rid Hc. exact Hc.
    - intros x0 c c' rid r Hc _ _. unfold ICM. rewrite set_response_meta. exact Hc.
    - intro rs. apply (okk_ext invM); [apply invM_iff | apply Hsub].
    - apply invM_iff. exact H.
  Qed.

  Lemma dual_invM inst v6 k : okk invM k -> okk invM (dual_exec inst v6 k).
  Proof.
    intro Hk. apply (okk_ext (Icw ICM (fun _ => True))); [intros; symmetry; apply invM_iff|].
    refine (dual_Icw _ ICM (fun _ => True) _ _ (fun x _ => x) _ _ _ _ inst v6 k _); try (intros; exact I).
    - intros x0 c rid Hc. exact Hc.
    - intros x0 c t Hc _. exact Hc.
    - intros x0 c rid Hc. unfold ICM. rewrite set_response_meta. exact Hc.
    - intros x0 c c' _ Hc'. exact Hc'.
    - apply (okk_ext invM); [apply invM_iff | exact Hk].
  Qed.

  Lemma cache_invM inst lazy k : okk invM k -> okk invM (cache_exec clock inst lazy k).
  Proof.
    intro Hk. apply (okk_ext (Icw ICM (fun _ => True))); [intros; symmetry; apply invM_iff|].
    refine (cache_Icw _ ICM (fun _ => True) _ _ clock _ _ inst lazy k _); try (intros; exact I).
    - intros x0 c rid Hc. exact Hc.
    - intros x c w rid i key v f Hc _ _ _. unfold ICM. rewrite set_response_meta. exact Hc.
    - apply (okk_ext invM); [apply invM_iff | exact Hk].
  Qed.

  Lemma exec_x_invM runsub p m s :
    (forall rs, okk invM (runsub rs)) -> invM m s -> invM m (fst (exec_x ups runsub p s)).
  Proof.
    intros Hsub H. destruct s as [c w]. destruct p; cbn [exec_x]; [| | | | | |apply fallback_invM; assumption];
      unfold invM in *; unfold set_opt.
    - destruct (hosts_reply h (c_query c)); cbn [fst]; [rewrite set_fresh_meta|]; exact H.
    - destruct (black_hole_reply v4 v6 (c_query c)); cbn [fst]; [rewrite set_fresh_meta|]; exact H.
    - destruct (arbitrary_reply z (c_query c)); cbn [fst]; [rewrite set_fresh_meta|]; exact H.
    - destruct (c_resp c); exact H.
    - destruct (ups u (wire (c_query c))); cbn [fst]; [rewrite set_fresh_meta|]; exact H.
    - exact H.
  Qed.

  Lemma reject_x_invM rc m s : invM m s -> invM m (reject_x rc s).
  Proof. unfold invM, reject_x. rewrite set_fresh_meta. auto. Qed.

  Lemma wrap_w_invM w k : okk invM k -> okk invM (wrap_w clock (wp w) k).
  Proof.
    intros Hk m [c wd] Hs. unfold invM in *. cbn [fst] in Hs. destruct (wp w); cbn [wrap_w].
    - apply cache_invM; [exact Hk | exact Hs].
    - unfold redirect_exec.
      destruct (m_question (c_query c)) as [|qu [|]]; try (apply Hk; exact Hs).
      destruct (negb (qclass qu =? class_inet)); [apply Hk; exact Hs|].
      destruct (f (qname qu)) as [tgt|]; [|apply Hk; exact Hs].
      match goal with |- context [k (?c1, wd)] => specialize (Hk m (c1, wd) Hs); destruct (k (c1, wd)) as [[t [c2 w2]] err] end.
      unfold ost in *. cbn [fst snd] in *. destruct (c_resp c2); exact Hk.
    - unfold ecs_exec. destruct (add_ecs fwd send preset mask4 mask6 c) as [[c1 forwarded]|] eqn:Ha; [|exact Hs].
      apply add_ecs_meta in Ha. rewrite <- Ha in Hs.
      specialize (Hk m (c1, wd) Hs). destruct (k (c1, wd)) as [[t [c2 w2]] err].
      unfold ost in *. cbn [fst snd] in *.
      destruct err; [exact Hk|]. destruct forwarded; [|exact Hk].
      destruct (c_resp_opt c2) eqn:Er; [|exact Hk]. destruct (c_upstream_opt c2) as [uo|]; [|exact Hk].
      destruct (first_code ecs_code (o_opts uo)); cbn [fst snd]; [rewrite resp_add_opts_meta|]; exact Hk.
    - unfold fwdopt_exec. destruct (q_opt c); [|exact Hs].
      match goal with |- context [k (?c1, wd)] =>
        assert (H1 : meta c1 = m) by (destruct (c_client_opt c) eqn:Ec; [rewrite q_add_opts_meta|]; exact Hs);
        specialize (Hk m (c1, wd) H1); destruct (k (c1, wd)) as [[t [c2 w2]] err] end.
      unfold ost in *. cbn [fst snd] in *.
      destruct err; [exact Hk|]. destruct (c_upstream_opt c2) as [uo|]; [|exact Hk].
      destruct (c_resp_opt c2) eqn:Er; cbn [fst snd]; [rewrite resp_add_opts_meta|]; exact Hk.
    - apply dual_invM; [exact Hk | exact Hs].
  Qed.

  Lemma entry_meta d prog s : meta (fst (fst (entry ups clock xp wp mp d prog s))) = meta (fst s).
  Proof.
    apply (entry_ok ups clock xp wp mp _ invM) with (x := meta (fst s)); [| | |reflexivity].
    - intros runsub Hsub p x s0. apply exec_x_invM. exact Hsub.
    - exact reject_x_invM.
    - exact wrap_w_invM.
  Qed.
End Meta.

(** ** The handler around the chain *)

(** what the handler starts from: the chain's answer or a synthesised reply *)
Definition base_reply (c : ctx) (err : option N) : msg :=
  match chain_result_of c err with
  | ChainErr => with_rcode (set_reply (c_query c)) rcode_servfail
  | ChainAnswer r => r
  | ChainNone => with_rcode (set_reply (c_query c)) Msg.rcode_refused
  end.

(** RA forced, the response OPT appended *)
Definition finish_reply (c : ctx) (b : msg) : msg :=
  match c_resp_opt c with
  | Some o => with_extra (with_ra b true) (m_extra b ++ [OPT o])
  | None => with_ra b true
  end.

Lemma pre_reply_eq c err : pre_reply c err = finish_reply c (base_reply c err).
Proof.
  unfold pre_reply, reply_msg, finish_reply, base_reply.
  destruct (c_from_udp c), (c_resp_opt c); reflexivity.
Qed.

Lemma finish_reply_fields c b :
  m_id (finish_reply c b) = m_id b /\ m_qr (finish_reply c b) = m_qr b /\ m_ra (finish_reply c b) = true
  /\ m_question (finish_reply c b) = m_question b /\ m_rcode (finish_reply c b) = m_rcode b
  /\ m_answer (finish_reply c b) = m_answer b /\ m_ns (finish_reply c b) = m_ns b /\ m_tc (finish_reply c b) = m_tc b
  /\ m_opcode (finish_reply c b) = m_opcode b
  /\ m_extra (finish_reply c b) = m_extra b ++ match c_resp_opt c with Some o => [OPT o] | None => [] end.
Proof. unfold finish_reply. destruct (c_resp_opt c); cbn; rewrite ?app_nil_r; repeat split. Qed.

Lemma extra_rel_keeps_some ex ex' : extra_rel ex ex' = true -> opts_of ex <> [] -> opts_of ex' <> [].
Proof.
  unfold extra_rel. intros H Hn. apply orb_true_iff in H as [H|H].
  - apply (list_eqb_true _ rr_eqb_true) in H. now subst.
  - destruct (pop_opt ex) as [[rest o]|] eqn:Hp; [|apply pop_opt_none in Hp; contradiction].
    destruct (pop_opt ex') as [[rest' o']|] eqn:Hp'; [|discriminate].
    apply pop_opt_some in Hp'. rewrite Hp'. intro E. destruct (opts_of rest'); discriminate.
Qed.

Section C03.
  Variable ups : N -> msg -> option msg.
  Variable clock : N -> option N.
  Variable xp : N -> xplugin.
  Variable wp : N -> wplugin.
  Variable mp : N -> matcher.
  Variable truncate : N -> msg -> msg.
  Variable packs : msg -> bool.
  Variable depth : nat.             (* nesting bound of fallback sub-sequences *)

  Hypothesis ups_echo : forall u q r, ups u q = Some r ->
    m_id r = m_id q /\ m_question r = m_question q /\ m_qr r = true.
  Hypothesis trunc_contract : forall size m, trunc_rel m (truncate size m) = true.

  Notation ent prog := (entry ups clock xp wp mp depth prog).
  Notation run prog := (handle truncate packs (entry ups clock xp wp mp depth prog)).

  (** malformed queries get no reply and leave the plugins alone *)
  Lemma malformed_dropped prog w q udp ca :
    m_qr q = true \/ length (m_question q) <> 1%nat \/ m_answer q <> [] \/ m_ns q <> [] \/ (1 < length (m_extra q))%nat ->
    run prog w q udp ca = (w, None).
  Proof using.
    clear ups_echo trunc_contract. intro H. unfold handle. destruct (valid_query q) eqn:Hv; [|reflexivity]. exfalso.
    destruct (valid_query_shape q Hv) as (V1 & (qu & V2) & V3 & V4 & V5).
    destruct H as [H|[H|[H|[H|H]]]]; try congruence.
    - rewrite V2 in H. now apply H.
    - destruct V5 as [E|[x E]]; rewrite E in H; cbn in H; lia.
  Qed.

  (** What the chain leaves behind, for a valid query *)
  Lemma chain_outcome prog w q udp ca qu c w' err :
    valid_query q = true -> m_question q = [qu] -> CacheKey.wf_question qu -> store_ok w ->
    ent prog (new_context q udp ca, w) = ((c, w'), err) ->
    store_ok w' /\ m_id (c_query c) = m_id q /\ m_question (c_query c) = m_question q
    /\ (forall r, c_resp c = Some r -> m_id r = m_id q /\ m_qr r = true /\ m_question r = m_question q)
    /\ is_some (c_resp_opt c) = is_some (find_opt (m_extra q)).
  Proof.
    intros Hv Hq [Hty Hcl] Hs He.
    set (x := Idx (qname qu) [] (qtype qu) true).
    assert (H0 : inv03 (m_id q) (qclass qu) (is_some (find_opt (m_extra q))) x (new_context q udp ca, w)).
    { destruct (new_context_fields q udp ca) as (_ & _ & F3 & _ & F5 & F6 & _).
      split; [|exact Hs]. unfold IC03. cbn [fst snd x x_name x_ty]. rewrite F3, F5, F6.
      split5; try assumption; try reflexivity.
      - rewrite Hq. destruct qu; reflexivity.
      - discriminate.
      - pose proof (new_context_resp_opt q udp ca) as H. destruct (find_opt (m_extra q)).
        + destruct H as (r & -> & _). reflexivity.
        + rewrite H. reflexivity. }
    pose proof (entry_inv03 ups clock xp wp mp _ _ _ Hcl ups_echo depth prog _ _ H0) as H1.
    rewrite He in H1. destruct H1 as ((K1 & K2 & _ & K3 & K4) & K5). cbn [fst snd x x_name x_below x_ty] in *.
    assert (Eq : [mkqu (qname qu) (qtype qu) (qclass qu)] = m_question q) by (rewrite Hq; destruct qu; reflexivity).
    split; [exact K5|]. split; [exact K1|]. split; [congruence|]. split; [|exact K4].
    intros r Hr. destruct (K3 r Hr) as (R2 & R). destruct (R eq_refl) as (R1 & n & R3 & [R4|[]]). subst n.
    subst x. cbn [x_name x_ty] in R3. repeat split; congruence.
  Qed.

  (** the reply before packing: id, question, QR, RA; and how it relates to
      what the chain left *)
  Lemma reply_shape prog w q udp ca qu c w' err :
    valid_query q = true -> m_question q = [qu] -> CacheKey.wf_question qu -> store_ok w ->
    ent prog (new_context q udp ca, w) = ((c, w'), err) ->
    let r := reply_msg truncate c err in
    m_id r = m_id q /\ m_question r = m_question q /\ m_qr r = true /\ m_ra r = true
    /\ trunc_rel (finish_reply c (base_reply c err)) r = true
    /\ (udp = false -> r = finish_reply c (base_reply c err)).
  Proof.
    intros Hv Hq Hwf Hs He. destruct (chain_outcome _ _ _ _ _ _ _ _ _ Hv Hq Hwf Hs He) as (_ & C1 & C2 & C3 & _).
    assert (Hb : m_id (base_reply c err) = m_id q /\ m_question (base_reply c err) = m_question q
                 /\ m_qr (base_reply c err) = true).
    { unfold base_reply, chain_result_of. destruct err.
      - cbn. rewrite C1, C2, Hq. repeat split.
      - destruct (c_resp c) as [a|] eqn:Ea; [destruct (C3 a eq_refl) as (? & ? & ?); auto|]. cbn. rewrite C1, C2, Hq. repeat split. }
    destruct Hb as (B1 & B2 & B3).
    destruct (finish_reply_fields c (base_reply c err)) as (F1 & F2 & F3 & F4 & _).
    assert (Hudp : c_from_udp c = udp).
    { pose proof (entry_meta ups clock xp wp mp depth prog (new_context q udp ca, w)) as Hm. rewrite He in Hm.
      cbn [fst] in Hm. destruct (new_context_fields q udp ca) as (_ & F & _).
      unfold meta in Hm. inversion Hm. congruence. }
    cbv zeta. rewrite (reply_msg_truncate truncate c err), pre_reply_eq, Hudp. destruct udp.
    - pose proof (trunc_contract (valid_udp_size (c_client_opt c)) (finish_reply c (base_reply c err))) as Ht.
      destruct (trunc_rel_parts _ _ Ht) as (T1 & T2 & T3 & _ & T5 & _).
      split; [congruence|]. split; [congruence|]. split; [congruence|]. split; [congruence|].
      split; [exact Ht | discriminate].
    - split; [congruence|]. split; [congruence|]. split; [congruence|]. split; [congruence|].
      split; [apply trunc_rel_refl | reflexivity].
  Qed.
End C03.

Lemma is_prefix_rr_nil a : is_prefix_rr a [] = true -> a = [].
Proof. destruct a; [reflexivity | discriminate]. Qed.

Lemma pop_opt_nil_rest ex o : pop_opt ex = Some ([], o) -> ex = [OPT o].
Proof.
  destruct ex as [|x t]; cbn; [discriminate|].
  destruct (pop_opt t) as [[t' o']|] eqn:Ht; [discriminate|].
  destruct x; [discriminate|]. intro H. inversion H; subst. reflexivity.
Qed.

(** truncating a message whose additional section is just the OPT (or empty) *)
Lemma extra_rel_only_opt ex ex' :
  extra_rel ex ex' = true -> (ex = [] \/ exists o, ex = [OPT o]) -> ex' = ex.
Proof.
  unfold extra_rel. intros H Hex. apply orb_true_iff in H as [H|H].
  - apply (list_eqb_true _ rr_eqb_true) in H. now subst.
  - destruct Hex as [->|[o ->]]; cbn in H.
    + now apply is_prefix_rr_nil.
    + destruct (pop_opt ex') as [[rest' o']|] eqn:Hp; [|discriminate].
      apply andb_true_iff in H as [H _]. apply andb_true_iff in H as [Ho Hpre].
      apply opt_eqb_true in Ho. apply is_prefix_rr_nil in Hpre. subst. now apply pop_opt_nil_rest.
Qed.

Section C03Top.
  Variable ups : N -> msg -> option msg.
  Variable clock : N -> option N.
  Variable xp : N -> xplugin.
  Variable wp : N -> wplugin.
  Variable mp : N -> matcher.
  Variable truncate : N -> msg -> msg.
  Variable packs : msg -> bool.
  Variable depth : nat.             (* nesting bound of fallback sub-sequences *)
  Variable plen : msg -> N.          (* length of the packed message *)

  Hypothesis ups_echo : forall u q r, ups u q = Some r ->
    m_id r = m_id q /\ m_question r = m_question q /\ m_qr r = true.
  (** contract of Msg.Truncate: the relation, and the result packs to at most max(512, size) bytes *)
  Hypothesis trunc_contract : forall size m, trunc_rel m (truncate size m) = true.
  Hypothesis trunc_len : forall size m, plen (truncate size m) <= N.max 512 size.
  (** contract of the pack function: it succeeds on a message of at most 65535
      bytes unless the rcode is an extended one and there is no OPT to carry it *)
  Hypothesis packs_ok : forall m, (m_rcode m < 16 \/ opts_of (m_extra m) <> []) -> plen m <= 65535 -> packs m = true.

  Notation ent prog := (entry ups clock xp wp mp depth prog).
  Notation run prog := (handle truncate packs (entry ups clock xp wp mp depth prog)).

  Definition advertised (q : msg) : N := match find_opt (m_extra q) with Some o => o_udp o | None => 0 end.

  Lemma reply_exactly_one_id_question prog w q udp ca qu c w' err :
    valid_query q = true -> m_question q = [qu] -> CacheKey.wf_question qu -> store_ok w ->
    ent prog (new_context q udp ca, w) = ((c, w'), err) ->
    (m_rcode (base_reply c err) < 16 \/ find_opt (m_extra q) <> None) ->
    plen (reply_msg truncate c err) <= 65535 ->
    exists r, run prog w q udp ca = (w', Some r) /\ r = reply_msg truncate c err
              /\ m_id r = m_id q /\ m_question r = m_question q /\ m_qr r = true /\ m_ra r = true
              /\ store_ok w'.
  Proof using ups_echo trunc_contract packs_ok.
    clear trunc_len.
    intros Hv Hq Hwf Hs He Hrc Hlen.
    destruct (reply_shape ups clock xp wp mp truncate depth ups_echo trunc_contract _ _ _ _ _ _ _ _ _ Hv Hq Hwf Hs He)
      as (R1 & R2 & R3 & R4 & R5 & _).
    destruct (chain_outcome ups clock xp wp mp depth ups_echo _ _ _ _ _ _ _ _ _ Hv Hq Hwf Hs He) as (S1 & _ & _ & _ & S5).
    exists (reply_msg truncate c err). unfold handle. rewrite Hv, He.
    assert (Hp : packs (reply_msg truncate c err) = true).
    { apply packs_ok; [|exact Hlen].
      destruct (trunc_rel_parts _ _ R5) as (_ & _ & _ & T4 & _ & _ & T7 & _).
      destruct (finish_reply_fields c (base_reply c err)) as (_ & _ & _ & _ & F5 & _ & _ & _ & _ & F10).
      destruct Hrc as [Hrc|Hrc]; [left; congruence|]. right.
      apply (extra_rel_keeps_some _ _ T7). rewrite F10, opts_of_app.
      destruct (find_opt (m_extra q)); [|congruence]. destruct (c_resp_opt c); [|discriminate].
      cbn. intro E. apply app_eq_nil in E as [_ E]. discriminate. }
    rewrite Hp. split; [reflexivity|]. split; [reflexivity|]. split; [exact R1|]. split; [exact R2|].
    split; [exact R3|]. split; [exact R4 | exact S1].
  Qed.

  (** The three cases of the reply, as relations to what the chain left. *)
  Lemma servfail_on_error prog w q udp ca qu c w' e :
    valid_query q = true -> m_question q = [qu] -> CacheKey.wf_question qu -> store_ok w ->
    ent prog (new_context q udp ca, w) = ((c, w'), Some e) ->
    let r := reply_msg truncate c (Some e) in
    m_rcode r = rcode_servfail /\ m_answer r = [] /\ m_ns r = []
    /\ m_extra r = match c_resp_opt c with Some o => [OPT o] | None => [] end.
  Proof using ups_echo trunc_contract.
    clear trunc_len packs_ok.
    intros Hv Hq Hwf Hs He.
    destruct (reply_shape ups clock xp wp mp truncate depth ups_echo trunc_contract _ _ _ _ _ _ _ _ _ Hv Hq Hwf Hs He)
      as (_ & _ & _ & _ & R5 & _).
    destruct (trunc_rel_parts _ _ R5) as (_ & _ & _ & T4 & _ & _ & T7 & _ & T9 & T10).
    destruct (finish_reply_fields c (base_reply c (Some e))) as (_ & _ & _ & _ & F5 & F6 & F7 & _ & _ & F10).
    cbv zeta. rewrite F6 in T9. rewrite F7 in T10. rewrite F10 in T7. cbn in T9, T10, T7, F5.
    apply is_prefix_rr_nil in T9, T10. split; [rewrite T4; exact F5|]. split; [exact T9|]. split; [exact T10|].
    apply (extra_rel_only_opt _ _ T7). destruct (c_resp_opt c); eauto.
  Qed.

  Lemma refused_on_no_answer prog w q udp ca qu c w' :
    valid_query q = true -> m_question q = [qu] -> CacheKey.wf_question qu -> store_ok w ->
    ent prog (new_context q udp ca, w) = ((c, w'), None) -> c_resp c = None ->
    let r := reply_msg truncate c None in
    m_rcode r = Msg.rcode_refused /\ m_answer r = [] /\ m_ns r = []
    /\ m_extra r = match c_resp_opt c with Some o => [OPT o] | None => [] end.
  Proof using ups_echo trunc_contract.
    clear trunc_len packs_ok.
    intros Hv Hq Hwf Hs He Hn.
    destruct (reply_shape ups clock xp wp mp truncate depth ups_echo trunc_contract _ _ _ _ _ _ _ _ _ Hv Hq Hwf Hs He)
      as (_ & _ & _ & _ & R5 & _).
    destruct (trunc_rel_parts _ _ R5) as (_ & _ & _ & T4 & _ & _ & T7 & _ & T9 & T10).
    destruct (finish_reply_fields c (base_reply c None)) as (_ & _ & _ & _ & F5 & F6 & F7 & _ & _ & F10).
    unfold base_reply, chain_result_of in *. rewrite Hn in *.
    cbv zeta. rewrite F6 in T9. rewrite F7 in T10. rewrite F10 in T7. cbn in T9, T10, T7, F5.
    apply is_prefix_rr_nil in T9, T10. split; [rewrite T4; exact F5|]. split; [exact T9|]. split; [exact T10|].
    apply (extra_rel_only_opt _ _ T7). destruct (c_resp_opt c); eauto.
  Qed.

  (** The reply is the plugins' answer [a] with RA forced and the response OPT
      appended — unchanged over TCP, and over UDP any truncation of it the
      contract allows (header and question kept, a prefix of each section, the
      OPT kept, TC = TC || dropped). *)
  Lemma answer_is_plugins_answer prog w q udp ca qu c w' a :
    valid_query q = true -> m_question q = [qu] -> CacheKey.wf_question qu -> store_ok w ->
    ent prog (new_context q udp ca, w) = ((c, w'), None) -> c_resp c = Some a ->
    let r := reply_msg truncate c None in
    let full := finish_reply c a in
    m_rcode r = m_rcode a /\ m_opcode r = m_opcode a
    /\ trunc_rel full r = true /\ (udp = false -> r = full)
    /\ m_answer full = m_answer a /\ m_ns full = m_ns a
    /\ m_extra full = m_extra a ++ match c_resp_opt c with Some o => [OPT o] | None => [] end.
  Proof using ups_echo trunc_contract.
    clear trunc_len packs_ok.
    intros Hv Hq Hwf Hs He Ha.
    destruct (reply_shape ups clock xp wp mp truncate depth ups_echo trunc_contract _ _ _ _ _ _ _ _ _ Hv Hq Hwf Hs He)
      as (_ & _ & _ & _ & R5 & R6).
    unfold base_reply, chain_result_of in R5, R6. rewrite Ha in R5, R6.
    destruct (trunc_rel_parts _ _ R5) as (_ & _ & _ & T4 & _ & T6 & _).
    destruct (finish_reply_fields c a) as (_ & _ & _ & _ & F5 & F6 & F7 & _ & F9 & F10).
    cbv zeta. repeat split; try assumption; congruence.
  Qed.

  (** Over UDP the reply never exceeds max(512, the client's advertised size) *)
  Lemma udp_size_bound prog w q ca c w' err :
    ent prog (new_context q true ca, w) = ((c, w'), err) ->
    plen (reply_msg truncate c err) <= N.max 512 (advertised q).
  Proof using trunc_len.
    clear ups_echo trunc_contract packs_ok packs.
    intro He. pose proof (entry_meta ups clock xp wp mp depth prog (new_context q true ca, w)) as Hm.
    rewrite He in Hm. cbn [fst] in Hm. destruct (new_context_fields q true ca) as (_ & F2 & _).
    unfold meta in Hm. inversion Hm as [[M1 M2 M3]]. rewrite new_context_client_opt in M1.
    rewrite (reply_msg_truncate truncate c err), M2, F2.
    eapply N.le_trans; [apply trunc_len|]. rewrite M1. unfold advertised, valid_udp_size, min_msg_size.
    destruct (find_opt (m_extra q)) as [o|]; [destruct (o_udp o <? 512) eqn:E | cbn]; lia.
  Qed.

  (** ... and TC is set exactly when it was already set or records were dropped *)
  Lemma tc_iff_dropped prog w q udp ca qu c w' err :
    valid_query q = true -> m_question q = [qu] -> CacheKey.wf_question qu -> store_ok w ->
    ent prog (new_context q udp ca, w) = ((c, w'), err) ->
    let r := reply_msg truncate c err in
    m_tc r = (m_tc (base_reply c err) || dropped (finish_reply c (base_reply c err)) r).
  Proof using ups_echo trunc_contract.
    clear trunc_len packs_ok.
    intros Hv Hq Hwf Hs He.
    destruct (reply_shape ups clock xp wp mp truncate depth ups_echo trunc_contract _ _ _ _ _ _ _ _ _ Hv Hq Hwf Hs He)
      as (_ & _ & _ & _ & R5 & _).
    destruct (trunc_rel_parts _ _ R5) as (_ & _ & _ & _ & _ & _ & _ & T8 & _).
    destruct (finish_reply_fields c (base_reply c err)) as (_ & _ & _ & _ & _ & _ & _ & F8 & _).
    cbv zeta. rewrite T8, F8. reflexivity.
  Qed.

  (** the cache contents stay consistent, so the theorems apply to the next query *)
  Lemma store_ok_preserved prog w q udp ca qu :
    valid_query q = true -> m_question q = [qu] -> CacheKey.wf_question qu -> store_ok w ->
    store_ok (fst (run prog w q udp ca)).
  Proof using ups_echo.
    clear trunc_contract trunc_len packs_ok.
    intros Hv Hq Hwf Hs. unfold handle. rewrite Hv.
    destruct (ent prog (new_context q udp ca, w)) as [[c w'] err] eqn:He.
    destruct (chain_outcome ups clock xp wp mp depth ups_echo _ _ _ _ _ _ _ _ _ Hv Hq Hwf Hs He) as (S1 & _). exact S1.
  Qed.
End C03Top.

Lemma store_ok_empty : store_ok empty_world.
Proof. intros i k v []. Qed.

(** * Context.Copy and the plugins that use it *)

(** A copy agrees with the original on everything a plugin can read; being a
    value of its own, nothing written to it later reaches the original (and
    vice versa) — which is what Judge.C15's CCopy cases check of
    Context.Copy / CopyTo on the real structure, pointer by pointer. *)
Lemma copy_isolated c w :
  let c' := fst (ctx_copy (c, w)) in
  c_query c' = c_query c /\ c_client_opt c' = c_client_opt c /\ c_resp c' = c_resp c
  /\ c_resp_opt c' = c_resp_opt c /\ c_upstream_opt c' = c_upstream_opt c
  /\ c_from_udp c' = c_from_udp c /\ c_client_addr c' = c_client_addr c.
Proof. cbn. repeat split. Qed.

(** fallback hands back a response and nothing else: whatever its branches
    forwarded into THEIR response OPTs stays there. *)
Lemma fallback_keeps_resp_opt runsub pr se sb c w :
  c_resp_opt (fst (fst (fallback_exec runsub pr se sb (c, w)))) = c_resp_opt c
  /\ c_query (fst (fst (fallback_exec runsub pr se sb (c, w)))) = c_query c.
Proof.
  unfold fallback_exec. destruct (runsub pr (ctx_copy (c, w))) as [[tp [cp w1]] errp].
  set (rp := match errp with
             | Some _ => None
             | None => match c_resp cp with Some r => Some (c_rid cp, r) | None => None end
             end). clearbody rp.
  assert (E : forall rid r, c_resp_opt (set_response c rid r) = c_resp_opt c /\ c_query (set_response c rid r) = c_query c).
  { intros rid r. destruct (set_response_fields c rid r) as (E1 & _ & _ & E4 & _). auto. }
  destruct (sb || match rp with Some _ => false | None => true end).
  - destruct (runsub se (ctx_copy (c, w1))) as [[ts [cs w2]] errs].
    destruct rp as [[rid r]|]; [apply E|].
    destruct errs; [split; reflexivity|]. destruct (c_resp cs); [apply E | split; reflexivity].
  - destruct rp as [[rid r]|]; [apply E | split; reflexivity].
Qed.

(** dual_selector ends with the context of the sub-run of the ORIGINAL query
    (when it lets it pass) or with the context it was given plus an empty
    reply (when it blocks): the response OPT never holds anything the
    reference query's sub-run put into its copy. *)
Lemma dual_resp_opt_adopted inst v6 k c w :
  let out := dual_exec inst v6 k (c, w) in
  c_resp_opt (fst (ost out)) = c_resp_opt c
  \/ (exists s, c_resp_opt (fst (ost out)) = c_resp_opt (fst (ost (k s)))
                /\ c_query (fst s) = c_query c /\ c_resp_opt (fst s) = c_resp_opt c).
Proof.
  cbv zeta. unfold dual_exec.
  destruct (m_question (c_query c)) as [|qu [|]]; try solve [right; exists (c, w); repeat split].
  destruct (negb ((qtype qu =? type_a) || (qtype qu =? type_aaaa))); [right; exists (c, w); repeat split|].
  destruct (qtype qu =? (if v6 then type_aaaa else type_a)).
  - right. exists (c, w). destruct (k (c, w)) as [[t [c2 w2]] err]. destruct err; cbn; repeat split.
  - destruct (existsb (name_eqb (qname qu)) (w_pref w inst)).
    + left. unfold ost, set_fresh. cbn [fst snd].
      destruct (set_response_fields c (w_next w) (gen_empty_reply (c_query c))) as (_ & _ & _ & E4 & _). exact E4.
    + destruct (k (with_query (fst (ctx_copy (c, w))) (set_q0_type (c_query (fst (ctx_copy (c, w)))) (if v6 then type_aaaa else type_a)),
                   snd (ctx_copy (c, w)))) as [[t1 [cr w1]] errr].
      set (block := match errr with
                    | Some _ => false
                    | None => match c_resp cr with Some r => msg_ans_has_rr r (if v6 then type_aaaa else type_a) | None => false end
                    end).
      set (w1' := if block then add_pref w1 inst (qname qu) else w1).
      destruct block.
      * left. destruct (k (ctx_copy (c, w1'))) as [[t2 [co w2]] erro]. unfold ost, set_fresh. cbn [fst snd].
        destruct (set_response_fields c (w_next w2) (gen_empty_reply (c_query c))) as (_ & _ & _ & E4 & _). exact E4.
      * right. exists (ctx_copy (c, w1')). destruct (k (ctx_copy (c, w1'))) as [[t2 [co w2]] erro].
        unfold ost. cbn. repeat split.
Qed.
