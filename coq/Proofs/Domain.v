(** Proofs about the domain matcher model (C12). *)
From Verif Require Import Base.Prelude Model.Domain.
From Coq Require Import ZifyN ZifyNat ZifyBool.
Open Scope N_scope.

(** * Strings *)

Lemma str_eqb_spec a b : str_eqb a b = true <-> a = b.
Proof. apply list_eqb_spec. intros x y. apply N.eqb_eq. Qed.

Lemma str_eqb_refl a : str_eqb a a = true.
Proof. apply str_eqb_spec. reflexivity. Qed.

Lemma str_eqb_neq a b : str_eqb a b = false <-> a <> b.
Proof.
  split.
  - intros H E. apply str_eqb_spec in E. congruence.
  - intro H. destruct (str_eqb a b) eqn:E; [apply str_eqb_spec in E; contradiction | reflexivity].
Qed.

Definition lstr_eqb : list str -> list str -> bool := list_eqb str_eqb.
Lemma lstr_eqb_spec a b : lstr_eqb a b = true <-> a = b.
Proof. apply list_eqb_spec. exact str_eqb_spec. Qed.

(** ** lower-casing and TrimDot *)

Lemma lower_byte_idem b : lower_byte (lower_byte b) = lower_byte b.
Proof. unfold lower_byte. destruct ((65 <=? b) && (b <=? 90)) eqn:E; [|rewrite E; reflexivity].
  destruct ((65 <=? b + 32) && (b + 32 <=? 90)) eqn:E2; [lia|reflexivity]. Qed.

Lemma lower_byte_dot b : lower_byte b = c_dot <-> b = c_dot.
Proof. unfold lower_byte, c_dot. destruct ((65 <=? b) && (b <=? 90)) eqn:E; lia. Qed.

Lemma lower_byte_dotb b : (lower_byte b =? c_dot) = (b =? c_dot).
Proof. pose proof (lower_byte_dot b). destruct (N.eqb_spec (lower_byte b) c_dot), (N.eqb_spec b c_dot); tauto. Qed.

Lemma to_lower_idem s : to_lower (to_lower s) = to_lower s.
Proof. unfold to_lower. rewrite map_map. apply map_ext. apply lower_byte_idem. Qed.

Lemma trim_dot_cons x t : t <> [] -> trim_dot (x :: t) = x :: trim_dot t.
Proof. destruct t; [contradiction|reflexivity]. Qed.

Lemma trim_dot_snoc s c : trim_dot (s ++ [c]) = if c =? c_dot then s else s ++ [c].
Proof.
  induction s as [|x s IH].
  - reflexivity.
  - change ((x :: s) ++ [c]) with (x :: (s ++ [c])).
    rewrite trim_dot_cons by (destruct s; discriminate).
    rewrite IH. destruct (c =? c_dot); reflexivity.
Qed.

Lemma trim_dot_nil : trim_dot [] = [].
Proof. reflexivity. Qed.

(** TrimDot removes exactly one trailing dot and nothing else. *)
Lemma trim_dot_cases s :
  (exists s', s = s' ++ [c_dot] /\ trim_dot s = s') \/
  ((forall s', s <> s' ++ [c_dot]) /\ trim_dot s = s).
Proof.
  destruct s as [|x s] using rev_ind.
  - right. split; [intros [|? ?]; discriminate | reflexivity].
  - clear IHs. rewrite trim_dot_snoc. destruct (N.eqb_spec x c_dot) as [->|Hne].
    + left. exists s. auto.
    + right. split; [|reflexivity]. intros s' E. apply app_inj_tail in E as [_ E]. contradiction.
Qed.

Lemma to_lower_trim_dot s : to_lower (trim_dot s) = trim_dot (to_lower s).
Proof.
  destruct s as [|x s] using rev_ind; [reflexivity|]. clear IHs.
  unfold to_lower. rewrite map_app. cbn [map]. rewrite !trim_dot_snoc, lower_byte_dotb.
  destruct (x =? c_dot); [reflexivity|]. rewrite map_app. reflexivity.
Qed.

(** Case-insensitivity: names that differ only in case normalise alike. *)
Lemma normalize_case a b : to_lower a = to_lower b -> normalize a = normalize b.
Proof. unfold normalize. rewrite !to_lower_trim_dot. congruence. Qed.

Lemma normalize_lower s : normalize (to_lower s) = normalize s.
Proof. apply normalize_case. apply to_lower_idem. Qed.

(** One trailing dot is insignificant. *)
Lemma normalize_dot s : normalize (s ++ [c_dot]) = to_lower s.
Proof. unfold normalize. rewrite trim_dot_snoc. reflexivity. Qed.

(** * The reverse scanner *)

Definition nodot (s : str) : Prop := Forall (fun c => c <> c_dot) s.

Lemma last_index_from_snoc c i acc s x :
  last_index_from c i acc (s ++ [x]) =
  if x =? c then (i + Z.of_nat (length s))%Z else last_index_from c i acc s.
Proof.
  revert i acc. induction s as [|y s IH]; intros i acc.
  - cbn. destruct (x =? c); [lia|reflexivity].
  - cbn [app last_index_from length]. rewrite IH. destruct (x =? c); [lia|reflexivity].
Qed.

Lemma last_index_spec u :
  (nodot u /\ last_index_byte u c_dot = (-1)%Z) \/
  (exists a b, u = a ++ c_dot :: b /\ nodot b /\ last_index_byte u c_dot = Z.of_nat (length a)).
Proof.
  unfold last_index_byte. induction u as [|x u IH] using rev_ind.
  - left. split; [constructor | reflexivity].
  - rewrite last_index_from_snoc. destruct (N.eqb_spec x c_dot) as [->|Hne].
    + right. exists u, []. split; [reflexivity | split; [constructor | lia]].
    + destruct IH as [[Hn He] | (a & b & -> & Hb & He)].
      * left. split; [|exact He]. apply Forall_app. split; [exact Hn | constructor; [exact Hne | constructor]].
      * right. exists a, (b ++ [x]). rewrite <- app_assoc. split; [reflexivity|]. split; [|exact He].
        apply Forall_app. split; [exact Hb | constructor; [exact Hne | constructor]].
Qed.

(** ** reference splitting *)

Lemma split_dots_nonnil s : split_dots s <> [].
Proof. destruct s as [|c t]; cbn; [discriminate|]. destruct (c =? c_dot); [discriminate|].
  destruct (split_dots t); discriminate. Qed.

Lemma split_dots_nodot b : nodot b -> split_dots b = [b].
Proof.
  induction 1 as [|c t Hc Ht IH]; [reflexivity|].
  cbn [split_dots]. destruct (N.eqb_spec c c_dot); [contradiction|]. rewrite IH. reflexivity.
Qed.

Lemma split_dots_app a b : split_dots (a ++ c_dot :: b) = split_dots a ++ split_dots b.
Proof.
  induction a as [|c a IH].
  - cbn. reflexivity.
  - cbn [app split_dots]. destruct (c =? c_dot).
    + rewrite IH. reflexivity.
    + rewrite IH. destruct (split_dots a) as [|l ls] eqn:E; [exfalso; exact (split_dots_nonnil a E)|]. reflexivity.
Qed.

(** The scanner never reports a leading empty label ("" scans to nothing,
    ".a" to ["a"]): it stops as soon as p <= 0. *)
Definition drop_empty_head (ls : list str) : list str :=
  match ls with
  | [] :: t => t
  | _ => ls
  end.

Lemma drop_empty_head_app xs l : xs <> [] -> drop_empty_head (xs ++ [l]) = drop_empty_head xs ++ [l].
Proof.
  destruct xs as [|x xs]; [contradiction|]. intros _. destruct x; reflexivity.
Qed.

Lemma slice_prefix (u v : str) : slice (u ++ v) 0%Z (Z.of_nat (length u)) = u.
Proof.
  unfold slice. cbn [Z.to_nat skipn]. rewrite Z.sub_0_r, Nat2Z.id.
  rewrite firstn_app, Nat.sub_diag, firstn_all. cbn. apply app_nil_r.
Qed.

Lemma slice_middle (a b v : str) x :
  slice (a ++ x :: b ++ v) (Z.of_nat (length a) + 1)%Z (Z.of_nat (length (a ++ x :: b))) = b.
Proof.
  unfold slice. rewrite app_length. cbn [length].
  replace (Z.to_nat (Z.of_nat (length a) + 1)) with (length a + 1)%nat by lia.
  replace (Z.to_nat (Z.of_nat (length a + S (length b)) - (Z.of_nat (length a) + 1))) with (length b) by lia.
  replace (a ++ x :: b ++ v) with ((a ++ [x]) ++ b ++ v) by (rewrite <- app_assoc; reflexivity).
  rewrite skipn_app. rewrite app_length. cbn [length]. rewrite skipn_all2 by (rewrite app_length; cbn; lia).
  replace (length a + 1 - (length a + 1))%nat with 0%nat by lia. cbn [skipn app].
  rewrite firstn_app, Nat.sub_diag, firstn_all. cbn. apply app_nil_r.
Qed.

(** The loop started at position p = |u| of the string u ++ v yields the labels of
    u from right to left, whatever came before in [t]. *)
Lemma scan_loop_spec : forall (n : nat) (u v : str) (t : Z) (fuel : nat),
  length u = n -> (n < fuel)%nat ->
  scan_loop fuel (mk_scanner (u ++ v) (Z.of_nat (length u)) t) = rev (drop_empty_head (split_dots u)).
Proof.
  induction n as [n IH] using lt_wf_ind. intros u v t fuel Hn Hf.
  destruct fuel as [|fuel]; [lia|]. cbn [scan_loop]. unfold scan. cbn [sc_p sc_s].
  destruct (Z.leb_spec (Z.of_nat (length u)) 0) as [Hle|Hgt].
  - destruct u; [reflexivity | cbn in Hle; lia].
  - rewrite slice_prefix.
    destruct (last_index_spec u) as [[Hnd He] | (a & b & Hu & Hb & He)]; rewrite He.
    + (* no dot left: the last label is all of u *)
      unfold next_label. cbn [sc_s sc_p sc_t]. change (-1 + 1)%Z with 0%Z. rewrite slice_prefix.
      destruct fuel as [|fuel]; cbn [scan_loop]; rewrite (split_dots_nodot u Hnd).
      * destruct u; [cbn in Hgt; lia|reflexivity].
      * destruct u; [cbn in Hgt; lia|]. reflexivity.
    + subst u. unfold next_label. cbn [sc_s sc_p sc_t]. rewrite <- app_assoc. cbn [app].
      pose proof (slice_middle a b v c_dot) as Hs. rewrite Hs.
      rewrite (IH (length a)) with (u := a) (v := c_dot :: b ++ v); try reflexivity.
      * rewrite split_dots_app, (split_dots_nodot b Hb).
        rewrite drop_empty_head_app by apply split_dots_nonnil.
        rewrite rev_app_distr. reflexivity.
      * rewrite app_length in Hn. cbn in Hn. lia.
      * rewrite app_length in Hn. cbn in Hn. lia.
Qed.

(** What the scanner yields on every string, well-formed or not; in particular
    the fuel [length s + 1] is never exhausted. *)
Lemma scan_all_general s : scan_all s = rev (drop_empty_head (split_dots (trim_dot s))).
Proof.
  unfold scan_all, new_scanner.
  rewrite <- (app_nil_r (trim_dot s)) at 1.
  apply (scan_loop_spec (length (trim_dot s))); [reflexivity|].
  destruct (trim_dot_cases s) as [(s' & -> & ->) | [_ ->]]; [rewrite app_length; cbn|]; lia.
Qed.

Definition no_empty_label (s : str) : Prop := Forall (fun l => l <> []) (split_dots s).

(** A syntactically valid name: after normalisation every label is non-empty
    (so it is not empty, has no leading dot, no "..", and at most one trailing
    dot before normalisation). *)
Definition valid_name (s : str) : Prop := no_empty_label (normalize s).

Lemma no_empty_label_no_trailing_dot s : no_empty_label s -> trim_dot s = s.
Proof.
  intro H. destruct (trim_dot_cases s) as [(s' & -> & _) | [_ E]]; [|exact E].
  exfalso. unfold no_empty_label in H. rewrite split_dots_app in H. apply Forall_app in H as [_ H].
  cbn in H. inversion H as [|? ? H1 _]. apply H1. reflexivity.
Qed.

Lemma scanner_labels s : no_empty_label (trim_dot s) -> scan_all s = rev (split_dots (trim_dot s)).
Proof.
  intro H. rewrite scan_all_general. unfold no_empty_label in H.
  destruct (split_dots (trim_dot s)) as [|l ls]; [reflexivity|].
  inversion H as [|? ? H1 _]. destruct l; [contradiction|reflexivity].
Qed.

Lemma labels_valid s : valid_name s -> labels s = rev (split_dots (normalize s)).
Proof.
  intro H. unfold labels. rewrite scanner_labels; rewrite (no_empty_label_no_trailing_dot _ H); [reflexivity | exact H].
Qed.

Lemma normalize_idem s : valid_name s -> normalize (normalize s) = normalize s.
Proof.
  intro H. unfold normalize at 1. rewrite (no_empty_label_no_trailing_dot _ H).
  unfold normalize. apply to_lower_idem.
Qed.

(** * "The last rule with a given key" and folds of Add *)

Definition prefix_of {A} (p l : list A) : Prop := exists q, l = p ++ q.

Lemma prefix_of_same_length {A} (p p' l : list A) :
  prefix_of p l -> prefix_of p' l -> length p = length p' -> p = p'.
Proof.
  intros [q ->] [q' E] Hl. revert p' E Hl. induction p as [|x p IH]; intros [|y p'] E Hl; try discriminate.
  - reflexivity.
  - cbn in E. injection E as -> E. f_equal. apply IH; [exact E | cbn in Hl; lia].
Qed.

Section LastVal.
  Context {K V : Type}.
  Variable eqb : K -> K -> bool.
  Hypothesis eqb_spec : forall a b, eqb a b = true <-> a = b.
  Variable kf : str -> K.

  (** value of the last rule of [rs] whose pattern has key [k] *)
  Fixpoint last_val (k : K) (rs : list (str * V)) : option V :=
    match rs with
    | [] => None
    | (p, v) :: t =>
      match last_val k t with
      | Some v' => Some v'
      | None => if eqb k (kf p) then Some v else None
      end
    end.

  Lemma last_val_none k rs : last_val k rs = None <-> Forall (fun r => kf (fst r) <> k) rs.
  Proof.
    induction rs as [|[p v] t IH]; cbn [last_val].
    - split; [constructor | reflexivity].
    - destruct (last_val k t) eqn:E.
      + split; [discriminate|]. intro H. inversion H as [|? ? _ Ht]. apply IH in Ht. discriminate.
      + destruct (eqb k (kf p)) eqn:Ek.
        * split; [discriminate|]. intro H. inversion H as [|? ? Hp _]. apply eqb_spec in Ek. cbn in Hp. congruence.
        * split; [|reflexivity]. intros _. constructor; [|apply IH; reflexivity].
          cbn. intro Hk. assert (eqb k (kf p) = true) by (apply eqb_spec; congruence). congruence.
  Qed.

  Lemma last_val_some k rs v :
    last_val k rs = Some v <->
    exists rs1 p rs2, rs = rs1 ++ (p, v) :: rs2 /\ kf p = k /\ Forall (fun r => kf (fst r) <> k) rs2.
  Proof.
    split.
    - revert v. induction rs as [|[p0 v0] t IH]; intros v H; [discriminate|]. cbn [last_val] in H.
      destruct (last_val k t) eqn:E.
      + injection H as ->. destruct (IH v eq_refl) as (rs1 & p & rs2 & -> & Hk & Hf).
        exists ((p0, v0) :: rs1), p, rs2. auto.
      + destruct (eqb k (kf p0)) eqn:Ek; [|discriminate]. injection H as ->.
        exists [], p0, t. split; [reflexivity|]. split; [symmetry; apply eqb_spec; exact Ek | apply last_val_none; exact E].
    - intros (rs1 & p & rs2 & -> & Hk & Hf). induction rs1 as [|[p0 v0] rs1 IH].
      + cbn [app last_val]. apply last_val_none in Hf. rewrite Hf.
        assert (eqb k (kf p) = true) as -> by (apply eqb_spec; congruence). reflexivity.
      + cbn [app last_val]. rewrite IH. reflexivity.
  Qed.

  Lemma last_val_in k rs v : last_val k rs = Some v -> exists p, In (p, v) rs /\ kf p = k.
  Proof.
    intro H. apply last_val_some in H as (rs1 & p & rs2 & -> & Hk & _).
    exists p. split; [apply in_or_app; right; left; reflexivity | exact Hk].
  Qed.

  Lemma last_val_none_in k rs p v : last_val k rs = None -> In (p, v) rs -> kf p <> k.
  Proof.
    intros H Hin. apply last_val_none in H. rewrite Forall_forall in H. exact (H _ Hin).
  Qed.

  (** A store whose Add overwrites exactly the slot [kf pattern]: after a
      sequence of Adds every slot holds the value of the last rule for it. *)
  Lemma fold_lookup {S : Type} (look : K -> S -> option V) (addf : str -> V -> S -> S) :
    (forall k p v s, look k (addf p v s) = if eqb k (kf p) then Some v else look k s) ->
    forall rs s0 k,
      look k (add_all addf rs s0) = match last_val k rs with Some v => Some v | None => look k s0 end.
  Proof.
    intros Hadd. unfold add_all. induction rs as [|[p v] t IH]; intros s0 k.
    - reflexivity.
    - cbn [fold_left fst snd last_val]. rewrite IH, Hadd. destruct (last_val k t); [reflexivity|].
      destruct (eqb k (kf p)); reflexivity.
  Qed.

  (** keys that fail a test on the key never show up *)
  Lemma last_val_filter (P : K -> bool) k rs :
    last_val k (filter (fun r => P (kf (fst r))) rs) = if P k then last_val k rs else None.
  Proof.
    induction rs as [|[p v] t IH]; cbn [filter fst last_val].
    - destruct (P k); reflexivity.
    - destruct (P (kf p)) eqn:Ep; cbn [last_val]; rewrite IH; destruct (P k) eqn:Ek; try reflexivity.
      + destruct (eqb k (kf p)) eqn:E; [|reflexivity]. apply eqb_spec in E. congruence.
      + destruct (last_val k t); [reflexivity|].
        destruct (eqb k (kf p)) eqn:E; [|reflexivity]. apply eqb_spec in E. congruence.
  Qed.
End LastVal.

(** * Go maps *)

Section AMapFacts.
  Context {V : Type}.

  Lemma str_eqb_sym a b : str_eqb a b = str_eqb b a.
  Proof.
    destruct (str_eqb a b) eqn:E.
    - apply str_eqb_spec in E. subst. symmetry. apply str_eqb_refl.
    - symmetry. apply str_eqb_neq. apply str_eqb_neq in E. congruence.
  Qed.

  Lemma map_get_set k k' (v : V) m :
    map_get k (map_set k' v m) = if str_eqb k k' then Some v else map_get k m.
  Proof.
    induction m as [|[k0 v0] m IH]; cbn [map_set map_get].
    - destruct (str_eqb k k'); reflexivity.
    - destruct (str_eqb k' k0) eqn:E; cbn [map_get].
      + apply str_eqb_spec in E. subst k0. destruct (str_eqb k k'); reflexivity.
      + rewrite IH. destruct (str_eqb k k0) eqn:E0; [|reflexivity].
        apply str_eqb_spec in E0. subst k0. rewrite str_eqb_sym, E. reflexivity.
  Qed.

  Definition keys_nodup (m : amap V) : Prop := NoDup (map fst m).

  Lemma map_set_keys k (v : V) m k0 :
    In k0 (map fst (map_set k v m)) -> k0 = k \/ In k0 (map fst m).
  Proof.
    induction m as [|[k1 v1] m IH]; cbn [map_set].
    - cbn. intros [H|[]]. left. congruence.
    - destruct (str_eqb k k1) eqn:E.
      + apply str_eqb_spec in E. subst k1. cbn. tauto.
      + cbn [map fst In]. intros [H|H]; [right; left; exact H|]. apply IH in H. tauto.
  Qed.

  Lemma map_set_nodup k (v : V) m : keys_nodup m -> keys_nodup (map_set k v m).
  Proof.
    unfold keys_nodup. induction m as [|[k1 v1] m IH]; cbn [map_set]; intro H.
    - cbn. constructor; [intros []|constructor].
    - destruct (str_eqb k k1) eqn:E.
      + apply str_eqb_spec in E. subst k1. exact H.
      + cbn [map fst] in *. inversion H as [|? ? Hn Hm]. constructor; [|apply IH; exact Hm].
        intro Hin. apply map_set_keys in Hin as [->|Hin]; [|contradiction].
        rewrite str_eqb_refl in E. discriminate.
  Qed.

  Lemma in_map_get k (v : V) m : keys_nodup m -> (In (k, v) m <-> map_get k m = Some v).
  Proof.
    unfold keys_nodup. induction m as [|[k1 v1] m IH]; cbn [map fst map_get In]; intro H.
    - split; [intros []|discriminate].
    - inversion H as [|? ? Hn Hm]. destruct (str_eqb k k1) eqn:E.
      + apply str_eqb_spec in E. subst k1. split.
        * intros [E1|Hin]; [congruence|]. exfalso. apply Hn. apply (in_map fst) in Hin. cbn in Hin. congruence.
        * intro E1. left. congruence.
      + apply str_eqb_neq in E. rewrite <- (IH Hm). split.
        * intros [E1|Hin]; [congruence|exact Hin].
        * intro Hin. right. exact Hin.
  Qed.

  Lemma add_all_nodup (kf : str -> str) rs (m : amap V) :
    keys_nodup m -> keys_nodup (add_all (fun p v m => map_set (kf p) v m) rs m).
  Proof.
    unfold add_all. revert m. induction rs as [|[p v] t IH]; intros m H; [exact H|].
    cbn [fold_left]. apply IH. apply map_set_nodup. exact H.
  Qed.

  (** the value list of the entries whose key passes a test *)
  Lemma in_filter_vals (P : str -> bool) (m : amap V) v :
    In v (map snd (filter (fun kv => P (fst kv)) m)) <-> exists k, In (k, v) m /\ P k = true.
  Proof.
    rewrite in_map_iff. split.
    - intros ([k v'] & E & Hin). cbn in E. subst v'. apply filter_In in Hin as [Hin HP]. exists k. auto.
    - intros (k & Hin & HP). exists (k, v). split; [reflexivity|]. apply filter_In. auto.
  Qed.
End AMapFacts.

(** * The label trie *)

Section TrieFacts.
  Context {V : Type}.

  (** the value stored exactly at [path]; [None] also when the node does not exist *)
  Fixpoint value_at (p : list str) (t : trie V) : option V :=
    match p with
    | [] => value t
    | l :: p' =>
      match map_get l (children t) with
      | Some c => value_at p' c
      | None => None
      end
    end.

  Lemma value_at_empty p : value_at p (@empty_trie V) = None.
  Proof. destruct p; reflexivity. Qed.

  Lemma value_at_add r (v : V) : forall t p,
    value_at p (add r v t) = if lstr_eqb p r then Some v else value_at p t.
  Proof.
    induction r as [|l r IH]; intros t p.
    - destruct p as [|l0 p]; reflexivity.
    - cbn [add].
      assert (H : forall c0, value_at p (Node (value t) (map_set l (add r v c0) (children t))) =
                 if lstr_eqb p (l :: r) then Some v
                 else match p with [] => value t | l0 :: p' =>
                        if str_eqb l0 l then value_at p' c0
                        else match map_get l0 (children t) with Some c => value_at p' c | None => None end end).
      { intro c0. destruct p as [|l0 p']; [reflexivity|].
        cbn [value_at children]. rewrite map_get_set. unfold lstr_eqb. cbn [list_eqb].
        destruct (str_eqb l0 l); [|reflexivity]. cbn [andb]. rewrite IH. reflexivity. }
      destruct (map_get l (children t)) as [c|] eqn:E; rewrite H; destruct (lstr_eqb p (l :: r)); try reflexivity;
        destruct p as [|l0 p']; try reflexivity; cbn [value_at];
        destruct (str_eqb l0 l) eqn:E0; try reflexivity;
        apply str_eqb_spec in E0; subst l0; rewrite E; [reflexivity | apply value_at_empty].
  Qed.

  (** the loop of Match *)
  Fixpoint deepest (ls : list str) (t : trie V) : option V :=
    match ls with
    | [] => None
    | l :: ls' =>
      match map_get l (children t) with
      | None => None
      | Some n => match deepest ls' n with Some v => Some v | None => value n end
      end
    end.

  Lemma walk_deepest : forall ls (t : trie V) cur,
    walk ls t cur = match deepest ls t with Some v => Some v | None => cur end.
  Proof.
    induction ls as [|l ls IH]; intros t cur; [reflexivity|].
    cbn [walk deepest]. destruct (map_get l (children t)) as [n|]; [|reflexivity].
    rewrite IH. destruct (deepest ls n); [reflexivity|]. destruct (value n); reflexivity.
  Qed.

  Definition best (ls : list str) (t : trie V) : option V := walk ls t (value t).

  Lemma best_nil t : best [] t = value t.
  Proof. reflexivity. Qed.

  Lemma best_cons l ls t :
    best (l :: ls) t =
    match map_get l (children t) with
    | None => value t
    | Some n => match best ls n with Some v => Some v | None => value t end
    end.
  Proof.
    unfold best. cbn [walk]. destruct (map_get l (children t)) as [n|]; [|reflexivity].
    rewrite !walk_deepest. destruct (deepest ls n); [reflexivity|]. destruct (value n); reflexivity.
  Qed.

  (** [v] is the value at the longest prefix of [ls] that carries a value *)
  Definition deepest_value (ls : list str) (t : trie V) (v : V) : Prop :=
    exists p, prefix_of p ls /\ value_at p t = Some v /\
      forall p', prefix_of p' ls -> (length p < length p')%nat -> value_at p' t = None.

  Lemma best_none : forall ls t, best ls t = None -> forall p, prefix_of p ls -> value_at p t = None.
  Proof.
    induction ls as [|l ls IH]; intros t H p [q Hq].
    - destruct p; [exact H | discriminate].
    - rewrite best_cons in H. destruct p as [|l0 p].
      + cbn. destruct (map_get l (children t)) as [n|]; [|exact H]. destruct (best ls n); [discriminate|exact H].
      + cbn in Hq. injection Hq as <- Hq. cbn [value_at].
        destruct (map_get l (children t)) as [n|]; [|reflexivity].
        destruct (best ls n) eqn:E; [discriminate|]. apply (IH n E). exists q. exact Hq.
  Qed.

  Lemma best_some : forall ls t v, best ls t = Some v -> deepest_value ls t v.
  Proof.
    induction ls as [|l ls IH]; intros t v H.
    - exists []. split; [exists []; reflexivity|]. split; [exact H|].
      intros p' [q Hq] Hl. destruct p'; [cbn in Hl; lia | discriminate].
    - rewrite best_cons in H. destruct (map_get l (children t)) as [n|] eqn:En.
      + destruct (best ls n) as [v'|] eqn:Eb.
        * injection H as ->. destruct (IH n v Eb) as (p & [q Hq] & Hv & Hmax).
          exists (l :: p). split; [exists q; cbn; congruence|]. split; [cbn [value_at]; rewrite En; exact Hv|].
          intros p' [q' Hq'] Hl. destruct p' as [|l0 p']; [cbn in Hl; lia|].
          cbn in Hq'. injection Hq' as <- Hq'. cbn [value_at]. rewrite En.
          apply Hmax; [exists q'; exact Hq' | cbn in Hl; lia].
        * exists []. split; [exists (l :: ls); reflexivity|]. split; [exact H|].
          intros p' [q' Hq'] Hl. destruct p' as [|l0 p']; [cbn in Hl; lia|].
          cbn in Hq'. injection Hq' as <- Hq'. cbn [value_at]. rewrite En.
          apply (best_none ls n Eb). exists q'. exact Hq'.
      + exists []. split; [exists (l :: ls); reflexivity|]. split; [exact H|].
        intros p' [q' Hq'] Hl. destruct p' as [|l0 p']; [cbn in Hl; lia|].
        cbn in Hq'. injection Hq' as <- Hq'. cbn [value_at]. rewrite En. reflexivity.
  Qed.

  Lemma deepest_value_unique ls t v v' : deepest_value ls t v -> deepest_value ls t v' -> v = v'.
  Proof.
    intros (p & Hp & Hv & Hmax) (p' & Hp' & Hv' & Hmax').
    destruct (Nat.lt_trichotomy (length p) (length p')) as [Hl|[Hl|Hl]].
    - rewrite (Hmax p' Hp' Hl) in Hv'. discriminate.
    - rewrite (prefix_of_same_length p p' ls Hp Hp' Hl) in Hv. congruence.
    - rewrite (Hmax' p Hp Hl) in Hv. discriminate.
  Qed.

  (** Match returns the value at the longest prefix that carries one *)
  Lemma best_iff ls t v : best ls t = Some v <-> deepest_value ls t v.
  Proof.
    split; [apply best_some|]. intro H. destruct (best ls t) as [v'|] eqn:E.
    - apply best_some in E. f_equal. exact (deepest_value_unique ls t v' v E H).
    - destruct H as (p & Hp & Hv & _). rewrite (best_none ls t E p Hp) in Hv. discriminate.
  Qed.

  Lemma best_none_iff ls t : best ls t = None <-> forall p, prefix_of p ls -> value_at p t = None.
  Proof.
    split; [apply best_none|]. intro H. destruct (best ls t) as [v|] eqn:E; [|reflexivity].
    apply best_some in E as (p & Hp & Hv & _). rewrite (H p Hp) in Hv. discriminate.
  Qed.
End TrieFacts.

(** * Substrings *)

Lemma is_prefix_iff k s : is_prefix k s = true <-> exists b, s = k ++ b.
Proof.
  revert s. induction k as [|x k IH]; intros s.
  - cbn. split; [intros _; exists s; reflexivity | reflexivity].
  - destruct s as [|y s]; cbn [is_prefix].
    + split; [discriminate | intros [b Hb]; discriminate].
    + rewrite andb_true_iff, N.eqb_eq, IH. split.
      * intros [-> [b ->]]. exists b. reflexivity.
      * intros [b Hb]. cbn in Hb. injection Hb as -> ->. split; [reflexivity | exists b; reflexivity].
Qed.

(** strings.Contains *)
Lemma contains_iff s k : contains s k = true <-> exists a b, s = a ++ k ++ b.
Proof.
  induction s as [|y s IH].
  - cbn [contains]. rewrite orb_false_r, is_prefix_iff. split.
    + intros [b Hb]. exists [], b. exact Hb.
    + intros (a & b & H). destruct a; [exists b; exact H | discriminate].
  - cbn [contains]. rewrite orb_true_iff, is_prefix_iff, IH. split.
    + intros [[b Hb] | (a & b & ->)]; [exists [], b; exact Hb | exists (y :: a), b; reflexivity].
    + intros (a & b & H). destruct a as [|x a].
      * left. exists b. exact H.
      * right. cbn in H. injection H as -> ->. exists a, b. reflexivity.
Qed.

(** * The four matchers *)

Section MatcherFacts.
  Context {V : Type}.

  (** ** full *)

  Lemma full_lookup rs (n : str) :
    full_match (add_all full_add rs ([] : amap V)) n = last_val str_eqb normalize (normalize n) rs.
  Proof.
    unfold full_match.
    rewrite (fold_lookup str_eqb normalize (fun k m => map_get k m) full_add).
    - destruct (last_val str_eqb normalize (normalize n) rs); reflexivity.
    - intros k p v s. unfold full_add. apply map_get_set.
  Qed.

  Lemma full_iff rs (n : str) (v : V) :
    full_match (add_all full_add rs []) n = Some v <->
    exists rs1 p rs2, rs = rs1 ++ (p, v) :: rs2 /\ normalize p = normalize n /\
                      Forall (fun r => normalize (fst r) <> normalize n) rs2.
  Proof. rewrite full_lookup. apply (last_val_some str_eqb str_eqb_spec). Qed.

  Lemma full_none_iff rs (n : str) :
    full_match (add_all full_add rs ([] : amap V)) n = None <->
    Forall (fun r => normalize (fst r) <> normalize n) rs.
  Proof. rewrite full_lookup. apply (last_val_none str_eqb str_eqb_spec). Qed.

  (** ** domain *)

  Lemma sub_value_at rs (p : list str) :
    value_at p (add_all sub_add rs (@empty_trie V)) = last_val lstr_eqb labels p rs.
  Proof.
    rewrite (fold_lookup lstr_eqb labels (fun k t => value_at k t) sub_add).
    - rewrite value_at_empty. destruct (last_val lstr_eqb labels p rs); reflexivity.
    - intros k q v s. unfold sub_add. apply value_at_add.
  Qed.

  Lemma domain_iff rs (n : str) (v : V) :
    sub_match (add_all sub_add rs empty_trie) n = Some v <->
    exists rs1 r rs2, rs = rs1 ++ (r, v) :: rs2 /\
      prefix_of (labels r) (labels n) /\
      (forall r' v', In (r', v') rs1 -> prefix_of (labels r') (labels n) ->
                     (length (labels r') <= length (labels r))%nat) /\
      (forall r' v', In (r', v') rs2 -> prefix_of (labels r') (labels n) ->
                     (length (labels r') < length (labels r))%nat).
  Proof.
    change (sub_match (add_all sub_add rs empty_trie) n) with (best (labels n) (add_all sub_add rs (@empty_trie V))).
    rewrite best_iff. unfold deepest_value. split.
    - intros (p & Hp & Hv & Hmax). rewrite sub_value_at in Hv.
      apply (last_val_some lstr_eqb lstr_eqb_spec) in Hv as (rs1 & r & rs2 & -> & Hk & Hf).
      exists rs1, r, rs2. split; [reflexivity|]. subst p. split; [exact Hp|].
      assert (Hlong : forall r' v', In (r', v') (rs1 ++ (r, v) :: rs2) -> prefix_of (labels r') (labels n) ->
                                    (length (labels r') <= length (labels r))%nat).
      { intros r' v' Hin Hpre. destruct (Nat.le_gt_cases (length (labels r')) (length (labels r))) as [Hle|Hgt]; [exact Hle|].
        exfalso. pose proof (Hmax _ Hpre Hgt) as Hn. rewrite sub_value_at in Hn.
        exact (last_val_none_in lstr_eqb lstr_eqb_spec labels _ _ _ _ Hn Hin eq_refl). }
      split.
      + intros r' v' Hin. apply (Hlong r' v'). apply in_or_app. left. exact Hin.
      + intros r' v' Hin Hpre.
        assert (Hin' : In (r', v') (rs1 ++ (r, v) :: rs2)) by (apply in_or_app; right; right; exact Hin).
        assert (Hle := Hlong r' v' Hin' Hpre).
        destruct (Nat.eq_dec (length (labels r')) (length (labels r))) as [He|Hne]; [|lia].
        exfalso. rewrite Forall_forall in Hf. apply (Hf _ Hin). cbn [fst].
        exact (prefix_of_same_length _ _ _ Hpre Hp He).
    - intros (rs1 & r & rs2 & -> & Hp & H1 & H2). exists (labels r). split; [exact Hp|]. split.
      + rewrite sub_value_at. apply (last_val_some lstr_eqb lstr_eqb_spec).
        exists rs1, r, rs2. split; [reflexivity|]. split; [reflexivity|].
        apply Forall_forall. intros [r' v'] Hin E. cbn [fst] in E.
        assert (Hl := H2 r' v' Hin). rewrite E in Hl. specialize (Hl Hp). lia.
      + intros p' Hp' Hl. rewrite sub_value_at.
        destruct (last_val lstr_eqb labels p' (rs1 ++ (r, v) :: rs2)) as [v'|] eqn:E; [|reflexivity]. exfalso.
        apply (last_val_in lstr_eqb lstr_eqb_spec) in E as (r' & Hin & <-).
        apply in_app_or in Hin as [Hin | [Hin | Hin]].
        * specialize (H1 r' v' Hin Hp'). lia.
        * injection Hin as <- _. lia.
        * specialize (H2 r' v' Hin Hp'). lia.
  Qed.

  Lemma domain_none_iff rs (n : str) :
    sub_match (add_all sub_add rs (@empty_trie V)) n = None <->
    forall r v, In (r, v) rs -> ~ prefix_of (labels r) (labels n).
  Proof.
    change (sub_match (add_all sub_add rs empty_trie) n) with (best (labels n) (add_all sub_add rs (@empty_trie V))).
    rewrite best_none_iff. split.
    - intros H r v Hin Hp. specialize (H _ Hp). rewrite sub_value_at in H.
      exact (last_val_none_in lstr_eqb lstr_eqb_spec labels _ _ _ _ H Hin eq_refl).
    - intros H p Hp. rewrite sub_value_at.
      destruct (last_val lstr_eqb labels p rs) as [v|] eqn:E; [|reflexivity]. exfalso.
      apply (last_val_in lstr_eqb lstr_eqb_spec) in E as (r & Hin & <-). exact (H r v Hin Hp).
  Qed.

  (** ** keyword *)

  Lemma kw_entries rs (k : str) (v : V) :
    In (k, v) (add_all kw_add rs []) <-> last_val str_eqb normalize k rs = Some v.
  Proof.
    rewrite in_map_get.
    - rewrite (fold_lookup str_eqb normalize (fun k m => map_get k m) kw_add).
      + cbn [map_get]. destruct (last_val str_eqb normalize k rs); split; congruence.
      + intros k0 p v0 s. unfold kw_add. apply map_get_set.
    - apply (add_all_nodup normalize). constructor.
  Qed.

  Lemma keyword_iff rs (n : str) (v : V) :
    In v (kw_allowed (add_all kw_add rs []) n) <->
    exists rs1 p rs2, rs = rs1 ++ (p, v) :: rs2 /\
      contains (normalize n) (normalize p) = true /\
      Forall (fun r => normalize (fst r) <> normalize p) rs2.
  Proof.
    unfold kw_allowed. rewrite (in_filter_vals (fun k => contains (normalize n) k)). split.
    - intros (k & Hin & Hc). apply kw_entries in Hin.
      apply (last_val_some str_eqb str_eqb_spec) in Hin as (rs1 & p & rs2 & -> & <- & Hf).
      exists rs1, p, rs2. auto.
    - intros (rs1 & p & rs2 & -> & Hc & Hf). exists (normalize p). split; [|exact Hc].
      apply kw_entries. apply (last_val_some str_eqb str_eqb_spec). exists rs1, p, rs2. auto.
  Qed.

End MatcherFacts.

Section RegexpFacts.
  Context {V : Type}.
  Variable re_valid : str -> bool.
  Variable re_match : str -> str -> bool.

  (** ** regexp *)

  Definition re_keys_valid (m : amap V) : Prop := forall e, In e (map fst m) -> re_valid e = true.

  Lemma map_get_in_keys (m : amap V) k v : map_get k m = Some v -> In k (map fst m).
  Proof.
    induction m as [|[k1 v1] m IH]; cbn [map_get]; [discriminate|].
    destruct (str_eqb k k1) eqn:E.
    - intros _. left. apply str_eqb_spec in E. cbn. congruence.
    - intro H. right. exact (IH H).
  Qed.

  Lemma re_add_skip_eq e v (m : amap V) :
    re_keys_valid m -> re_add_skip re_valid e v m = if re_valid e then map_set e v m else m.
  Proof.
    intro Hm. unfold re_add_skip, re_add. destruct (map_get e m) as [v0|] eqn:E.
    - rewrite (Hm e (map_get_in_keys m e v0 E)). reflexivity.
    - destruct (re_valid e); reflexivity.
  Qed.

  Lemma re_add_all_filter rs : forall m : amap V,
    re_keys_valid m ->
    add_all (re_add_skip re_valid) rs m =
    add_all (fun p v m => map_set p v m) (filter (fun r => re_valid (fst r)) rs) m.
  Proof.
    unfold add_all. induction rs as [|[e v] t IH]; intros m Hm; [reflexivity|].
    cbn [fold_left filter fst snd]. rewrite re_add_skip_eq by exact Hm.
    destruct (re_valid e) eqn:Ee; cbn [fold_left fst snd]; apply IH; [|exact Hm].
    intros e0 Hin. apply map_set_keys in Hin as [->|Hin]; [exact Ee | exact (Hm _ Hin)].
  Qed.

  Lemma re_entries rs (e : str) (v : V) :
    In (e, v) (add_all (re_add_skip re_valid) rs []) <->
    re_valid e = true /\ last_val str_eqb (fun p => p) e rs = Some v.
  Proof.
    rewrite re_add_all_filter by (intros ? []).
    rewrite in_map_get by (apply (add_all_nodup (fun p => p)); constructor).
    rewrite (fold_lookup str_eqb (fun p => p) (fun k m => map_get k m) (fun p v m => map_set p v m))
      by (intros; apply map_get_set).
    cbn [map_get].
    rewrite (last_val_filter str_eqb str_eqb_spec (fun p => p) re_valid).
    destruct (re_valid e); [|split; [discriminate | intros [? _]; discriminate]].
    destruct (last_val str_eqb (fun p => p) e rs); split; try tauto; try congruence.
  Qed.

  Lemma regexp_iff rs (n : str) (v : V) :
    In v (re_allowed re_match (add_all (re_add_skip re_valid) rs []) n) <->
    exists rs1 e rs2, rs = rs1 ++ (e, v) :: rs2 /\
      re_valid e = true /\ re_match e (normalize n) = true /\
      Forall (fun r => fst r <> e) rs2.
  Proof.
    unfold re_allowed. rewrite (in_filter_vals (fun k => re_match k (normalize n))). split.
    - intros (e & Hin & Hm). apply re_entries in Hin as [Hv Hl].
      apply (last_val_some str_eqb str_eqb_spec) in Hl as (rs1 & p & rs2 & -> & <- & Hf).
      exists rs1, p, rs2. auto.
    - intros (rs1 & e & rs2 & -> & Hv & Hm & Hf). exists e. split; [|exact Hm].
      apply re_entries. split; [exact Hv|]. apply (last_val_some str_eqb str_eqb_spec). exists rs1, e, rs2. auto.
  Qed.
End RegexpFacts.

(** * The mix matcher *)

Definition rtype_eqb (a b : rtype) : bool :=
  match a, b with
  | TFull, TFull | TDomain, TDomain | TRegexp, TRegexp | TKeyword, TKeyword => true
  | _, _ => false
  end.

Lemma rtype_eqb_spec a b : rtype_eqb a b = true <-> a = b.
Proof. destruct a, b; cbn; split; congruence. Qed.

(** The (pattern, value) pairs that a sequence of MixMatcher.Add calls hands to
    the matcher of type [ty], in order ([dflt] = the default type). *)
Definition rules_of {V} (dflt : str) (ty : rtype) (rs : list (str * V)) : list (str * V) :=
  flat_map (fun r => match parse_rule dflt (fst r) with
                     | Ok (ty', pat) => if rtype_eqb ty ty' then [(pat, snd r)] else []
                     | Er _ => []
                     end) rs.

Lemma in_rules_of {V} dflt ty (rs : list (str * V)) pat v :
  In (pat, v) (rules_of dflt ty rs) <-> exists s, In (s, v) rs /\ parse_rule dflt s = Ok (ty, pat).
Proof.
  unfold rules_of. rewrite in_flat_map. split.
  - intros ([s v0] & Hin & H). cbn [fst snd] in H. destruct (parse_rule dflt s) as [[ty' pat']|e] eqn:E; [|destruct H].
    destruct (rtype_eqb ty ty') eqn:Et; [|destruct H]. apply rtype_eqb_spec in Et. subst ty'.
    destruct H as [H|[]]. injection H as -> ->. exists s. auto.
  - intros (s & Hin & E). exists (s, v). split; [exact Hin|]. cbn [fst snd]. rewrite E.
    assert (rtype_eqb ty ty = true) as -> by (apply rtype_eqb_spec; reflexivity). left. reflexivity.
Qed.

Section MatchesFacts.
  Context {V : Type}.

  Lemma add_all_cons {S} (addf : str -> V -> S -> S) p v rs s0 :
    add_all addf ((p, v) :: rs) s0 = add_all addf rs (addf p v s0).
  Proof. reflexivity. Qed.

  (** ** "matches iff some rule describes the name", matcher by matcher *)

  Lemma full_matches_iff (rs : list (str * V)) (n : str) :
    full_match (add_all full_add rs []) n <> None <->
    exists p v, In (p, v) rs /\ normalize p = normalize n.
  Proof.
    split.
    - intro H. destruct (full_match (add_all full_add rs []) n) as [v|] eqn:E; [|contradiction].
      apply full_iff in E as (rs1 & p & rs2 & -> & Hp & _). exists p, v.
      split; [apply in_or_app; right; left; reflexivity | exact Hp].
    - intros (p & v & Hin & Hp) E. apply full_none_iff in E. rewrite Forall_forall in E. exact (E _ Hin Hp).
  Qed.

  Lemma domain_matches_iff (rs : list (str * V)) (n : str) :
    sub_match (add_all sub_add rs empty_trie) n <> None <->
    exists p v, In (p, v) rs /\ prefix_of (labels p) (labels n).
  Proof.
    split.
    - intro H. destruct (sub_match (add_all sub_add rs empty_trie) n) as [v|] eqn:E; [|contradiction].
      apply domain_iff in E as (rs1 & p & rs2 & -> & Hp & _). exists p, v.
      split; [apply in_or_app; right; left; reflexivity | exact Hp].
    - intros (p & v & Hin & Hp) E. rewrite domain_none_iff in E. exact (E p v Hin Hp).
  Qed.

  Lemma nonempty_in {A} (l : list A) : l <> [] <-> exists x, In x l.
  Proof.
    destruct l as [|x l].
    - split; [congruence | intros [x []]].
    - split; [intros _; exists x; left; reflexivity | discriminate].
  Qed.

  Lemma keyword_matches_iff (rs : list (str * V)) (n : str) :
    kw_allowed (add_all kw_add rs []) n <> [] <->
    exists p v, In (p, v) rs /\ contains (normalize n) (normalize p) = true.
  Proof.
    rewrite nonempty_in. split.
    - intros [v Hv]. apply keyword_iff in Hv as (rs1 & p & rs2 & -> & Hc & _). exists p, v.
      split; [apply in_or_app; right; left; reflexivity | exact Hc].
    - intros (p & v & Hin & Hc).
      destruct (last_val str_eqb normalize (normalize p) rs) as [v'|] eqn:E.
      + exists v'. unfold kw_allowed. apply (in_filter_vals (fun k => contains (normalize n) k)).
        exists (normalize p). split; [apply kw_entries; exact E | exact Hc].
      + exfalso. exact (last_val_none_in str_eqb str_eqb_spec normalize _ _ _ _ E Hin eq_refl).
  Qed.

End MatchesFacts.

Section MixFacts.
  Context {V : Type}.
  Variable re_valid : str -> bool.
  Variable re_match : str -> str -> bool.

  (** The four matchers inside a MixMatcher are exactly the four single matchers
      fed with the rules of their type. *)
  Lemma mix_components_from dflt (rs : list (str * V)) : forall m : mix,
    fst (mix_add_all re_valid dflt rs m) =
    mk_mix (add_all full_add (rules_of dflt TFull rs) (m_full m))
           (add_all sub_add (rules_of dflt TDomain rs) (m_dom m))
           (add_all (re_add_skip re_valid) (rules_of dflt TRegexp rs) (m_re m))
           (add_all kw_add (rules_of dflt TKeyword rs) (m_kw m)).
  Proof.
    induction rs as [|[s v] t IH]; intro m.
    - destruct m; reflexivity.
    - cbn [mix_add_all]. unfold mix_add. unfold rules_of. cbn [flat_map fst snd]. fold (@rules_of V dflt).
      destruct (parse_rule dflt s) as [[ty pat]|e] eqn:E.
      + destruct ty; cbn [typed_add rtype_eqb app].
        * destruct (mix_add_all re_valid dflt t _) as [mf es] eqn:Em. cbn [fst].
          change mf with (fst (mf, es)). rewrite <- Em, IH. reflexivity.
        * destruct (mix_add_all re_valid dflt t _) as [mf es] eqn:Em. cbn [fst].
          change mf with (fst (mf, es)). rewrite <- Em, IH. reflexivity.
        * rewrite add_all_cons. unfold re_add_skip at 2. destruct (re_add re_valid pat v (m_re m)) as [r|].
          -- destruct (mix_add_all re_valid dflt t _) as [mf es] eqn:Em. cbn [fst].
             change mf with (fst (mf, es)). rewrite <- Em, IH. reflexivity.
          -- destruct (mix_add_all re_valid dflt t m) as [mf es] eqn:Em. cbn [fst].
             change mf with (fst (mf, es)). rewrite <- Em, IH. reflexivity.
        * destruct (mix_add_all re_valid dflt t _) as [mf es] eqn:Em. cbn [fst].
          change mf with (fst (mf, es)). rewrite <- Em, IH. reflexivity.
      + cbn [app]. destruct (mix_add_all re_valid dflt t m) as [mf es] eqn:Em. cbn [fst].
        change mf with (fst (mf, es)). rewrite <- Em, IH. reflexivity.
  Qed.

  Lemma mix_components dflt (rs : list (str * V)) :
    fst (mix_add_all re_valid dflt rs empty_mix) =
    mk_mix (add_all full_add (rules_of dflt TFull rs) [])
           (add_all sub_add (rules_of dflt TDomain rs) empty_trie)
           (add_all (re_add_skip re_valid) (rules_of dflt TRegexp rs) [])
           (add_all kw_add (rules_of dflt TKeyword rs) []).
  Proof. apply mix_components_from. Qed.

  (** Match asks full, domain, regexp, keyword in this order; the first that
      matches decides the value. *)
  Lemma mix_precedence dflt (rs : list (str * V)) (n : str) :
    mix_allowed re_match (fst (mix_add_all re_valid dflt rs empty_mix)) n =
    match full_match (add_all full_add (rules_of dflt TFull rs) []) n with
    | Some v => [v]
    | None =>
      match sub_match (add_all sub_add (rules_of dflt TDomain rs) empty_trie) n with
      | Some v => [v]
      | None =>
        match re_allowed re_match (add_all (re_add_skip re_valid) (rules_of dflt TRegexp rs) []) n with
        | (_ :: _) as vs => vs
        | [] => kw_allowed (add_all kw_add (rules_of dflt TKeyword rs) []) n
        end
      end
    end.
  Proof. rewrite mix_components. reflexivity. Qed.

  Lemma regexp_matches_iff (rs : list (str * V)) (n : str) :
    re_allowed re_match (add_all (re_add_skip re_valid) rs []) n <> [] <->
    exists e v, In (e, v) rs /\ re_valid e = true /\ re_match e (normalize n) = true.
  Proof.
    rewrite nonempty_in. split.
    - intros [v Hv]. apply regexp_iff in Hv as (rs1 & e & rs2 & -> & Hval & Hm & _). exists e, v.
      split; [apply in_or_app; right; left; reflexivity | auto].
    - intros (e & v & Hin & Hval & Hm).
      destruct (last_val str_eqb (fun p => p) e rs) as [v'|] eqn:E.
      + exists v'. unfold re_allowed. apply (in_filter_vals (fun k => re_match k (normalize n))).
        exists e. split; [apply re_entries; auto | exact Hm].
      + exfalso. exact (last_val_none_in str_eqb str_eqb_spec (fun p => p) _ _ _ _ E Hin eq_refl).
  Qed.

  (** "the rule [s] (a string handed to Add, default type [dflt]) describes the name [n]" *)
  Definition describes (dflt s n : str) : Prop :=
    match parse_rule dflt s with
    | Ok (TFull, p) => normalize p = normalize n
    | Ok (TDomain, p) => prefix_of (labels p) (labels n)
    | Ok (TRegexp, p) => re_valid p = true /\ re_match p (normalize n) = true
    | Ok (TKeyword, p) => contains (normalize n) (normalize p) = true
    | Er _ => False
    end.

  Theorem mix_iff dflt (rs : list (str * V)) (n : str) :
    mix_allowed re_match (fst (mix_add_all re_valid dflt rs empty_mix)) n <> [] <->
    exists s v, In (s, v) rs /\ describes dflt s n.
  Proof.
    rewrite mix_precedence.
    pose proof (full_matches_iff (rules_of dflt TFull rs) n) as HF.
    pose proof (domain_matches_iff (rules_of dflt TDomain rs) n) as HD.
    pose proof (regexp_matches_iff (rules_of dflt TRegexp rs) n) as HR.
    pose proof (keyword_matches_iff (rules_of dflt TKeyword rs) n) as HK.
    destruct (full_match (add_all full_add (rules_of dflt TFull rs) []) n) as [vf|] eqn:EF.
    { split; [intros _|discriminate]. destruct HF as [HF _]. destruct HF as (p & v & Hin & Hp); [discriminate|].
      apply in_rules_of in Hin as (s & Hin & Es). exists s, v. split; [exact Hin|]. unfold describes. rewrite Es. exact Hp. }
    destruct (sub_match (add_all sub_add (rules_of dflt TDomain rs) empty_trie) n) as [vd|] eqn:ED.
    { split; [intros _|discriminate]. destruct HD as [HD _]. destruct HD as (p & v & Hin & Hp); [discriminate|].
      apply in_rules_of in Hin as (s & Hin & Es). exists s, v. split; [exact Hin|]. unfold describes. rewrite Es. exact Hp. }
    destruct (re_allowed re_match (add_all (re_add_skip re_valid) (rules_of dflt TRegexp rs) []) n) as [|vr vrs] eqn:ER.
    - split.
      + intro H. apply HK in H as (p & v & Hin & Hp).
        apply in_rules_of in Hin as (s & Hin & Es). exists s, v. split; [exact Hin|]. unfold describes. rewrite Es. exact Hp.
      + intros (s & v & Hin & Hd). unfold describes in Hd.
        destruct (parse_rule dflt s) as [[ty p]|e] eqn:Es; [|destruct Hd]. destruct ty.
        * exfalso. apply HF; [|reflexivity]. exists p, v. split; [apply in_rules_of; exists s; auto | exact Hd].
        * exfalso. apply HD; [|reflexivity]. exists p, v. split; [apply in_rules_of; exists s; auto | exact Hd].
        * exfalso. apply HR; [|reflexivity]. exists p, v. split; [apply in_rules_of; exists s; auto | exact Hd].
        * apply HK. exists p, v. split; [apply in_rules_of; exists s; auto | exact Hd].
    - split; [intros _|discriminate]. destruct HR as [HR _]. destruct HR as (p & v & Hin & Hp); [discriminate|].
      apply in_rules_of in Hin as (s & Hin & Es). exists s, v. split; [exact Hin|]. unfold describes. rewrite Es. exact Hp.
  Qed.
End MixFacts.

(** * Rule strings: type prefix and default type *)

Definition nocolon (s : str) : Prop := Forall (fun c => c <> c_colon) s.

Lemma split_colon_none s : nocolon s -> split_colon s = None.
Proof.
  induction 1 as [|c t Hc Ht IH]; [reflexivity|]. cbn [split_colon].
  destruct (N.eqb_spec c c_colon); [contradiction|]. rewrite IH. reflexivity.
Qed.

(** the split is at the FIRST colon *)
Lemma split_colon_app a b : nocolon a -> split_colon (a ++ c_colon :: b) = Some (a, b).
Proof.
  induction 1 as [|c t Hc Ht IH]; [reflexivity|]. cbn [app split_colon].
  destruct (N.eqb_spec c c_colon); [contradiction|]. rewrite IH. reflexivity.
Qed.

Lemma split_colon_some s a b : split_colon s = Some (a, b) -> s = a ++ c_colon :: b /\ nocolon a.
Proof.
  revert a. induction s as [|c t IH]; intros a H; [discriminate|]. cbn [split_colon] in H.
  destruct (N.eqb_spec c c_colon) as [->|Hne].
  - injection H as <- <-. split; [reflexivity | constructor].
  - destruct (split_colon t) as [[a' b']|] eqn:E; [|discriminate]. injection H as <- <-.
    destruct (IH a' eq_refl) as [-> Hn]. split; [reflexivity | constructor; assumption].
Qed.

Definition dispatch (typ pat : str) : res (rtype * str) :=
  match typ with
  | [] => Er e_nodefault
  | _ :: _ => match type_of_name typ with Some ty => Ok (ty, pat) | None => Er e_unsupported end
  end.

(** "type:pattern" with a non-empty type: the type before the first colon decides *)
Lemma parse_rule_prefixed dflt typ pat :
  nocolon typ -> typ <> [] -> parse_rule dflt (typ ++ c_colon :: pat) = dispatch typ pat.
Proof.
  intros Hn Hne. unfold parse_rule, split_type_pattern. rewrite split_colon_app by exact Hn.
  destruct typ; [contradiction|reflexivity].
Qed.

(** no colon at all: the default type, the whole string is the pattern *)
Lemma parse_rule_default dflt s : nocolon s -> parse_rule dflt s = dispatch dflt s.
Proof.
  intro Hn. unfold parse_rule, split_type_pattern. rewrite split_colon_none by exact Hn. reflexivity.
Qed.

(** ":pattern": the default type as well *)
Lemma parse_rule_empty_type dflt pat : parse_rule dflt (c_colon :: pat) = dispatch dflt pat.
Proof. reflexivity. Qed.

Lemma type_of_name_cases typ :
  (typ = s_full /\ type_of_name typ = Some TFull) \/
  (typ = s_domain /\ type_of_name typ = Some TDomain) \/
  (typ = s_regexp /\ type_of_name typ = Some TRegexp) \/
  (typ = s_keyword /\ type_of_name typ = Some TKeyword) \/
  (typ <> s_full /\ typ <> s_domain /\ typ <> s_regexp /\ typ <> s_keyword /\ type_of_name typ = None).
Proof.
  unfold type_of_name.
  destruct (str_eqb typ s_full) eqn:E1; [apply str_eqb_spec in E1; auto|].
  destruct (str_eqb typ s_domain) eqn:E2; [apply str_eqb_spec in E2; auto|].
  destruct (str_eqb typ s_regexp) eqn:E3; [apply str_eqb_spec in E3; auto|].
  destruct (str_eqb typ s_keyword) eqn:E4; [apply str_eqb_spec in E4; auto 6|].
  apply str_eqb_neq in E1, E2, E3, E4. auto 10.
Qed.

(** * Label boundaries in terms of the name as a string *)

Fixpoint join_dots (ls : list str) : str :=
  match ls with
  | [] => []
  | l :: t => match t with [] => l | _ :: _ => l ++ c_dot :: join_dots t end
  end.

Lemma join_dots_cons l t : t <> [] -> join_dots (l :: t) = l ++ c_dot :: join_dots t.
Proof. destruct t; [contradiction|reflexivity]. Qed.

Lemma join_split s : join_dots (split_dots s) = s.
Proof.
  induction s as [|c t IH]; [reflexivity|]. cbn [split_dots]. destruct (N.eqb_spec c c_dot) as [->|Hne].
  - rewrite join_dots_cons by apply split_dots_nonnil. rewrite IH. reflexivity.
  - destruct (split_dots t) as [|l ls] eqn:E; [exfalso; exact (split_dots_nonnil t E)|].
    rewrite <- IH. destruct ls; reflexivity.
Qed.

Lemma join_dots_app xs ys : xs <> [] -> ys <> [] -> join_dots (xs ++ ys) = join_dots xs ++ c_dot :: join_dots ys.
Proof.
  induction xs as [|x xs IH]; [contradiction|]. intros _ Hy. destruct xs as [|x' xs].
  - cbn [app]. rewrite join_dots_cons by exact Hy. reflexivity.
  - cbn [app]. rewrite join_dots_cons by discriminate. cbn [app] in IH. rewrite IH by (discriminate || exact Hy).
    rewrite (join_dots_cons x (x' :: xs)) by discriminate. rewrite <- app_assoc. reflexivity.
Qed.

(** r's labels are the last labels of n's  <->  n = r or n ends with "." ++ r *)
Lemma split_suffix_iff r n :
  (exists xs, split_dots n = xs ++ split_dots r) <-> (n = r \/ exists m, n = m ++ c_dot :: r).
Proof.
  split.
  - intros [xs H]. rewrite <- (join_split n), H. destruct xs as [|x xs].
    + left. apply join_split.
    + right. exists (join_dots (x :: xs)). rewrite join_dots_app; [|discriminate|apply split_dots_nonnil].
      rewrite join_split. reflexivity.
  - intros [->|[m ->]]; [exists []; reflexivity|]. exists (split_dots m). apply split_dots_app.
Qed.

Lemma prefix_rev_suffix {A} (a b : list A) : prefix_of (rev a) (rev b) <-> exists xs, b = xs ++ a.
Proof.
  split.
  - intros [q H]. exists (rev q). rewrite <- (rev_involutive b), H, rev_app_distr, rev_involutive. reflexivity.
  - intros [xs ->]. exists (rev xs). apply rev_app_distr.
Qed.

(** For syntactically valid rule and name: the label comparison of the trie is
    "the name is the rule or ends with '.' ++ rule" on the normalised strings. *)
Lemma domain_describes_string r n :
  valid_name r -> valid_name n ->
  (prefix_of (labels r) (labels n) <->
   normalize n = normalize r \/ exists m, normalize n = m ++ c_dot :: normalize r).
Proof.
  intros Hr Hn. rewrite (labels_valid r Hr), (labels_valid n Hn), prefix_rev_suffix. apply split_suffix_iff.
Qed.

(** never a mere string suffix *)
Lemma domain_not_string_suffix r n m c :
  valid_name r -> valid_name n ->
  normalize n = m ++ c :: normalize r -> c <> c_dot ->
  ~ prefix_of (labels r) (labels n).
Proof.
  intros Hr Hn E Hc H. apply (domain_describes_string r n Hr Hn) in H as [H|[m' H]].
  - rewrite H in E. apply (f_equal (@length N)) in E. rewrite app_length in E. cbn in E. lia.
  - rewrite E in H. change (m ++ c :: normalize r) with (m ++ [c] ++ normalize r) in H.
    change (m' ++ c_dot :: normalize r) with (m' ++ [c_dot] ++ normalize r) in H.
    rewrite !app_assoc in H. apply app_inv_tail in H. apply app_inj_tail in H as [_ H]. contradiction.
Qed.

(** * The text loader *)

Definition nonempty (s : str) : bool := match s with [] => false | _ :: _ => true end.

(** the rule strings of a file: one per line, comment and surrounding white
    space removed, empty lines skipped *)
Definition text_rules (text : str) : list str :=
  filter nonempty (map clean_line (split_lines text)).

(** the scanner delivers every line unless it gives up *)
Lemma scan_lines_aux_ok : forall s cur n,
  snd (scan_lines_aux cur n s) = false -> fst (scan_lines_aux cur n s) = split_lines_aux cur s.
Proof.
  induction s as [|c t IH]; intros cur n H; [reflexivity|].
  cbn [scan_lines_aux split_lines_aux] in *. destruct (c =? 10).
  - specialize (IH [] 0). destruct (scan_lines_aux [] 0 t) as [ls e]. cbn [fst snd] in *. rewrite IH by exact H. reflexivity.
  - destruct (max_scan_token <=? n + 1); [discriminate H|]. apply IH. exact H.
Qed.

Lemma scan_lines_ok text : snd (scan_lines text) = false -> fst (scan_lines text) = split_lines text.
Proof. apply scan_lines_aux_ok. Qed.

(** it gives up only on a line of at least 64 KiB: [n] bytes are already in the current line *)
Lemma scan_lines_aux_short : forall s cur n,
  n + N.of_nat (length s) < max_scan_token -> snd (scan_lines_aux cur n s) = false.
Proof.
  induction s as [|c t IH]; intros cur n H; [reflexivity|].
  cbn [scan_lines_aux]. cbn [length] in H. destruct (c =? 10).
  - specialize (IH [] 0). destruct (scan_lines_aux [] 0 t) as [ls e]. cbn [snd] in *. apply IH. lia.
  - destruct (N.leb_spec max_scan_token (n + 1)); [lia|]. apply IH. lia.
Qed.

Lemma scan_lines_short text : N.of_nat (length text) < max_scan_token -> snd (scan_lines text) = false.
Proof. intro H. apply scan_lines_aux_short. lia. Qed.

(** the rule strings of the lines the scanner delivers *)
Definition delivered_rules (text : str) : list str :=
  filter nonempty (map clean_line (fst (scan_lines text))).

Section LoaderFacts.
  Context {V : Type}.
  Variable re_valid : str -> bool.
  Variable parse : @parse_fn V.
  Variable dflt : str.

  Lemma load_lines_list : forall ls lineno idx (m : mix),
    fst (load_lines re_valid parse dflt lineno ls m) =
      fst (load_list re_valid parse dflt idx (filter nonempty (map clean_line ls)) m) /\
    (snd (load_lines re_valid parse dflt lineno ls m) = 0 <->
     snd (load_list re_valid parse dflt idx (filter nonempty (map clean_line ls)) m) = 0).
  Proof.
    induction ls as [|l rest IH]; intros lineno idx m.
    - cbn. tauto.
    - cbn [load_lines map filter]. destruct (clean_line l) as [|c s] eqn:E; cbn [nonempty].
      + apply IH.
      + cbn [load_list]. destruct (load re_valid parse dflt (c :: s) m) as [m'|e].
        * apply IH.
        * cbn [fst snd]. split; [reflexivity|]. split; intro H; exfalso; lia.
  Qed.

  (** LoadFromTextReader = Load on every rule string the scanner delivers, stopping at
      the first error; it reports success only if no Load failed AND the scanner did
      not give up ([return scanner.Err()]). *)
  Lemma load_text_scanned text (m : mix) :
    fst (load_text re_valid parse dflt text m) =
      fst (load_list re_valid parse dflt 0 (delivered_rules text) m) /\
    (snd (load_text re_valid parse dflt text m) = 0 <->
     snd (load_list re_valid parse dflt 0 (delivered_rules text) m) = 0 /\ snd (scan_lines text) = false).
  Proof.
    unfold load_text, delivered_rules. destruct (scan_lines text) as [ls g]. cbn [fst snd].
    destruct (load_lines_list ls 0 0 m) as [H1 H2].
    destruct (load_lines re_valid parse dflt 0 ls m) as [m' e]. cbn [fst snd] in H1, H2.
    destruct (N.eqb_spec e 0) as [->|Hne]; cbn [negb].
    - destruct g; cbn [fst snd].
      + split; [exact H1|]. split; [intro H; exfalso; lia | intros [_ H]; discriminate].
      + split; [exact H1|]. split; [intros _; split; [apply H2; reflexivity | reflexivity] | reflexivity].
    - cbn [fst snd]. split; [exact H1|]. split; [intro H; contradiction | intros [H _]; apply H2 in H; contradiction].
  Qed.

  (** A load that reports success has loaded EVERY rule line of the whole text. *)
  Lemma load_text_complete text (m : mix) :
    snd (load_text re_valid parse dflt text m) = 0 ->
    snd (scan_lines text) = false /\
    fst (load_text re_valid parse dflt text m) = fst (load_list re_valid parse dflt 0 (text_rules text) m) /\
    snd (load_list re_valid parse dflt 0 (text_rules text) m) = 0.
  Proof.
    intro H. destruct (load_text_scanned text m) as [H1 H2]. apply H2 in H as [Hl Hs].
    assert (E : delivered_rules text = text_rules text)
      by (unfold delivered_rules, text_rules; rewrite (scan_lines_ok text Hs); reflexivity).
    rewrite E in *. auto.
  Qed.

  (** a sequence of Loads without error = Add of the parsed (pattern, value) pairs, all accepted *)
  Lemma load_list_ok : forall ss idx (m m' : mix),
    load_list re_valid parse dflt idx ss m = (m', 0) ->
    exists rules, map parse ss = map Some rules /\
                  mix_add_all re_valid dflt rules m = (m', map (fun _ => 0) rules).
  Proof.
    induction ss as [|s rest IH]; intros idx m m' H.
    - cbn in H. injection H as <-. exists []. split; reflexivity.
    - cbn [load_list] in H. unfold load in H. destruct (parse s) as [[pat v]|] eqn:Ep.
      + destruct (mix_add re_valid dflt pat v m) as [m1|e] eqn:Ea.
        * destruct (IH _ _ _ H) as (rules & Hm & Hr). exists ((pat, v) :: rules). split.
          -- cbn [map]. rewrite Ep, Hm. reflexivity.
          -- cbn [mix_add_all map]. rewrite Ea, Hr. reflexivity.
        * injection H as _ H. exfalso. lia.
      + injection H as _ H. exfalso. lia.
  Qed.
End LoaderFacts.

(** ** what a line contributes *)

Definition nohash (s : str) : Prop := Forall (fun c => c <> c_hash) s.
Definition all_space (s : str) : Prop := Forall (fun c => is_space c = true) s.

Lemma remove_comment_spec l :
  exists rest, l = remove_comment l ++ rest /\ nohash (remove_comment l) /\
               (rest = [] \/ exists r, rest = c_hash :: r).
Proof.
  induction l as [|c t IH].
  - exists []. split; [reflexivity|]. split; [constructor | left; reflexivity].
  - cbn [remove_comment]. destruct (N.eqb_spec c c_hash) as [->|Hne].
    + exists (c_hash :: t). split; [reflexivity|]. split; [constructor | right; exists t; reflexivity].
    + destruct IH as (rest & Hl & Hn & Hr). exists rest. split; [cbn; congruence|].
      split; [constructor; assumption | exact Hr].
Qed.

Lemma trim_left_spec s :
  exists a, s = a ++ trim_left s /\ all_space a /\
            match trim_left s with [] => True | c :: _ => is_space c = false end.
Proof.
  induction s as [|c t IH].
  - exists []. split; [reflexivity|]. split; [constructor | exact I].
  - cbn [trim_left]. destruct (is_space c) eqn:E.
    + destruct IH as (a & Ha & Hs & Hh). exists (c :: a). split; [cbn; congruence|]. split; [constructor; assumption | exact Hh].
    + exists []. split; [reflexivity|]. split; [constructor | exact E].
Qed.

(** strings.TrimSpace: strips white space at both ends and nothing else *)
Lemma frev_rev s : frev s = rev s.
Proof. unfold frev. symmetry. apply rev_alt. Qed.

Lemma trim_space_spec s :
  exists a b, s = a ++ trim_space s ++ b /\ all_space a /\ all_space b /\
    match trim_space s with [] => True | c :: _ => is_space c = false end /\
    match rev (trim_space s) with [] => True | c :: _ => is_space c = false end.
Proof.
  unfold trim_space. rewrite !frev_rev. destruct (trim_left_spec s) as (a & Ha & Hsa & Hha).
  destruct (trim_left_spec (rev (trim_left s))) as (b & Hb & Hsb & Hhb).
  exists a, (rev b). rewrite rev_involutive.
  assert (Hts : trim_left s = rev (trim_left (rev (trim_left s))) ++ rev b).
  { rewrite <- rev_app_distr, <- Hb, rev_involutive. reflexivity. }
  split; [rewrite <- Hts; exact Ha|]. split; [exact Hsa|].
  split; [apply Forall_rev; exact Hsb|]. split; [|exact Hhb].
  destruct (rev (trim_left (rev (trim_left s)))) as [|c r] eqn:E; [exact I|].
  rewrite Hts in Hha. exact Hha.
Qed.

(** * MixMatcher.Len and the providers that drop an empty set *)

Section LenFacts.
  Context {V : Type}.

  Lemma trie_len_cons x k (c : trie V) t :
    trie_len (Node x ((k, c) :: t)) =
    trie_len c + (match value c with Some _ => 1 | None => 0 end) + trie_len (Node x t).
  Proof. reflexivity. Qed.

  Lemma trie_len_child x ch l (c : trie V) :
    map_get l ch = Some c ->
    trie_len c + (match value c with Some _ => 1 | None => 0 end) <= trie_len (Node x ch).
  Proof.
    induction ch as [|[k c0] t IH]; cbn [map_get]; [discriminate|].
    rewrite trie_len_cons. destruct (str_eqb l k).
    - intro H. injection H as ->. lia.
    - intro H. specialize (IH H). lia.
  Qed.

  (** a value stored below the root is counted *)
  Lemma value_at_trie_len : forall p (t : trie V) v,
    p <> [] -> value_at p t = Some v -> 0 < trie_len t.
  Proof.
    induction p as [|l p IH]; intros t v Hp H; [contradiction|].
    cbn [value_at] in H. destruct (map_get l (children t)) as [c|] eqn:E; [|discriminate].
    destruct t as [x ch]. cbn [children] in E. pose proof (trie_len_child x ch l c E) as Hc.
    destruct p as [|l' p'].
    - cbn [value_at] in H. rewrite H in Hc. lia.
    - assert (0 < trie_len c) by (apply (IH c v); [discriminate | exact H]). lia.
  Qed.

  Lemma map_get_nonempty (m : amap V) k v : map_get k m = Some v -> 0 < N.of_nat (length m).
  Proof. destruct m; [discriminate|]. cbn [length]. lia. Qed.
End LenFacts.

Section ProviderFacts.
  Context {V : Type}.
  Variable re_valid : str -> bool.

  (** One accepted rule of ANY single type — full, keyword, a regexp that
      compiles, or a domain rule other than the root — makes Len() positive,
      whatever else is in the set: domain_set and base_domain keep the set. *)
  Lemma mix_len_pos dflt (rs : list (str * V)) s v ty pat :
    In (s, v) rs -> parse_rule dflt s = Ok (ty, pat) ->
    (ty = TRegexp -> re_valid pat = true) ->
    (ty = TDomain -> labels pat <> []) ->
    0 < mix_len (fst (mix_add_all re_valid dflt rs empty_mix)).
  Proof.
    intros Hin Hp Hre Hdom. rewrite mix_components. unfold mix_len. cbn [m_full m_dom m_re m_kw].
    assert (Hr : In (pat, v) (rules_of dflt ty rs)) by (apply (proj2 (in_rules_of dflt ty rs pat v)); exists s; auto).
    destruct ty.
    - (* full *)
      destruct (last_val str_eqb normalize (normalize pat) (rules_of dflt TFull rs)) as [v'|] eqn:E.
      + pose proof (full_lookup (rules_of dflt TFull rs) pat) as Hl. unfold full_match in Hl. rewrite E in Hl.
        apply map_get_nonempty in Hl. lia.
      + exfalso. exact (last_val_none_in str_eqb str_eqb_spec normalize _ _ _ _ E Hr eq_refl).
    - (* domain *)
      destruct (last_val lstr_eqb labels (labels pat) (rules_of dflt TDomain rs)) as [v'|] eqn:E.
      + pose proof (sub_value_at (rules_of dflt TDomain rs) (labels pat)) as Hl. rewrite E in Hl.
        apply value_at_trie_len in Hl; [lia | exact (Hdom eq_refl)].
      + exfalso. exact (last_val_none_in lstr_eqb lstr_eqb_spec labels _ _ _ _ E Hr eq_refl).
    - (* regexp *)
      destruct (last_val str_eqb (fun p => p) pat (rules_of dflt TRegexp rs)) as [v'|] eqn:E.
      + assert (Hi : In (pat, v') (add_all (re_add_skip re_valid) (rules_of dflt TRegexp rs) []))
          by (apply (proj2 (re_entries re_valid (fun _ _ => false) (rules_of dflt TRegexp rs) pat v')); split; [exact (Hre eq_refl) | exact E]).
        destruct (add_all (re_add_skip re_valid) (rules_of dflt TRegexp rs) []); [destruct Hi|]. cbn [length]. lia.
      + exfalso. exact (last_val_none_in str_eqb str_eqb_spec (fun p => p) _ _ _ _ E Hr eq_refl).
    - (* keyword *)
      destruct (last_val str_eqb normalize (normalize pat) (rules_of dflt TKeyword rs)) as [v'|] eqn:E.
      + assert (Hi : In (normalize pat, v') (add_all kw_add (rules_of dflt TKeyword rs) [])) by (apply (proj2 (kw_entries (rules_of dflt TKeyword rs) (normalize pat) v')); exact E).
        destruct (add_all kw_add (rules_of dflt TKeyword rs) []); [destruct Hi|]. cbn [length]. lia.
      + exfalso. exact (last_val_none_in str_eqb str_eqb_spec normalize _ _ _ _ E Hr eq_refl).
  Qed.
End ProviderFacts.

(** * Sets assembled from several members (domain_set with [sets:], base_domain with [$tag]) *)

Section GroupFacts.
  Context {V : Type}.
  Variable re_valid : str -> bool.
  Variable re_match : str -> str -> bool.

  Lemma group_matches_app (g1 g2 : list (@mix V)) n :
    group_matches re_match (g1 ++ g2) n = group_matches re_match g1 n || group_matches re_match g2 n.
  Proof. unfold group_matches. apply existsb_app. Qed.

  Lemma group_matches_concat (gs : list (list (@mix V))) n :
    group_matches re_match (concat gs) n = existsb (fun g => group_matches re_match g n) gs.
  Proof.
    induction gs as [|g gs IH]; [reflexivity|]. cbn [concat existsb]. rewrite group_matches_app, IH. reflexivity.
  Qed.

  (** a referenced set is consumed as a whole: nesting does not matter, only the
      union of all members does; the set's own matcher counts when it is kept *)
  Lemma set_members_matches (own : @mix V) (refs : list (list (@mix V))) n :
    group_matches re_match (set_members own refs) n =
    (negb (mix_len own =? 0) && group_matches re_match [own] n)
    || existsb (fun g => group_matches re_match g n) refs.
  Proof.
    unfold set_members. rewrite group_matches_app, group_matches_concat.
    destruct (mix_len own =? 0); reflexivity.
  Qed.

  (** A group whose members were loaded from the rule lists [rss] matches a name
      iff some rule of some member describes it: the union of the members' rules. *)
  Lemma group_iff dflt (rss : list (list (str * V))) n :
    group_matches re_match (map (fun rs => fst (mix_add_all re_valid dflt rs empty_mix)) rss) n = true <->
    exists rs s v, In rs rss /\ In (s, v) rs /\ describes re_valid re_match dflt s n.
  Proof.
    unfold group_matches. rewrite existsb_exists. split.
    - intros (m & Hm & H). apply in_map_iff in Hm as (rs & <- & Hrs).
      assert (Hne : mix_allowed re_match (fst (mix_add_all re_valid dflt rs empty_mix)) n <> [])
        by (destruct (mix_allowed re_match (fst (mix_add_all re_valid dflt rs empty_mix)) n); [discriminate H | discriminate]).
      apply mix_iff in Hne as (s & v & Hin & Hd). exists rs, s, v. auto.
    - intros (rs & s & v & Hrs & Hin & Hd). exists (fst (mix_add_all re_valid dflt rs empty_mix)).
      split; [apply in_map_iff; exists rs; auto|].
      assert (Hne : mix_allowed re_match (fst (mix_add_all re_valid dflt rs empty_mix)) n <> [])
        by (apply mix_iff; exists s, v; auto).
      destruct (mix_allowed re_match (fst (mix_add_all re_valid dflt rs empty_mix)) n); [contradiction | reflexivity].
  Qed.
End GroupFacts.
