(** C19 — proofs about Model/Dump.v. *)
From Verif Require Import Base.Prelude Gen.Constants Model.Dump.
From Coq Require Import ZifyN ZifyNat ZifyBool.
Open Scope N_scope.

Arguments read_blocks : simpl never.
Arguments N.to_nat : simpl never.
Arguments N.of_nat : simpl never.

(** ** prefixes *)
Definition prefix {A} (a b : list A) : Prop := exists s, b = a ++ s.
Definition strict_prefix {A} (a b : list A) : Prop := exists s, s <> [] /\ b = a ++ s.

Lemma prefix_refl {A} (a : list A) : prefix a a.
Proof. exists []. now rewrite app_nil_r. Qed.

Lemma prefix_nil {A} (a : list A) : prefix [] a.
Proof. now exists a. Qed.

Lemma prefix_trans {A} (a b c : list A) : prefix a b -> prefix b c -> prefix a c.
Proof. intros [s ->] [t ->]. exists (s ++ t). now rewrite app_assoc. Qed.

Lemma prefix_In {A} (a b : list A) x : prefix a b -> In x a -> In x b.
Proof. intros [s ->] H. apply in_or_app. now left. Qed.

(** ** lists *)
Lemma len_app (a b : bytes) : len (a ++ b) = len a + len b.
Proof. unfold len. rewrite app_length. lia. Qed.

Lemma llen_app {A} (a b : list A) : llen (a ++ b) = llen a + llen b.
Proof. unfold llen. rewrite app_length. lia. Qed.

Lemma firstn_exact {A} (x y : list A) n : length x = n -> firstn n (x ++ y) = x.
Proof.
  intros <-. induction x as [|a x IH]; simpl.
  - reflexivity.
  - now rewrite IH.
Qed.

Lemma skipn_exact {A} (x y : list A) n : length x = n -> skipn n (x ++ y) = y.
Proof.
  intros <-. induction x as [|a x IH]; simpl.
  - reflexivity.
  - exact IH.
Qed.

Lemma bytes_eqb_refl (a : bytes) : bytes_eqb a a = true.
Proof.
  unfold bytes_eqb. rewrite Nat.eqb_refl. simpl.
  induction a as [|x a IH]; simpl.
  - reflexivity.
  - rewrite N.eqb_refl. exact IH.
Qed.

Lemma bytes_eqb_eq (a b : bytes) : bytes_eqb a b = true <-> a = b.
Proof.
  split.
  - unfold bytes_eqb. revert b. induction a as [|x a IH]; intros [|y b] H; simpl in H;
      try reflexivity; try discriminate.
    apply andb_true_iff in H as [H1 H2]. apply andb_true_iff in H2 as [H2 H3].
    apply N.eqb_eq in H2. subst y. f_equal. apply IH.
    apply andb_true_iff. split; assumption.
  - intros <-. apply bytes_eqb_refl.
Qed.

(** ** big endian *)
Lemma be_dec_app a x : be_dec (a ++ [x]) = be_dec a * 256 + x.
Proof. unfold be_dec. rewrite fold_left_app. reflexivity. Qed.

Lemma be_enc_length k n : length (be_enc k n) = k.
Proof.
  revert n. induction k as [|k IH]; intro n; simpl.
  - reflexivity.
  - rewrite app_length, IH. simpl. lia.
Qed.

Lemma be_dec_enc k n : be_dec (be_enc k n) = n mod 256 ^ N.of_nat k.
Proof.
  revert n. induction k as [|k IH]; intro n.
  - change (0 = n mod 1). now rewrite N.mod_1_r.
  - cbn [be_enc]. rewrite be_dec_app, IH.
    rewrite Nat2N.inj_succ, N.pow_succ_r'.
    rewrite (N.mod_mul_r n 256 (256 ^ N.of_nat k)).
    + lia.
    + discriminate.
    + apply N.pow_nonzero. discriminate.
Qed.

Lemma u64_roundtrip n : n < 2 ^ 64 -> be_dec (u64be n) = n.
Proof.
  intro H. unfold u64be. rewrite be_dec_enc.
  change (256 ^ N.of_nat 8) with (2 ^ 64). now apply N.mod_small.
Qed.

Lemma u64_length n : length (u64be n) = 8%nat.
Proof. apply be_enc_length. Qed.

Lemma limit_lt_2_64 : cache_dump_max_block_len < 2 ^ 64.
Proof. vm_compute. reflexivity. Qed.

(** ** one block *)
Lemma read_block_frame h pl rest c :
  length h = 8%nat -> be_dec h = len pl -> len pl <= cache_dump_max_block_len ->
  read_block (h ++ pl ++ rest) c = RbOk pl rest (len pl).
Proof.
  intros Hh Hd Hl. unfold read_block.
  destruct (len (h ++ pl ++ rest) <? 8) eqn:E1.
  - rewrite len_app in E1. unfold len in E1 at 1. lia.
  - rewrite (firstn_exact h _ 8 Hh), (skipn_exact h _ 8 Hh), Hd.
    destruct (cache_dump_max_block_len <? len pl) eqn:E2; [lia|].
    destruct (len (pl ++ rest) <? len pl) eqn:E3.
    + rewrite len_app in E3. lia.
    + assert (L : length pl = N.to_nat (len pl)) by (unfold len; lia).
      rewrite (firstn_exact pl _ _ L), (skipn_exact pl _ _ L). reflexivity.
Qed.

Lemma read_block_enc a rest c :
  len a <= cache_dump_max_block_len ->
  read_block (enc_block a ++ rest) c = RbOk a rest (len a).
Proof.
  intro H. unfold enc_block. rewrite <- app_assoc.
  apply read_block_frame; [apply u64_length | | exact H].
  apply u64_roundtrip. pose proof limit_lt_2_64. lia.
Qed.

Lemma read_block_ok_inv p c pl rest u :
  read_block p c = RbOk pl rest u ->
  exists h, length h = 8%nat /\ p = h ++ pl ++ rest /\ be_dec h = u /\ len pl = u
            /\ u <= cache_dump_max_block_len.
Proof.
  unfold read_block. intro H.
  destruct (len p <? 8) eqn:E1.
  - destruct ((len p =? 0) && c); discriminate.
  - pose proof (firstn_skipn 8 p) as Hp.
    assert (Hh : length (firstn 8 p) = 8%nat) by (rewrite firstn_length; unfold len in E1; lia).
    set (h := firstn 8 p) in *. set (r := skipn 8 p) in *. clearbody h r.
    destruct (cache_dump_max_block_len <? be_dec h) eqn:E2; [discriminate|].
    destruct (len r <? be_dec h) eqn:E3; [discriminate|].
    injection H as <- <- <-.
    exists h. repeat split.
    + exact Hh.
    + now rewrite firstn_skipn.
    + unfold len in *. rewrite firstn_length. lia.
    + lia.
Qed.

Lemma read_block_prefix p s c1 c2 pl rest u :
  read_block p c1 = RbOk pl rest u -> read_block (p ++ s) c2 = RbOk pl (rest ++ s) u.
Proof.
  intro H. apply read_block_ok_inv in H as (h & Hh & -> & Hd & Hl & Hu).
  rewrite <- Hl in Hd, Hu |- *. rewrite <- !app_assoc.
  apply read_block_frame; [exact Hh | exact Hd | exact Hu].
Qed.

Lemma read_block_unclean p : read_block p false <> RbEof.
Proof.
  unfold read_block. rewrite andb_false_r.
  destruct (len p <? 8); [discriminate|].
  destruct (_ <? _); [discriminate|]. destruct (_ <? _); discriminate.
Qed.

Lemma read_block_err_alloc p c s u :
  read_block p c = RbErr s (Some u) -> u <= cache_dump_max_block_len.
Proof.
  unfold read_block.
  destruct (len p <? 8).
  - destruct ((len p =? 0) && c); discriminate.
  - set (h := firstn 8 p). set (r := skipn 8 p). clearbody h r.
    destruct (cache_dump_max_block_len <? be_dec h) eqn:E2; [discriminate|].
    destruct (len r <? be_dec h); [|discriminate].
    intro H. injection H as _ <-. lia.
Qed.

(** An announced length above the limit is refused whatever follows the
    header: the body is neither allocated nor read. *)
Lemma read_block_big h rest c :
  length h = 8%nat -> cache_dump_max_block_len < be_dec h ->
  read_block (h ++ rest) c = RbErr BBig None.
Proof.
  intros Hh Hb. unfold read_block.
  destruct (len (h ++ rest) <? 8) eqn:E1.
  - rewrite len_app in E1. unfold len in E1 at 1. lia.
  - rewrite (firstn_exact h _ 8 Hh).
    destruct (cache_dump_max_block_len <? be_dec h) eqn:E2; [reflexivity | lia].
Qed.

(** ** the read loop *)
Lemma read_blocks_S f p c :
  read_blocks (S f) p c =
  match read_block p c with
  | RbEof => ([], [], BEof)
  | RbErr s a => ([], match a with Some u => [u] | None => [] end, s)
  | RbOk pl rest u => let '(ps, al, st) := read_blocks f rest c in (pl :: ps, u :: al, st)
  end.
Proof. reflexivity. Qed.

Lemma read_block_rest_shorter p c pl rest u :
  read_block p c = RbOk pl rest u -> (length rest + 8 <= length p)%nat.
Proof.
  intro H. apply read_block_ok_inv in H as (h & Hh & -> & _).
  rewrite !app_length. lia.
Qed.

(** fuel: any amount above the input length gives the same result *)
Lemma read_blocks_fuel_eq f1 : forall f2 p c,
  (length p < f1)%nat -> (length p < f2)%nat -> read_blocks f1 p c = read_blocks f2 p c.
Proof.
  induction f1 as [|f1 IH]; intros f2 p c H1 H2; [lia|].
  destruct f2 as [|f2]; [lia|].
  rewrite !read_blocks_S.
  destruct (read_block p c) as [|s a|pl rest u] eqn:E; try reflexivity.
  apply read_block_rest_shorter in E.
  rewrite (IH f2 rest c); [reflexivity | lia | lia].
Qed.

Lemma read_blocks_fuel fuel p c :
  (length p < fuel)%nat -> read_blocks fuel p c = read_blocks (S (length p)) p c.
Proof. intro H. apply read_blocks_fuel_eq; lia. Qed.

Lemma read_blocks_no_fuel_exhaustion f : forall p c,
  (length p < f)%nat -> snd (read_blocks f p c) <> BFuel.
Proof.
  induction f as [|f IH]; intros p c H; [lia|].
  rewrite read_blocks_S.
  destruct (read_block p c) as [|s a|pl rest u] eqn:E.
  - discriminate.
  - simpl. unfold read_block in E.
    destruct (len p <? 8).
    + destruct ((len p =? 0) && c); [discriminate|]. injection E as <- _. discriminate.
    + destruct (_ <? _); [injection E as <- _; discriminate|].
      destruct (_ <? _); [injection E as <- _; discriminate | discriminate].
  - apply read_block_rest_shorter in E.
    specialize (IH rest c ltac:(lia)).
    destruct (read_blocks f rest c) as [[ps al] st]. exact IH.
Qed.

Lemma read_blocks_unclean f : forall p, snd (read_blocks f p false) <> BEof.
Proof.
  induction f as [|f IH]; intro p.
  - discriminate.
  - rewrite read_blocks_S.
    destruct (read_block p false) as [|s a|pl rest u] eqn:E.
    + now apply read_block_unclean in E.
    + simpl. unfold read_block in E. rewrite andb_false_r in E.
      destruct (len p <? 8); [injection E as <- _; discriminate|].
      destruct (_ <? _); [injection E as <- _; discriminate|].
      destruct (_ <? _); [injection E as <- _; discriminate | discriminate].
    + specialize (IH rest). destruct (read_blocks f rest false) as [[ps al] st]. exact IH.
Qed.

(** every body buffer requested is within the limit *)
Lemma read_blocks_alloc_bounded f : forall p c,
  Forall (fun a => a <= cache_dump_max_block_len) (snd (fst (read_blocks f p c))).
Proof.
  induction f as [|f IH]; intros p c.
  - constructor.
  - rewrite read_blocks_S.
    destruct (read_block p c) as [|s a|pl rest u] eqn:E.
    + constructor.
    + destruct a as [u|]; simpl; [|constructor].
      constructor; [|constructor]. eapply read_block_err_alloc; eassumption.
    + specialize (IH rest c). destruct (read_blocks f rest c) as [[ps al] st]. simpl in *.
      constructor; [|exact IH].
      apply read_block_ok_inv in E as (h & _ & _ & _ & _ & Hu). exact Hu.
Qed.

(** every payload returned is within the limit *)
Lemma read_blocks_payload_bounded f : forall p c,
  Forall (fun a => len a <= cache_dump_max_block_len) (fst (fst (read_blocks f p c))).
Proof.
  induction f as [|f IH]; intros p c.
  - constructor.
  - rewrite read_blocks_S.
    destruct (read_block p c) as [|s a|pl rest u] eqn:E; try constructor.
    specialize (IH rest c). destruct (read_blocks f rest c) as [[ps al] st]. simpl in *.
    constructor; [|exact IH].
    apply read_block_ok_inv in E as (h & _ & _ & _ & Hl & Hu). lia.
Qed.

Lemma read_blocks_big f h rest c :
  length h = 8%nat -> cache_dump_max_block_len < be_dec h ->
  read_blocks (S f) (h ++ rest) c = ([], [], BBig).
Proof. intros Hh Hb. rewrite read_blocks_S, read_block_big by assumption. reflexivity. Qed.

(** any input whatsoever: the loop needs no more steps than input bytes, and
    every body buffer requested stays within the limit *)
Theorem load_total p clean :
  snd (read_blocks (S (length p)) p clean) <> BFuel
  /\ (forall fuel, (length p < fuel)%nat ->
        read_blocks fuel p clean = read_blocks (S (length p)) p clean)
  /\ Forall (fun a => a <= cache_dump_max_block_len) (snd (fst (read_blocks (S (length p)) p clean))).
Proof.
  repeat split.
  - apply read_blocks_no_fuel_exhaustion. lia.
  - intros. now apply read_blocks_fuel.
  - apply read_blocks_alloc_bounded.
Qed.

(** a well-formed plaintext is read back block by block *)
Lemma plaintext_cons a t : plaintext (a :: t) = enc_block a ++ plaintext t.
Proof. reflexivity. Qed.

Lemma plaintext_app a b : plaintext (a ++ b) = plaintext a ++ plaintext b.
Proof. unfold plaintext. now rewrite map_app, concat_app. Qed.

Lemma plaintext_length ps : (8 * length ps <= length (plaintext ps))%nat.
Proof.
  induction ps as [|a t IH]; [simpl; lia|].
  rewrite plaintext_cons. unfold enc_block. rewrite !app_length, u64_length.
  cbn [length]. lia.
Qed.

Lemma read_blocks_plain ps :
  Forall (fun a => len a <= cache_dump_max_block_len) ps ->
  forall f, (length ps < f)%nat ->
  read_blocks f (plaintext ps) true = (ps, map len ps, BEof).
Proof.
  induction 1 as [|a t Ha Ht IH]; intros f Hf.
  - destruct f; [lia|]. reflexivity.
  - destruct f as [|f]; [simpl in Hf; lia|].
    rewrite read_blocks_S, plaintext_cons, read_block_enc by exact Ha.
    rewrite IH by (simpl in Hf; lia). reflexivity.
Qed.

(** the payloads read from a prefix are a prefix of the payloads read from the whole *)
Lemma read_blocks_prefix f1 : forall f2 p s c1 c2,
  (length p < f1)%nat -> (length (p ++ s) < f2)%nat ->
  prefix (fst (fst (read_blocks f1 p c1))) (fst (fst (read_blocks f2 (p ++ s) c2))).
Proof.
  induction f1 as [|f1 IH]; intros f2 p s c1 c2 H1 H2; [lia|].
  destruct f2 as [|f2]; [lia|].
  rewrite (read_blocks_S f1).
  destruct (read_block p c1) as [|st a|pl rest u] eqn:E; try apply prefix_nil.
  rewrite read_blocks_S, (read_block_prefix _ s _ c2 _ _ _ E).
  pose proof (read_block_rest_shorter _ _ _ _ _ E) as L.
  specialize (IH f2 rest s c1 c2).
  destruct (read_blocks f1 rest c1) as [[ps al] st].
  destruct (read_blocks f2 (rest ++ s) c2) as [[ps' al'] st']. simpl in *.
  destruct IH as [m Hm]; [lia | rewrite app_length in *; lia |].
  exists m. now rewrite Hm.
Qed.

(** ** a plaintext that ends cleanly and reads without error is a whole number of blocks *)
Definition framed_len (ps : list bytes) : nat := fold_right (fun pl a => (8 + length pl + a)%nat) 0%nat ps.

Lemma plaintext_framed_len ps : length (plaintext ps) = framed_len ps.
Proof.
  induction ps as [|a t IH]; [reflexivity|].
  rewrite plaintext_cons. unfold enc_block. rewrite !app_length, u64_length, IH.
  change (framed_len (a :: t)) with (8 + length a + framed_len t)%nat. lia.
Qed.

Lemma read_blocks_eof_length f : forall p,
  (length p < f)%nat -> snd (read_blocks f p true) = BEof ->
  length p = framed_len (fst (fst (read_blocks f p true))).
Proof.
  induction f as [|f IH]; intros p Hf H; [lia|].
  rewrite read_blocks_S in H |- *.
  destruct (read_block p true) as [|st a|pl rest u] eqn:E.
  - unfold read_block in E.
    destruct (len p <? 8).
    + destruct ((len p =? 0) && true) eqn:E2; [|discriminate].
      cbn [fst framed_len fold_right]. unfold len in E2. lia.
    + destruct (_ <? _); [discriminate|]. destruct (_ <? _); discriminate.
  - cbn [snd] in H. unfold read_block in E.
    destruct (len p <? 8).
    + destruct ((len p =? 0) && true); [discriminate|]. injection E as <- _. discriminate.
    + destruct (_ <? _); [injection E as <- _; discriminate|].
      destruct (_ <? _); [injection E as <- _; discriminate | discriminate].
  - pose proof (read_block_rest_shorter _ _ _ _ _ E) as L.
    apply read_block_ok_inv in E as (h & Hh & -> & _).
    specialize (IH rest ltac:(lia)).
    destruct (read_blocks f rest true) as [[ps al] st]. cbn [fst snd] in *.
    rewrite !app_length, (IH H).
    change (framed_len (pl :: ps)) with (8 + length pl + framed_len ps)%nat. lia.
Qed.

Lemma prefix_same_length {A} (a b c : list A) :
  prefix a c -> prefix b c -> length a = length b -> a = b.
Proof.
  intros [s ->] [t Ht] L. revert b Ht L.
  induction a as [|x a IH]; intros [|y b] Ht L; try discriminate; [reflexivity|].
  cbn [app] in Ht. injection Ht as <- Ht. f_equal. apply IH; [exact Ht | now injection L].
Qed.

Lemma prefix_is_firstn {A} (a b : list A) : prefix a b -> a = firstn (length a) b.
Proof. intros [s ->]. now rewrite firstn_exact. Qed.

Theorem clean_prefix_is_whole_blocks p s ps :
  Forall (fun a => len a <= cache_dump_max_block_len) ps ->
  p ++ s = plaintext ps ->
  snd (read_blocks (S (length p)) p true) = BEof ->
  exists k, fst (fst (read_blocks (S (length p)) p true)) = firstn k ps /\ p = plaintext (firstn k ps).
Proof.
  intros Hps Hp Heof.
  pose proof (read_blocks_prefix (S (length p)) (S (length (p ++ s))) p s true true
                (Nat.lt_succ_diag_r _) (Nat.lt_succ_diag_r _)) as Hpre.
  rewrite Hp in Hpre.
  rewrite (read_blocks_plain ps Hps) in Hpre
    by (pose proof (plaintext_length ps); lia).
  cbn [fst] in Hpre.
  pose proof (read_blocks_eof_length (S (length p)) p (Nat.lt_succ_diag_r _) Heof) as HL.
  set (got := fst (fst (read_blocks (S (length p)) p true))) in *.
  exists (length got). split; [now apply prefix_is_firstn|].
  rewrite <- (prefix_is_firstn _ _ Hpre).
  apply (prefix_same_length _ _ (plaintext ps)).
  - exists s. now rewrite Hp.
  - destruct Hpre as [m ->]. exists (plaintext m). apply plaintext_app.
  - now rewrite plaintext_framed_len.
Qed.

(** ** whole seconds *)
Section Seconds.
  Ltac Zify.zify_post_hook ::= Z.div_mod_to_equations.

  Lemma trunc_bounds t : (trunc_s t <= t < trunc_s t + ns_per_s)%Z.
  Proof. unfold trunc_s, of_unix, unix_s, ns_per_s. lia. Qed.

  Lemma trunc_unix s : trunc_s (of_unix s) = of_unix s.
  Proof. unfold trunc_s, of_unix, unix_s, ns_per_s. lia. Qed.

  Lemma age_nonneg now stored : (stored <= now)%Z -> (0 <= age_s now stored)%Z.
  Proof. unfold age_s, ns_per_s. lia. Qed.

  (** stored' <= stored < stored' + 1 s, hence the age in whole seconds grows by 0 or 1 *)
  Lemma age_after_reload now stored :
    (age_s now (trunc_s stored) = age_s now stored
     \/ age_s now (trunc_s stored) = age_s now stored + 1)%Z.
  Proof. unfold age_s, trunc_s, of_unix, unix_s, ns_per_s. lia. Qed.

  Ltac Zify.zify_post_hook ::= idtac.
End Seconds.

Lemma sub_ttl_after_reload ttl d d' :
  (d' = d \/ d' = d + 1)%Z ->
  sub_ttl ttl d' = sub_ttl ttl d \/ sub_ttl ttl d' + 1 = sub_ttl ttl d.
Proof.
  unfold sub_ttl. intros H.
  destruct (d' <? Z.of_N ttl)%Z eqn:E1; destruct (d <? Z.of_N ttl)%Z eqn:E2; lia.
Qed.

(** ** writer, loader, and the contracts of gzip / protobuf / miekg *)
Section Contracts.
  Variable M : Type.
  Variable pack : M -> option bytes.
  Variable unpack : bytes -> option M.
  Variable marshal : list entry -> bytes.
  Variable unmarshal : bytes -> option (list entry).
  Variable esz : entry -> N.
  Variable gz : bytes -> bytes -> bytes.
  Variable gunzip : bytes -> gz_result.

  (** Unpack after Pack gives the message back *)
  Definition pack_ok : Prop := forall m b, pack m = Some b -> unpack b = Some m.
  (** proto.Unmarshal after proto.Marshal gives the block back *)
  Definition proto_ok : Prop := forall b, unmarshal (marshal b) = Some b.
  (** a marshalled block is no longer than the writer's bound: each entry costs
      at most proto.Size(e) + 16 (tag and length prefix) *)
  Definition size_ok : Prop := forall b, len (marshal b) <= sum_sz esz b.
  (** a complete gzip file decompresses to its name and plaintext and ends cleanly *)
  Definition gzip_ok : Prop := forall name p, gunzip (gz name p) = GzOpen name p true.
  (** a strict prefix of a gzip file: the header is incomplete, or the reader
      delivers a prefix of the plaintext and then fails (never a clean EOF) *)
  Definition gzip_cut_ok : Prop := forall name p z,
    strict_prefix z (gz name p) ->
    gunzip z = GzErr \/ exists p', prefix p' p /\ gunzip z = GzOpen name p' false.

  Notation limit := cache_dump_max_block_len.
  Notation store_entries' := (store_entries unpack).
  Notation apply_blocks' := (apply_blocks unpack unmarshal).
  Notation load_plain' := (load_plain unpack unmarshal).
  Notation read_gz' := (read_gz unpack unmarshal).
  Notation read_dump' := (read_dump unpack unmarshal gunzip).
  Notation dump_loop' := (dump_loop pack esz).
  Notation write_dump' := (write_dump pack marshal esz gz).
  Notation live' := (live_entries pack).

  (** *** storing entries *)
  Lemma store_entries_app now a b :
    store_entries' now (a ++ b) =
    let '(ia, oka) := store_entries' now a in
    if oka then let '(ib, okb) := store_entries' now b in (ia ++ ib, okb) else (ia, false).
  Proof.
    induction a as [|e a IH]; cbn [app store_entries].
    - destruct (store_entries' now b). reflexivity.
    - destruct (unpack (e_msg e)); [|reflexivity].
      rewrite IH. destruct (store_entries' now a) as [ia oka].
      destruct oka.
      + destruct (store_entries' now b) as [ib okb]. destruct (_ <? _)%Z; reflexivity.
      + destruct (_ <? _)%Z; reflexivity.
  Qed.

  Lemma apply_blocks_marshal now bs :
    proto_ok ->
    snd (store_entries' now (concat bs)) = true ->
    apply_blocks' now (map marshal bs) = (fst (store_entries' now (concat bs)), llen (concat bs), None).
  Proof.
    intros HP. induction bs as [|b t IH]; intro H.
    - reflexivity.
    - cbn [map concat apply_blocks] in *. rewrite HP.
      rewrite store_entries_app in H |- *.
      destruct (store_entries' now b) as [ib okb].
      destruct okb; [|discriminate H].
      destruct (store_entries' now (concat t)) as [it okt] eqn:Et.
      cbn [fst snd] in *. rewrite IH by exact H.
      rewrite llen_app. reflexivity.
  Qed.

  Lemma apply_blocks_prefix now ps more :
    prefix (fst (fst (apply_blocks' now ps))) (fst (fst (apply_blocks' now (ps ++ more)))).
  Proof.
    induction ps as [|p t IH]; cbn [app apply_blocks].
    - apply prefix_nil.
    - destruct (unmarshal p) as [es|]; [|apply prefix_refl].
      destruct (store_entries' now es) as [its ok]. destruct ok; [|apply prefix_refl].
      destruct (apply_blocks' now t) as [[r en] e].
      destruct (apply_blocks' now (t ++ more)) as [[r' en'] e'].
      cbn [fst] in *. destruct IH as [m ->]. exists m. now rewrite app_assoc.
  Qed.

  (** *** loading a plaintext *)
  Lemma load_plain_prefix now p s c1 c2 :
    prefix (fst (fst (load_plain' now p c1))) (fst (fst (load_plain' now (p ++ s) c2))).
  Proof.
    unfold load_plain.
    destruct (read_blocks_prefix (S (length p)) (S (length (p ++ s))) p s c1 c2) as [m Hm];
      [apply Nat.lt_succ_diag_r | apply Nat.lt_succ_diag_r |].
    destruct (read_blocks (S (length p)) p c1) as [[ps al] st].
    destruct (read_blocks (S (length (p ++ s))) (p ++ s) c2) as [[ps' al'] st'].
    cbn [fst] in Hm. subst ps'.
    pose proof (apply_blocks_prefix now ps m) as Hp.
    destruct (apply_blocks' now ps) as [[its en] e].
    destruct (apply_blocks' now (ps ++ m)) as [[its' en'] e'].
    exact Hp.
  Qed.

  (** a stream that does not end cleanly never loads without an error *)
  Lemma load_plain_unclean now p : exists e, snd (load_plain' now p false) = LErr e.
  Proof.
    unfold load_plain.
    pose proof (read_blocks_unclean (S (length p)) p) as Hu.
    destruct (read_blocks (S (length p)) p false) as [[ps al] st].
    destruct (apply_blocks' now ps) as [[its en] e]. cbn [snd] in *.
    destruct e as [x|]; [now exists x|].
    destruct st; cbn [status_res]; eauto. now contradiction Hu.
  Qed.

  (** the limit check comes first: nothing after the header matters *)
  Lemma load_plain_big now h rest c :
    length h = 8%nat -> limit < be_dec h -> load_plain' now (h ++ rest) c = ([], 0, LErr EBig).
  Proof.
    intros Hh Hb. unfold load_plain. rewrite read_blocks_big by assumption. reflexivity.
  Qed.

  Lemma oversize_block_rejected now a rest c :
    limit < len a -> len a < 2 ^ 64 ->
    load_plain' now (enc_block a ++ rest) c = ([], 0, LErr EBig).
  Proof.
    intros H1 H2. unfold enc_block. rewrite <- app_assoc.
    apply load_plain_big; [apply u64_length | now rewrite u64_roundtrip].
  Qed.

  (** *** the writer *)
  Lemma sum_sz_app a b : sum_sz esz (a ++ b) = sum_sz esz a + sum_sz esz b.
  Proof.
    unfold sum_sz. induction a as [|e a IH]; cbn [app fold_right].
    - lia.
    - rewrite IH. lia.
  Qed.

  (** one rangeFunc call on an entry that is dumped: blocks written before the
      append, the open block and its bound after it, and whether it is full *)
  Definition push (cur : list entry) (bb : N) (e : entry) : list (list entry) * list entry * N :=
    let es := esz e + 16 in
    let early := match cur with [] => false | _ => limit <? bb + es end in
    (if early then [cur] else [], (if early then [] else cur) ++ [e], (if early then 0 else bb) + es).

  Lemma dump_loop_cons now it t cur bb :
    dump_loop' now (it :: t) cur bb =
    match dump_entry pack now it with
    | None => ([], false)
    | Some None => dump_loop' now t cur bb
    | Some (Some e) =>
      let '(pre, cur', bb') := push cur bb e in
      let '(bs, ok) := if cache_dump_block_size <=? llen cur'
                       then let '(bs, ok) := dump_loop' now t [] 0 in (cur' :: bs, ok)
                       else dump_loop' now t cur' bb' in
      (pre ++ bs, ok)
    end.
  Proof. reflexivity. Qed.

  Lemma push_concat cur bb e pre cur' bb' :
    push cur bb e = (pre, cur', bb') -> concat pre ++ cur' = cur ++ [e].
  Proof.
    unfold push. intro H. injection H as <- <- <-.
    destruct cur as [|x cur]; [reflexivity|].
    destruct (limit <? bb + (esz e + 16)); cbn [concat app]; now rewrite ?app_nil_r.
  Qed.

  Definition block_ok (b : list entry) : Prop :=
    b <> [] /\ sum_sz esz b <= limit /\ llen b <= N.max 1 cache_dump_block_size.

  Lemma push_inv cur bb e pre cur' bb' :
    esz e + 16 <= limit ->
    bb = sum_sz esz cur -> bb <= limit -> llen cur < N.max 1 cache_dump_block_size ->
    push cur bb e = (pre, cur', bb') ->
    Forall block_ok pre /\ bb' = sum_sz esz cur' /\ bb' <= limit /\ cur' <> []
    /\ llen cur' <= N.max 1 cache_dump_block_size.
  Proof.
    intros He Hbb Hl Hn. unfold push. intro H. injection H as <- <- <-.
    destruct cur as [|x cur].
    - cbn [app]. unfold sum_sz, llen in *. cbn [fold_right length] in *.
      split; [constructor|]. split; [lia|]. split; [lia|]. split; [discriminate | lia].
    - destruct (limit <? bb + (esz e + 16)) eqn:E.
      + cbn [app]. unfold sum_sz, llen in *. cbn [fold_right length] in *.
        split.
        { constructor; [|constructor]. unfold block_ok, sum_sz, llen. cbn [fold_right length].
          split; [discriminate|]. split; lia. }
        split; [lia|]. split; [lia|]. split; [discriminate | lia].
      + rewrite sum_sz_app, llen_app. unfold sum_sz, llen in *. cbn [fold_right length app] in *.
        split; [constructor|]. split; [lia|]. split; [lia|]. split; [discriminate | lia].
  Qed.

  Lemma dump_loop_concat now : forall c cur bb bs,
    dump_loop' now c cur bb = (bs, true) -> concat bs = cur ++ live' now c.
  Proof.
    induction c as [|it t IH]; intros cur bb bs H.
    - cbn [dump_loop live_entries] in *. injection H as <-.
      destruct cur; cbn [concat]; now rewrite ?app_nil_r.
    - rewrite dump_loop_cons in H. cbn [live_entries].
      destruct (dump_entry pack now it) as [[e|]|]; [| eapply IH; exact H | discriminate].
      destruct (push cur bb e) as [[pre cur'] bb'] eqn:P.
      apply push_concat in P.
      destruct (cache_dump_block_size <=? llen cur').
      + destruct (dump_loop' now t [] 0) as [bs0 ok0] eqn:D. injection H as <- ->.
        apply IH in D. rewrite concat_app. cbn [concat]. rewrite D. cbn [app].
        rewrite app_assoc, P, <- app_assoc. reflexivity.
      + destruct (dump_loop' now t cur' bb') as [bs0 ok0] eqn:D. injection H as <- ->.
        apply IH in D. rewrite concat_app, D, app_assoc, P, <- app_assoc. reflexivity.
  Qed.

  Lemma dump_loop_all_pack now : forall c cur bb bs,
    dump_loop' now c cur bb = (bs, true) ->
    Forall (fun it => dump_entry pack now it <> None) c.
  Proof.
    induction c as [|it t IH]; intros cur bb bs H; [constructor|].
    rewrite dump_loop_cons in H.
    destruct (dump_entry pack now it) as [[e|]|] eqn:E; [| |discriminate].
    - destruct (push cur bb e) as [[pre cur'] bb'].
      destruct (cache_dump_block_size <=? llen cur').
      + destruct (dump_loop' now t [] 0) as [bs0 ok0] eqn:D. injection H as _ ->.
        constructor; [congruence | eapply IH; exact D].
      + destruct (dump_loop' now t cur' bb') as [bs0 ok0] eqn:D. injection H as _ ->.
        constructor; [congruence | eapply IH; exact D].
    - constructor; [congruence | eapply IH; exact H].
  Qed.

  (** every block written is non-empty, within the size bound and within the entry count *)
  Lemma dump_loop_blocks now : forall c cur bb bs ok,
    (forall e, In e (live' now c) -> esz e + 16 <= limit) ->
    bb = sum_sz esz cur -> bb <= limit -> llen cur < N.max 1 cache_dump_block_size ->
    dump_loop' now c cur bb = (bs, ok) -> Forall block_ok bs.
  Proof.
    induction c as [|it t IH]; intros cur bb bs ok Hsz Hbb Hl Hn H.
    - cbn [dump_loop] in H. injection H as <- <-.
      destruct cur as [|x cur]; constructor; [|constructor].
      repeat split; [discriminate | lia | lia].
    - rewrite dump_loop_cons in H. cbn [live_entries] in Hsz.
      destruct (dump_entry pack now it) as [[e|]|].
      + destruct (push cur bb e) as [[pre cur'] bb'] eqn:P.
        apply push_inv in P as (Hpre & Hbb' & Hl' & Hne & Hn'); try assumption;
          [|apply Hsz; now left].
        assert (Hsz' : forall e0, In e0 (live' now t) -> esz e0 + 16 <= limit)
          by (intros e0 Hin; apply Hsz; now right).
        destruct (cache_dump_block_size <=? llen cur') eqn:Full.
        * destruct (dump_loop' now t [] 0) as [bs0 ok0] eqn:D. injection H as <- <-.
          apply Forall_app. split; [exact Hpre|].
          constructor; [repeat split; [exact Hne | lia | exact Hn']|].
          eapply (IH [] 0); [exact Hsz' | reflexivity | lia | unfold llen; cbn [length]; lia | exact D].
        * destruct (dump_loop' now t cur' bb') as [bs0 ok0] eqn:D. injection H as <- <-.
          apply Forall_app. split; [exact Hpre|].
          eapply (IH cur' bb'); [exact Hsz' | exact Hbb' | exact Hl' | lia | exact D].
      + eapply IH; eassumption.
      + injection H as <- _. constructor.
  Qed.

  (** *** dump, then load *)
  Lemma store_live now1 now2 c :
    pack_ok ->
    Forall (fun it => dump_entry pack now1 it <> None) c ->
    store_entries' now2 (live' now1 c) = (map reload_item (filter (survives now1 now2) c), true).
  Proof.
    intros HP. induction 1 as [|it t Hit Ht IH]; [reflexivity|].
    cbn [live_entries filter]. unfold survives at 1. unfold dump_entry in *.
    destruct (i_cexp it <? now1)%Z; cbn [negb andb]; [exact IH|].
    destruct (pack (i_msg it)) as [b|] eqn:Eb; [|congruence].
    cbn [store_entries e_msg e_cexp]. rewrite (HP _ _ Eb), IH.
    change (of_unix (unix_s (i_cexp it))) with (trunc_s (i_cexp it)).
    destruct (trunc_s (i_cexp it) <? now2)%Z; cbn [negb map]; reflexivity.
  Qed.

  Definition all_fit (now : Z) (c : cache M) : Prop :=
    forall e, In e (live' now c) -> esz e + 16 <= limit.

  (** what a successful writeDump hands to gzip is accepted by the block reader *)
  Lemma dump_blocks_fit now c bs :
    size_ok -> all_fit now c -> dump pack esz now c = (bs, true) ->
    Forall (fun a => len a <= limit) (map marshal bs).
  Proof.
    intros HS Hfit D. unfold dump in D.
    apply dump_loop_blocks in D; [| exact Hfit | reflexivity | lia | unfold llen; cbn [length]; lia].
    apply Forall_forall. intros a Ha. apply in_map_iff in Ha as (b & <- & Hb).
    rewrite Forall_forall in D. destruct (D b Hb) as (_ & Hs & _).
    specialize (HS b). lia.
  Qed.

  Theorem reload_faithful now1 now2 c file :
    pack_ok -> proto_ok -> size_ok -> gzip_ok -> all_fit now1 c ->
    write_dump' now1 c = Some file ->
    read_dump' now2 file =
      (map reload_item (filter (survives now1 now2) c), llen (live' now1 c), LOk).
  Proof.
    intros HP HU HS HG Hfit W. unfold write_dump in W.
    destruct (dump pack esz now1 c) as [bs ok] eqn:D. destruct ok; [|discriminate].
    injection W as <-.
    unfold read_dump. rewrite HG. unfold read_gz. rewrite bytes_eqb_refl.
    unfold load_plain.
    pose proof (dump_blocks_fit _ _ _ HS Hfit D) as Hfits.
    rewrite (read_blocks_plain _ Hfits)
      by (pose proof (plaintext_length (map marshal bs)); lia).
    unfold dump in D.
    pose proof (dump_loop_concat _ _ _ _ _ D) as HC. cbn [app] in HC.
    pose proof (store_live now1 now2 c HP (dump_loop_all_pack _ _ _ _ _ D)) as HL.
    rewrite apply_blocks_marshal by (try exact HU; rewrite HC, HL; reflexivity).
    rewrite HC, HL. reflexivity.
  Qed.

  (** a truncated copy of any file writeDump produced: an error is reported,
      and the items stored are a prefix of what the intact file stores *)
  Theorem truncated_prefix now1 now2 c file z :
    gzip_ok -> gzip_cut_ok ->
    write_dump' now1 c = Some file -> strict_prefix z file ->
    exists its en e,
      read_dump' now2 z = (its, en, LErr e)
      /\ prefix its (fst (fst (read_dump' now2 file))).
  Proof.
    intros HG HC W Hz. unfold write_dump in W.
    destruct (dump pack esz now1 c) as [bs ok]. destruct ok; [|discriminate].
    injection W as <-.
    unfold read_dump. rewrite HG.
    destruct (HC _ _ _ Hz) as [-> | (p' & [s Hs] & ->)].
    - exists [], 0, EGzip. split; [reflexivity | apply prefix_nil].
    - unfold read_gz. rewrite bytes_eqb_refl.
      destruct (load_plain_unclean now2 p') as [e He].
      pose proof (load_plain_prefix now2 p' s false true) as Hp. rewrite <- Hs in Hp.
      destruct (load_plain' now2 p' false) as [[its en] r]. cbn [snd fst] in *. subst r.
      exists its, en, e. split; [reflexivity | exact Hp].
  Qed.

  Theorem truncated_subset now1 now2 c file z :
    pack_ok -> proto_ok -> size_ok -> gzip_ok -> gzip_cut_ok -> all_fit now1 c ->
    write_dump' now1 c = Some file -> strict_prefix z file ->
    exists its en e,
      read_dump' now2 z = (its, en, LErr e)
      /\ prefix its (map reload_item (filter (survives now1 now2) c))
      /\ forall it', In it' its ->
           exists it, In it c /\ survives now1 now2 it = true /\ it' = reload_item it.
  Proof.
    intros HP HU HS HG HC Hfit W Hz.
    destruct (truncated_prefix now1 now2 c file z HG HC W Hz) as (its & en & e & Hr & Hp).
    rewrite (reload_faithful now1 now2 c file HP HU HS HG Hfit W) in Hp. cbn [fst] in Hp.
    exists its, en, e. repeat split; [exact Hr | exact Hp |].
    intros it' Hin. apply (prefix_In _ _ _ Hp) in Hin.
    apply in_map_iff in Hin as (it & <- & Hf). apply filter_In in Hf as [H1 H2].
    exists it. repeat split; assumption.
  Qed.

  (** any file whatsoever whose decompression does not end cleanly is an error *)
  Theorem unclean_is_error now z name p :
    gunzip z = GzOpen name p false -> exists e, snd (read_dump' now z) = LErr e.
  Proof.
    intro H. unfold read_dump, read_gz. rewrite H.
    destruct (bytes_eqb name dump_header); [apply load_plain_unclean | now exists EName].
  Qed.

  (** F11 (repaired by 435e2d0): the count-only grouping can write a block the
      loader refuses; then nothing at all is loaded. *)
  Lemma count_only_refuted now1 now2 c b bs :
    dump_loop_count_only pack now1 c [] = (b :: bs, true) ->
    limit < len (marshal b) -> len (marshal b) < 2 ^ 64 ->
    read_gz' now2 (GzOpen dump_header (plaintext (map marshal (b :: bs))) true)
      = ([], 0, LErr EBig).
  Proof.
    intros _ H1 H2. unfold read_gz. rewrite bytes_eqb_refl.
    cbn [map]. rewrite plaintext_cons. now apply oversize_block_rejected.
  Qed.
End Contracts.

(** ** the second cache, looked up by key *)
Section Served.
  Variable M : Type.
  Notation item := (item M).

  Lemma key_eqb_eq a b : key_eqb a b = true <-> a = b.
  Proof. apply bytes_eqb_eq. Qed.

  Lemma store_item_fresh (c : list item) it :
    (forall x, In x c -> i_key x <> i_key it) -> store_item c it = c ++ [it].
  Proof.
    induction c as [|x c IH]; intro H; cbn [store_item app].
    - reflexivity.
    - destruct (key_eqb (i_key x) (i_key it)) eqn:E.
      + apply key_eqb_eq in E. exfalso. apply (H x); [now left | exact E].
      + rewrite IH; [reflexivity|]. intros y Hy. apply H. now right.
  Qed.

  Lemma store_all_nodup (its : list item) : forall c,
    NoDup (map i_key (c ++ its)) -> store_all c its = c ++ its.
  Proof.
    unfold store_all. induction its as [|it its IH]; intros c H; cbn [fold_left].
    - now rewrite app_nil_r.
    - rewrite store_item_fresh.
      + rewrite IH; rewrite <- app_assoc; [reflexivity | exact H].
      + intros x Hx E. rewrite map_app in H. cbn [map] in H.
        apply NoDup_remove_2 in H. apply H. apply in_or_app. left.
        rewrite <- E. now apply in_map.
  Qed.

  Lemma NoDup_keys_filter_reload (f : item -> bool) (c : list item) :
    NoDup (map i_key c) -> NoDup (map i_key (map reload_item (filter f c))).
  Proof.
    rewrite map_map. cbn [reload_item i_key].
    induction c as [|x c IH]; intro H; cbn [filter map].
    - constructor.
    - inversion H as [|k l Hk Hl]; subst.
      destruct (f x); cbn [map]; [|now apply IH].
      constructor; [|now apply IH].
      intro Hin. apply Hk. apply in_map_iff in Hin as (y & Ey & Hy).
      apply filter_In in Hy as [Hy _]. rewrite <- Ey. now apply in_map.
  Qed.

  Lemma lookup_reload k (f : item -> bool) (c : list item) it :
    lookup k c = Some it -> f it = true ->
    lookup k (map reload_item (filter f c)) = Some (reload_item it).
  Proof.
    unfold lookup. induction c as [|x c IH]; intros H Hf; cbn [find filter map] in *.
    - discriminate.
    - destruct (key_eqb (i_key x) k) eqn:E.
      + injection H as ->. rewrite Hf. cbn [map find reload_item i_key]. now rewrite E.
      + destruct (f x); cbn [map find reload_item i_key]; rewrite ?E; now apply IH.
  Qed.

  Variable unpack : bytes -> option M.
  Variable unmarshal : bytes -> option (list entry).
  Variable gunzip : bytes -> gz_result.
  Variable pack : M -> option bytes.
  Variable marshal : list entry -> bytes.
  Variable esz : entry -> N.
  Variable gz : bytes -> bytes -> bytes.

  (** Served before and after a restart: an item the first cache serves fresh
      at [now] — and whose truncated expiries have not passed — is served by the
      reloaded cache with the same message, its TTLs reduced by the same age
      or by one second more. *)
  Theorem serve_after_reload lazy now1 now2 now (c : cache M) file k it :
    pack_ok M pack unpack -> proto_ok marshal unmarshal -> size_ok marshal esz ->
    gzip_ok gz gunzip -> all_fit M pack esz now1 c ->
    NoDup (map i_key c) ->
    write_dump pack marshal esz gz now1 c = Some file ->
    lookup k c = Some it ->
    (now1 <= now2 <= now)%Z ->
    (now <= trunc_s (i_cexp it))%Z -> (now < trunc_s (i_mexp it))%Z ->
    let c2 := fst (load_into unpack unmarshal gunzip [] now2 file) in
    exists d d',
      serve lazy now c k = Some (i_msg it, Some d)
      /\ serve lazy now c2 k = Some (i_msg it, Some d')
      /\ (d' = d \/ d' = d + 1)%Z.
  Proof.
    intros HP HU HS HG Hfit Hnd W Hk [H12 H2n] Hc Hm c2.
    pose proof (trunc_bounds (i_cexp it)) as Bc.
    pose proof (trunc_bounds (i_mexp it)) as Bm.
    exists (age_s now (i_stored it)), (age_s now (trunc_s (i_stored it))).
    split; [|split].
    - unfold serve. rewrite Hk.
      destruct (i_cexp it <? now)%Z eqn:E1; [lia|].
      destruct (now <? i_mexp it)%Z eqn:E2; [reflexivity | lia].
    - subst c2. unfold load_into.
      rewrite (reload_faithful M pack unpack marshal unmarshal esz gz gunzip now1 now2 c file
                 HP HU HS HG Hfit W).
      cbn [fst]. rewrite store_all_nodup by (cbn [app]; now apply NoDup_keys_filter_reload).
      cbn [app]. unfold serve.
      rewrite (lookup_reload k (survives now1 now2) c it Hk).
      + cbn [reload_item i_cexp i_mexp i_msg i_stored].
        destruct (trunc_s (i_cexp it) <? now)%Z eqn:E1; [lia|].
        destruct (now <? trunc_s (i_mexp it))%Z eqn:E2; [reflexivity | lia].
      + unfold survives.
        destruct (i_cexp it <? now1)%Z eqn:E1; [lia|].
        destruct (trunc_s (i_cexp it) <? now2)%Z eqn:E2; [lia | reflexivity].
    - apply age_after_reload.
  Qed.
End Served.
