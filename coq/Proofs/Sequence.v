(** C06 — proofs about Model/Sequence.v. *)
From Verif Require Import Base.Prelude Model.Sequence.
Open Scope N_scope.

Scheme rules_mind := Induction for rules Sort Prop
  with rule_mind := Induction for rule Sort Prop
  with act_mind := Induction for act Sort Prop.

(** A wrapping plugin can use its continuation only by running it: two
    continuations that behave alike are not told apart. *)
Definition wrappers_extensional {State} (E : env State) : Prop :=
  forall w k1 k2, (forall s, k1 s = k2 s) -> forall st, wrap_o E w k1 st = wrap_o E w k2 st.

Section Proofs.
  Variable State : Type.
  Variable E : env State.
  Notation outcome := (outcome State).
  Notation sres := (sres State).

  (** ** bookkeeping *)
  Lemma pre_nil {R} (o : trace * State * R) : pre [] o = o.
  Proof. destruct o as [[t s] r]. reflexivity. Qed.

  Lemma pre_pre {R} t1 t2 (o : trace * State * R) : pre t1 (pre t2 o) = pre (t1 ++ t2) o.
  Proof. destruct o as [[t s] r]. cbn. now rewrite app_assoc. Qed.

  Lemma glue_pre t (o : sres) a : glue (pre t o) a = pre t (glue o a).
  Proof.
    destruct o as [[t' s] r]. destruct r; cbn; try reflexivity.
    - destruct (a s) as [[t2 s2] r2]. cbn. now rewrite app_assoc.
    - destruct (a s) as [[t2 s2] r2]. cbn. now rewrite app_assoc.
  Qed.

  (** ** matchers *)
  Lemma match_loop_spec ms st : match_loop E ms st = spec_matchers E ms st.
  Proof.
    induction ms as [|[neg m] ms IH]; [reflexivity|].
    cbn [match_loop spec_matchers]. unfold match_one, holds. cbn [fst snd].
    destruct (match_o E m st); destruct neg; cbn; rewrite ?IH; reflexivity.
  Qed.

  Definition ev_of (st : State) (x : bool * N) : event := EMatch (snd x) (match_o E (snd x) st).

  (** Evaluation is left to right and stops at the first matcher that does not
      hold after negation; all of them are evaluated only when all hold. *)
  Lemma match_loop_true ms st t :
    match_loop E ms st = (t, VTrue) ->
    t = map (ev_of st) ms /\ forall x, In x ms -> holds E x st = VTrue.
  Proof.
    rewrite match_loop_spec. revert t. induction ms as [|x ms IH]; intros t H; cbn in H.
    - inversion H. split; [reflexivity | intros x []].
    - destruct (holds E x st) eqn:Hx; try discriminate.
      destruct (spec_matchers E ms st) as [t' v] eqn:Hs. inversion H; subst.
      destruct (IH t' eq_refl) as [-> Hall]. split; [reflexivity|].
      intros y [<-|Hy]; auto.
  Qed.

  Lemma match_loop_stops ms st t v :
    match_loop E ms st = (t, v) -> v <> VTrue ->
    exists before x rest,
      ms = before ++ x :: rest /\
      (forall y, In y before -> holds E y st = VTrue) /\
      holds E x st = v /\
      t = map (ev_of st) (before ++ [x]).
  Proof.
    rewrite match_loop_spec. revert t. induction ms as [|x ms IH]; intros t H Hv; cbn in H.
    - inversion H; subst. now destruct Hv.
    - destruct (holds E x st) eqn:Hx.
      + destruct (spec_matchers E ms st) as [t' v'] eqn:Hs. inversion H; subst.
        destruct (IH t' eq_refl Hv) as (b & y & r & -> & Hb & Hy & ->).
        exists (x :: b), y, r. repeat split; auto.
        intros z [<-|Hz]; auto.
      + inversion H; subst. exists [], x, ms. repeat split; auto. intros y [].
      + inversion H; subst. exists [], x, ms. repeat split; auto. intros y [].
  Qed.

  (** [holds] is the '!' reading of the plugin's answer. *)
  Lemma holds_plain m st :
    holds E (false, m) st = match match_o E m st with MTrue => VTrue | MFalse => VFalse | MErr c => VErr c end.
  Proof. unfold holds. cbn. destruct (match_o E m st); reflexivity. Qed.
  Lemma holds_negated m st :
    holds E (true, m) st = match match_o E m st with MTrue => VFalse | MFalse => VTrue | MErr c => VErr c end.
  Proof. unfold holds. cbn. destruct (match_o E m st); reflexivity. Qed.

  (** ** the machine, rule by rule *)
  Lemma machine_nil k st : machine E RNil k st = k st.
  Proof. reflexivity. Qed.

  Lemma machine_not_matched ms a rest k st tm :
    match_loop E ms st = (tm, VFalse) ->
    machine E (RCons (Rule ms a) rest) k st = pre tm (machine E rest k st).
  Proof. intro H. cbn [machine]. now rewrite H. Qed.

  Lemma machine_match_error ms a rest k st tm c :
    match_loop E ms st = (tm, VErr c) ->
    machine E (RCons (Rule ms a) rest) k st = (tm, st, Some c).
  Proof. intro H. cbn [machine]. now rewrite H. Qed.

  Lemma machine_exec_ok ms e rest k st tm st' :
    match_loop E ms st = (tm, VTrue) -> exec_o E e st = (st', None) ->
    machine E (RCons (Rule ms (Exec e)) rest) k st = pre (tm ++ [EExec e]) (machine E rest k st').
  Proof. intros H He. cbn [machine]. now rewrite H, He. Qed.

  Lemma machine_exec_error ms e rest k st tm st' c :
    match_loop E ms st = (tm, VTrue) -> exec_o E e st = (st', Some c) ->
    machine E (RCons (Rule ms (Exec e)) rest) k st = (tm ++ [EExec e], st', Some c).
  Proof. intros H He. cbn [machine]. now rewrite H, He. Qed.

  Lemma machine_accept ms rest k st tm :
    match_loop E ms st = (tm, VTrue) ->
    machine E (RCons (Rule ms Accept) rest) k st = (tm, st, None).
  Proof. intro H. cbn [machine]. now rewrite H. Qed.

  Lemma machine_reject ms rc rest k st tm :
    match_loop E ms st = (tm, VTrue) ->
    machine E (RCons (Rule ms (Reject rc)) rest) k st = (tm, reject_o E rc st, None).
  Proof. intro H. cbn [machine]. now rewrite H. Qed.

  Lemma machine_return ms rest k st tm :
    match_loop E ms st = (tm, VTrue) ->
    machine E (RCons (Rule ms Return) rest) k st = pre tm (k st).
  Proof. intro H. cbn [machine]. now rewrite H. Qed.

  Lemma machine_jump ms tgt rest k st tm :
    match_loop E ms st = (tm, VTrue) ->
    machine E (RCons (Rule ms (Jump tgt)) rest) k st = pre tm (machine E tgt (machine E rest k) st).
  Proof. intro H. cbn [machine]. now rewrite H. Qed.

  Lemma machine_goto ms tgt rest k st tm :
    match_loop E ms st = (tm, VTrue) ->
    machine E (RCons (Rule ms (Goto tgt)) rest) k st = pre tm (machine E tgt done st).
  Proof. intro H. cbn [machine]. now rewrite H. Qed.

  Lemma machine_call_ok ms tgt rest k st tm t st' :
    match_loop E ms st = (tm, VTrue) -> machine E tgt done st = (t, st', None) ->
    machine E (RCons (Rule ms (Call tgt)) rest) k st = pre (tm ++ t) (machine E rest k st').
  Proof. intros H Ht. cbn [machine]. now rewrite H, Ht. Qed.

  Lemma machine_call_error ms tgt rest k st tm t st' c :
    match_loop E ms st = (tm, VTrue) -> machine E tgt done st = (t, st', Some c) ->
    machine E (RCons (Rule ms (Call tgt)) rest) k st = (tm ++ t, st', Some c).
  Proof. intros H Ht. cbn [machine]. now rewrite H, Ht. Qed.

  Lemma machine_wrap ms w rest k st tm :
    match_loop E ms st = (tm, VTrue) ->
    machine E (RCons (Rule ms (Wrap w)) rest) k st = pre tm (wrap_o E w (machine E rest k) st).
  Proof. intro H. cbn [machine]. now rewrite H. Qed.

  (** ** the walker as data: ExecNext, line by line *)
  Section Walker.
    Variables (ms : list (bool * N)) (rest : rules) (stack : list rules) (st : State) (tm : trace).

    (** end of chain, jumpBack == nil *)
    Lemma walker_end_top : exec_walker E (RNil, []) st = ([], st, None).
    Proof. reflexivity. Qed.
    (** end of chain, jumpBack != nil *)
    Lemma walker_end_back r : exec_walker E (RNil, r :: stack) st = exec_walker E (r, stack) st.
    Proof. reflexivity. Qed.

    Lemma walker_not_matched a :
      match_loop E ms st = (tm, VFalse) ->
      exec_walker E (RCons (Rule ms a) rest, stack) st = pre tm (exec_walker E (rest, stack) st).
    Proof. apply machine_not_matched. Qed.

    Lemma walker_match_error a c :
      match_loop E ms st = (tm, VErr c) ->
      exec_walker E (RCons (Rule ms a) rest, stack) st = (tm, st, Some c).
    Proof. apply machine_match_error. Qed.

    Hypothesis Hm : match_loop E ms st = (tm, VTrue).

    Lemma walker_exec_ok e st' :
      exec_o E e st = (st', None) ->
      exec_walker E (RCons (Rule ms (Exec e)) rest, stack) st
      = pre (tm ++ [EExec e]) (exec_walker E (rest, stack) st').
    Proof. now apply machine_exec_ok. Qed.

    Lemma walker_exec_error e st' c :
      exec_o E e st = (st', Some c) ->
      exec_walker E (RCons (Rule ms (Exec e)) rest, stack) st = (tm ++ [EExec e], st', Some c).
    Proof. now apply machine_exec_error. Qed.

    Lemma walker_accept : exec_walker E (RCons (Rule ms Accept) rest, stack) st = (tm, st, None).
    Proof. now apply machine_accept. Qed.

    Lemma walker_reject rc :
      exec_walker E (RCons (Rule ms (Reject rc)) rest, stack) st = (tm, reject_o E rc st, None).
    Proof. now apply machine_reject. Qed.

    Lemma walker_return_top :
      exec_walker E (RCons (Rule ms Return) rest, []) st = (tm, st, None).
    Proof.
      unfold exec_walker. cbn [fst snd run_stack]. rewrite (machine_return _ _ _ _ _ Hm).
      cbn. now rewrite app_nil_r.
    Qed.

    Lemma walker_return_back r :
      exec_walker E (RCons (Rule ms Return) rest, r :: stack) st = pre tm (exec_walker E (r, stack) st).
    Proof. unfold exec_walker. cbn [fst snd]. now rewrite (machine_return _ _ _ _ _ Hm). Qed.

    Lemma walker_jump tgt :
      exec_walker E (RCons (Rule ms (Jump tgt)) rest, stack) st
      = pre tm (exec_walker E (tgt, rest :: stack) st).
    Proof. unfold exec_walker. cbn [fst snd]. now rewrite (machine_jump _ _ _ _ _ _ Hm). Qed.

    Lemma walker_goto tgt :
      exec_walker E (RCons (Rule ms (Goto tgt)) rest, stack) st = pre tm (exec_walker E (tgt, []) st).
    Proof. unfold exec_walker. cbn [fst snd]. now rewrite (machine_goto _ _ _ _ _ _ Hm). Qed.

    Lemma walker_call_ok tgt t st' :
      exec_walker E (tgt, []) st = (t, st', None) ->
      exec_walker E (RCons (Rule ms (Call tgt)) rest, stack) st
      = pre (tm ++ t) (exec_walker E (rest, stack) st').
    Proof. now apply machine_call_ok. Qed.

    Lemma walker_call_error tgt t st' c :
      exec_walker E (tgt, []) st = (t, st', Some c) ->
      exec_walker E (RCons (Rule ms (Call tgt)) rest, stack) st = (tm ++ t, st', Some c).
    Proof. now apply machine_call_error. Qed.

    Lemma walker_wrap w :
      exec_walker E (RCons (Rule ms (Wrap w)) rest, stack) st
      = pre tm (wrap_o E w (exec_walker E (rest, stack)) st).
    Proof. unfold exec_walker. cbn [fst snd]. now rewrite (machine_wrap _ _ _ _ _ _ Hm). Qed.
  End Walker.

  (** ** refinement: the machine computes what the specification says *)
  Hypothesis Hext : wrappers_extensional E.

  Definition Prs (rs : rules) : Prop :=
    forall k a, (forall s, k s = a s) -> forall st, machine E rs k st = glue (spec_rules E rs a st) a.
  Definition Pact (a : act) : Prop :=
    match a with Jump t | Goto t | Call t => Prs t | _ => True end.
  Definition Prule (r : rule) : Prop := match r with Rule _ a => Pact a end.

  Lemma refine_cons r rs : Prule r -> Prs rs -> Prs (RCons r rs).
  Proof.
    destruct r as [ms a]. intros Ha IH k af Hk st.
    cbn [machine spec_rules]. rewrite match_loop_spec.
    destruct (spec_matchers E ms st) as [tm v]. destruct v as [| |c].
    - destruct a as [e|w| |rc| |tgt|tgt|tgt]; cbn [Prule Pact] in Ha.
      + destruct (exec_o E e st) as [st' [c|]]; [reflexivity|].
        rewrite glue_pre. f_equal. now apply IH.
      + rewrite (Hext w (machine E rs k) (fun s => glue (spec_rules E rs af s) af)) by (intro s; now apply IH).
        destruct (wrap_o E w (fun s => glue (spec_rules E rs af s) af) st) as [[t s] [c|]]; reflexivity.
      + reflexivity.
      + reflexivity.
      + cbn [glue]. now rewrite Hk.
      + rewrite (Ha (machine E rs k) (fun s => glue (spec_rules E rs af s) af)) by (intro s; now apply IH).
        destruct (spec_rules E tgt (fun s => glue (spec_rules E rs af s) af) st) as [[t s] r].
        destruct r as [| | |c]; cbn [glue].
        * rewrite glue_pre, pre_pre. reflexivity.
        * cbn. reflexivity.
        * rewrite glue_pre, pre_pre. reflexivity.
        * reflexivity.
      + rewrite (Ha done done) by reflexivity.
        destruct (spec_rules E tgt done st) as [[t s] r].
        destruct r as [| | |c]; cbn; rewrite ?app_nil_r; reflexivity.
      + rewrite (Ha done done) by reflexivity.
        destruct (spec_rules E tgt done st) as [[t s] r].
        destruct r as [| | |c]; cbn [glue pre done]; rewrite ?app_nil_r;
          try reflexivity; rewrite glue_pre; f_equal; now apply IH.
    - rewrite glue_pre. f_equal. now apply IH.
    - reflexivity.
  Qed.

  Lemma refine_all : forall rs, Prs rs.
  Proof.
    apply (rules_mind Prs Prule Pact); cbn; auto.
    - intros k a Hk st. cbn. rewrite Hk. destruct (a st) as [[t s] r]. reflexivity.
    - intros r Hr rs Hrs. now apply refine_cons.
  Qed.

  Theorem machine_refines_spec_k rs k st :
    machine E rs k st = glue (spec_rules E rs k st) k.
  Proof. now apply refine_all. Qed.

  Theorem machine_refines_spec prog st : run_seq E prog st = spec_seq E prog st.
  Proof. apply machine_refines_spec_k. Qed.

  Theorem walker_refines_spec rs stack st :
    exec_walker E (rs, stack) st = glue (spec_rules E rs (run_stack E stack) st) (run_stack E stack).
  Proof. apply machine_refines_spec_k. Qed.

  (** ** clauses of the property, read off the specification's result *)

  (** accept / reject (anywhere below, also inside jumped or gone-to
      sequences): nothing pending runs. *)
  Lemma stop_ends_everything rs k st t s :
    spec_rules E rs k st = (t, s, Stop) -> machine E rs k st = (t, s, None).
  Proof. intro H. now rewrite machine_refines_spec_k, H. Qed.

  (** an error aborts: nothing pending runs, the caller gets that error *)
  Lemma error_aborts_everything rs k st t s c :
    spec_rules E rs k st = (t, s, Err c) -> machine E rs k st = (t, s, Some c).
  Proof. intro H. now rewrite machine_refines_spec_k, H. Qed.

  (** falling off the end or return: what is pending runs next *)
  Lemma end_or_return_resumes rs k st t s r :
    spec_rules E rs k st = (t, s, r) -> r = Continue \/ r = Ret ->
    machine E rs k st = pre t (k s).
  Proof. intros H [-> | ->]; now rewrite machine_refines_spec_k, H. Qed.

  (** jump: run the target; if it ends or returns, continue with the rest *)
  Lemma jump_then_continue ms tgt rest k st tm t s r :
    match_loop E ms st = (tm, VTrue) ->
    spec_rules E tgt (machine E rest k) st = (t, s, r) -> r = Continue \/ r = Ret ->
    machine E (RCons (Rule ms (Jump tgt)) rest) k st = pre (tm ++ t) (machine E rest k s).
  Proof.
    intros Hm H Hr. rewrite (machine_jump _ _ _ _ _ _ Hm).
    rewrite (end_or_return_resumes _ _ _ _ _ _ H Hr). apply pre_pre.
  Qed.

  (** goto inside any nesting of jumps: neither the rest of this sequence nor
      any pending jump return runs afterwards *)
  Lemma goto_never_returns ms tgt rest k st tm :
    match_loop E ms st = (tm, VTrue) ->
    machine E (RCons (Rule ms (Goto tgt)) rest) k st = pre tm (run_seq E tgt st).
  Proof. apply machine_goto. Qed.

  (** a sequence used as a plain action ([exec: $seq]): an error inside it, at
      any depth, aborts the calling sequence and everything pending too ... *)
  Lemma call_error_aborts ms tgt rest k st tm t s c :
    match_loop E ms st = (tm, VTrue) ->
    spec_rules E tgt done st = (t, s, Err c) ->
    machine E (RCons (Rule ms (Call tgt)) rest) k st = (tm ++ t, s, Some c).
  Proof.
    intros Hm H. apply machine_call_error; [exact Hm|].
    now rewrite machine_refines_spec_k, H.
  Qed.

  (** ... and however else it ends (end of list, return, accept, reject: these
      end the called sequence only) the caller goes on with its next rule *)
  Lemma call_then_continue ms tgt rest k st tm t s r :
    match_loop E ms st = (tm, VTrue) ->
    spec_rules E tgt done st = (t, s, r) -> (forall c, r <> Err c) ->
    machine E (RCons (Rule ms (Call tgt)) rest) k st = pre (tm ++ t) (machine E rest k s).
  Proof.
    intros Hm H Hr. apply machine_call_ok; [exact Hm|].
    rewrite machine_refines_spec_k, H.
    destruct r as [| | |c]; cbn; rewrite ?app_nil_r; try reflexivity. now destruct (Hr c).
  Qed.
End Proofs.

(** ** the driver's wrappers use their continuation only by running it *)
Section Rep.
  Variable State : Type.
  Variable code : State -> N.

  Lemma rep_same_ext w n (k1 k2 : State -> outcome State) :
    (forall s, k1 s = k2 s) -> forall st, rep_same code w n k1 st = rep_same code w n k2 st.
  Proof.
    intros H. induction n as [|n IH]; intro st; [reflexivity|].
    cbn [rep_same]. rewrite H. destruct (k2 st) as [[t s] [c|]]; [reflexivity|]. now rewrite IH.
  Qed.

  Lemma rep_copy_ext w n (k1 k2 : State -> outcome State) :
    (forall s, k1 s = k2 s) -> forall st, rep_copy code w n k1 st = rep_copy code w n k2 st.
  Proof.
    intros H. induction n as [|n IH]; intro st; [reflexivity|].
    cbn [rep_copy]. rewrite H. destruct (k2 st) as [[t s] [c|]]; [reflexivity|]. now rewrite IH.
  Qed.

  Lemma rep_wrapper_ext w calls copy fail (k1 k2 : State -> outcome State) :
    (forall s, k1 s = k2 s) -> forall st,
    rep_wrapper code w calls copy fail k1 st = rep_wrapper code w calls copy fail k2 st.
  Proof.
    intros H st. unfold rep_wrapper. destruct copy.
    - now rewrite (rep_copy_ext w calls k1 k2 H).
    - now rewrite (rep_same_ext w calls k1 k2 H).
  Qed.

  (** Reuse: run on copies, every run of the continuation starts from the same
      context and therefore produces the same sub-trace; [n] runs give [n]
      identical copies of it, in order. *)
  Fixpoint repeat_app {A} (l : list A) (n : nat) : list A :=
    match n with O => [] | S n' => l ++ repeat_app l n' end.

  Lemma rep_copy_ok w n (k : State -> outcome State) st t s :
    k st = (t, s, None) ->
    rep_copy code w n k st = (repeat_app (t ++ [EWrap w (2 + code s)]) n, st, None).
  Proof.
    intro H. induction n as [|n IH]; [reflexivity|].
    cbn [rep_copy repeat_app]. rewrite H, IH. reflexivity.
  Qed.

  Lemma rep_copy_err w n (k : State -> outcome State) st t s c :
    k st = (t, s, Some c) ->
    rep_copy code w (S n) k st = (t ++ [EWrap w (2 + code s)], st, Some c).
  Proof. intro H. cbn [rep_copy]. now rewrite H. Qed.
End Rep.

Lemma late_runs_ext {State} code copy w n (k1 k2 : State -> outcome State) :
  (forall s, k1 s = k2 s) -> forall st, late_runs code copy w n k1 st = late_runs code copy w n k2 st.
Proof.
  intros H. induction n as [|n IH]; intro st; [reflexivity|].
  cbn [late_runs]. rewrite H. destruct (k2 st) as [[t s] r]. now rewrite IH.
Qed.

Lemma keep_wrapper_ext {State} code w n copy (k1 k2 : State -> outcome State) :
  (forall s, k1 s = k2 s) -> forall st, keep_wrapper code w n copy k1 st = keep_wrapper code w n copy k2 st.
Proof. intros H st. unfold keep_wrapper. now rewrite H, (late_runs_ext code copy w n k1 k2 H). Qed.

(** every late run on a copy of the snapshot repeats the in-place sub-trace *)
Lemma late_runs_copy {State} code w n (k : State -> outcome State) st t s r :
  k st = (t, s, r) ->
  late_runs code true w n k st = repeat_app (t ++ [EWrap w (2 + code s); EWrap w (3000 + errc r)]) n.
Proof.
  intro H. induction n as [|n IH]; [reflexivity|].
  cbn [late_runs repeat_app]. rewrite H, IH. now rewrite <- app_assoc.
Qed.

Lemma harness_env_ext : wrappers_extensional harness_env.
Proof.
  intros w k1 k2 H st. cbn. unfold h_wrap. destruct (18 <=? w).
  - now apply keep_wrapper_ext.
  - now apply rep_wrapper_ext.
Qed.

(** ** reuse of the continuation, on the walker *)
Section Reuse.
  Variable State : Type.
  Variable E : env State.

  Lemma continuation_reusable code w n fail ms rest stack st tm t s :
    (forall k st, wrap_o E w k st = rep_wrapper code w n true fail k st) ->
    match_loop E ms st = (tm, VTrue) ->
    exec_walker E (rest, stack) st = (t, s, None) ->
    exec_walker E (RCons (Rule ms (Wrap w)) rest, stack) st
    = (tm ++ EWrap w 0 :: repeat_app (t ++ [EWrap w (2 + code s)]) n ++ [EWrap w 1], st, fail).
  Proof.
    intros Hw Hm Hk. rewrite (walker_wrap State E ms rest stack st tm Hm w), Hw.
    unfold rep_wrapper. rewrite (rep_copy_ok State code w n _ st t s Hk). reflexivity.
  Qed.

  Lemma continuation_reusable_in_place code w fail ms rest stack st tm t1 s1 t2 s2 :
    (forall k st, wrap_o E w k st = rep_wrapper code w 2 false fail k st) ->
    match_loop E ms st = (tm, VTrue) ->
    exec_walker E (rest, stack) st = (t1, s1, None) ->
    exec_walker E (rest, stack) s1 = (t2, s2, None) ->
    exec_walker E (RCons (Rule ms (Wrap w)) rest, stack) st
    = (tm ++ EWrap w 0 :: (t1 ++ [EWrap w (2 + code s1)]) ++ (t2 ++ [EWrap w (2 + code s2)]) ++ [EWrap w 1],
       s2, fail).
  Proof.
    intros Hw Hm H1 H2. rewrite (walker_wrap State E ms rest stack st tm Hm w), Hw.
    unfold rep_wrapper. cbn [rep_same]. rewrite H1. cbn [pre]. rewrite H2. cbn [pre].
    rewrite app_nil_r, <- !app_assoc. reflexivity.
  Qed.

  (** A wrapper inside any nesting of jumps that keeps its continuation: every
      late run on a copy of the context it kept executes exactly what the
      in-place run executes — the remaining rules and the pending jump
      returns ([stack]) as they were when the continuation was made. *)
  Lemma continuation_reusable_later code w n ms rest stack st tm t s r :
    (forall k st, wrap_o E w k st = keep_wrapper code w n true k st) ->
    match_loop E ms st = (tm, VTrue) ->
    exec_walker E (rest, stack) st = (t, s, r) ->
    exec_walker E (RCons (Rule ms (Wrap w)) rest, stack) st
    = (tm ++ EWrap w 0 :: repeat_app (t ++ [EWrap w (2 + code s); EWrap w (3000 + errc r)]) n
          ++ t ++ match r with None => [EWrap w 1] | Some _ => [] end, s, r).
  Proof.
    intros Hw Hm Hk. rewrite (walker_wrap State E ms rest stack st tm Hm w), Hw.
    unfold keep_wrapper. rewrite Hk, (late_runs_copy code w n _ st t s r Hk). reflexivity.
  Qed.
End Reuse.

(** ** rule text: parse (render x) = x *)
Definition nonblank_ends (s : str) : Prop :=
  is_space (hd 0 s) = false /\ is_space (last s 0) = false.
Definition plain_name (s : str) : Prop :=
  s <> [] /\ Forall (fun c => is_space c = false) s /\ hd 0 s <> 33 /\ hd 0 s <> 36.
Definition plain_args (s : str) : Prop := nonblank_ends s.

Lemma trim_left_nb s : is_space (hd 0 s) = false -> trim_left s = s.
Proof. destruct s as [|c s]; cbn; [reflexivity|]. now intros ->. Qed.

Lemma trim_left_app_nb s t : s <> [] -> is_space (hd 0 s) = false -> trim_left (s ++ t) = s ++ t.
Proof. destruct s as [|c s]; cbn; [congruence|]. now intros _ ->. Qed.

Lemma trim_left_blanks_app n s : trim_left (blanks n ++ s) = trim_left s.
Proof. induction n as [|n IH]; [reflexivity|]. exact IH. Qed.

Lemma blanks_snoc n : blanks n ++ [32] = 32 :: blanks n.
Proof. induction n as [|n IH]; [reflexivity|]. cbn. unfold blanks in IH. now rewrite IH. Qed.

Lemma rev_blanks n : rev (blanks n) = blanks n.
Proof.
  induction n as [|n IH]; [reflexivity|].
  change (blanks (S n)) with (32 :: blanks n). cbn [rev]. now rewrite IH, blanks_snoc.
Qed.

Lemma hd_rev_last (s : str) : hd 0 (rev s) = last s 0.
Proof.
  induction s as [|c s IH]; [reflexivity|].
  cbn [rev]. destruct s as [|d s]; [reflexivity|].
  change (last (c :: d :: s) 0) with (last (d :: s) 0). rewrite <- IH.
  cbn [rev]. destruct (rev s ++ [d]) eqn:Heq; [destruct (rev s); discriminate|reflexivity].
Qed.

Lemma last_app_ne (a b : str) : b <> [] -> last (a ++ b) 0 = last b 0.
Proof.
  intro Hb. induction a as [|c a IH]; [reflexivity|].
  cbn [app]. destruct (a ++ b) eqn:Heq.
  - destruct a; [cbn in Heq; congruence | discriminate].
  - change (last (c :: n :: l) 0) with (last (n :: l) 0). exact IH.
Qed.

Lemma trim_space_blanks l s r :
  nonblank_ends s -> trim_space (blanks l ++ s ++ blanks r) = s.
Proof.
  intros [Hh Hl]. unfold trim_space. rewrite trim_left_blanks_app.
  destruct s as [|c s].
  - cbn [app]. rewrite <- (app_nil_r (blanks r)), trim_left_blanks_app. reflexivity.
  - rewrite trim_left_app_nb by (auto; discriminate).
    rewrite rev_app_distr, rev_blanks, trim_left_blanks_app.
    rewrite trim_left_nb by (now rewrite hd_rev_last). apply rev_involutive.
Qed.

Lemma trim_space_plain s : nonblank_ends s -> trim_space s = s.
Proof.
  intro H. pose proof (trim_space_blanks 0 s 0 H) as E. cbn [blanks repeat app] in E.
  now rewrite app_nil_r in E.
Qed.

Lemma trim_space_blanks_l l s : nonblank_ends s -> trim_space (blanks l ++ s) = s.
Proof.
  intro H. pose proof (trim_space_blanks l s 0 H) as E. cbn [blanks repeat] in E.
  now rewrite app_nil_r in E.
Qed.

Lemma cut_space_found p t : Forall (fun c => c <> 32) p -> cut_space (p ++ 32 :: t) = (p, t).
Proof.
  induction 1 as [|c p Hc _ IH]; [reflexivity|].
  cbn [app cut_space]. apply N.eqb_neq in Hc. now rewrite Hc, IH.
Qed.

Lemma cut_space_none p : Forall (fun c => c <> 32) p -> cut_space p = (p, []).
Proof.
  induction 1 as [|c p Hc _ IH]; [reflexivity|].
  cbn [cut_space]. apply N.eqb_neq in Hc. now rewrite Hc, IH.
Qed.

Lemma not_space_not_32 c : is_space c = false -> c <> 32.
Proof. intros H ->. discriminate. Qed.

Lemma plain_name_no32 name : plain_name name -> Forall (fun c => c <> 32) name.
Proof. intros (_ & H & _). eapply Forall_impl; [|exact H]. apply not_space_not_32. Qed.

Lemma plain_name_ends name : plain_name name -> nonblank_ends name.
Proof.
  intros (Hne & H & _). destruct name as [|c s]; [congruence|]. split.
  - now inversion H.
  - assert (Hin : In (last (c :: s) 0) (c :: s)).
    { destruct (exists_last Hne) as (s' & x & ->). rewrite last_last. apply in_or_app. right. now left. }
    rewrite Forall_forall in H. now apply H.
Qed.

Lemma cut_head_args p b args :
  Forall (fun c => c <> 32) p -> plain_args args ->
  exists x, cut_space (p ++ argpart b args) = (p, x) /\ trim_space x = args.
Proof.
  intros Hp Ha. destruct args as [|c s].
  - exists []. cbn [argpart]. rewrite app_nil_r. split; [now apply cut_space_none | reflexivity].
  - exists (blanks b ++ c :: s). cbn [argpart]. change (blanks (S b)) with (32 :: blanks b).
    cbn [app]. split; [now apply cut_space_found | now apply trim_space_blanks_l].
Qed.

Lemma body_ends (h : str) name b args :
  plain_name name -> plain_args args -> Forall (fun c => is_space c = false) h ->
  nonblank_ends (h ++ name ++ argpart b args).
Proof.
  intros Hn Ha Hh. pose proof (plain_name_ends name Hn) as [Hn1 Hn2].
  destruct Hn as (Hne & _). split.
  - destruct h as [|c h]; [|now inversion Hh].
    destruct name; [congruence | exact Hn1].
  - rewrite app_assoc. destruct args as [|c s].
    + cbn [argpart]. rewrite app_nil_r, last_app_ne by exact Hne. exact Hn2.
    + cbn [argpart]. rewrite app_assoc, last_app_ne by discriminate. apply Ha.
Qed.

Lemma head_tag_or_type (is_tag : bool) name :
  plain_name name ->
  trim_prefix_field ((if is_tag then [36] else []) ++ name) 36
  = (name, is_tag).
Proof.
  intro Hn. destruct is_tag; cbn [app trim_prefix_field].
  - rewrite N.eqb_refl, trim_space_plain by now apply plain_name_ends. reflexivity.
  - destruct Hn as (Hne & _ & _ & H36). destruct name as [|c s]; [congruence|].
    cbn [trim_prefix_field hd] in *. apply N.eqb_neq in H36. now rewrite H36.
Qed.

Lemma head_no32 (is_tag : bool) name :
  plain_name name -> Forall (fun c => c <> 32) ((if is_tag then [36] else []) ++ name).
Proof.
  intro Hn. apply Forall_app. split; [|now apply plain_name_no32].
  destruct is_tag; repeat constructor. discriminate.
Qed.

Lemma head_nospace (is_tag : bool) : Forall (fun c => is_space c = false) (if is_tag then [36] else []).
Proof. destruct is_tag; repeat constructor. Qed.

Lemma parse_exec_roundtrip l b r is_tag name args :
  plain_name name -> plain_args args ->
  parse_exec (render_exec l b r is_tag name args)
  = (if is_tag then name else [], if is_tag then [] else name, args).
Proof.
  intros Hn Ha. unfold parse_exec, render_exec.
  set (h := if is_tag then [36] else []).
  replace (blanks l ++ h ++ name ++ argpart b args ++ blanks r)
    with (blanks l ++ (h ++ name ++ argpart b args) ++ blanks r) by (now rewrite <- !app_assoc).
  rewrite trim_space_blanks by (apply body_ends; auto; apply head_nospace).
  rewrite app_assoc.
  destruct (cut_head_args (h ++ name) b args (head_no32 is_tag name Hn) Ha) as (x & -> & ->).
  unfold h. rewrite head_tag_or_type by exact Hn. now destruct is_tag.
Qed.

Lemma parse_match_roundtrip l a b r reverse is_tag name args :
  plain_name name -> plain_args args ->
  parse_match (render_match l a b r reverse is_tag name args)
  = MatchConfig (if is_tag then name else []) (if is_tag then [] else name) args reverse.
Proof.
  intros Hn Ha. unfold parse_match, render_match.
  set (h := if is_tag then [36] else []).
  set (body := h ++ name ++ argpart b args).
  assert (Hb : nonblank_ends body) by (apply body_ends; auto; apply head_nospace).
  replace (blanks l ++ (if reverse then 33 :: blanks a else []) ++ h ++ name ++ argpart b args ++ blanks r)
    with (blanks l ++ ((if reverse then 33 :: blanks a else []) ++ body) ++ blanks r)
    by (unfold body; now rewrite <- !app_assoc).
  assert (Hfield : trim_prefix_field ((if reverse then 33 :: blanks a else []) ++ body) 33 = (body, reverse)).
  { destruct reverse; cbn [app trim_prefix_field].
    - now rewrite N.eqb_refl, trim_space_blanks_l.
    - unfold body, h. destruct Hn as (Hne & _ & H33 & _).
      destruct is_tag; cbn [app trim_prefix_field]; [reflexivity|].
      destruct name as [|c s]; [congruence|]. cbn [app trim_prefix_field hd] in *.
      apply N.eqb_neq in H33. now rewrite H33. }
  rewrite trim_space_blanks.
  - rewrite Hfield. unfold body. rewrite app_assoc.
    destruct (cut_head_args (h ++ name) b args (head_no32 is_tag name Hn) Ha) as (x & -> & ->).
    unfold h. rewrite head_tag_or_type by exact Hn. now destruct is_tag.
  - destruct reverse; [|exact Hb]. split; [reflexivity|].
    assert (Hbne : body <> []).
    { unfold body. intro Heq. apply app_eq_nil in Heq as [_ Heq]. apply app_eq_nil in Heq as [Heq _].
      now destruct Hn. }
    cbn [app]. change (33 :: blanks a ++ body) with ([33] ++ blanks a ++ body).
    rewrite !last_app_ne; auto.
    + apply Hb.
    + intro Heq. apply app_eq_nil in Heq as [_ Heq]. auto.
Qed.

(** ** building: a sequence is resolved against the sequences built before it *)
Lemma build_from_snoc K i reg ss name rs :
  build_from K i reg (ss ++ [(name, rs)])
  = match build_from K i reg ss with
    | inr j => inr j
    | inl reg' =>
      match resolve_rules K reg' rs with
      | None => inr (i + N.of_nat (length ss))
      | Some c => inl ((name, c) :: reg')
      end
    end.
Proof.
  revert i reg. induction ss as [|[n r] ss IH]; intros i reg; cbn [app build_from length].
  - rewrite N.add_0_r. destruct (resolve_rules K reg rs); reflexivity.
  - destruct (resolve_rules K reg r) as [c|]; [|reflexivity].
    rewrite IH. destruct (build_from K (i + 1) ((n, c) :: reg) ss); [|reflexivity].
    destruct (resolve_rules K r0 rs); [reflexivity|]. f_equal. lia.
Qed.

Lemma build_all_snoc K ss name rs :
  build_all K (ss ++ [(name, rs)])
  = match build_all K ss with
    | inr j => inr j
    | inl reg =>
      match resolve_rules K reg rs with
      | None => inr (N.of_nat (length ss))
      | Some c => inl ((name, c) :: reg)
      end
    end.
Proof. unfold build_all. rewrite build_from_snoc. reflexivity. Qed.

(** a jump/goto resolves exactly when the name is registered, to that chain *)
Lemma resolve_jump K reg name :
  resolve_action K reg (TJump name) = option_map Jump (lookup reg name).
Proof. cbn. destruct (lookup reg name); reflexivity. Qed.
Lemma resolve_goto K reg name :
  resolve_action K reg (TGoto name) = option_map Goto (lookup reg name).
Proof. cbn. destruct (lookup reg name); reflexivity. Qed.
