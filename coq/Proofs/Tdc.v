(** Invariants of the TraditionalDnsConn transition system, for every label list. *)
From Verif Require Import Base.Prelude Gen.Constants Model.Tdc.
Open Scope N_scope.

(** * Basics *)

Definition registered (p : pc) : bool :=
  match p with
  | PRegistered | PWriting | PWritten | PWaiting | PResending | PExiting _ => true
  | _ => false
  end.
Definition holds_res (p : pc) : bool :=
  match p with PReserved | PChecked => true | _ => false end.

Lemma pc_eqb_eq a b : pc_eqb a b = true -> a = b.
Proof. destruct a, b; simpl; congruence. Qed.

Lemma upd_same {A} (f : nat -> A) k v : upd f k v k = v.
Proof. unfold upd. rewrite Nat.eqb_refl. reflexivity. Qed.
Lemma upd_other {A} (f : nat -> A) k v x : x <> k -> upd f k v x = f x.
Proof. unfold upd. intros H. destruct (Nat.eqb_spec x k); congruence. Qed.
Lemma updN_same {A} (f : N -> A) k v : updN f k v k = v.
Proof. unfold updN. rewrite N.eqb_refl. reflexivity. Qed.
Lemma updN_other {A} (f : N -> A) k v x : x <> k -> updN f k v x = f x.
Proof. unfold updN. intros H. destruct (N.eqb_spec x k); congruence. Qed.

Lemma mem_nat_In c l : mem_nat c l = true <-> In c l.
Proof.
  induction l as [|x l IH]; simpl; [split; [discriminate|tauto]|].
  rewrite orb_true_iff, IH, Nat.eqb_eq. tauto.
Qed.
Lemma remove_nat_In c x l : In x (remove_nat c l) <-> In x l /\ x <> c.
Proof.
  induction l as [|y l IH]; simpl; [tauto|].
  destruct (Nat.eqb_spec y c); simpl; rewrite IH; intuition congruence.
Qed.
Lemma remove_nat_NoDup c l : NoDup l -> NoDup (remove_nat c l).
Proof.
  induction 1 as [|y l Hy Hl IH]; simpl; [constructor|].
  destruct (Nat.eqb_spec y c); [exact IH|]. constructor; [|exact IH].
  rewrite remove_nat_In. tauto.
Qed.

(** Counting calls of [l] whose program counter satisfies [P]. *)
Definition cnt (P : pc -> bool) (f : nat -> call) (l : list nat) : N :=
  N.of_nat (length (filter (fun c => P (cpc (f c))) l)).

Definition b2n (b : bool) : N := if b then 1 else 0.

Lemma cnt_cons P f x l : cnt P f (x :: l) = b2n (P (cpc (f x))) + cnt P f l.
Proof. unfold cnt. cbn [filter]. destruct (P (cpc (f x))); cbn [length b2n]; lia. Qed.

Lemma cnt_upd_notin P f c v l : ~ In c l -> cnt P (upd f c v) l = cnt P f l.
Proof.
  induction l as [|x l IH]; intros H; [reflexivity|].
  rewrite !cnt_cons, IH by (simpl in H; tauto).
  rewrite upd_other by (simpl in H; intuition congruence). reflexivity.
Qed.

Lemma cnt_upd_in P f c v l : NoDup l -> In c l ->
  cnt P (upd f c v) l + b2n (P (cpc (f c))) = cnt P f l + b2n (P (cpc v)).
Proof.
  induction 1 as [|x l Hx Hl IH]; intros Hin; [destruct Hin|].
  rewrite !cnt_cons. destruct Hin as [->|Hin].
  - rewrite upd_same, cnt_upd_notin by exact Hx. lia.
  - rewrite upd_other by congruence. specialize (IH Hin). lia.
Qed.

Lemma cnt_remove_notin P f c l : ~ In c l -> cnt P f (remove_nat c l) = cnt P f l.
Proof.
  induction l as [|x l IH]; intros H; [reflexivity|]. simpl.
  destruct (Nat.eqb_spec x c); [simpl in H; intuition congruence|].
  rewrite !cnt_cons, IH by (simpl in H; tauto). reflexivity.
Qed.

Lemma cnt_remove_in P f c l : NoDup l -> In c l ->
  cnt P f (remove_nat c l) + b2n (P (cpc (f c))) = cnt P f l.
Proof.
  induction 1 as [|x l Hx Hl IH]; intros Hin; [destruct Hin|]. simpl.
  destruct (Nat.eqb_spec x c) as [->|Hne].
  - rewrite cnt_cons, cnt_remove_notin by exact Hx. lia.
  - destruct Hin as [->|Hin]; [congruence|]. rewrite !cnt_cons. specialize (IH Hin). lia.
Qed.

(** [upd] then [remove] of the same call: the removed call no longer counts. *)
Lemma cnt_upd_remove P f c v l : NoDup l -> In c l ->
  cnt P (upd f c v) (remove_nat c l) + b2n (P (cpc (f c))) = cnt P f l.
Proof.
  intros Hn Hin. rewrite cnt_upd_notin by (rewrite remove_nat_In; tauto).
  apply cnt_remove_in; assumption.
Qed.

(** * alloc *)

Lemma alloc_fresh : forall fuel q nq w nq', alloc fuel q nq = (Some w, nq') -> q w = None.
Proof.
  unfold alloc. induction fuel as [|f IH]; intros q nq w nq' H; [discriminate|].
  destruct (q nq) eqn:E.
  - eapply IH; eauto.
  - inversion H; subst. exact E.
Qed.

(** The id handed out is one of the [fuel] candidates following [nq], all
    earlier candidates are taken, and the counter ends right behind it. *)
Lemma alloc_spec : forall fuel q nq w nq', nq < 65536 -> alloc fuel q nq = (Some w, nq') ->
  exists j, (j < fuel)%nat /\ w = wrap16 (nq + N.of_nat j) /\ nq' = wrap16 (w + 1) /\
            forall i, (i < j)%nat -> q (wrap16 (nq + N.of_nat i)) <> None.
Proof.
  unfold alloc, wrap16. induction fuel as [|f IH]; intros q nq w nq' Hnq H; [discriminate|].
  destruct (q nq) eqn:E.
  - apply IH in H as [j [Hj [Hw [Hn Hall]]]]; [|apply N.mod_lt; lia].
    exists (S j). split; [lia|]. split.
    + rewrite Hw. rewrite N.add_mod_idemp_l by lia. f_equal. lia.
    + split; [exact Hn|]. intros i Hi. destruct i as [|i].
      * rewrite N.add_0_r, N.mod_small by lia. congruence.
      * specialize (Hall i ltac:(lia)). rewrite N.add_mod_idemp_l in Hall by lia.
        replace (nq + N.of_nat (S i)) with (nq + 1 + N.of_nat i) by lia. exact Hall.
  - inversion H; subst. exists 0%nat. split; [lia|].
    rewrite N.add_0_r, N.mod_small by lia. repeat split; auto. intros i Hi; lia.
Qed.

(** When every one of the [fuel] candidates is taken, the call is refused. *)
Lemma alloc_none : forall fuel q nq nq', alloc fuel q nq = (None, nq') ->
  forall i, (i < fuel)%nat -> nq < 65536 -> q (wrap16 (nq + N.of_nat i)) <> None.
Proof.
  unfold alloc, wrap16. induction fuel as [|f IH]; intros q nq nq' H i Hi Hnq; [lia|].
  destruct (q nq) eqn:E; [|discriminate].
  destruct i as [|i].
  - rewrite N.add_0_r, N.mod_small by lia. congruence.
  - specialize (IH _ _ _ H i ltac:(lia) ltac:(apply N.mod_lt; lia)).
    rewrite N.add_mod_idemp_l in IH by lia.
    replace (nq + N.of_nat (S i)) with (nq + 1 + N.of_nat i) by lia. exact IH.
Qed.

(** * The structural invariant *)

Record Inv (s : st) : Prop := {
  i_nodup : NoDup (live s);
  i_live : forall c, In c (live s) <-> (holds_res (cpc (calls s c)) || registered (cpc (calls s c))) = true;
  i_q1 : forall w c, queue s w = Some c -> registered (cpc (calls s c)) = true /\ cwid (calls s c) = w;
  i_q2 : forall c, registered (cpc (calls s c)) = true -> queue s (cwid (calls s c)) = Some c;
  i_res : reserved s = cnt holds_res (calls s) (live s);
  i_qlen : qlen s = cnt registered (calls s) (live s);
  i_limit : reserved s + qlen s <= max_cq s;
  i_done : forall c, cres (calls s c) = None <-> cpc (calls s c) <> PDone;
  i_unreg : forall c, registered (cpc (calls s c)) = false ->
            cbuf (calls s c) = None /\ (cpc (calls s c) <> PDone -> cgot (calls s c) = None);
  i_buf : forall c, cres (calls s c) = None -> cbuf (calls s c) = cgot (calls s c);
  i_ret : forall c res, cres (calls s c) = Some res ->
          match cgot (calls s c) with
          | Some r => res = ROk (restore (calls s c) r)
          | None => forall r, res <> ROk r
          end;
  i_tgt : forall c, htarget s = Some (Some c) ->
          registered (cpc (calls s c)) = true \/ cpc (calls s c) = PDone
}.

Lemma inv_init maxcq tcp nq : Inv (init maxcq tcp nq).
Proof.
  constructor; simpl.
  - constructor.
  - intros c; split; [tauto | discriminate].
  - intros; discriminate.
  - intros; discriminate.
  - reflexivity.
  - reflexivity.
  - lia.
  - intros c; split; [discriminate | reflexivity].
  - auto.
  - reflexivity.
  - intros; discriminate.
  - intros; discriminate.
Qed.

(** [Inv] only reads these components. *)
Definition core_eq (s s' : st) : Prop :=
  live s = live s' /\ calls s = calls s' /\ queue s = queue s' /\ reserved s = reserved s' /\
  qlen s = qlen s' /\ max_cq s = max_cq s' /\ htarget s = htarget s'.

Lemma inv_core s s' : core_eq s s' -> Inv s -> Inv s'.
Proof.
  intros (E1 & E2 & E3 & E4 & E5 & E6 & E7) H. destruct H.
  constructor; rewrite <- ?E1, <- ?E2, <- ?E3, <- ?E4, <- ?E5, <- ?E6, <- ?E7; assumption.
Qed.

Lemma core_eq_close_with e s : core_eq s (close_with e s).
Proof. unfold close_with, core_eq. destruct (closed s); simpl; repeat split; reflexivity. Qed.

Ltac split_c x c :=
  destruct (Nat.eq_dec x c) as [->|?]; [rewrite ?upd_same in * | rewrite ?upd_other in * by assumption].

(** A call changes without changing its class, wire id, buffer, result. *)
Lemma inv_set_call s c v :
  Inv s ->
  holds_res (cpc v) = holds_res (cpc (calls s c)) ->
  registered (cpc v) = registered (cpc (calls s c)) ->
  (cpc v = PDone <-> cpc (calls s c) = PDone) ->
  cwid v = cwid (calls s c) -> corig v = corig (calls s c) -> cbuf v = cbuf (calls s c) ->
  cres v = cres (calls s c) -> cgot v = cgot (calls s c) ->
  Inv (set_call s c v).
Proof.
  intros H Hh Hr Hd Hw Ho Hb Hres Hg. destruct H.
  assert (Hcnt : forall P, P (cpc v) = P (cpc (calls s c)) ->
            cnt P (upd (calls s) c v) (live s) = cnt P (calls s) (live s)).
  { intros P HP. destruct (in_dec Nat.eq_dec c (live s)) as [Hin|Hnin].
    - pose proof (cnt_upd_in P (calls s) c v (live s) i_nodup0 Hin) as E. rewrite HP in E. lia.
    - apply cnt_upd_notin; assumption. }
  constructor; simpl.
  - assumption.
  - intros x. split_c x c; [rewrite Hh, Hr|]; apply i_live0.
  - intros w x Hq. split_c x c; [rewrite Hr, Hw|]; apply i_q3; assumption.
  - intros x Hx. split_c x c; [rewrite Hw; rewrite Hr in Hx|]; apply i_q4; assumption.
  - rewrite Hcnt; assumption.
  - rewrite Hcnt; assumption.
  - assumption.
  - intros x. split_c x c; [rewrite Hres, Hd|]; apply i_done0.
  - intros x Hx. split_c x c; [rewrite Hb, Hg, Hd; rewrite Hr in Hx|]; apply i_unreg0; assumption.
  - intros x Hx. split_c x c; [rewrite Hb, Hg; rewrite Hres in Hx|]; apply i_buf0; assumption.
  - intros x res Hx. split_c x c.
    + rewrite Hres in Hx. specialize (i_ret0 c res Hx). rewrite Hg. unfold restore in *. rewrite Ho. exact i_ret0.
    + apply i_ret0; assumption.
  - intros x Hx. split_c x c; [rewrite Hr|]; specialize (i_tgt0 _ Hx); [|assumption].
    destruct i_tgt0 as [?|E]; [left; assumption|right; apply Hd; assumption].
Qed.

(** The per-call part of the invariant. *)
Definition local (v : call) : Prop :=
  (cres v = None <-> cpc v <> PDone) /\
  (registered (cpc v) = false -> cbuf v = None /\ (cpc v <> PDone -> cgot v = None)) /\
  (cres v = None -> cbuf v = cgot v) /\
  (forall res, cres v = Some res ->
     match cgot v with Some r => res = ROk (restore v r) | None => forall r, res <> ROk r end).

Lemma inv_local s c : Inv s -> local (calls s c).
Proof.
  intros H. destruct H. unfold local.
  split; [apply i_done0|]. split; [apply i_unreg0|]. split; [apply i_buf0|apply i_ret0].
Qed.

(** Replace one call by another of the same class (reserved / registered /
    neither) with the same wire id, locally consistent. *)
Lemma inv_set_call_gen s c v :
  Inv s ->
  holds_res (cpc v) = holds_res (cpc (calls s c)) ->
  registered (cpc v) = registered (cpc (calls s c)) ->
  (registered (cpc v) = true -> cwid v = cwid (calls s c)) ->
  (cpc (calls s c) = PDone -> cpc v = PDone) ->
  local v ->
  Inv (set_call s c v).
Proof.
  intros H Hh Hr Hw Hd (L1 & L2 & L3 & L4). destruct H.
  assert (Hcnt : forall P, P (cpc v) = P (cpc (calls s c)) ->
            cnt P (upd (calls s) c v) (live s) = cnt P (calls s) (live s)).
  { intros P HP. destruct (in_dec Nat.eq_dec c (live s)) as [Hin|Hnin].
    - pose proof (cnt_upd_in P (calls s) c v (live s) i_nodup0 Hin) as E. rewrite HP in E. lia.
    - apply cnt_upd_notin; assumption. }
  constructor; simpl.
  - assumption.
  - intros x. split_c x c; [rewrite Hh, Hr|]; apply i_live0.
  - intros w x Hq. split_c x c; [|apply i_q3; assumption].
    destruct (i_q3 _ _ Hq) as [R W]. rewrite Hr. split; [exact R|]. rewrite Hw; [exact W|congruence].
  - intros x Hx. split_c x c; [|apply i_q4; assumption].
    rewrite Hw by exact Hx. rewrite Hr in Hx. apply i_q4; assumption.
  - rewrite Hcnt; assumption.
  - rewrite Hcnt; assumption.
  - assumption.
  - intros x. split_c x c; [exact L1|apply i_done0].
  - intros x Hx. split_c x c; [apply L2; exact Hx|apply i_unreg0; assumption].
  - intros x Hx. split_c x c; [apply L3; exact Hx|apply i_buf0; assumption].
  - intros x res Hx. split_c x c; [apply L4; exact Hx|apply i_ret0; assumption].
  - intros x Hx. specialize (i_tgt0 _ Hx). split_c x c; [|assumption].
    rewrite Hr. destruct i_tgt0 as [?|E]; [left; assumption|right; apply Hd; assumption].
Qed.

(** ReserveNewQuery succeeds. *)
Lemma inv_reserve s c orig :
  Inv s -> cpc (calls s c) = PIdle -> ~ In c (live s) -> reserved s + qlen s < max_cq s ->
  Inv (mkSt (closed s) (close_err s) (queue s) (next_qid s) (reserved s + 1) (qlen s) (max_cq s) (is_tcp s)
            (upd (calls s) c (mkCall PReserved 0 orig None (cctx (calls s c)) None None false))
            (c :: live s) (hold s) (htarget s) (reader_dead s) (waiting_resp s) (arms s)).
Proof.
  intros H Hpc Hnin Hlim. destruct H. constructor; simpl.
  - constructor; assumption.
  - intros x. split_c x c; simpl; [tauto|]. rewrite <- i_live0. intuition congruence.
  - intros w x Hq. destruct (i_q3 _ _ Hq) as [R W]. split_c x c; [rewrite Hpc in R; discriminate|auto].
  - intros x Hx. split_c x c; [discriminate|apply i_q4; assumption].
  - rewrite cnt_cons, upd_same, cnt_upd_notin by assumption. cbn [cpc holds_res b2n]. lia.
  - rewrite cnt_cons, upd_same, cnt_upd_notin by assumption. cbn [cpc registered b2n]. lia.
  - lia.
  - intros x. split_c x c; simpl; [split; congruence|apply i_done0].
  - intros x Hx. split_c x c; simpl; [auto|apply i_unreg0; assumption].
  - intros x Hx. split_c x c; simpl; [auto|apply i_buf0; assumption].
  - intros x res Hx. split_c x c; simpl in *; [discriminate|apply i_ret0; assumption].
  - intros x Hx. specialize (i_tgt0 _ Hx). split_c x c; [|assumption].
    rewrite Hpc in i_tgt0. destruct i_tgt0; discriminate.
Qed.

(** A call holding a reservation (never registered) ends. *)
Lemma inv_end_unregistered s c res :
  Inv s -> holds_res (cpc (calls s c)) = true -> (forall r, res <> ROk r) ->
  Inv (end_unregistered s c res).
Proof.
  intros H Hpc Hres. pose proof (inv_local s c H) as (L1 & L2 & L3 & L4). destruct H.
  assert (Hin : In c (live s)) by (apply i_live0; rewrite Hpc; reflexivity).
  assert (Hreg : registered (cpc (calls s c)) = false) by (destruct (cpc (calls s c)); try discriminate; reflexivity).
  assert (Hnd : cpc (calls s c) <> PDone) by (intros E; rewrite E in Hpc; discriminate).
  destruct (L2 Hreg) as [Hbuf Hgot]. specialize (Hgot Hnd).
  unfold end_unregistered. constructor; simpl.
  - apply remove_nat_NoDup; assumption.
  - intros x. rewrite remove_nat_In. split_c x c; simpl; [intuition congruence|].
    rewrite <- i_live0. tauto.
  - intros w x Hq. destruct (i_q3 _ _ Hq) as [R W]. split_c x c; [rewrite Hreg in R; discriminate|auto].
  - intros x Hx. split_c x c; [discriminate|apply i_q4; assumption].
  - pose proof (cnt_upd_remove holds_res (calls s) c
        (mkCall PDone (cwid (calls s c)) (corig (calls s c)) None (cctx (calls s c)) (Some res) (cgot (calls s c)) (csent (calls s c)))
        (live s) i_nodup0 Hin) as E. rewrite Hpc in E. simpl in E. lia.
  - pose proof (cnt_upd_remove registered (calls s) c
        (mkCall PDone (cwid (calls s c)) (corig (calls s c)) None (cctx (calls s c)) (Some res) (cgot (calls s c)) (csent (calls s c)))
        (live s) i_nodup0 Hin) as E. rewrite Hreg in E. simpl in E. lia.
  - lia.
  - intros x. split_c x c; simpl; [split; [discriminate|congruence]|apply i_done0].
  - intros x Hx. split_c x c; simpl; [split; [reflexivity|congruence]|apply i_unreg0; assumption].
  - intros x Hx. split_c x c; simpl in *; [discriminate|apply i_buf0; assumption].
  - intros x r Hx. split_c x c; simpl in *; [|apply i_ret0; assumption].
    rewrite Hgot. inversion Hx; subst. exact Hres.
  - intros x Hx. specialize (i_tgt0 _ Hx). split_c x c; [right; reflexivity|assumption].
Qed.

(** addQueueC succeeds: the reservation becomes a waiter-table entry. *)
Lemma inv_add s c w nq :
  Inv s -> cpc (calls s c) = PChecked -> queue s w = None ->
  Inv (mkSt (closed s) (close_err s) (updN (queue s) w (Some c)) nq (reserved s - 1) (qlen s + 1)
            (max_cq s) (is_tcp s)
            (upd (calls s) c (mkCall PRegistered w (corig (calls s c)) None (cctx (calls s c)) None None false))
            (live s) (hold s) (htarget s) (reader_dead s) (waiting_resp s) (arms s)).
Proof.
  intros H Hpc Hq. pose proof (inv_local s c H) as (L1 & L2 & L3 & L4). destruct H.
  assert (Hin : In c (live s)) by (apply i_live0; rewrite Hpc; reflexivity).
  pose proof (cnt_upd_in holds_res (calls s) c
    (mkCall PRegistered w (corig (calls s c)) None (cctx (calls s c)) None None false) (live s) i_nodup0 Hin) as E1.
  pose proof (cnt_upd_in registered (calls s) c
    (mkCall PRegistered w (corig (calls s c)) None (cctx (calls s c)) None None false) (live s) i_nodup0 Hin) as E2.
  rewrite Hpc in E1, E2. simpl in E1, E2.
  constructor; simpl.
  - assumption.
  - intros x. split_c x c; simpl; [tauto|apply i_live0].
  - intros w' x Hq'. unfold updN in Hq'. destruct (N.eqb_spec w' w) as [->|Hne].
    + inversion Hq'; subst. rewrite upd_same. simpl. auto.
    + destruct (i_q3 _ _ Hq') as [R W]. split_c x c; [rewrite Hpc in R; discriminate|auto].
  - intros x Hx. split_c x c; simpl; [apply updN_same|].
    rewrite updN_other; [apply i_q4; assumption|].
    intros E. specialize (i_q4 _ Hx). rewrite E, Hq in i_q4. discriminate.
  - lia.
  - lia.
  - lia.
  - intros x. split_c x c; simpl; [split; congruence|apply i_done0].
  - intros x Hx. split_c x c; simpl in *; [discriminate|apply i_unreg0; assumption].
  - intros x Hx. split_c x c; simpl; [reflexivity|apply i_buf0; assumption].
  - intros x res Hx. split_c x c; simpl in *; [discriminate|apply i_ret0; assumption].
  - intros x Hx. specialize (i_tgt0 _ Hx). split_c x c; [left; reflexivity|assumption].
Qed.

(** A registered call returns. *)
Lemma inv_finish s c res :
  Inv s -> registered (cpc (calls s c)) = true ->
  match cgot (calls s c) with
  | Some r => res = ROk (restore (calls s c) r)
  | None => forall r, res <> ROk r
  end ->
  Inv (finish s c res).
Proof.
  intros H Hreg Hres. destruct H.
  assert (Hin : In c (live s)) by (apply i_live0; rewrite Hreg; apply orb_true_r).
  assert (Hh : holds_res (cpc (calls s c)) = false) by (destruct (cpc (calls s c)); try discriminate; reflexivity).
  set (v := mkCall PDone (cwid (calls s c)) (corig (calls s c)) None (cctx (calls s c)) (Some res) (cgot (calls s c)) (csent (calls s c))).
  pose proof (cnt_upd_remove holds_res (calls s) c v (live s) i_nodup0 Hin) as E1.
  pose proof (cnt_upd_remove registered (calls s) c v (live s) i_nodup0 Hin) as E2.
  rewrite Hh in E1. rewrite Hreg in E2. simpl in E1, E2.
  unfold finish. fold v. constructor; simpl.
  - apply remove_nat_NoDup; assumption.
  - intros x. rewrite remove_nat_In. split_c x c; simpl; [intuition congruence|].
    rewrite <- i_live0. tauto.
  - intros w x Hq. unfold updN in Hq. destruct (N.eqb_spec w (cwid (calls s c))) as [->|Hne]; [discriminate|].
    destruct (i_q3 _ _ Hq) as [R W]. split_c x c; [congruence|auto].
  - intros x Hx. split_c x c; [discriminate|].
    rewrite updN_other; [apply i_q4; assumption|].
    intros E. pose proof (i_q4 _ Hx) as Q1. pose proof (i_q4 _ Hreg) as Q2. rewrite E in Q1. congruence.
  - lia.
  - lia.
  - lia.
  - intros x. split_c x c; simpl; [split; [discriminate|congruence]|apply i_done0].
  - intros x Hx. split_c x c; simpl; [split; [reflexivity|congruence]|apply i_unreg0; assumption].
  - intros x Hx. split_c x c; simpl in *; [discriminate|apply i_buf0; assumption].
  - intros x r Hx. split_c x c; simpl in *; [|apply i_ret0; assumption].
    inversion Hx; subst. exact Hres.
  - intros x Hx. specialize (i_tgt0 _ Hx). split_c x c; [right; reflexivity|assumption].
Qed.

Lemma local_with_pc k p :
  local k -> registered p = registered (cpc k) -> (p = PDone <-> cpc k = PDone) -> local (with_pc k p).
Proof.
  intros (L1 & L2 & L3 & L4) Hr Hd. unfold local, with_pc; simpl.
  split; [rewrite L1; tauto|]. split.
  - intros E. rewrite Hr in E. destruct (L2 E) as [A B]. split; [exact A|]. intros; apply B; tauto.
  - split; [exact L3|]. intros res E. specialize (L4 res E). unfold restore in *. simpl. exact L4.
Qed.

Ltac pcs H := apply pc_eqb_eq in H.

(** Changing the program counter within a class. *)
Lemma inv_move s c p :
  Inv s -> holds_res p = holds_res (cpc (calls s c)) -> registered p = registered (cpc (calls s c)) ->
  p <> PDone -> cpc (calls s c) <> PDone ->
  Inv (set_call s c (with_pc (calls s c) p)).
Proof.
  intros H Hh Hr Hp Hc. apply inv_set_call_gen; simpl; auto; [tauto|].
  apply local_with_pc; [apply inv_local; exact H|exact Hr|tauto].
Qed.

Theorem inv_step s l s' : Inv s -> step s l = Some s' -> Inv s'.
Proof.
  intros H Hs. destruct l; cbn [step] in Hs.
  - (* LReserve *)
    destruct (pc_eqb (cpc (calls s c)) PIdle && negb (mem_nat c (live s))) eqn:E; [|discriminate].
    apply andb_true_iff in E as [E1 E2]. pcs E1.
    assert (Hnin : ~ In c (live s)).
    { rewrite <- mem_nat_In. destruct (mem_nat c (live s)); [discriminate|congruence]. }
    assert (Hrefuse : forall b, Inv (set_call s c (mkCall PDone 0 orig None (cctx (calls s c)) (Some (RRefused b)) None false))).
    { intros b. apply inv_set_call_gen; simpl; try rewrite E1; auto; try discriminate.
      unfold local; simpl. repeat split; try congruence; try discriminate;
        try (intros res Er r; inversion Er; subst; discriminate). }
    destruct (closed s); [inversion Hs; subst; apply Hrefuse|].
    destruct (N.leb_spec (max_cq s) (qlen s + reserved s)); [inversion Hs; subst; apply Hrefuse|].
    inversion Hs; subst.
    eapply inv_core; [|apply (inv_reserve s c orig); auto; lia].
    unfold core_eq; simpl; repeat split; reflexivity.
  - (* LWithdraw *)
    destruct (pc_eqb (cpc (calls s c)) PReserved) eqn:E; [|discriminate]. pcs E.
    inversion Hs; subst. apply inv_end_unregistered; [exact H|rewrite E; reflexivity|discriminate].
  - (* LCheck *)
    destruct (pc_eqb (cpc (calls s c)) PReserved) eqn:E; [|discriminate]. pcs E.
    destruct (closed s); inversion Hs; subst.
    + apply inv_end_unregistered; [exact H|rewrite E; reflexivity|discriminate].
    + apply inv_move; auto; rewrite ?E; try reflexivity; discriminate.
  - (* LAdd *)
    destruct (pc_eqb (cpc (calls s c)) PChecked) eqn:E; [|discriminate]. pcs E.
    destruct (alloc (N.to_nat qid_tries) (queue s) (next_qid s)) as [[w|] nq] eqn:A; inversion Hs; subst.
    + apply inv_add; auto. eapply alloc_fresh; eauto.
    + eapply inv_core; [|apply (inv_end_unregistered s c (RErr ETooMany) H); [rewrite E; reflexivity|discriminate]].
      unfold core_eq; simpl; repeat split; reflexivity.
  - (* LWriteBegin *)
    destruct (pc_eqb (cpc (calls s c)) PRegistered) eqn:E; [|discriminate]. pcs E.
    inversion Hs; subst. pose proof (inv_local s c H) as L.
    apply inv_set_call_gen; simpl; rewrite ?E; auto; try discriminate.
    destruct L as (L1 & L2 & L3 & L4). unfold local; simpl. rewrite E in *. simpl in *.
    split; [rewrite L1; split; intros; discriminate|]. split; [discriminate|]. split; [exact L3|].
    intros res Er. specialize (L4 res Er). unfold restore in *; simpl. exact L4.
  - (* LWriteEnd *)
    destruct (pc_eqb (cpc (calls s c)) PWriting) eqn:E; [|discriminate]. pcs E.
    destruct ok; inversion Hs; subst.
    + apply inv_move; auto; rewrite ?E; try reflexivity; discriminate.
    + assert (Hc : Inv (close_with EWrite s)) by (eapply inv_core; [apply core_eq_close_with|exact H]).
      assert (Ec : calls (close_with EWrite s) = calls s) by (unfold close_with; destruct (closed s); reflexivity).
      rewrite <- Ec. apply inv_move; auto; rewrite ?Ec, ?E; try reflexivity; discriminate.
  - (* LArm *)
    destruct (pc_eqb (cpc (calls s c)) PWritten) eqn:E; [|discriminate]. pcs E.
    assert (Hm : Inv (set_call s c (with_pc (calls s c) PWaiting)))
      by (apply inv_move; auto; rewrite ?E; try reflexivity; discriminate).
    destruct (waiting_resp s); inversion Hs; subst; [exact Hm|].
    eapply inv_core; [|exact Hm]. unfold core_eq; simpl; repeat split; reflexivity.
  - (* LSelect *)
    destruct (pc_eqb (cpc (calls s c)) PWaiting) eqn:E; [|discriminate]. pcs E.
    destruct k.
    + destruct (cbuf (calls s c)) as [r|] eqn:B; [|discriminate]. inversion Hs; subst.
      apply inv_finish; [exact H|rewrite E; reflexivity|].
      pose proof (inv_local s c H) as (L1 & L2 & L3 & L4).
      assert (Hn : cres (calls s c) = None) by (apply L1; rewrite E; discriminate).
      rewrite <- (L3 Hn), B. reflexivity.
    + destruct (cctx (calls s c)); [|discriminate]. inversion Hs; subst.
      apply inv_move; auto; rewrite ?E; try reflexivity; discriminate.
    + destruct (closed s); [|discriminate]. inversion Hs; subst.
      apply inv_move; auto; rewrite ?E; try reflexivity; discriminate.
    + destruct (is_tcp s); [discriminate|]. inversion Hs; subst.
      apply inv_move; auto; rewrite ?E; try reflexivity; discriminate.
  - (* LResendEnd *)
    destruct (pc_eqb (cpc (calls s c)) PResending) eqn:E; [|discriminate]. pcs E.
    destruct ok; inversion Hs; subst.
    + apply inv_move; auto; rewrite ?E; try reflexivity; discriminate.
    + assert (Hc : Inv (close_with EWrite s)) by (eapply inv_core; [apply core_eq_close_with|exact H]).
      assert (Ec : calls (close_with EWrite s) = calls s) by (unfold close_with; destruct (closed s); reflexivity).
      rewrite <- Ec. apply inv_move; auto; rewrite ?Ec, ?E; try reflexivity; discriminate.
  - (* LTake *)
    destruct (cpc (calls s c)) eqn:E; try discriminate. inversion Hs; subst.
    apply inv_finish; [exact H|rewrite E; reflexivity|].
    pose proof (inv_local s c H) as (L1 & L2 & L3 & L4).
    assert (Hn : cres (calls s c) = None) by (apply L1; rewrite E; discriminate).
    rewrite <- (L3 Hn). destruct (cbuf (calls s c)); [reflexivity|discriminate].
  - (* LCtx *)
    inversion Hs; subst. pose proof (inv_local s c H) as (L1 & L2 & L3 & L4).
    apply inv_set_call_gen; simpl; auto.
    unfold local; simpl. repeat split; try apply L1; try apply L2; auto;
      try (intros res Er; specialize (L4 res Er); unfold restore in *; simpl; exact L4).
  - (* LRecv *)
    destruct (negb (reader_dead s)); [|discriminate]. destruct (hold s); [discriminate|].
    inversion Hs; subst. destruct H. constructor; simpl; auto. intros; discriminate.
  - (* LLookup *)
    destruct (hold s) as [r|]; [|discriminate]. destruct (htarget s); [discriminate|].
    inversion Hs; subst. destruct H. constructor; simpl; auto.
    intros x Hx. inversion Hx as [Hq]. left. apply (i_q3 _ _ Hq).
  - (* LHandoff *)
    destruct (hold s) as [r|]; [|discriminate]. destruct (htarget s) as [t|] eqn:T; [|discriminate].
    inversion Hs; subst. clear Hs.
    assert (Hclear : forall f, Inv (set_calls s f) ->
      Inv (mkSt (closed s) (close_err s) (queue s) (next_qid s) (reserved s) (qlen s) (max_cq s)
                (is_tcp s) f (live s) None None (reader_dead s) (waiting_resp s) (ArmIdle :: arms s))).
    { intros f Hf. destruct Hf. constructor; simpl in *; auto. intros; discriminate. }
    apply Hclear.
    destruct t as [c|]; [|destruct H; constructor; simpl; auto].
    destruct (cbuf (calls s c)) eqn:B; [destruct H; constructor; simpl; auto|].
    destruct (cres (calls s c)) eqn:R; [destruct H; constructor; simpl; auto|].
    pose proof (inv_local s c H) as (L1 & L2 & L3 & L4).
    change (Inv (set_call s c (mkCall (cpc (calls s c)) (cwid (calls s c)) (corig (calls s c)) (Some r)
       (cctx (calls s c)) None (match cgot (calls s c) with None => Some r | Some g => Some g end) (csent (calls s c))))).
    assert (Hreg : registered (cpc (calls s c)) = true).
    { destruct H. destruct (i_tgt0 c T) as [?|Ed]; [assumption|]. apply L1 in R. congruence. }
    apply inv_set_call_gen; simpl; auto.
    unfold local; simpl.
    split; [split; [intros _; apply L1; exact R|reflexivity]|]. split; [rewrite Hreg; discriminate|].
    rewrite <- (L3 R), B. split; [reflexivity|discriminate].
  - (* LRecvErr *)
    destruct (negb (reader_dead s)); [|discriminate]. destruct (hold s); [discriminate|].
    inversion Hs; subst.
    assert (Hc : Inv (close_with ERead s)) by (eapply inv_core; [apply core_eq_close_with|exact H]).
    destruct Hc. constructor; simpl; auto. intros; discriminate.
  - (* LClose *)
    inversion Hs; subst. eapply inv_core; [apply core_eq_close_with|exact H].
Qed.

Theorem inv_run : forall ls s s', Inv s -> run s ls = Some s' -> Inv s'.
Proof.
  induction ls as [|l ls IH]; intros s s' H R; simpl in R.
  - inversion R; subst; exact H.
  - destruct (step s l) as [s1|] eqn:E; [|discriminate]. eapply IH; [eapply inv_step; eauto|exact R].
Qed.

Theorem inv_reachable maxcq tcp nq ls s : run (init maxcq tcp nq) ls = Some s -> Inv s.
Proof. apply inv_run, inv_init. Qed.

(** * C02: a reply handed to a call is the only thing that call can return *)

Theorem reply_not_lost maxcq tcp nq ls s c r res :
  run (init maxcq tcp nq) ls = Some s ->
  cgot (calls s c) = Some r -> cres (calls s c) = Some res ->
  res = ROk (restore (calls s c) r).
Proof.
  intros R G E. pose proof (inv_reachable _ _ _ _ _ R) as H. destruct H.
  specialize (i_ret0 c res E). rewrite G in i_ret0. exact i_ret0.
Qed.

(** The hand-off of the first reply cannot fail, wherever the caller is
    (inside Write, between Write and the wait, waiting, on an error exit). *)
Theorem first_handoff_succeeds maxcq tcp nq ls s c r :
  run (init maxcq tcp nq) ls = Some s ->
  hold s = Some r -> htarget s = Some (Some c) ->
  cres (calls s c) = None -> cgot (calls s c) = None ->
  exists s', step s LHandoff = Some s' /\ cgot (calls s' c) = Some r /\ cbuf (calls s' c) = Some r.
Proof.
  intros R Hh Ht Hres Hgot. pose proof (inv_reachable _ _ _ _ _ R) as H. destruct H.
  pose proof (i_buf0 c Hres) as B. rewrite Hgot in B.
  cbn [step]. rewrite Hh, Ht, B, Hres, Hgot. eexists. split; [reflexivity|].
  simpl. rewrite upd_same. simpl. auto.
Qed.

(** A call that was handed a reply and has not returned holds it in its
    channel, its next step is enabled, and that step returns the reply. *)
Theorem delivered_call_returns_it maxcq tcp nq ls s c r :
  run (init maxcq tcp nq) ls = Some s ->
  cgot (calls s c) = Some r -> cres (calls s c) = None ->
  cbuf (calls s c) = Some r /\
  (cpc (calls s c) = PWaiting ->
     exists s', step s (LSelect c SelReply) = Some s' /\
                cres (calls s' c) = Some (ROk (restore (calls s c) r))) /\
  (forall e, cpc (calls s c) = PExiting e ->
     exists s', step s (LTake c) = Some s' /\
                cres (calls s' c) = Some (ROk (restore (calls s c) r))).
Proof.
  intros R G E. pose proof (inv_reachable _ _ _ _ _ R) as H. destruct H.
  pose proof (i_buf0 c E) as B. rewrite G in B. split; [exact B|]. split.
  - intros P. cbn [step]. rewrite P, B. simpl. eexists. split; [reflexivity|].
    simpl. rewrite upd_same. reflexivity.
  - intros e P. cbn [step]. rewrite P, B. eexists. split; [reflexivity|].
    simpl. rewrite upd_same. reflexivity.
Qed.

(** * C01: no misdelivery *)

Record TagInv (s : st) : Prop := {
  t_got : forall c r, cgot (calls s c) = Some r -> rfor r = Some c;
  t_hold : forall r c, hold s = Some r -> htarget s = Some (Some c) -> rfor r = Some c
}.

Lemma calls_close_with e s : calls (close_with e s) = calls s.
Proof. unfold close_with; destruct (closed s); reflexivity. Qed.
Lemma hold_close_with e s : hold (close_with e s) = hold s.
Proof. unfold close_with; destruct (closed s); reflexivity. Qed.
Lemma htarget_close_with e s : htarget (close_with e s) = htarget s.
Proof. unfold close_with; destruct (closed s); reflexivity. Qed.

Ltac tag_simple H c :=
  destruct H as [Tg Th]; constructor; simpl;
  rewrite ?calls_close_with, ?hold_close_with, ?htarget_close_with;
  [ intros x r0 Hx; split_c x c; simpl in Hx; rewrite ?calls_close_with in Hx; try discriminate; eauto
  | eauto ].

Theorem tag_step s l s' : TagInv s -> env_ok_step s l -> step s l = Some s' -> TagInv s'.
Proof.
  intros H Henv Hs. destruct l; cbn [step] in Hs.
  - destruct (pc_eqb (cpc (calls s c)) PIdle && negb (mem_nat c (live s))); [|discriminate].
    destruct (closed s); [inversion Hs; subst; tag_simple H c|].
    destruct (max_cq s <=? qlen s + reserved s); inversion Hs; subst; tag_simple H c.
  - destruct (pc_eqb (cpc (calls s c)) PReserved); [|discriminate]. inversion Hs; subst. tag_simple H c.
  - destruct (pc_eqb (cpc (calls s c)) PReserved); [|discriminate].
    destruct (closed s); inversion Hs; subst; tag_simple H c.
  - destruct (pc_eqb (cpc (calls s c)) PChecked); [|discriminate].
    destruct (alloc (N.to_nat qid_tries) (queue s) (next_qid s)) as [[w|] nq]; inversion Hs; subst; tag_simple H c.
  - destruct (pc_eqb (cpc (calls s c)) PRegistered); [|discriminate]. inversion Hs; subst. tag_simple H c.
  - destruct (pc_eqb (cpc (calls s c)) PWriting); [|discriminate].
    destruct ok; inversion Hs; subst; tag_simple H c.
  - destruct (pc_eqb (cpc (calls s c)) PWritten); [|discriminate].
    destruct (waiting_resp s); inversion Hs; subst; tag_simple H c.
  - destruct (pc_eqb (cpc (calls s c)) PWaiting); [|discriminate]. destruct k.
    + destruct (cbuf (calls s c)); [|discriminate]. inversion Hs; subst. tag_simple H c.
    + destruct (cctx (calls s c)); [|discriminate]. inversion Hs; subst. tag_simple H c.
    + destruct (closed s); [|discriminate]. inversion Hs; subst. tag_simple H c.
    + destruct (is_tcp s); [discriminate|]. inversion Hs; subst. tag_simple H c.
  - destruct (pc_eqb (cpc (calls s c)) PResending); [|discriminate].
    destruct ok; inversion Hs; subst; tag_simple H c.
  - destruct (cpc (calls s c)); try discriminate. inversion Hs; subst. tag_simple H c.
  - inversion Hs; subst. tag_simple H c.
  - destruct (negb (reader_dead s)); [|discriminate]. destruct (hold s); [discriminate|].
    inversion Hs; subst. destruct H as [Tg Th]. constructor; simpl; [exact Tg|discriminate].
  - destruct (hold s) as [r|] eqn:Hh; [|discriminate]. destruct (htarget s); [discriminate|].
    inversion Hs; subst. destruct H as [Tg Th]. constructor; simpl; [exact Tg|].
    intros r0 c E1 E2. rewrite ?Hh in E1. inversion E1; subst. inversion E2 as [Q].
    simpl in Henv. rewrite Hh in Henv. destruct (rfor r0) as [c0|].
    + specialize (Henv _ Q). congruence.
    + rewrite Henv in Q. discriminate.
  - destruct (hold s) as [r|] eqn:Hh; [|discriminate]. destruct (htarget s) as [t|] eqn:Ht; [|discriminate].
    inversion Hs; subst. destruct H as [Tg Th]. constructor; simpl; [|discriminate].
    destruct t as [c|]; [|exact Tg].
    destruct (cbuf (calls s c)); [exact Tg|]. destruct (cres (calls s c)); [exact Tg|].
    intros x r0 Hx. split_c x c; [|eauto]. simpl in Hx.
    destruct (cgot (calls s c)) eqn:G; inversion Hx; subst; eauto.
  - destruct (negb (reader_dead s)); [|discriminate]. destruct (hold s); [discriminate|].
    inversion Hs; subst. destruct H as [Tg Th]. constructor; simpl; rewrite ?calls_close_with; [exact Tg|discriminate].
  - inversion Hs; subst. destruct H as [Tg Th].
    constructor; rewrite ?calls_close_with, ?hold_close_with, ?htarget_close_with; assumption.
Qed.

Lemma tag_init maxcq tcp nq : TagInv (init maxcq tcp nq).
Proof. constructor; simpl; intros; discriminate. Qed.

Theorem tag_run : forall ls s s', TagInv s -> env_ok s ls -> run s ls = Some s' -> TagInv s'.
Proof.
  induction ls as [|l ls IH]; intros s s' H Henv R; simpl in R.
  - inversion R; subst; exact H.
  - destruct Henv as [E1 E2]. destruct (step s l) as [s1|] eqn:E; [|discriminate].
    eapply IH; [eapply tag_step; eauto|exact E2|exact R].
Qed.

(** Every successful call returns a reply the server produced for that very
    call, with the caller's message id restored. *)
Theorem no_misdelivery maxcq tcp nq ls s c r :
  run (init maxcq tcp nq) ls = Some s -> env_ok (init maxcq tcp nq) ls ->
  cres (calls s c) = Some (ROk r) ->
  rfor r = Some c /\ rid r = corig (calls s c).
Proof.
  intros R Henv E.
  pose proof (inv_reachable _ _ _ _ _ R) as H. destruct H.
  pose proof (tag_run _ _ _ (tag_init _ _ _) Henv R) as [Tg _].
  specialize (i_ret0 c _ E). destruct (cgot (calls s c)) as [r0|] eqn:G.
  - inversion i_ret0; subst. simpl. split; [eauto|reflexivity].
  - exfalso. eapply i_ret0; reflexivity.
Qed.

(** Two calls that hold a waiter-table entry at the same time have different wire ids. *)
Theorem wid_unique maxcq tcp nq ls s c1 c2 :
  run (init maxcq tcp nq) ls = Some s ->
  registered (cpc (calls s c1)) = true -> registered (cpc (calls s c2)) = true ->
  cwid (calls s c1) = cwid (calls s c2) -> c1 = c2.
Proof.
  intros R H1 H2 E. pose proof (inv_reachable _ _ _ _ _ R) as H. destruct H.
  pose proof (i_q4 _ H1) as Q1. pose proof (i_q4 _ H2) as Q2. rewrite E in Q1. congruence.
Qed.

(** A frame whose id matches no outstanding query, or a duplicate for a call
    whose channel is full, changes no call. *)
Theorem stray_or_duplicate_dropped s s' r :
  hold s = Some r ->
  (htarget s = Some None \/
   exists c, htarget s = Some (Some c) /\ (cbuf (calls s c) <> None \/ cres (calls s c) <> None)) ->
  step s LHandoff = Some s' -> calls s' = calls s.
Proof.
  intros Hh Ht Hs. cbn [step] in Hs. rewrite Hh in Hs.
  destruct Ht as [Ht|[c [Ht Hc]]]; rewrite Ht in Hs.
  - inversion Hs; reflexivity.
  - destruct (cbuf (calls s c)); [inversion Hs; reflexivity|].
    destruct (cres (calls s c)); [inversion Hs; reflexivity|]. destruct Hc; congruence.
Qed.

(** * C09: accounting *)

Lemma max_cq_step s l s' : step s l = Some s' -> max_cq s' = max_cq s.
Proof.
  intros E. destruct l; cbn [step] in E;
    repeat match type of E with
           | context [if ?b then _ else _] => destruct b
           | context [match ?x with _ => _ end] => destruct x
           end; try discriminate; inversion E; subst; simpl;
    unfold close_with; repeat match goal with |- context [if ?b then _ else _] => destruct b end; reflexivity.
Qed.

Lemma max_cq_run : forall ls s0 s, run s0 ls = Some s -> max_cq s = max_cq s0.
Proof.
  induction ls as [|l ls IH]; intros s0 s R; simpl in R; [inversion R; reflexivity|].
  destruct (step s0 l) as [s1|] eqn:E; [|discriminate]. rewrite (IH _ _ R). eapply max_cq_step; eauto.
Qed.

Theorem accounting_exact maxcq tcp nq ls s :
  run (init maxcq tcp nq) ls = Some s ->
  reserved s = cnt holds_res (calls s) (live s) /\
  qlen s = cnt registered (calls s) (live s) /\
  reserved s + qlen s <= max_cq s /\ max_cq s = maxcq.
Proof.
  intros R. pose proof (inv_reachable _ _ _ _ _ R) as H. destruct H.
  repeat split; auto. apply (max_cq_run _ _ _ R).
Qed.

(** The number of queries written and not yet returned never exceeds the limit. *)
Theorem inflight_le_limit maxcq tcp nq ls s :
  run (init maxcq tcp nq) ls = Some s ->
  cnt registered (calls s) (live s) <= maxcq.
Proof.
  intros R. destruct (accounting_exact _ _ _ _ _ R) as (A & B & C & D). lia.
Qed.

(** No capacity is lost: when every call has returned or withdrawn, the
    connection is exactly as empty as a fresh one. *)
Theorem no_leak maxcq tcp nq ls s :
  run (init maxcq tcp nq) ls = Some s -> live s = [] ->
  reserved s = 0 /\ qlen s = 0 /\ forall w, queue s w = None.
Proof.
  intros R L. pose proof (inv_reachable _ _ _ _ _ R) as H. destruct H.
  rewrite i_res0, i_qlen0, L. repeat split; try reflexivity.
  intros w. destruct (queue s w) as [c|] eqn:Q; [|reflexivity].
  destruct (i_q3 _ _ Q) as [Rg _]. assert (In c (live s)) by (apply i_live0; rewrite Rg; apply orb_true_r).
  rewrite L in H. destruct H.
Qed.

(** A live connection with spare capacity admits a new query. *)
Theorem admits_below_limit maxcq tcp nq ls s c orig :
  run (init maxcq tcp nq) ls = Some s ->
  closed s = false -> cpc (calls s c) = PIdle -> ~ In c (live s) ->
  cnt holds_res (calls s) (live s) + cnt registered (calls s) (live s) < maxcq ->
  exists s', step s (LReserve c orig) = Some s' /\ cpc (calls s' c) = PReserved /\ cres (calls s' c) = None.
Proof.
  intros R Hc Hp Hn Hlt. destruct (accounting_exact _ _ _ _ _ R) as (A & B & C & D).
  cbn [step]. rewrite Hp, Hc. simpl.
  assert (M : mem_nat c (live s) = false).
  { destruct (mem_nat c (live s)) eqn:E; [|reflexivity]. apply mem_nat_In in E. tauto. }
  rewrite M. simpl. destruct (N.leb_spec (max_cq s) (qlen s + reserved s)); [lia|].
  eexists. split; [reflexivity|]. simpl. rewrite upd_same. auto.
Qed.

(** A connection at its limit refuses, it never over-admits. *)
Theorem refuses_at_limit s c orig s' :
  step s (LReserve c orig) = Some s' -> closed s = false -> max_cq s <= qlen s + reserved s ->
  cres (calls s' c) = Some (RRefused false) /\ reserved s' = reserved s /\ qlen s' = qlen s.
Proof.
  intros Hs Hc Hl. cbn [step] in Hs.
  destruct (pc_eqb (cpc (calls s c)) PIdle && negb (mem_nat c (live s))); [|discriminate].
  rewrite Hc in Hs. destruct (N.leb_spec (max_cq s) (qlen s + reserved s)); [|lia].
  inversion Hs; subst. simpl. rewrite upd_same. auto.
Qed.

(** * C07 (safety core): faults close the connection once; a closed connection wakes every waiter *)

Theorem closed_monotone s l s' : step s l = Some s' -> closed s = true -> closed s' = true /\ close_err s' = close_err s.
Proof.
  intros Hs Hc. destruct l; cbn [step] in Hs;
    repeat match type of Hs with
           | context [if ?b then _ else _] => destruct b eqn:?
           | context [match ?x with _ => _ end] => destruct x eqn:?
           end; try discriminate; inversion Hs; subst; simpl;
    unfold close_with, end_unregistered, finish, set_call, set_calls; simpl; rewrite ?Hc; simpl; auto; try congruence.
Qed.

Theorem fault_closes s l s' :
  step s l = Some s' ->
  match l with LWriteEnd _ false | LResendEnd _ false | LRecvErr | LClose => True | _ => False end ->
  closed s' = true.
Proof.
  intros Hs Hl. destruct l; try destruct ok; try contradiction; cbn [step] in Hs;
    repeat match type of Hs with
           | context [if ?b then _ else _] => destruct b eqn:?
           | context [match ?x with _ => _ end] => destruct x eqn:?
           end; try discriminate; inversion Hs; subst; simpl;
    unfold close_with; destruct (closed s) eqn:C; simpl; auto.
Qed.

(** A waiting call is never stuck once its context ended, the connection
    closed, or a reply sits in its channel. *)
Theorem waiter_wakes s c :
  cpc (calls s c) = PWaiting ->
  (cctx (calls s c) = true -> exists s', step s (LSelect c SelCtx) = Some s') /\
  (closed s = true -> exists s', step s (LSelect c SelClose) = Some s') /\
  (forall r, cbuf (calls s c) = Some r -> exists s', step s (LSelect c SelReply) = Some s').
Proof.
  intros P. cbn [step]. rewrite P. simpl. repeat split.
  - intros ->. eauto.
  - intros ->. eauto.
  - intros r ->. eauto.
Qed.

(** The reader only stops by closing the connection. *)
Lemma reader_dead_closed_step s l s' :
  step s l = Some s' -> (reader_dead s = true -> closed s = true) -> (reader_dead s' = true -> closed s' = true).
Proof.
  intros Hs Hi. destruct l; cbn [step] in Hs;
    repeat match type of Hs with
           | context [if ?b then _ else _] => destruct b eqn:?
           | context [match ?x with _ => _ end] => destruct x eqn:?
           end; try discriminate; inversion Hs; subst; simpl;
    unfold close_with; repeat match goal with |- context [if ?b then _ else _] => destruct b eqn:? end;
    simpl; auto; try (intros; reflexivity); try (intros D; specialize (Hi D); congruence).
Qed.

Lemma reader_dead_closed_run : forall ls s s',
  run s ls = Some s' -> (reader_dead s = true -> closed s = true) -> (reader_dead s' = true -> closed s' = true).
Proof.
  induction ls as [|l ls IH]; intros s s' R Hi; simpl in R; [inversion R; subst; exact Hi|].
  destruct (step s l) as [s1|] eqn:E; [|discriminate].
  eapply IH; [exact R|]. eapply reader_dead_closed_step; eauto.
Qed.

Definition reader_label (l : label) : bool :=
  match l with LLookup | LHandoff | LRecvErr => true | _ => false end.

(** No waiting call is ever stuck for good: from every reachable state there
    is a continuation made only of the reader finishing its current frame and
    then seeing its (always armed) read deadline expire or the peer fail, after
    which the call's wait is enabled. The caller needs no help from any other
    caller. *)
Theorem waiting_call_can_be_woken maxcq tcp nq ls s c :
  run (init maxcq tcp nq) ls = Some s -> cpc (calls s c) = PWaiting ->
  exists rs s1 k s2, forallb reader_label rs = true /\ run s rs = Some s1 /\
                     cpc (calls s1 c) = PWaiting /\ step s1 (LSelect c k) = Some s2.
Proof.
  intros R P.
  assert (D : reader_dead s = true -> closed s = true).
  { eapply reader_dead_closed_run; [exact R|]. simpl. discriminate. }
  assert (W : forall s1, cpc (calls s1 c) = PWaiting -> closed s1 = true ->
              exists s2, step s1 (LSelect c SelClose) = Some s2).
  { intros s1 P1 C1. cbn [step]. rewrite P1, C1. simpl. eauto. }
  destruct (closed s) eqn:C.
  { exists [], s, SelClose. destruct (W s P C) as [s2 H2]. exists s2. repeat split; auto. }
  assert (Rd : reader_dead s = false) by (destruct (reader_dead s); [specialize (D eq_refl); congruence|reflexivity]).
  (* let the reader finish the frame it holds, then fail *)
  assert (Fin : forall s0, reader_dead s0 = false -> closed s0 = false -> hold s0 = None -> cpc (calls s0 c) = PWaiting ->
                exists s1, step s0 LRecvErr = Some s1 /\ cpc (calls s1 c) = PWaiting /\ closed s1 = true).
  { intros s0 R0 C0 H0 P0. cbn [step]. rewrite R0, H0. simpl. eexists. split; [reflexivity|].
    unfold close_with. rewrite C0. simpl. auto. }
  destruct (hold s) as [r|] eqn:Hh.
  - assert (HO : forall s0, hold s0 = Some r -> reader_dead s0 = false -> closed s0 = false -> cpc (calls s0 c) = PWaiting ->
                 forall t, htarget s0 = Some t ->
                 exists s1, step s0 LHandoff = Some s1 /\ hold s1 = None /\ reader_dead s1 = false /\ closed s1 = false
                            /\ cpc (calls s1 c) = PWaiting).
    { intros s0 H0 R0 C0 P0 t T0. cbn [step]. rewrite H0, T0. eexists. split; [reflexivity|]. simpl.
      repeat split; auto.
      destruct t as [c0|]; [|exact P0].
      destruct (cbuf (calls s0 c0)); [exact P0|]. destruct (cres (calls s0 c0)); [exact P0|].
      destruct (Nat.eq_dec c c0) as [->|Hne]; [rewrite upd_same; exact P0|rewrite upd_other by exact Hne; exact P0]. }
    destruct (htarget s) as [t|] eqn:Ht.
    + destruct (HO s Hh Rd C P t Ht) as (s1 & S1 & H1 & R1 & C1 & P1).
      destruct (Fin s1 R1 C1 H1 P1) as (s2 & S2 & P2 & C2).
      destruct (W s2 P2 C2) as [s3 S3].
      exists [LHandoff; LRecvErr], s2, SelClose, s3.
      split; [reflexivity|]. split; [cbn [run]; rewrite S1, S2; reflexivity|]. auto.
    + assert (L : exists s0, step s LLookup = Some s0 /\ hold s0 = Some r /\ reader_dead s0 = false /\ closed s0 = false
                             /\ cpc (calls s0 c) = PWaiting /\ exists t, htarget s0 = Some t).
      { cbn [step]. rewrite Hh, Ht. eexists. split; [reflexivity|]. simpl. repeat split; eauto. }
      destruct L as (s0 & S0 & H0 & R0 & C0 & P0 & t & T0).
      destruct (HO s0 H0 R0 C0 P0 t T0) as (s1 & S1 & H1 & R1 & C1 & P1).
      destruct (Fin s1 R1 C1 H1 P1) as (s2 & S2 & P2 & C2).
      destruct (W s2 P2 C2) as [s3 S3].
      exists [LLookup; LHandoff; LRecvErr], s2, SelClose, s3.
      split; [reflexivity|]. split; [cbn [run]; rewrite S0, S1, S2; reflexivity|]. auto.
  - destruct (Fin s Rd C Hh P) as (s2 & S2 & P2 & C2). destruct (W s2 P2 C2) as [s3 S3].
    exists [LRecvErr], s2, SelClose, s3.
    split; [reflexivity|]. split; [cbn [run]; rewrite S2; reflexivity|]. auto.
Qed.

(** After the connection is closed later calls fail at once. *)
Theorem after_close_refuses s c orig s' :
  closed s = true -> step s (LReserve c orig) = Some s' -> cres (calls s' c) = Some (RRefused true).
Proof.
  intros C Hs. cbn [step] in Hs.
  destruct (pc_eqb (cpc (calls s c)) PIdle && negb (mem_nat c (live s))); [|discriminate].
  rewrite C in Hs. inversion Hs; subst. simpl. rewrite upd_same. reflexivity.
Qed.

Theorem after_close_exchange_fails s c s' :
  closed s = true -> step s (LCheck c) = Some s' -> cres (calls s' c) = Some (RErr EClosed).
Proof.
  intros C Hs. cbn [step] in Hs.
  destruct (pc_eqb (cpc (calls s c)) PReserved); [|discriminate].
  rewrite C in Hs. inversion Hs; subst. unfold end_unregistered. simpl. rewrite upd_same. reflexivity.
Qed.

(** Finding F10: after any frame the reader re-arms the IDLE timeout although
    another query is still written and unanswered. *)
Theorem idle_rearm_refuted :
  exists ls s, run (init 4 false 0) ls = Some s /\
    cpc (calls s 1%nat) = PWaiting /\ cgot (calls s 1%nat) = None /\ reader_dead s = false /\
    hd ArmWaiting (arms s) = ArmIdle.
Proof.
  exists [LReserve 0 1; LReserve 1 2; LCheck 0; LAdd 0; LWriteBegin 0; LWriteEnd 0 true; LArm 0;
          LCheck 1; LAdd 1; LWriteBegin 1; LWriteEnd 1 true; LArm 1;
          LRecv (mkReply 0 0 100 (Some 0%nat)); LLookup; LHandoff].
  eexists. split; [vm_compute; reflexivity|]. vm_compute. repeat split; reflexivity.
Qed.

(** Without an intervening frame, the deadline armed while a query waits is the waiting-reply one. *)
Theorem arm_sets_waiting_deadline s c s' :
  step s (LArm c) = Some s' -> waiting_resp s' = true /\ (waiting_resp s = false -> hd ArmIdle (arms s') = ArmWaiting).
Proof.
  intros Hs. cbn [step] in Hs. destruct (pc_eqb (cpc (calls s c)) PWritten); [|discriminate].
  destruct (waiting_resp s) eqn:W; inversion Hs; subst; simpl; auto. split; [exact W|discriminate].
Qed.
