(** Proofs about Model/CacheStore.v (property C11). *)
From Verif Require Import Base.Prelude Gen.Constants Model.CacheStore.
From Coq Require Import ZifyN ZifyNat ZifyBool.
From Coq Require FinFun.
Open Scope N_scope.

Arguments N.modulo : simpl never.
Arguments N.mul : simpl never.
Arguments Z.mul : simpl never.
Arguments Z.quot : simpl never.
Arguments Z.add : simpl never.
Arguments Z.of_nat : simpl never.
Arguments Z.of_N : simpl never.
Arguments result_eqb : simpl never.

(** * Facts about the regenerated constants (re-proved on every run) *)
Lemma shard_size_pos : 0 < map_shard_size.
Proof. reflexivity. Qed.
Lemma min_covers_shards : (Z.of_N map_shard_size <= Z.of_N cache_min_size)%Z.
Proof. vm_compute. discriminate. Qed.

Lemma eff_size_ge size : (Z.of_N cache_min_size <= eff_size size)%Z.
Proof. unfold eff_size. destruct (size <? Z.of_N cache_min_size)%Z eqn:E; lia. Qed.

Lemma per_shard_pos size : (0 < per_shard (eff_size size))%Z.
Proof.
  unfold per_shard. pose proof (eff_size_ge size) as H. pose proof min_covers_shards as M.
  pose proof shard_size_pos as P.
  rewrite Z.quot_div_nonneg by lia.
  apply Z.div_str_pos. lia.
Qed.

Lemma capacity_le_size size : (capacity size <= eff_size size)%Z.
Proof.
  unfold capacity, per_shard. pose proof (eff_size_ge size) as H. pose proof shard_size_pos as P.
  rewrite Z.quot_div_nonneg by lia.
  apply Z.mul_div_le. lia.
Qed.

(** * Shards *)
Lemma remove_nth_length {A} (l : list A) n :
  (n < length l)%nat -> S (length (remove_nth n l)) = length l.
Proof.
  revert n; induction l as [|x l IH]; intros [|n] H; simpl in *; try lia.
  rewrite IH; lia.
Qed.

Lemma remove_nth_In {A} (l : list A) n x : In x (remove_nth n l) -> In x l.
Proof.
  revert n; induction l as [|y l IH]; intros [|n] H; simpl in *; auto.
  destruct H as [H|H]; eauto.
Qed.

Lemma evict_In fuel max ch m x : In x (evict fuel max ch m) -> In x m.
Proof.
  revert ch m; induction fuel as [|f IH]; intros ch m H; simpl in H; auto.
  destruct m as [|y m]; auto.
  set (m' := remove_nth _ _) in *.
  destruct (Z.of_nat (length m') + 1 <=? max)%Z.
  - eapply remove_nth_In; exact H.
  - apply IH in H. eapply remove_nth_In; exact H.
Qed.

Lemma evict_bound fuel max ch m :
  (length m <= fuel)%nat -> (0 < max)%Z -> m <> [] ->
  (Z.of_nat (length (evict fuel max ch m)) + 1 <= max)%Z.
Proof.
  revert ch m; induction fuel as [|f IH]; intros ch m Hf Hm Hne.
  - destruct m; simpl in Hf; [congruence | lia].
  - simpl. destruct m as [|y m]; [congruence|].
    set (m0 := y :: m) in *.
    assert (Hlt : (Nat.modulo (hd O ch) (length m0) < length m0)%nat)
      by (apply Nat.mod_upper_bound; unfold m0; simpl; lia).
    pose proof (remove_nth_length m0 _ Hlt) as HL.
    set (m' := remove_nth _ m0) in *.
    destruct (Z.of_nat (length m') + 1 <=? max)%Z eqn:E; [lia|].
    apply IH; try lia.
    intro Hnil. rewrite Hnil in E. simpl in E. lia.
Qed.

Lemma sdel_In k m x : In x (sdel k m) -> In x m /\ fst x <> k.
Proof.
  induction m as [|[k' y] m IH]; simpl; [tauto|].
  destruct (k' =? k) eqn:E.
  - intro H. apply IH in H. tauto.
  - intros [H|H].
    + subst x. simpl. split; [auto | lia].
    + apply IH in H. tauto.
Qed.

Lemma sdel_length k m : (length (sdel k m) <= length m)%nat.
Proof.
  induction m as [|[k' y] m IH]; simpl; [lia|].
  destruct (k' =? k); simpl; lia.
Qed.

Lemma sset_bound max ch k x m : (0 < max)%Z -> (Z.of_nat (length (sset max ch k x m)) <= max)%Z.
Proof.
  intro Hm. unfold sset.
  destruct ((0 <? max)%Z && (max <? Z.of_nat (length m) + 1)%Z) eqn:E.
  - assert (Hne : m <> []) by (intro; subst m; simpl in E; lia).
    pose proof (evict_bound (length m) max ch m (le_n _) Hm Hne) as HB.
    pose proof (sdel_length k (evict (length m) max ch m)) as HD.
    cbn [length]. lia.
  - pose proof (sdel_length k m) as HD. cbn [length]. lia.
Qed.

Lemma sset_In max ch k x m y :
  In y (sset max ch k x m) -> y = (k, x) \/ (fst y <> k /\ In y m).
Proof.
  unfold sset. intros [H|H]; [left; auto|right].
  apply sdel_In in H as [H1 H2]. split; auto.
  destruct ((0 <? max)%Z && (max <? Z.of_nat (length m) + 1)%Z); auto.
  eapply evict_In; eauto.
Qed.

Lemma sgc_In now m x : In x (sgc now m) -> In x m.
Proof. unfold sgc. intro H. apply filter_In in H. tauto. Qed.

Lemma sgc_length now m : (length (sgc now m) <= length m)%nat.
Proof. unfold sgc. induction m as [|y m IH]; simpl; [lia|]. destruct (negb _); simpl; lia. Qed.

Lemma sget_In k m x : sget k m = Some x -> In (k, x) m.
Proof.
  induction m as [|[k' y] m IH]; simpl; [discriminate|].
  destruct (k' =? k) eqn:E.
  - intro H. injection H as ->. left. f_equal. lia.
  - intro H. right. auto.
Qed.

(** keys are unique in a shard; then the list really is a finite map *)
Definition uniq (m : shard) : Prop := NoDup (map fst m).

Lemma sget_uniq k x m : uniq m -> In (k, x) m -> sget k m = Some x.
Proof.
  unfold uniq. induction m as [|[k' y] m IH]; simpl; [tauto|].
  intros HN [H|H].
  - injection H as -> ->. rewrite N.eqb_refl. reflexivity.
  - inversion HN as [|? ? Hni HN']; subst.
    destruct (k' =? k) eqn:E.
    + exfalso. apply Hni. assert (k' = k) by lia. subst. apply (in_map fst) in H. exact H.
    + auto.
Qed.

Lemma remove_nth_uniq n m : uniq m -> uniq (remove_nth n m).
Proof.
  unfold uniq. revert n; induction m as [|y m IH]; intros [|n] H; simpl in *; auto.
  - inversion H; auto.
  - inversion H as [|? ? Hni HN]; subst. constructor; auto.
    intro Hin. apply Hni. apply in_map_iff in Hin as [z [Hz Hin]].
    apply in_map_iff. exists z. split; auto. eapply remove_nth_In; eauto.
Qed.

Lemma evict_uniq fuel max ch m : uniq m -> uniq (evict fuel max ch m).
Proof.
  revert ch m; induction fuel as [|f IH]; intros ch m H; simpl; auto.
  destruct m as [|y m]; auto.
  set (m' := remove_nth _ _).
  assert (uniq m') by (apply remove_nth_uniq; auto).
  destruct (Z.of_nat (length m') + 1 <=? max)%Z; auto.
Qed.

Lemma sdel_uniq k m : uniq m -> uniq (sdel k m).
Proof.
  unfold uniq. induction m as [|[k' y] m IH]; simpl; auto.
  intro H. inversion H as [|? ? Hni HN]; subst.
  destruct (k' =? k); auto. simpl. constructor; auto.
  intro Hin. apply Hni. apply in_map_iff in Hin as [z [Hz Hin]].
  apply in_map_iff. exists z. split; auto. apply sdel_In in Hin. tauto.
Qed.

Lemma sdel_notin k m : ~ In k (map fst (sdel k m)).
Proof.
  intro H. apply in_map_iff in H as [z [Hz Hin]]. apply sdel_In in Hin. tauto.
Qed.

Lemma sset_uniq max ch k x m : uniq m -> uniq (sset max ch k x m).
Proof.
  intro H. unfold sset, uniq. simpl. constructor.
  - apply sdel_notin.
  - apply sdel_uniq. destruct (_ && _); auto. apply evict_uniq; auto.
Qed.

Lemma sgc_uniq now m : uniq m -> uniq (sgc now m).
Proof.
  unfold uniq, sgc. induction m as [|y m IH]; simpl; auto.
  intro H. inversion H as [|? ? Hni HN]; subst.
  destruct (negb _); auto. simpl. constructor; auto.
  intro Hin. apply Hni. apply in_map_iff in Hin as [z [Hz Hin]].
  apply in_map_iff. exists z. split; auto. apply filter_In in Hin. tauto.
Qed.

Lemma sget_sdel_same k m : sget k (sdel k m) = None.
Proof.
  induction m as [|[k' y] m IH]; simpl; auto.
  destruct (k' =? k) eqn:E; auto. simpl. rewrite E. auto.
Qed.

Lemma sget_sdel_other k k' m : k' <> k -> sget k' (sdel k m) = sget k' m.
Proof.
  intro H. induction m as [|[k0 y] m IH]; simpl; auto.
  destruct (k0 =? k) eqn:E; simpl.
  - destruct (k0 =? k') eqn:E'; [lia|auto].
  - rewrite IH. reflexivity.
Qed.

Lemma upd_same {A} (f : N -> A) i x : upd f i x i = x.
Proof. unfold upd. rewrite N.eqb_refl. reflexivity. Qed.
Lemma upd_other {A} (f : N -> A) i j x : j <> i -> upd f i x j = f j.
Proof. unfold upd. intro H. destruct (j =? i) eqn:E; [lia|reflexivity]. Qed.

Lemma shard_ids_length : length shard_ids = N.to_nat map_shard_size.
Proof. unfold shard_ids. rewrite map_length, seq_length. reflexivity. Qed.

Lemma sum_bound (f : N -> N) (b : Z) (ids : list N) (a : N) :
  (forall i, Z.of_N (f i) <= b)%Z ->
  (Z.of_N (fold_left (fun (x : N) (i : N) => (x + f i)%N) ids a) <= Z.of_N a + Z.of_nat (length ids) * b)%Z.
Proof.
  intro H. revert a; induction ids as [|i ids IH]; intro a; simpl.
  - lia.
  - specialize (IH (a + f i)). specialize (H i). cbn [length]. lia.
Qed.

Section Hashed.
Variable hash : key -> N.
Notation ix := (ix hash).
Notation c_get := (c_get hash).
Notation c_set := (c_set hash).
Notation c_del := (c_del hash).
Notation exec := (exec hash).
Notation run := (run hash).

Lemma ix_lt k : ix k < map_shard_size.
Proof. unfold CacheStore.ix. apply N.mod_lt. pose proof shard_size_pos. lia. Qed.

(** * Capacity (sequential) *)
Definition bounded (c : cache) : Prop :=
  (0 < c_max c)%Z /\ forall i, (Z.of_nat (length (c_sh c i)) <= c_max c)%Z.

Lemma c_len_bound c : bounded c -> (Z.of_N (c_len c) <= Z.of_N map_shard_size * c_max c)%Z.
Proof.
  intros [Hm Hb]. unfold c_len.
  pose proof (sum_bound (fun i => slen (c_sh c i)) (c_max c) shard_ids 0) as H.
  rewrite shard_ids_length in H.
  assert (forall i, (Z.of_N (slen (c_sh c i)) <= c_max c)%Z) as H1
    by (intro i; unfold slen; specialize (Hb i); lia).
  specialize (H H1). lia.
Qed.

Lemma bounded_upd c i m :
  bounded c -> (Z.of_nat (length m) <= c_max c)%Z -> bounded (Cache (c_max c) (upd (c_sh c) i m)).
Proof.
  intros [Hm Hb] Hl. split; simpl; auto.
  intro j. unfold upd. destruct (j =? i); auto.
Qed.

Lemma bounded_set c ch k x : bounded c -> bounded (c_set c ch k x).
Proof. intro B. apply bounded_upd; auto. apply sset_bound. apply B. Qed.
Lemma bounded_del c k : bounded c -> bounded (c_del c k).
Proof.
  intro B. apply bounded_upd; auto. destruct B as [_ B].
  pose proof (sdel_length k (c_sh c (ix k))). specialize (B (ix k)). lia.
Qed.
Lemma bounded_flush1 c i : bounded c -> bounded (c_flush1 c i).
Proof. intro B. apply bounded_upd; auto. destruct B. simpl. lia. Qed.
Lemma bounded_gc1 now c i : bounded c -> bounded (c_gc1 now c i).
Proof.
  intro B. apply bounded_upd; auto. destruct B as [_ B].
  pose proof (sgc_length now (c_sh c i)). specialize (B i). lia.
Qed.

Lemma fold_pres {A B} (P : A -> Prop) (f : A -> B -> A) l a :
  (forall a b, P a -> P (f a b)) -> P a -> P (fold_left f l a).
Proof. intro H. revert a; induction l; simpl; auto. Qed.

Lemma bounded_exec c now ch o : bounded c -> bounded (fst (exec c now ch o)).
Proof.
  intro B. destruct o; cbn [CacheStore.exec fst].
  - destruct (c_get c k) as [[v e gp gt]|]; simpl; auto.
    destruct (e <? now)%Z; simpl; auto using bounded_del.
  - destruct (e <? now)%Z; simpl; auto using bounded_set.
  - apply (fold_pres bounded); auto using bounded_flush1.
  - auto.
  - auto.
  - apply (fold_pres bounded); auto using bounded_gc1.
Qed.

Lemma bounded_run ops : forall c, bounded c -> bounded (fst (run c ops)).
Proof.
  induction ops as [|[[o now] ch] ops IH]; intros c B; simpl; auto.
  pose proof (bounded_exec c now ch o B) as B1.
  destruct (exec c now ch o) as [c1 r]. simpl in B1.
  specialize (IH c1 B1). destruct (run c1 ops) as [c2 rs]. simpl in *. auto.
Qed.

Lemma bounded_new size : bounded (new size).
Proof. split; simpl; [apply per_shard_pos | intro; pose proof (per_shard_pos size); simpl; lia]. Qed.

Lemma max_exec c now ch o : c_max (fst (exec c now ch o)) = c_max c.
Proof.
  destruct o; cbn [CacheStore.exec fst]; auto;
    try (apply (fold_pres (fun c' => c_max c' = c_max c)); auto; fail).
  - destruct (c_get c k) as [[v e gp gt]|]; simpl; auto. destruct (e <? now)%Z; auto.
  - destruct (e <? now)%Z; auto.
Qed.

Lemma max_run ops : forall c, c_max (fst (run c ops)) = c_max c.
Proof.
  induction ops as [|[[o now] ch] ops IH]; intro c; simpl; auto.
  pose proof (max_exec c now ch o) as M.
  destruct (exec c now ch o) as [c1 r]. simpl in M.
  specialize (IH c1). destruct (run c1 ops) as [c2 rs]. simpl in *. congruence.
Qed.

Theorem capacity_seq size ops :
  (Z.of_N (c_len (fst (run (new size) ops))) <= capacity size)%Z /\ (capacity size <= eff_size size)%Z.
Proof.
  split; [|apply capacity_le_size].
  pose proof (bounded_run ops _ (bounded_new size)) as B.
  apply c_len_bound in B. rewrite max_run in B. exact B.
Qed.

(** * Exactness (sequential): refinement to the unbounded abstract map *)
Definition amap := key -> option (val * Z).
Definition aupd (a : amap) (k : key) (x : option (val * Z)) : amap :=
  fun j => if j =? k then x else a j.

(** what the operations mean on a map without capacity and without shards *)
Definition aexec (a : amap) (now : Z) (o : op) : amap :=
  match o with
  | OGet k => match a k with
              | Some (v, e) => if (e <? now)%Z then aupd a k None else a
              | None => a end
  | OStore k v e => if (e <? now)%Z then a else aupd a k (Some (v, e))
  | OFlush => fun _ => None
  | OGc now' => fun k => match a k with
                         | Some (v, e) => if (e <? now')%Z then None else Some (v, e)
                         | None => None end
  | _ => a
  end.
Fixpoint arun (a : amap) (ops : list sop) : amap :=
  match ops with [] => a | (o, now, _) :: t => arun (aexec a now o) t end.

(** the cache holds a subset of the abstract map, in the right shards, without duplicates *)
Definition refines (c : cache) (a : amap) : Prop :=
  (forall i, uniq (c_sh c i)) /\
  forall i k x, In (k, x) (c_sh c i) -> i = ix k /\ a k = Some (e_val x, e_exp x).

Lemma refines_get c a k x : refines c a -> c_get c k = Some x -> a k = Some (e_val x, e_exp x).
Proof. intros [_ R] H. apply sget_In in H. apply R in H. tauto. Qed.

Lemma refines_upd_sub c a i m :
  refines c a -> uniq m -> (forall y, In y m -> In y (c_sh c i)) ->
  refines (Cache (c_max c) (upd (c_sh c) i m)) a.
Proof.
  intros [U R] Um Hs. split; simpl.
  - intro j. unfold upd. destruct (j =? i); auto.
  - intros j k x. unfold upd. destruct (j =? i) eqn:E; auto.
    intro H. apply Hs in H. assert (j = i) by lia. subst. auto.
Qed.

Lemma refines_weaken c a a' :
  refines c a -> (forall i k x, In (k, x) (c_sh c i) -> a k = Some (e_val x, e_exp x) -> a' k = Some (e_val x, e_exp x)) ->
  refines c a'.
Proof.
  intros [U R] H. split; auto. intros i k x Hin. destruct (R i k x Hin) as [R1 R2]. split; eauto.
Qed.

Lemma refines_del c a k : refines c a -> refines (c_del c k) (aupd a k None).
Proof.
  intro RR. pose proof RR as [U R]. split; simpl.
  - intro j. unfold upd. destruct (j =? ix k); auto. apply sdel_uniq; auto.
  - intros j k' x. unfold upd, aupd. destruct (j =? ix k) eqn:E.
    + intro H. apply sdel_In in H as [H1 H2]. simpl in H2.
      assert (j = ix k) by lia. subst j. apply R in H1.
      destruct (k' =? k) eqn:E'; [lia | auto].
    + intro H. pose proof (R _ _ _ H) as [R1 R2]. split; auto.
      destruct (k' =? k) eqn:E'; auto. assert (k' = k) by lia. subst. lia.
Qed.

Lemma refines_set c a ch k v e gp gt :
  refines c a -> refines (c_set c ch k (E v e gp gt)) (aupd a k (Some (v, e))).
Proof.
  intro RR. pose proof RR as [U R]. split; simpl.
  - intro j. unfold upd. destruct (j =? ix k); auto. apply sset_uniq; auto.
  - intros j k' x. unfold upd, aupd. destruct (j =? ix k) eqn:Ej.
    + intro H. apply sset_In in H as [H|[H1 H2]].
      * injection H as -> ->. rewrite N.eqb_refl. simpl. split; [lia|auto].
      * simpl in H1. assert (j = ix k) by lia. subst j. apply R in H2.
        destruct (k' =? k) eqn:E'; [lia|auto].
    + intro H. pose proof (R _ _ _ H) as [R1 R2]. split; auto.
      destruct (k' =? k) eqn:E'; auto. assert (k' = k) by lia. subst. lia.
Qed.

(** after the per-shard loop over [ids], shards in [ids] are flushed / swept, others untouched *)
Lemma flush_fold ids c i :
  c_sh (fold_left c_flush1 ids c) i = if existsb (N.eqb i) ids then [] else c_sh c i.
Proof.
  revert c; induction ids as [|j ids IH]; intro c; simpl; auto.
  rewrite IH. simpl. unfold upd.
  destruct (existsb (N.eqb i) ids); simpl.
  - rewrite orb_true_r. reflexivity.
  - rewrite orb_false_r. reflexivity.
Qed.

Lemma gc_fold now ids c i :
  NoDup ids ->
  c_sh (fold_left (c_gc1 now) ids c) i = if existsb (N.eqb i) ids then sgc now (c_sh c i) else c_sh c i.
Proof.
  revert c; induction ids as [|j ids IH]; intros c ND; simpl; auto.
  inversion ND as [|? ? Hni ND']; subst.
  rewrite IH by auto. simpl. unfold upd.
  destruct (i =? j) eqn:E; simpl.
  - assert (i = j) by lia. subst i.
    destruct (existsb (N.eqb j) ids) eqn:Ex; auto.
    exfalso. apply Hni. apply existsb_exists in Ex as [z [Hz Hz']]. assert (j = z) by lia. subst. auto.
  - reflexivity.
Qed.

Lemma shard_ids_nodup : NoDup shard_ids.
Proof.
  unfold shard_ids. apply FinFun.Injective_map_NoDup; [|apply seq_NoDup].
  intros x y H. lia.
Qed.

Lemma in_shard_ids i : i < map_shard_size -> existsb (N.eqb i) shard_ids = true.
Proof.
  intro H. apply existsb_exists. exists i. split; [|lia].
  unfold shard_ids. apply in_map_iff. exists (N.to_nat i). split; [lia|].
  apply in_seq. lia.
Qed.

Lemma refines_exec c a now ch o : refines c a -> refines (fst (exec c now ch o)) (aexec a now o).
Proof.
  intro RR. destruct o; cbn [CacheStore.exec fst aexec].
  - destruct (c_get c k) as [[v e gp gt]|] eqn:G; simpl.
    + pose proof (refines_get _ _ _ _ RR G) as A. simpl in A. rewrite A.
      destruct (e <? now)%Z; simpl; auto using refines_del.
    + destruct (a k) as [[v e]|]; auto.
      destruct (e <? now)%Z; auto.
      eapply refines_weaken; eauto. intros i k' x Hin Ha. unfold aupd.
      destruct (k' =? k) eqn:E'; auto. assert (k' = k) by lia. subst k'.
      destruct RR as [U R]. pose proof (R _ _ _ Hin) as [R1 _]. subst i.
      unfold CacheStore.c_get in G. rewrite (sget_uniq _ _ _ (U _) Hin) in G. discriminate.
  - destruct (e <? now)%Z; simpl; auto using refines_set.
  - destruct RR as [U R]. split.
    + intro i. rewrite flush_fold. destruct (existsb _ _); auto. constructor.
    + intros i k x. rewrite flush_fold. destruct (existsb (N.eqb i) shard_ids) eqn:Ex; [simpl; tauto|].
      intro H. pose proof (R _ _ _ H) as [R1 _]. subst i. rewrite in_shard_ids in Ex; [discriminate|apply ix_lt].
  - auto.
  - auto.
  - destruct RR as [U R]. split.
    + intro i. rewrite gc_fold by apply shard_ids_nodup. destruct (existsb _ _); auto. apply sgc_uniq; auto.
    + intros i k x. rewrite gc_fold by apply shard_ids_nodup.
      destruct (existsb (N.eqb i) shard_ids) eqn:Ex.
      * intro H. unfold sgc in H. apply filter_In in H as [H1 H2]. simpl in H2.
        pose proof (R _ _ _ H1) as [R1 R2]. split; auto. rewrite R2.
        revert H2. destruct (_ <? _)%Z; simpl; [discriminate|reflexivity].
      * intro H. pose proof (R _ _ _ H) as [R1 _]. subst i. rewrite in_shard_ids in Ex; [discriminate|apply ix_lt].
Qed.

Lemma refines_run ops : forall c a, refines c a -> refines (fst (run c ops)) (arun a ops).
Proof.
  induction ops as [|[[o now] ch] ops IH]; intros c a RR; simpl; auto.
  pose proof (refines_exec c a now ch o RR) as R1.
  destruct (exec c now ch o) as [c1 r]. simpl in R1.
  specialize (IH c1 _ R1). destruct (run c1 ops) as [c2 rs]. simpl in *. auto.
Qed.

Lemma refines_new size : refines (new size) (fun _ => None).
Proof. split; simpl; [intro; constructor | tauto]. Qed.

(** A lookup after any operation list (any clock readings, any eviction choices) returns
    nothing, or exactly what the unbounded abstract map holds under that key and only if
    that is not expired at the lookup's clock reading. *)
Theorem get_exact size ops k now ch :
  let c := fst (run (new size) ops) in
  let a := arun (fun _ => None) ops in
  snd (exec c now ch (OGet k)) = RGet None \/
  exists v e, a k = Some (v, e) /\ ~ (e < now)%Z /\ snd (exec c now ch (OGet k)) = RGet (Some (v, e)).
Proof.
  intros c a. pose proof (refines_run ops _ _ (refines_new size)) as RR. fold c a in RR.
  simpl. destruct (c_get c k) as [[v e gp gt]|] eqn:G; auto.
  pose proof (refines_get _ _ _ _ RR G) as A. simpl in A.
  destruct (e <? now)%Z eqn:E; simpl; auto.
  right. exists v, e. repeat split; auto. lia.
Qed.
End Hashed.

(** * The concurrent cache: invariants of every run *)
Definition tick (l : label) : Z := match l with Tick d => Z.of_N d | _ => 0%Z end.

Lemma clock_at_0 ls : clock_at ls 0 = 0%Z.
Proof. destruct ls; reflexivity. Qed.

Lemma clock_at_S ls : forall n l, nth_error ls n = Some l ->
  clock_at ls (S n) = (clock_at ls n + tick l)%Z.
Proof.
  induction ls as [|x ls IH]; intros [|n] l H; simpl in H; try discriminate.
  - injection H as ->. destruct l; cbn [clock_at tick]; rewrite !clock_at_0; lia.
  - specialize (IH n l H). cbn [clock_at] in *.
    destruct x; try exact IH. rewrite IH. lia.
Qed.

Lemma clock_at_nonneg ls : forall n, (0 <= clock_at ls n)%Z.
Proof.
  induction ls as [|x ls IH]; intros [|n]; simpl; try lia.
  specialize (IH n). destruct x; lia.
Qed.

Lemma clock_at_mono ls : forall p n, (p <= n)%nat -> (clock_at ls p <= clock_at ls n)%Z.
Proof.
  induction ls as [|x ls IH]; intros [|p] [|n] H; simpl; try lia.
  - pose proof (clock_at_nonneg ls n). destruct x; lia.
  - assert (p <= n)%nat as H' by lia. specialize (IH p n H'). destruct x; lia.
Qed.

Lemma updn_same {A} (f : nat -> A) i x : updn f i x i = x.
Proof. unfold updn. rewrite Nat.eqb_refl. reflexivity. Qed.
Lemma updn_other {A} (f : nat -> A) i j x : j <> i -> updn f i x j = f j.
Proof. unfold updn. intro H. destruct (Nat.eqb j i) eqn:E; [apply Nat.eqb_eq in E; congruence|reflexivity]. Qed.

Lemma result_eqb_eq a b : result_eqb a b = true -> a = b.
Proof.
  destruct a as [[[v e]|]| |n|l], b as [[[v' e']|]| |n'|l']; unfold result_eqb; try discriminate; auto.
  - intro H. apply andb_true_iff in H as [H1 H2]. f_equal. f_equal. f_equal; lia.
  - intro H. f_equal. lia.
  - intro H. f_equal. apply (list_eqb_spec triple_eqb); auto.
    intros [[a1 a2] a3] [[b1 b2] b3]. unfold triple_eqb. simpl. split.
    + intro X. f_equal; [f_equal|]; lia.
    + intro X. injection X as -> -> ->. rewrite !N.eqb_refl, Z.eqb_refl. reflexivity.
Qed.

Section Conc.
Variable hash : key -> N.
Variable size : Z.
Variable ls : list label.
Notation ix := (CacheStore.ix hash).

Definition IsInv (p t : nat) (o : op) : Prop := nth_error ls p = Some (Inv t o).
(** thread [t] has no response strictly between positions [a] and [b] *)
Definition NoRes (t a b : nat) : Prop :=
  forall q r, (a < q)%nat -> (q < b)%nat -> nth_error ls q <> Some (Res t r).
(** the call [ow] of thread [tw] began at [pw] and returned at [qw] *)
Definition Completed (pw qw tw : nat) (ow : op) : Prop :=
  IsInv pw tw ow /\ (exists rw, nth_error ls qw = Some (Res tw rw)) /\ (pw < qw)%nat /\ NoRes tw pw qw.
(** ... and it certainly overwrote or removed key [k] *)
Definition Overwriter (k : key) (pw qw : nat) : Prop :=
  exists tw ow, Completed pw qw tw ow /\ overwrites ls k ow qw = true.

Lemma NoRes_mono t a b b' : NoRes t a b -> (b' <= b)%nat -> NoRes t a b'.
Proof. intros H Hb q r H1 H2. apply H; lia. Qed.
Lemma NoRes_S t a n : NoRes t a n -> (forall r, nth_error ls n <> Some (Res t r)) -> NoRes t a (S n).
Proof.
  intros H Hn q r H1 H2. destruct (Nat.eq_dec q n) as [->|Hne]; [apply Hn | apply H; lia].
Qed.
Lemma NoRes_empty t a b : (b <= S a)%nat -> NoRes t a b.
Proof. intros H q r H1 H2. lia. Qed.

(** the running call has already done what it does to key [k] *)
Definition modded (k : key) (o : op) (q : pc) : bool :=
  match o, q with
  | OStore k' _ _, PDone true _ => k' =? k
  | OFlush, PShard i _ _ => ix k <? i
  | OFlush, PDone _ _ => true
  | _, _ => false
  end.

(** [gp]/[gt] is a Store of exactly (k, v, e) that no call completed before [pg] overwrote
    after it had returned *)
Definition Src (n : nat) (k : key) (v : val) (e : Z) (pg gp gt : nat) : Prop :=
  IsInv gp gt (OStore k v e) /\ (gp < n)%nat /\
  forall pw qw, (qw < pg)%nat -> Overwriter k pw qw -> NoRes gt gp pw.

Definition get_ok (n pg : nat) (o : op) (q : pc) : Prop :=
  match o, q with
  | OGet k, PGetFound v e gp gt => Src n k v e pg gp gt
  | OGet k, PDone _ (RGet (Some (v, e))) =>
    (clock_at ls pg <= e)%Z /\ exists gp gt, Src n k v e pg gp gt
  | _, PDone _ (RGet (Some _)) => False
  | _, _ => True
  end.

Definition len_ok (c : cache) (q : pc) : Prop :=
  match q with
  | PShard i m _ => i < map_shard_size /\ (Z.of_N m <= Z.of_N i * c_max c)%Z
  | PDone _ (RLen m) => (Z.of_N m <= Z.of_N map_shard_size * c_max c)%Z
  | _ => True
  end.

Definition skip_ok (clock : Z) (o : op) (q : pc) : Prop :=
  match o, q with
  | OStore _ _ e, PDone false _ => (e < clock)%Z
  | _, _ => True
  end.

Record INV (n : nat) (s : state) : Prop := {
  i_pos : s_pos s = n;
  i_clock : s_clock s = clock_at ls n;
  i_max : c_max (s_cache s) = per_shard (eff_size size);
  i_bnd : bounded (s_cache s);
  i_thr : forall t p o q, s_thr s t = Run p o q -> IsInv p t o /\ (p < n)%nat /\ NoRes t p n;
  i_cur : forall t p o, IsInv p t o -> (p < n)%nat -> NoRes t p n -> exists q, s_thr s t = Run p o q;
  i_ent : forall i k v e gp gt, In (k, E v e gp gt) (c_sh (s_cache s) i) ->
            i = ix k /\ IsInv gp gt (OStore k v e) /\ (gp < n)%nat /\
            forall pw qw, (qw < n)%nat -> Overwriter k pw qw -> NoRes gt gp pw;
  i_mod : forall tw pw ow q k i v e gp gt, s_thr s tw = Run pw ow q -> modded k ow q = true ->
            In (k, E v e gp gt) (c_sh (s_cache s) i) -> NoRes gt gp pw;
  i_loc : forall t p o q, s_thr s t = Run p o q ->
            skip_ok (s_clock s) o q /\ get_ok n p o q /\ len_ok (s_cache s) q
}.

Lemma get_ok_S n pg o q : get_ok n pg o q -> get_ok (S n) pg o q.
Proof.
  unfold get_ok, Src. destruct o; destruct q as [| | | | |w0 [[[v0 e0]|]| | |]]; auto.
  - intros (A & B & C). repeat split; auto.
  - intros (A & gp & gt & B & C & D). split; auto. exists gp, gt. repeat split; auto.
Qed.

Lemma skip_ok_mono c c' o q : (c <= c')%Z -> skip_ok c o q -> skip_ok c' o q.
Proof. unfold skip_ok. destruct o; auto. destruct q; auto. destruct w; auto. lia. Qed.

Lemma overwriter_res k pw qw : Overwriter k pw qw -> exists tw rw, nth_error ls qw = Some (Res tw rw).
Proof. intros (tw & ow & (_ & (rw & H) & _) & _). eauto. Qed.

Lemma inv_init : INV O (init size).
Proof.
  constructor; simpl.
  - reflexivity.
  - rewrite clock_at_0. reflexivity.
  - reflexivity.
  - apply (bounded_new hash).
  - intros; discriminate.
  - intros; lia.
  - intros; tauto.
  - intros; discriminate.
  - intros; discriminate.
Qed.

(** ** labels that do not touch the cache *)
Lemma inv_tick n s d :
  INV n s -> nth_error ls n = Some (Tick d) ->
  INV (S n) (St (s_cache s) (s_clock s + Z.of_N d)%Z (s_thr s) (S (s_pos s))).
Proof.
  intros I L. destruct I. constructor; simpl; auto.
  - rewrite (clock_at_S _ _ _ L). simpl. congruence.
  - intros t p o q H. destruct (i_thr0 _ _ _ _ H) as (A & B & C). repeat split; auto.
    apply NoRes_S; auto. intros r. rewrite L. discriminate.
  - intros t p o A B C. destruct (Nat.eq_dec p n) as [->|Hne].
    + unfold IsInv in A. rewrite L in A. discriminate.
    + apply i_cur0; auto; [lia | eapply NoRes_mono; eauto].
  - intros i k v e gp gt H. destruct (i_ent0 _ _ _ _ _ _ H) as (A & B & C & D).
    repeat split; auto. intros pw qw Hq O. destruct (Nat.eq_dec qw n) as [->|Hne].
    + apply overwriter_res in O as (tw & rw & O). rewrite L in O. discriminate.
    + apply D with qw; auto; lia.
  - intros t p o q H. destruct (i_loc0 _ _ _ _ H) as (A & B & C). repeat split; auto.
    + eapply skip_ok_mono; [|exact A]. lia.
    + apply get_ok_S; auto.
Qed.

Lemma inv_inv n s t o :
  INV n s -> nth_error ls n = Some (Inv t o) -> s_thr s t = Idle ->
  INV (S n) (St (s_cache s) (s_clock s) (updn (s_thr s) t (Run (s_pos s) o (init_pc o))) (S (s_pos s))).
Proof.
  intros I L Hidle. destruct I. constructor; simpl; auto.
  - rewrite (clock_at_S _ _ _ L). simpl. lia.
  - intros t' p o' q H. destruct (Nat.eq_dec t' t) as [->|Hne].
    + rewrite updn_same in H. injection H as <- <- <-. rewrite i_pos0. repeat split; auto.
      apply NoRes_empty. lia.
    + rewrite updn_other in H by auto. destruct (i_thr0 _ _ _ _ H) as (A & B & C). repeat split; auto.
      apply NoRes_S; auto. intros r. rewrite L. discriminate.
  - intros t' p o' A B C. destruct (Nat.eq_dec p n) as [->|Hp].
    + unfold IsInv in A. rewrite L in A. injection A as -> ->. rewrite updn_same, i_pos0. eauto.
    + assert (exists q, s_thr s t' = Run p o' q) as [q Hq]
        by (apply i_cur0; auto; [lia | eapply NoRes_mono; eauto]).
      destruct (Nat.eq_dec t' t) as [->|Hne]; [congruence|].
      rewrite updn_other by auto. eauto.
  - intros i k v e gp gt H. destruct (i_ent0 _ _ _ _ _ _ H) as (A & B & C & D).
    repeat split; auto. intros pw qw Hq O. destruct (Nat.eq_dec qw n) as [->|Hne].
    + apply overwriter_res in O as (tw & rw & O). rewrite L in O. discriminate.
    + apply D with qw; auto; lia.
  - intros tw pw ow q k i v e gp gt H M Hin. destruct (Nat.eq_dec tw t) as [->|Hne].
    + rewrite updn_same in H. injection H as <- <- <-. destruct o; simpl in M; try discriminate. lia.
    + rewrite updn_other in H by auto. eauto.
  - intros t' p o' q H. destruct (Nat.eq_dec t' t) as [->|Hne].
    + rewrite updn_same in H. injection H as <- <- <-.
      pose proof shard_size_pos. destruct i_bnd0 as [Hm _].
      destruct o; simpl; repeat split; auto; lia.
    + rewrite updn_other in H by auto. destruct (i_loc0 _ _ _ _ H) as (A & B & C).
      repeat split; auto. apply get_ok_S; auto.
Qed.

Lemma inv_res n s t r p o w :
  INV n s -> nth_error ls n = Some (Res t r) -> s_thr s t = Run p o (PDone w r) ->
  INV (S n) (St (s_cache s) (s_clock s) (updn (s_thr s) t Idle) (S (s_pos s))).
Proof.
  intros I L Hrun. pose proof I as I0. destruct I. constructor; simpl; auto.
  - rewrite (clock_at_S _ _ _ L). simpl. lia.
  - intros t' p' o' q H. destruct (Nat.eq_dec t' t) as [->|Hne].
    + rewrite updn_same in H. discriminate.
    + rewrite updn_other in H by auto. destruct (i_thr0 _ _ _ _ H) as (A & B & C). repeat split; auto.
      apply NoRes_S; auto. intros r0. rewrite L. intro X. injection X as X _. congruence.
  - intros t' p' o' A B C. destruct (Nat.eq_dec p' n) as [->|Hp].
    + unfold IsInv in A. rewrite L in A. discriminate.
    + destruct (Nat.eq_dec t' t) as [->|Hne].
      * exfalso. apply (C n r); auto; lia.
      * rewrite updn_other by auto. apply i_cur0; auto; [lia | eapply NoRes_mono; eauto].
  - intros i k v e gp gt H. destruct (i_ent0 _ _ _ _ _ _ H) as (A & B & C & D).
    repeat split; auto. intros pw qw Hq O. destruct (Nat.eq_dec qw n) as [->|Hne].
    + destruct O as (tw & ow & (C1 & (rw & C2) & C3 & C4) & O).
      rewrite L in C2. injection C2 as <- <-.
      destruct (i_cur0 _ _ _ C1 C3 C4) as [q Hq']. rewrite Hrun in Hq'. injection Hq' as <- <- <-.
      apply (i_mod0 t p o (PDone w r) k i v e gp gt Hrun); auto.
      destruct (i_loc0 _ _ _ _ Hrun) as (SK & _ & _).
      destruct o; simpl in O; try discriminate; simpl; auto.
      apply andb_true_iff in O as [O1 O2].
      destruct w; auto. simpl in SK. rewrite i_clock0 in SK. lia.
    + apply D with qw; auto; lia.
  - intros tw pw ow q k i v e gp gt H M Hin. destruct (Nat.eq_dec tw t) as [->|Hne].
    + rewrite updn_same in H. discriminate.
    + rewrite updn_other in H by auto. eauto.
  - intros t' p' o' q H. destruct (Nat.eq_dec t' t) as [->|Hne].
    + rewrite updn_same in H. discriminate.
    + rewrite updn_other in H by auto. destruct (i_loc0 _ _ _ _ H) as (A & B & C).
      repeat split; auto. apply get_ok_S; auto.
Qed.

Lemma len_ok_max c c' q : c_max c' = c_max c -> len_ok c q -> len_ok c' q.
Proof. unfold len_ok. intro H. rewrite H. auto. Qed.

(** ** one atomic step of thread [t]: what each case has to establish *)
Lemma inv_atomic n s t ch p o q c' q' :
  INV n s -> nth_error ls n = Some (Atomic t ch) -> s_thr s t = Run p o q ->
  c_max c' = c_max (s_cache s) -> bounded c' ->
  (forall i k x, In (k, x) (c_sh c' i) ->
     In (k, x) (c_sh (s_cache s) i) \/ (exists v e, o = OStore k v e /\ x = E v e p t /\ i = ix k)) ->
  (forall k i v e gp gt, modded k o q' = true -> In (k, E v e gp gt) (c_sh c' i) -> NoRes gt gp p) ->
  skip_ok (s_clock s) o q' -> get_ok (S n) p o q' -> len_ok c' q' ->
  INV (S n) (St c' (s_clock s) (updn (s_thr s) t (Run p o q')) (S (s_pos s))).
Proof.
  intros I L Hrun Hmax Hb Hent Hmod Hskip Hget Hlen. destruct I.
  destruct (i_thr0 _ _ _ _ Hrun) as (T1 & T2 & T3).
  assert (NR : forall t' a, NoRes t' a n -> NoRes t' a (S n)).
  { intros t' a X. apply NoRes_S; auto. intros r0. rewrite L. discriminate. }
  constructor; simpl; auto.
  - rewrite (clock_at_S _ _ _ L). simpl. lia.
  - congruence.
  - intros t' p' o' q0 H. destruct (Nat.eq_dec t' t) as [->|Hne].
    + rewrite updn_same in H. injection H as <- <- <-. repeat split; auto.
    + rewrite updn_other in H by auto. destruct (i_thr0 _ _ _ _ H) as (A & B & C). repeat split; auto.
  - intros t' p' o' A B C. destruct (Nat.eq_dec p' n) as [->|Hp].
    + unfold IsInv in A. rewrite L in A. discriminate.
    + assert (exists q0, s_thr s t' = Run p' o' q0) as [q0 Hq0]
        by (apply i_cur0; auto; [lia | eapply NoRes_mono; eauto]).
      destruct (Nat.eq_dec t' t) as [->|Hne].
      * rewrite Hrun in Hq0. injection Hq0 as <- <- <-. rewrite updn_same. eauto.
      * rewrite updn_other by auto. eauto.
  - intros i k v e gp gt H. destruct (Hent _ _ _ H) as [H0|(v0 & e0 & -> & Hx & ->)].
    + destruct (i_ent0 _ _ _ _ _ _ H0) as (A & B & C & D).
      repeat split; auto. intros pw qw Hq O. destruct (Nat.eq_dec qw n) as [->|Hne].
      * apply overwriter_res in O as (tw & rw & O). rewrite L in O. discriminate.
      * apply D with qw; auto; lia.
    + injection Hx as -> -> -> ->. repeat split; auto.
      intros pw qw Hq O. destruct O as (tw & ow & (_ & _ & C3 & _) & _).
      eapply NoRes_mono; eauto. lia.
  - intros tw pw ow q0 k i v e gp gt H M Hin. destruct (Nat.eq_dec tw t) as [->|Hne].
    + rewrite updn_same in H. injection H as <- <- <-. eauto.
    + rewrite updn_other in H by auto.
      destruct (Hent _ _ _ Hin) as [H0|(v0 & e0 & -> & Hx & ->)]; [eauto|].
      injection Hx as -> -> -> ->. destruct (i_thr0 _ _ _ _ H) as (_ & B & _).
      eapply NoRes_mono; eauto. lia.
  - intros t' p' o' q0 H. destruct (Nat.eq_dec t' t) as [->|Hne].
    + rewrite updn_same in H. injection H as <- <- <-. auto.
    + rewrite updn_other in H by auto. destruct (i_loc0 _ _ _ _ H) as (A & B & C).
      repeat split; auto; [apply get_ok_S; auto | eapply len_ok_max; eauto].
Qed.

Lemma len_next c i m l fin :
  (0 < c_max c)%Z -> i < map_shard_size -> (Z.of_N m <= (Z.of_N i + 1) * c_max c)%Z ->
  match fin with RLen m' => m' = m | _ => True end ->
  len_ok c (next_shard i m l fin).
Proof.
  intros Hm Hi Hle Hfin. unfold next_shard. destruct (i + 1 <? map_shard_size) eqn:E; simpl.
  - split; [lia|]. replace (Z.of_N (i + 1)) with (Z.of_N i + 1)%Z by lia. auto.
  - destruct fin; auto. subst n.
    assert (Z.of_N i + 1 <= Z.of_N map_shard_size)%Z by lia.
    etransitivity; [exact Hle|]. apply Z.mul_le_mono_nonneg_r; lia.
Qed.

Lemma get_ok_next n p o i m l fin :
  match fin with RGet _ => False | _ => True end -> get_ok n p o (next_shard i m l fin).
Proof.
  intro H. unfold next_shard.
  destruct (i + 1 <? map_shard_size); destruct o; destruct fin as [[[? ?]|]| | |]; simpl in *; tauto.
Qed.

Lemma skip_ok_next c o i m l fin : skip_ok c o (next_shard i m l fin) \/ exists k v e, o = OStore k v e.
Proof.
  unfold next_shard. destruct o; eauto; left; destruct (i + 1 <? map_shard_size); simpl; auto.
Qed.

Lemma inv_tstep n s t ch p o q c' q' :
  INV n s -> nth_error ls n = Some (Atomic t ch) -> s_thr s t = Run p o q ->
  tstep hash (s_cache s) (s_clock s) t p o q ch = Some (c', q') ->
  INV (S n) (St c' (s_clock s) (updn (s_thr s) t (Run p o q')) (S (s_pos s))).
Proof.
  intros I L Hrun Hstep. pose proof I as I0. destruct I0.
  destruct (i_thr0 _ _ _ _ Hrun) as (T1 & T2 & T3).
  destruct (i_loc0 _ _ _ _ Hrun) as (SK & GK & LK).
  pose proof i_bnd0 as [Hmax Hlen].
  set (c := s_cache s) in *.
  assert (KEEP : forall i k x, In (k, x) (c_sh c i) ->
     In (k, x) (c_sh c i) \/ (exists v e, o = OStore k v e /\ x = E v e p t /\ i = ix k)) by auto.
  unfold tstep in Hstep.
  destruct o as [k|k v e| | | |now]; destruct q as [|v0 e0 gp0 gt0| | |i m l|w r]; try discriminate.
  - (* Get: c.m.Get *)
    destruct (CacheStore.c_get hash c k) as [[v e gp gt]|] eqn:G; injection Hstep as <- <-.
    + apply (inv_atomic n s t ch p (OGet k) PStart); auto; try (simpl; auto; fail).
      * intros; discriminate.
      * simpl. apply sget_In in G. destruct (i_ent0 _ _ _ _ _ _ G) as (A & B & C & D).
        repeat split; auto. intros pw qw Hq O. apply D with qw; auto. lia.
    + apply (inv_atomic n s t ch p (OGet k) PStart); auto; try (simpl; auto; fail).
      intros; discriminate.
  - (* Get: the clock is read *)
    destruct (e0 <? s_clock s)%Z eqn:E; injection Hstep as <- <-.
    + apply (inv_atomic n s t ch p (OGet k) (PGetFound v0 e0 gp0 gt0)); auto; try (simpl; auto; fail).
      intros; discriminate.
    + apply (inv_atomic n s t ch p (OGet k) (PGetFound v0 e0 gp0 gt0)); auto; try (simpl; auto; fail).
      * intros; discriminate.
      * simpl. simpl in GK. split.
        -- pose proof (clock_at_mono ls p n). rewrite i_clock0 in E. lia.
        -- exists gp0, gt0. destruct GK as (A & B & C). repeat split; auto.
  - (* Get: c.m.Del of the expired element *)
    injection Hstep as <- <-.
    apply (inv_atomic n s t ch p (OGet k) PGetDel); auto; try (simpl; auto; fail).
    + apply bounded_del; auto.
    + intros i k' x. simpl. unfold upd. destruct (i =? ix k) eqn:Ei; auto.
      intro H. apply sdel_In in H as [H _]. assert (i = ix k) by lia. subst i. auto.
    + intros; discriminate.
  - (* Store: the clock is read *)
    destruct (e <? s_clock s)%Z eqn:E; injection Hstep as <- <-.
    + apply (inv_atomic n s t ch p (OStore k v e) PStart); auto; try (simpl; auto; fail).
      * intros; discriminate.
      * simpl. lia.
    + apply (inv_atomic n s t ch p (OStore k v e) PStart); auto; try (simpl; auto; fail).
      intros; discriminate.
  - (* Store: c.m.Set *)
    injection Hstep as <- <-.
    apply (inv_atomic n s t ch p (OStore k v e) PStoreReady); auto; try (simpl; auto; fail).
    + apply bounded_set; auto.
    + intros i k' x. simpl. unfold upd. destruct (i =? ix k) eqn:Ei; auto.
      intro H. assert (i = ix k) by lia. subst i. apply sset_In in H as [H|[_ H]]; auto.
      injection H as -> ->. right. eauto.
    + intros k' i v' e' gp gt M. simpl in M. assert (k = k') by lia. subst k'.
      simpl. unfold upd. destruct (i =? ix k) eqn:Ei.
      * intro H. apply sset_In in H as [H|[H _]]; [|simpl in H; congruence].
        injection H as -> -> -> ->. apply NoRes_empty. lia.
      * intro H. apply i_ent0 in H as (A & _). lia.
  - (* Flush: one shard *)
    injection Hstep as <- <-. destruct LK as [Li Lm].
    assert (SUB : forall j k x, In (k, x) (c_sh (c_flush1 c i) j) -> In (k, x) (c_sh c j) /\ j <> i).
    { intros j k x. simpl. unfold upd. destruct (j =? i) eqn:Ej; [intros []|]. intro; split; auto; lia. }
    apply (inv_atomic n s t ch p OFlush (PShard i m l)); auto.
    + apply bounded_flush1; auto.
    + intros j k x H. apply SUB in H. tauto.
    + intros k j v e gp gt M H. apply SUB in H as [H Hj].
      pose proof H as H'. apply i_ent0 in H' as (A & _). subst j.
      apply (i_mod0 t p OFlush (PShard i m l) k (ix k) v e gp gt Hrun); auto.
      simpl. pose proof (ix_lt hash k). unfold next_shard in M.
      destruct (i + 1 <? map_shard_size) eqn:E; simpl in M; clear - M Hj H0 Li E; lia.
    + apply get_ok_next; auto.
    + apply len_next; auto. simpl. lia.
  - (* Len: one shard *)
    injection Hstep as <- <-. destruct LK as [Li Lm].
    apply (inv_atomic n s t ch p OLen (PShard i m l)); auto.
    + unfold next_shard. intros k j v e gp gt M. destruct (i + 1 <? map_shard_size); discriminate.
    + apply get_ok_next; auto.
    + apply len_next; auto. specialize (Hlen i). unfold slen. lia.
  - (* Range: one shard *)
    injection Hstep as <- <-. destruct LK as [Li Lm].
    apply (inv_atomic n s t ch p ORange (PShard i m l)); auto.
    + unfold next_shard. intros k j v e gp gt M. destruct (i + 1 <? map_shard_size); discriminate.
    + apply get_ok_next; auto.
    + apply len_next; auto. lia.
  - (* gc: one shard *)
    injection Hstep as <- <-. destruct LK as [Li Lm].
    apply (inv_atomic n s t ch p (OGc now) (PShard i m l)); auto.
    + apply bounded_gc1; auto.
    + intros j k x. simpl. unfold upd. destruct (j =? i) eqn:Ej; auto.
      intro H. apply sgc_In in H. assert (j = i) by lia. subst j. auto.
    + unfold next_shard. intros k j v e gp gt M. destruct (i + 1 <? map_shard_size); discriminate.
    + apply get_ok_next; auto.
    + apply len_next; auto. simpl. lia.
Qed.

Lemma inv_step n s l s' :
  INV n s -> nth_error ls n = Some l -> step hash s l = Some s' -> INV (S n) s'.
Proof.
  intros I L H. destruct s as [c clock thr pos]. destruct l as [t o|t ch|t r|d]; simpl in H.
  - destruct (thr t) eqn:Ht; [|discriminate]. injection H as <-.
    apply (inv_inv n (St c clock thr pos) t o); auto.
  - destruct (thr t) as [|p o q] eqn:Ht; [discriminate|].
    destruct (tstep hash c clock t p o q ch) as [[c' q']|] eqn:Hs; [|discriminate].
    injection H as <-.
    apply (inv_tstep n (St c clock thr pos) t ch p o q c' q'); auto.
  - destruct (thr t) as [|p o [| | | | |w r']] eqn:Ht; try discriminate.
    destruct (result_eqb r r') eqn:Er; [|discriminate]. injection H as <-.
    apply result_eqb_eq in Er. subst r'.
    apply (inv_res n (St c clock thr pos) t r p o w); auto.
  - injection H as <-. apply (inv_tick n (St c clock thr pos) d); auto.
Qed.

Lemma inv_run post : forall pre s sf,
  ls = pre ++ post -> INV (length pre) s -> lrun hash s post = Some sf ->
  INV (length ls) sf /\
  forall j l, (length pre <= j)%nat -> nth_error ls j = Some l ->
              exists s1 s2, INV j s1 /\ step hash s1 l = Some s2.
Proof.
  induction post as [|l0 post IH]; intros pre s sf Hls I H; simpl in H.
  - injection H as <-. rewrite app_nil_r in Hls. subst pre. split; auto.
    intros j l Hj Hn. apply nth_error_None in Hj. congruence.
  - destruct (step hash s l0) as [s1|] eqn:Hs; [|discriminate].
    assert (L0 : nth_error ls (length pre) = Some l0).
    { rewrite Hls, nth_error_app2, Nat.sub_diag by lia. reflexivity. }
    pose proof (inv_step _ _ _ _ I L0 Hs) as I1.
    destruct (IH (pre ++ [l0]) s1 sf) as [A B].
    + rewrite <- app_assoc. exact Hls.
    + rewrite app_length. simpl. replace (length pre + 1)%nat with (S (length pre)) by lia. exact I1.
    + exact H.
    + split; auto. intros j l Hj Hn.
      destruct (Nat.eq_dec j (length pre)) as [->|Hne].
      * rewrite L0 in Hn. injection Hn as <-. eauto.
      * apply B; auto. rewrite app_length. simpl. lia.
Qed.

(** What the property says about a history: a lookup of [k] by thread [t] that began at
    [pg] and returned the value [v] with expiration time [e] at [qg] ... *)
Definition history_ok : Prop :=
  forall pg qg t k v e,
    IsInv pg t (OGet k) -> nth_error ls qg = Some (Res t (RGet (Some (v, e)))) ->
    (pg < qg)%nat -> NoRes t pg qg ->
    (* ... had not expired when the lookup began (so also at the lookup's own clock reading,
       which lies between pg and qg and is compared with <, exactly like Get) *)
    (clock_at ls pg <= e)%Z /\
    (* ... was stored under exactly that key by a Store that began before the lookup ended *)
    exists ps ts, IsInv ps ts (OStore k v e) /\ (ps < qg)%nat /\
    (* ... and no Store to that key / Flush that completed before the lookup began started
       after that Store had returned *)
      forall pw qw, (qw < pg)%nat -> Overwriter k pw qw -> NoRes ts ps pw.

Theorem history_ok_all sf : lrun hash (init size) ls = Some sf -> history_ok.
Proof.
  intros R pg qg t k v e Hi Hr Hlt Hn.
  destruct (inv_run ls [] (init size) sf eq_refl inv_init R) as [_ B].
  destruct (B qg _ (Nat.le_0_l _) Hr) as (s1 & s2 & I & Hs).
  destruct s1 as [c clock thr pos]. simpl in Hs.
  destruct (thr t) as [|p o [| | | | |w r']] eqn:Ht; try discriminate.
  destruct (result_eqb _ r') eqn:Er; [|discriminate]. apply result_eqb_eq in Er. subst r'.
  destruct I. simpl in *.
  destruct (i_cur0 _ _ _ Hi Hlt Hn) as [q Hq]. rewrite Ht in Hq. injection Hq as -> -> <-.
  destruct (i_loc0 _ _ _ _ Ht) as (_ & G & _). simpl in G.
  destruct G as (G1 & gp & gt & G2 & G3 & G4). split; auto. exists gp, gt. auto.
Qed.

Theorem len_results_bounded sf q t m :
  lrun hash (init size) ls = Some sf -> nth_error ls q = Some (Res t (RLen m)) ->
  (Z.of_N m <= capacity size)%Z.
Proof.
  intros R Hr.
  destruct (inv_run ls [] (init size) sf eq_refl inv_init R) as [_ B].
  destruct (B q _ (Nat.le_0_l _) Hr) as (s1 & s2 & I & Hs).
  destruct s1 as [c clock thr pos]. simpl in Hs.
  destruct (thr t) as [|p o [| | | | |w r']] eqn:Ht; try discriminate.
  destruct (result_eqb _ r') eqn:Er; [|discriminate]. apply result_eqb_eq in Er. subst r'.
  destruct I. simpl in *.
  destruct (i_loc0 _ _ _ _ Ht) as (_ & _ & G). simpl in G.
  unfold capacity. rewrite <- i_max0. exact G.
Qed.

Theorem capacity_all sf :
  lrun hash (init size) ls = Some sf -> (Z.of_N (c_len (s_cache sf)) <= capacity size)%Z.
Proof.
  intros R.
  destruct (inv_run ls [] (init size) sf eq_refl inv_init R) as [I _].
  destruct I. unfold capacity. rewrite <- i_max0. apply c_len_bound; auto.
Qed.
End Conc.

(** * The boolean checker [history_ok_b] decides [history_ok] *)
Lemma indexed_from_spec {A} (l : list A) : forall i p x,
  In (p, x) (indexed_from i l) <-> (i <= p)%nat /\ nth_error l (p - i) = Some x.
Proof.
  induction l as [|y l IH]; intros i p x; simpl.
  - split; [tauto|]. intros [_ H]. destruct (p - i)%nat; discriminate.
  - rewrite IH. split.
    + intros [H|[H1 H2]].
      * injection H as -> ->. rewrite Nat.sub_diag. auto.
      * split; [lia|]. replace (p - i)%nat with (S (p - S i)) by lia. exact H2.
    + intros [H1 H2]. destruct (Nat.eq_dec p i) as [->|Hne].
      * rewrite Nat.sub_diag in H2. injection H2 as ->. auto.
      * right. split; [lia|]. replace (p - i)%nat with (S (p - S i)) in H2 by lia. exact H2.
Qed.

Lemma allp_spec ls f :
  allp ls f = true <-> forall p l, nth_error ls p = Some l -> f p l = true.
Proof.
  unfold allp. rewrite forallb_forall. split.
  - intros H p l Hn. apply (H (p, l)). apply indexed_from_spec. rewrite Nat.sub_0_r. split; [lia|auto].
  - intros H [p l] Hin. apply indexed_from_spec in Hin as [_ Hin]. rewrite Nat.sub_0_r in Hin. simpl. auto.
Qed.

Lemma anyp_spec ls f :
  anyp ls f = true <-> exists p l, nth_error ls p = Some l /\ f p l = true.
Proof.
  unfold anyp. rewrite existsb_exists. split.
  - intros [[p l] [Hin H]]. apply indexed_from_spec in Hin as [_ Hin]. rewrite Nat.sub_0_r in Hin. eauto.
  - intros (p & l & Hn & H). exists (p, l). split; auto.
    apply indexed_from_spec. rewrite Nat.sub_0_r. split; [lia|auto].
Qed.

Lemma land_true (a b : bool) : (a &&& b) = true <-> a = true /\ b = true.
Proof. destruct a, b; simpl; intuition congruence. Qed.

Lemma no_res_spec ls t a b : no_res ls t a b = true <-> NoRes ls t a b.
Proof.
  unfold no_res, NoRes. rewrite allp_spec. split.
  - intros H q r H1 H2 Hn. specialize (H _ _ Hn). simpl in H.
    rewrite Nat.eqb_refl in H. simpl in H.
    assert (Nat.ltb a q = true) as X1 by (apply Nat.ltb_lt; auto).
    assert (Nat.ltb q b = true) as X2 by (apply Nat.ltb_lt; auto).
    rewrite X1, X2 in H. discriminate.
  - intros H p l Hn. destruct l as [| |t' r|]; auto.
    destruct (Nat.eqb t' t) eqn:E1; simpl; auto.
    destruct (Nat.ltb a p) eqn:E2; simpl; auto.
    destruct (Nat.ltb p b) eqn:E3; simpl; auto.
    apply Nat.eqb_eq in E1. apply Nat.ltb_lt in E2, E3. subst t'.
    exfalso. eapply H; eauto.
Qed.

Lemma no_completed_overwrite_spec ls k ps ts pg :
  no_completed_overwrite ls k ps ts pg = true <->
  forall pw qw, (qw < pg)%nat -> Overwriter ls k pw qw -> NoRes ls ts ps pw.
Proof.
  unfold no_completed_overwrite. rewrite allp_spec. split.
  - intros H pw qw Hlt (tw & ow & (C1 & (rw & C2) & C3 & C4) & O).
    specialize (H _ _ C1). simpl in H. rewrite allp_spec in H. specialize (H _ _ C2). simpl in H.
    rewrite Nat.eqb_refl in H.
    assert (Nat.ltb pw qw = true) as X1 by (apply Nat.ltb_lt; auto).
    assert (Nat.ltb qw pg = true) as X2 by (apply Nat.ltb_lt; auto).
    apply no_res_spec in C4. rewrite X1, X2, O, C4 in H. simpl in H. apply no_res_spec. exact H.
  - intros H pw lw Hpw. destruct lw as [tw ow| | |]; auto.
    apply allp_spec. intros qw lq Hqw. destruct lq as [| |tw' rw|]; auto.
    destruct (Nat.eqb tw' tw &&& Nat.ltb pw qw &&& Nat.ltb qw pg &&& overwrites ls k ow qw &&& no_res ls tw pw qw) eqn:Cd; auto.
    repeat (apply land_true in Cd as [Cd ?]).
    apply Nat.eqb_eq in Cd. subst tw'. apply no_res_spec. apply (H pw qw).
    + apply Nat.ltb_lt; auto.
    + exists tw, ow. split; auto. split; [exact Hpw|]. split; [eauto|]. split.
      * apply Nat.ltb_lt; auto.
      * apply no_res_spec; auto.
Qed.

Theorem history_ok_b_spec ls : history_ok_b ls = true <-> history_ok ls.
Proof.
  unfold history_ok_b, history_ok. rewrite allp_spec. split.
  - intros H pg qg t k v e Hi Hr Hlt Hn.
    specialize (H _ _ Hr). simpl in H. rewrite allp_spec in H. specialize (H _ _ Hi). simpl in H.
    rewrite Nat.eqb_refl in H.
    assert (Nat.ltb pg qg = true) as X1 by (apply Nat.ltb_lt; auto).
    apply no_res_spec in Hn. rewrite X1, Hn in H. simpl in H.
    apply land_true in H as [H1 H2]. split; [lia|].
    apply anyp_spec in H2 as (ps & lst & Hps & H2).
    destruct lst as [ts [|k' v' e'| | | |]| | |]; try discriminate.
    repeat (apply land_true in H2 as [H2 ?]).
    assert (k' = k) by lia. assert (v' = v) by lia. assert (e' = e) by lia. subst k' v' e'.
    exists ps, ts. split; [exact Hps|]. split; [apply Nat.ltb_lt; auto|].
    apply no_completed_overwrite_spec; auto.
  - intros H qg lg Hr. destruct lg as [| |t [[[v e]|]| | |]|]; auto.
    apply allp_spec. intros pg li Hi. destruct li as [t' [k| | | | |]| | |]; auto.
    destruct (Nat.eqb t' t &&& Nat.ltb pg qg &&& no_res ls t pg qg) eqn:Cd; auto.
    repeat (apply land_true in Cd as [Cd ?]).
    apply Nat.eqb_eq in Cd. subst t'.
    destruct (H pg qg t k v e) as (A & ps & ts & B & C & D); auto.
    + apply Nat.ltb_lt; auto.
    + apply no_res_spec; auto.
    + apply land_true. split; [lia|]. apply anyp_spec. exists ps, (Inv ts (OStore k v e)).
      split; [exact B|]. rewrite !N.eqb_refl, Z.eqb_refl.
      apply land_true. split; [apply Nat.ltb_lt; auto|].
      apply no_completed_overwrite_spec; auto.
Qed.

Theorem lens_ok_b_spec size ls :
  lens_ok_b size ls = true <->
  forall q t m, nth_error ls q = Some (Res t (RLen m)) -> (Z.of_N m <= capacity size)%Z.
Proof.
  unfold lens_ok_b. rewrite allp_spec. split.
  - intros H q t m Hn. specialize (H _ _ Hn). simpl in H. lia.
  - intros H p l Hn. destruct l as [| |t [| |m|]|]; auto. specialize (H _ _ _ Hn). lia.
Qed.

(** every run of the concurrent model passes the checkers the Judge evaluates *)
Corollary history_ok_b_all hash size ls sf :
  lrun hash (init size) ls = Some sf -> history_ok_b ls = true /\ lens_ok_b size ls = true.
Proof.
  intro R. split.
  - apply history_ok_b_spec. eapply history_ok_all; eauto.
  - apply lens_ok_b_spec. intros q t m Hn. eapply len_results_bounded; eauto.
Qed.

(** * Lock discipline: a table accepted by [check_locks] makes every schedule race free *)
Definition lk_inv (s : lk_state) : Prop :=
  forall x y, In x s -> In y s -> fst x <> fst y -> holds_w x = true ->
              holds_w y = false /\ holds_r y = false.

Lemma filter_len0 {A} (f : A -> bool) l x : length (filter f l) = O -> In x l -> f x = false.
Proof.
  intros H Hin. destruct (f x) eqn:E; auto.
  assert (In x (filter f l)) as H1 by (apply filter_In; auto).
  destruct (filter f l); [destruct H1 | discriminate].
Qed.

Lemma lk_step_inv s l s' : lk_inv s -> lk_step s l = Some s' -> lk_inv s'.
Proof.
  intros I H. destruct l as [t r|t]; simpl in H.
  - destruct (existsb _ s) eqn:Ex; [discriminate|].
    destruct (lr_open r =? 2) eqn:E2.
    + destruct (Nat.eqb (writers s) 0 && Nat.eqb (readers s) 0) eqn:EW; [|discriminate].
      injection H as <-. apply andb_true_iff in EW as [W R].
      apply Nat.eqb_eq in W, R.
      intros x y [Hx|Hx] [Hy|Hy] Hne Hw; subst; simpl in *; try congruence.
      * split; [exact (filter_len0 _ _ _ W Hy) | exact (filter_len0 _ _ _ R Hy)].
      * unfold writers in W. rewrite (filter_len0 _ _ _ W Hx) in Hw. discriminate.
      * exact (I x y Hx Hy Hne Hw).
    + destruct (lr_open r =? 1) eqn:E1.
      * destruct (Nat.eqb (writers s) 0) eqn:W; [|discriminate]. injection H as <-.
        apply Nat.eqb_eq in W.
        intros x y [Hx|Hx] [Hy|Hy] Hne Hw; subst; simpl in *; try congruence.
        -- unfold holds_w in Hw. simpl in Hw. congruence.
        -- unfold writers in W. rewrite (filter_len0 _ _ _ W Hx) in Hw. discriminate.
        -- exact (I x y Hx Hy Hne Hw).
      * injection H as <-.
        intros x y [Hx|Hx] [Hy|Hy] Hne Hw; subst; simpl in *; try congruence.
        -- unfold holds_w in Hw. simpl in Hw. congruence.
        -- unfold holds_w, holds_r. simpl. auto.
        -- exact (I x y Hx Hy Hne Hw).
  - injection H as <-. intros x y Hx Hy. apply filter_In in Hx as [Hx _], Hy as [Hy _]. eauto.
Qed.

Lemma lk_run_inv ls : forall s s', lk_inv s -> lk_run s ls = Some s' -> lk_inv s'.
Proof.
  induction ls as [|l ls IH]; intros s s' I H; simpl in H.
  - injection H as <-. auto.
  - destruct (lk_step s l) as [s1|] eqn:E; [|discriminate].
    eapply IH; [eapply lk_step_inv; eauto | eauto].
Qed.

Lemma row_ok_access r :
  row_ok r = true ->
  (lr_writes r = true -> lr_open r = 2) /\
  (lr_reads r = true -> lr_open r = 1 \/ lr_open r = 2).
Proof.
  unfold row_ok. intro H. apply andb_true_iff in H as [H _]. apply andb_true_iff in H as [H1 H2].
  split; intro W; rewrite W in *; lia.
Qed.

(** In every reachable configuration of the sections, two different threads are never
    inside conflicting methods of the same shard at the same time. *)
Theorem lock_discipline tbl ls s t1 r1 t2 r2 :
  check_locks tbl = true -> lk_run [] ls = Some s ->
  In (t1, r1) s -> In (t2, r2) s -> t1 <> t2 -> In r1 tbl -> In r2 tbl ->
  conflict r1 r2 = true -> False.
Proof.
  intros C R H1 H2 Hne T1 T2 Cf.
  assert (I : lk_inv s) by (eapply lk_run_inv; [|exact R]; intros x y []).
  unfold check_locks in C. apply andb_true_iff in C as [C _].
  rewrite forallb_forall in C.
  pose proof (row_ok_access _ (C _ T1)) as [W1 A1].
  pose proof (row_ok_access _ (C _ T2)) as [W2 A2].
  assert (forall ta ra tb rb, In (ta, ra) s -> In (tb, rb) s -> ta <> tb ->
            lr_open ra = 2 -> (lr_open rb = 1 \/ lr_open rb = 2) -> False) as K.
  { intros ta ra tb rb Ha Hb Hn Oa Ob.
    destruct (I (ta, ra) (tb, rb) Ha Hb Hn) as [X Y]; [unfold holds_w; simpl; lia|].
    unfold holds_w, holds_r in *. simpl in *. lia. }
  unfold conflict in Cf. apply orb_true_iff in Cf as [Cf|Cf]; apply andb_true_iff in Cf as [Cw Ca].
  - apply (K t1 r1 t2 r2); auto. apply orb_true_iff in Ca as [Ca|Ca]; auto.
  - apply (K t2 r2 t1 r1); auto. apply orb_true_iff in Ca as [Ca|Ca]; auto.
Qed.

(** The check of the regenerated table is done where it is used (Properties/C11.v), by
    computation: [lock_table_ok_by eq_refl] type-checks iff [check_locks table] computes to
    [true]. Keeping the computation out of this file means a source change that breaks the
    lock discipline breaks exactly that one theorem and nothing else here. *)
Lemma lock_table_ok_by (tbl : list lock_row) (H : check_locks tbl = true) : check_locks tbl = true.
Proof. exact H. Qed.
Lemma lock_facts_ok_by (tbl : list lock_row) (c : list caller_row) (H : check_lock_facts tbl c = true) :
  check_locks tbl = true /\ check_callers c = true.
Proof. unfold check_lock_facts in H. apply andb_true_iff in H. exact H. Qed.

(** * pkg/lru, pkg/concurrent_lru: bounded and exact *)
Lemma lfind_In k l v : lfind k l = Some v -> In (k, v) l.
Proof.
  induction l as [|[k' v'] l IH]; simpl; [discriminate|].
  destruct (k' =? k) eqn:E; intro H.
  - injection H as ->. left. f_equal. lia.
  - right. auto.
Qed.

Lemma lfind_None k l : lfind k l = None -> ~ In k (map fst l).
Proof.
  induction l as [|[k' v'] l IH]; simpl; [tauto|].
  destruct (k' =? k) eqn:E; [discriminate|]. intros H [X|X]; [lia|]. apply IH; auto.
Qed.

Lemma lremove_In k l x : In x (lremove k l) -> In x l /\ fst x <> k.
Proof.
  unfold lremove. intro H. apply filter_In in H as [H1 H2]. split; auto.
  apply negb_true_iff in H2. apply N.eqb_neq in H2. exact H2.
Qed.

Lemma filter_fst_nodup {A B} (f : A * B -> bool) (l : list (A * B)) :
  NoDup (map fst l) -> NoDup (map fst (filter f l)).
Proof.
  induction l as [|y l IH]; simpl; auto. intro H. inversion H as [|? ? Hni HN]; subst.
  destruct (f y); auto. simpl. constructor; auto.
  intro Hin. apply Hni. apply in_map_iff in Hin as [z [Hz Hin]].
  apply in_map_iff. exists z. split; auto. apply filter_In in Hin. tauto.
Qed.

Lemma filter_len_le {A} (f : A -> bool) l : (length (filter f l) <= length l)%nat.
Proof. induction l as [|y l IH]; simpl; [lia|]. destruct (f y); simpl; lia. Qed.

Lemma lremove_length k l v : lfind k l = Some v -> (length (lremove k l) < length l)%nat.
Proof.
  unfold lremove. induction l as [|[k' v'] l IH]; simpl; [discriminate|].
  pose proof (filter_len_le (fun kx : key * val => negb (fst kx =? k)) l) as FL.
  destruct (k' =? k) eqn:E; simpl; intro H.
  - unfold lt. apply le_n_S. exact FL.
  - specialize (IH H). unfold lt in *. apply le_n_S. exact IH.
Qed.

Lemma nodup_snoc {A} (l : list A) x : NoDup l -> ~ In x l -> NoDup (l ++ [x]).
Proof.
  induction l as [|y l IH]; simpl; intros H Hn.
  - constructor; [intros []|constructor].
  - inversion H as [|? ? Hni HN]; subst. constructor.
    + intro Hin. apply in_app_or in Hin as [Hin|[Hin|[]]]; [auto | subst; apply Hn; auto].
    + apply IH; auto.
Qed.

Lemma nodup_skipn {A} n (l : list A) : NoDup l -> NoDup (skipn n l).
Proof.
  revert l; induction n as [|n IH]; intros [|y l] H; simpl; auto. inversion H; auto.
Qed.

Lemma skipn_In {A} n (l : list A) x : In x (skipn n l) -> In x l.
Proof. intro H. rewrite <- (firstn_skipn n l). apply in_or_app. auto. Qed.

Section LruProofs.
Variable hash : key -> N.
Notation lix := (lix hash).
Notation lexec := (lexec hash).
Notation lrun_ops := (lrun_ops hash).

(** the abstract map: no shards, no recency, no capacity *)
Definition lamap := key -> option val.
Definition laexec (a : lamap) (o : lop) : lamap :=
  match o with
  | LAdd k v => fun j => if j =? k then Some v else a j
  | LDel k => fun j => if j =? k then None else a j
  | LClean m r => fun j => match a j with
                           | Some v => if clean_pred m r (j, v) then None else Some v
                           | None => None end
  | LFlush => fun _ => None
  | _ => a
  end.
Fixpoint larun (a : lamap) (ops : list lop) : lamap :=
  match ops with [] => a | o :: t => larun (laexec a o) t end.

Definition lref (s : slru) (a : lamap) : Prop :=
  (forall i, NoDup (map fst (sl_sh s i))) /\
  (forall i, (length (sl_sh s i) <= N.to_nat (sl_max s))%nat) /\
  forall i k v, In (k, v) (sl_sh s i) -> i = lix s k /\ a k = Some v.

(** replacing one shard *)
Lemma lref_set s a a' i l :
  lref s a -> NoDup (map fst l) -> (length l <= N.to_nat (sl_max s))%nat ->
  (forall k v, In (k, v) l -> i = lix s k /\ a' k = Some v) ->
  (forall j k v, j <> i -> In (k, v) (sl_sh s j) -> a' k = Some v) ->
  lref (sl_set s i l) a'.
Proof.
  intros (U & B & R) Ul Bl Rl Ro. split; [|split]; simpl.
  - intro j. unfold upd. destruct (j =? i); auto.
  - intro j. unfold upd. destruct (j =? i); auto.
  - intros j k v. unfold upd. destruct (j =? i) eqn:E.
    + intro H. assert (j = i) by lia. subst j. apply Rl in H. exact H.
    + intro H. split; [apply (R _ _ _ H)|]. apply (Ro j); auto. lia.
Qed.

(** touching a key moves it to the back: same entries except possibly a new value for k *)
Lemma touch_ok s a k v l :
  lref s a -> l = sl_sh s (lix s k) -> (exists v0, lfind k l = Some v0) ->
  lref (sl_set s (lix s k) (lremove k l ++ [(k, v)])) (fun j => if j =? k then Some v else a j).
Proof.
  intros RR -> [v0 F]. pose proof RR as (U & B & R). apply lref_set with (a := a); auto.
  - rewrite map_app. simpl. apply nodup_snoc.
    + apply filter_fst_nodup. auto.
    + intro H. apply in_map_iff in H as [z [Hz Hin]]. apply lremove_In in Hin. tauto.
  - rewrite app_length. simpl. pose proof (lremove_length _ _ _ F). specialize (B (lix s k)). lia.
  - intros k' v' H. apply in_app_or in H as [H|[H|[]]].
    + apply lremove_In in H as [H1 H2]. simpl in H2. destruct (R _ _ _ H1) as [R1 R2].
      split; [exact R1|]. destruct (k' =? k) eqn:E; [lia|auto].
    + injection H as <- <-. rewrite N.eqb_refl. auto.
  - intros j k' v' Hj H. destruct (R _ _ _ H) as [R1 R2].
    destruct (k' =? k) eqn:E; auto. assert (k' = k) by lia. subst. contradiction.
Qed.

Lemma fold_set_sh (f : lru -> lru) ids : NoDup ids -> forall s j,
  sl_sh (fold_left (fun a i => sl_set a i (f (sl_sh a i))) ids s) j =
  if existsb (N.eqb j) ids then f (sl_sh s j) else sl_sh s j.
Proof.
  induction ids as [|i ids IH]; intros ND s j; simpl; auto.
  inversion ND as [|? ? Hni ND']; subst. rewrite IH by auto. simpl. unfold upd.
  destruct (j =? i) eqn:E; simpl; auto.
  assert (j = i) by lia. subst j.
  destruct (existsb (N.eqb i) ids) eqn:Ex; auto.
  exfalso. apply Hni. apply existsb_exists in Ex as [z [Hz Hz']]. assert (i = z) by lia. subst. auto.
Qed.

Lemma fold_set_const (f : lru -> lru) ids s :
  sl_n (fold_left (fun a i => sl_set a i (f (sl_sh a i))) ids s) = sl_n s /\
  sl_max (fold_left (fun a i => sl_set a i (f (sl_sh a i))) ids s) = sl_max s.
Proof. revert s; induction ids as [|i ids IH]; intro s; simpl; auto. destruct (IH (sl_set s i (f (sl_sh s i)))). auto. Qed.

Lemma sl_ids_nodup s : NoDup (sl_ids s).
Proof.
  unfold sl_ids. apply FinFun.Injective_map_NoDup; [|apply seq_NoDup]. intros x y H. lia.
Qed.

Lemma in_sl_ids s i : i < sl_n s -> existsb (N.eqb i) (sl_ids s) = true.
Proof.
  intro H. apply existsb_exists. exists i. split; [|lia].
  unfold sl_ids. apply in_map_iff. exists (N.to_nat i). split; [lia|]. apply in_seq. lia.
Qed.

(** every shard is rewritten by a function that only drops entries *)
Lemma lref_fold_filter s a a' (f : lru -> lru) :
  0 < sl_n s -> lref s a ->
  (forall l, NoDup (map fst l) -> NoDup (map fst (f l))) ->
  (forall l, (length (f l) <= length l)%nat) ->
  (forall l k v, In (k, v) (f l) -> In (k, v) l) ->
  (forall i k v, In (k, v) (f (sl_sh s i)) -> a k = Some v -> a' k = Some v) ->
  lref (fold_left (fun x i => sl_set x i (f (sl_sh x i))) (sl_ids s) s) a'.
Proof.
  intros Hn (U & B & R) Fu Fl Fi Fa.
  pose proof (fold_set_const f (sl_ids s) s) as [Cn Cm].
  assert (IXL : forall k, lix s k < sl_n s) by (intro k; unfold CacheStore.lix; apply N.mod_lt; lia).
  split; [|split].
  - intro j. rewrite fold_set_sh by apply sl_ids_nodup. destruct (existsb _ _); auto.
  - intro j. rewrite fold_set_sh by apply sl_ids_nodup. rewrite Cm.
    destruct (existsb _ _); auto. specialize (Fl (sl_sh s j)). specialize (B j). lia.
  - intros j k v. rewrite fold_set_sh by apply sl_ids_nodup. unfold CacheStore.lix. rewrite Cn.
    destruct (existsb (N.eqb j) (sl_ids s)) eqn:Ex.
    + intro H. pose proof (Fi _ _ _ H) as H0. destruct (R _ _ _ H0) as [R1 R2]. split; eauto.
    + intro H. destruct (R _ _ _ H) as [R1 _]. subst j. rewrite in_sl_ids in Ex; [discriminate|apply IXL].
Qed.

Lemma lref_exec s a o : 0 < sl_n s -> 0 < sl_max s -> lref s a -> lref (fst (lexec s o)) (laexec a o).
Proof.
  intros Hn Hm RR. pose proof RR as (U & B & R). destruct o as [k v|k|k|m r| |]; cbn [CacheStore.lexec laexec].
  - (* Add *)
    unfold ladd. destruct (lfind k (sl_sh s (lix s k))) as [v0|] eqn:F; cbn [fst].
    + apply touch_ok; eauto.
    + apply lref_set with (a := a); auto.
      * rewrite map_app. simpl. apply nodup_snoc.
        -- rewrite <- skipn_map. apply nodup_skipn. auto.
        -- intro H. apply (lfind_None _ _ F). rewrite <- skipn_map in H. eapply skipn_In; eauto.
      * rewrite app_length, skipn_length. cbn [length]. specialize (B (lix s k)). lia.
      * intros k' v' H. apply in_app_or in H as [H|[H|[]]].
        -- apply skipn_In in H. destruct (R _ _ _ H) as [R1 R2]. split; auto.
           destruct (k' =? k) eqn:E; auto. assert (k' = k) by lia. subst k'.
           exfalso. apply (lfind_None _ _ F). apply (in_map fst) in H. exact H.
        -- injection H as <- <-. rewrite N.eqb_refl. auto.
      * intros j k' v' Hj H. destruct (R _ _ _ H) as [R1 R2].
        destruct (k' =? k) eqn:E; auto. assert (k' = k) by lia. subst. contradiction.
  - (* Get *)
    unfold lget. destruct (lfind k (sl_sh s (lix s k))) as [v0|] eqn:F; cbn [fst].
    + pose proof (touch_ok s a k v0 _ RR eq_refl (ex_intro _ v0 F)) as T.
      destruct T as (T1 & T2 & T3). split; [|split]; auto.
      intros i k' v' H. destruct (T3 _ _ _ H) as [X Y]. split; auto.
      destruct (k' =? k) eqn:E; auto. assert (k' = k) by lia. subst k'.
      apply lfind_In in F. destruct (R _ _ _ F) as [_ R2]. congruence.
    + apply lref_set with (a := a); auto.
      intros j k' v' _ H0. apply (R _ _ _ H0).
  - (* Del *)
    unfold ldel. destruct (lfind k (sl_sh s (lix s k))) as [v0|] eqn:F; cbn [fst].
    + apply lref_set with (a := a); auto.
      * apply filter_fst_nodup. auto.
      * pose proof (lremove_length _ _ _ F). specialize (B (lix s k)). lia.
      * intros k' v' H. apply lremove_In in H as [H1 H2]. simpl in H2.
        destruct (R _ _ _ H1) as [R1 R2]. split; auto. destruct (k' =? k) eqn:E; [lia|auto].
      * intros j k' v' Hj H. destruct (R _ _ _ H) as [R1 R2].
        destruct (k' =? k) eqn:E; auto. assert (k' = k) by lia. subst. contradiction.
    + apply lref_set with (a := a); auto.
      * intros k' v' H. destruct (R _ _ _ H) as [R1 R2]. split; auto.
        destruct (k' =? k) eqn:E; auto. assert (k' = k) by lia. subst k'.
        exfalso. apply (lfind_None _ _ F). apply (in_map fst) in H. exact H.
      * intros j k' v' Hj H. destruct (R _ _ _ H) as [R1 R2].
        destruct (k' =? k) eqn:E; auto. assert (k' = k) by lia. subst. contradiction.
  - (* Clean *)
    apply (lref_fold_filter s a _ (fun l => fst (lclean m r l))); auto; simpl.
    + intros l. apply filter_fst_nodup.
    + intros l. apply filter_len_le.
    + intros l k v H. apply filter_In in H. tauto.
    + intros i k v H Ha. apply filter_In in H as [_ H]. rewrite Ha.
      destruct (clean_pred m r (k, v)); [discriminate|reflexivity].
  - exact RR.
  - (* Flush *)
    apply (lref_fold_filter s a _ (fun _ => [])); auto; simpl.
    + intros. constructor.
    + intros. lia.
    + intros l k v [].
    + intros i k v [].
Qed.

Lemma lexec_const s o : sl_n (fst (lexec s o)) = sl_n s /\ sl_max (fst (lexec s o)) = sl_max s.
Proof.
  destruct o as [k v|k|k|m r| |]; cbn [CacheStore.lexec].
  - destruct (ladd _ _ _ _). auto.
  - destruct (lget _ _). auto.
  - destruct (ldel _ _). auto.
  - apply (fold_set_const (fun l => fst (lclean m r l))).
  - auto.
  - apply (fold_set_const (fun _ => [])).
Qed.

Lemma lref_run ops : forall s a, 0 < sl_n s -> 0 < sl_max s -> lref s a ->
  lref (fst (lrun_ops s ops)) (larun a ops) /\
  sl_n (fst (lrun_ops s ops)) = sl_n s /\ sl_max (fst (lrun_ops s ops)) = sl_max s.
Proof.
  induction ops as [|o ops IH]; intros s a Hn Hm RR; simpl; auto.
  pose proof (lref_exec s a o Hn Hm RR) as R1. pose proof (lexec_const s o) as [C1 C2].
  destruct (lexec s o) as [s1 r]. simpl in *.
  destruct (IH s1 (laexec a o)) as (A & B & C); [lia | lia | auto |].
  destruct (lrun_ops s1 ops) as [s2 rs]. simpl in *. split; auto. split; congruence.
Qed.

Lemma lref_new n max : lref (slru_new n max) (fun _ => None).
Proof. split; [|split]; simpl; intros; [constructor | lia | tauto]. Qed.

(** Bounded: after any operation list no shard holds more than maxSize entries. *)
Theorem lru_bounded n max ops i :
  0 < n -> 0 < max -> (length (sl_sh (fst (lrun_ops (slru_new n max) ops)) i) <= N.to_nat max)%nat.
Proof.
  intros Hn Hm. destruct (lref_run ops (slru_new n max) _ Hn Hm (lref_new n max)) as ((_ & B & _) & _ & C).
  rewrite C in B. apply B.
Qed.

(** Exact: after any operation list a Get returns nothing, or the value of the latest Add
    under that key that was not deleted, cleaned or flushed since (never an overwritten one). *)
Theorem lru_get_latest n max ops k :
  0 < n -> 0 < max ->
  let s := fst (lrun_ops (slru_new n max) ops) in
  let a := larun (fun _ => None) ops in
  snd (lexec s (LGet k)) = (LRGet None, []) \/
  exists v, a k = Some v /\ snd (lexec s (LGet k)) = (LRGet (Some v), []).
Proof.
  intros Hn Hm s a. destruct (lref_run ops (slru_new n max) _ Hn Hm (lref_new n max)) as ((_ & _ & R) & _ & _).
  fold s a in R. cbn [CacheStore.lexec]. unfold lget.
  destruct (lfind k (sl_sh s (lix s k))) as [v|] eqn:F; simpl; auto.
  right. exists v. split; auto. apply lfind_In in F. apply (R _ _ _ F).
Qed.
End LruProofs.
