(** C14 — proofs about Model/Forward.v. *)
From Verif Require Import Base.Prelude Gen.Constants Model.Forward.
From Coq Require Import ZifyN ZifyNat ZifyBool Arith.
Local Open Scope nat_scope.

(** * Clamp *)
Lemma clampZ_range c : (1 <= clampZ c <= 3)%Z.
Proof.
  unfold clampZ, forward_max_concurrent. change (Z.of_N 3) with 3%Z.
  destruct (c <=? 0)%Z eqn:E.
  - destruct (3 <? 1)%Z eqn:F; lia.
  - destruct (3 <? c)%Z eqn:F; lia.
Qed.

Lemma clamp_range c : 1 <= clamp c <= 3.
Proof. unfold clamp. pose proof (clampZ_range c). lia. Qed.

Lemma clamp_cases c :
  ((c <= 0)%Z -> clamp c = 1) /\
  ((1 <= c <= 3)%Z -> clamp c = Z.to_nat c) /\
  ((3 < c)%Z -> clamp c = 3).
Proof.
  unfold clamp, clampZ, forward_max_concurrent. change (Z.of_N 3) with 3%Z.
  destruct (c <=? 0)%Z eqn:E.
  - destruct (3 <? 1)%Z eqn:F; repeat split; intros; lia.
  - destruct (3 <? c)%Z eqn:F; repeat split; intros; lia.
Qed.

(** * Upstream context *)
Lemma upstream_deadline_bound caller :
  upstream_deadline caller = forward_query_timeout /\ (upstream_deadline caller <= 5000000000)%Z.
Proof. unfold upstream_deadline, forward_query_timeout. split; [reflexivity|lia]. Qed.

(** * Targets *)
Lemma targets_length r c n : length (targets r c n) = c.
Proof. unfold targets. rewrite map_length, seq_length. reflexivity. Qed.

Lemma targets_nth r c n i d : i < c -> nth i (targets r c n) d = (r + i) mod n.
Proof.
  intro H. unfold targets.
  rewrite (nth_indep _ d ((fun j => (r + j) mod n) 0)) by (rewrite map_length, seq_length; exact H).
  rewrite (map_nth (fun j => (r + j) mod n) (seq 0 c) 0 i).
  rewrite seq_nth by exact H. reflexivity.
Qed.

Lemma targets_lt r c n p : 0 < n -> In p (targets r c n) -> p < n.
Proof.
  intros Hn H. unfold targets in H. apply in_map_iff in H as [i [<- _]].
  apply Nat.mod_upper_bound. lia.
Qed.

Lemma targets_consecutive r c n i d :
  0 < n -> S i < c -> nth (S i) (targets r c n) d = (nth i (targets r c n) d + 1) mod n.
Proof.
  intros Hn H. rewrite !targets_nth by lia.
  rewrite Nat.add_mod_idemp_l by lia. f_equal. lia.
Qed.

Lemma targets_wrap r c n i d :
  0 < n -> i + n < c -> nth (i + n) (targets r c n) d = nth i (targets r c n) d.
Proof.
  intros Hn H. rewrite !targets_nth by lia.
  replace (r + (i + n)) with ((r + i) + 1 * n) by lia.
  apply Nat.mod_add. lia.
Qed.

Lemma mod_shift_inj n m d : m < n -> 0 < d -> d < n -> (m + d) mod n <> m.
Proof.
  intros Hm Hd Hdn E.
  destruct (Nat.lt_ge_cases (m + d) n) as [L|G].
  - rewrite Nat.mod_small in E by exact L. lia.
  - replace (m + d) with ((m + d - n) + 1 * n) in E by lia.
    rewrite Nat.mod_add in E by lia. rewrite Nat.mod_small in E by lia. lia.
Qed.

Lemma targets_NoDup r c n : c <= n -> NoDup (targets r c n).
Proof.
  intro Hc. apply (NoDup_nth (targets r c n) 0). rewrite targets_length.
  assert (W : forall i j, i < c -> j < c -> i < j -> (r + i) mod n <> (r + j) mod n).
  { intros i j Hi Hj Hij E.
    assert (Hn : 0 < n) by lia.
    assert (E2 : ((r + i) mod n + (j - i)) mod n = (r + i) mod n).
    { rewrite Nat.add_mod_idemp_l by lia. replace (r + i + (j - i)) with (r + j) by lia.
      symmetry. exact E. }
    refine (mod_shift_inj n ((r + i) mod n) (j - i) _ _ _ E2); [apply Nat.mod_upper_bound; lia | lia | lia]. }
  intros i j Hi Hj E. rewrite !targets_nth in E by assumption.
  destruct (Nat.lt_trichotomy i j) as [L|[L|L]]; [|exact L|].
  - exfalso. exact (W i j Hi Hj L E).
  - exfalso. symmetry in E. exact (W j i Hj Hi L E).
Qed.

Lemma queries_payload {Q} (q : Q) r c n p b : In (p, b) (queries q r c n) -> b = q /\ In p (targets r c n).
Proof.
  unfold queries. intro H. apply in_map_iff in H as [x [E I]]. inversion E; subst. split; [reflexivity|exact I].
Qed.

Lemma queries_positions {Q} (q : Q) r c n : map fst (queries q r c n) = targets r c n.
Proof. unfold queries. rewrite map_map. simpl. apply map_id. Qed.

(** * Collection loop = the property's reading *)
Definition nondec (a : arrival) : Prop := decisive a = false.

Lemma oracle_nil k : oracle k [] = if 0 <? k then RWaiting else RAllFailed.
Proof. unfold oracle. rewrite firstn_nil. simpl. destruct k; reflexivity. Qed.

Lemma oracle_0 arr : oracle 0 arr = RAllFailed.
Proof. reflexivity. Qed.

Lemma oracle_cons_dec k a rest : decisive a = true -> oracle (S k) (a :: rest) = outcome_of a.
Proof. intro H. unfold oracle. rewrite firstn_cons. simpl find. rewrite H. reflexivity. Qed.

Lemma oracle_one a rest : oracle 1 (a :: rest) = outcome_of a.
Proof.
  destruct (decisive a) eqn:D; [apply oracle_cons_dec; exact D|].
  unfold oracle. simpl firstn. simpl find. rewrite D. reflexivity.
Qed.

Lemma oracle_cons_skip k a rest :
  decisive a = false -> 0 < k -> oracle (S k) (a :: rest) = oracle k rest.
Proof.
  intros H K. unfold oracle. rewrite firstn_cons. simpl find. rewrite H.
  destruct (find decisive (firstn k rest)) eqn:F; [reflexivity|].
  assert (E : (length (a :: firstn k rest) <? S k) = (length (firstn k rest) <? k)) by reflexivity.
  rewrite E. destruct (length (firstn k rest) <? k) eqn:L; [reflexivity|].
  destruct (firstn k rest) as [|b w] eqn:W.
  - simpl in L. apply Nat.ltb_ge in L. lia.
  - reflexivity.
Qed.

Lemma body_decisive c i a : decisive a = true -> body c i a = Some (outcome_of a).
Proof.
  destruct a as [rc t| |]; simpl; intro H; try discriminate; [|reflexivity].
  unfold good_rcode in H. unfold rcode_success, rcode_name_error.
  destruct (N.eqb rc 0); destruct (N.eqb rc 3); simpl in *; try discriminate;
    rewrite ?andb_false_r; reflexivity.
Qed.

Lemma body_nondec_last c i a : decisive a = false -> (i <? c - 1) = false ->
  body c i a = match a with AErr => None | _ => Some (outcome_of a) end.
Proof.
  destruct a as [rc t| |]; simpl; intros H L; try discriminate; [|reflexivity].
  rewrite L. reflexivity.
Qed.

Lemma body_nondec_more c i a : decisive a = false -> (i <? c - 1) = true -> body c i a = None.
Proof.
  destruct a as [rc t| |]; simpl; intros H L; try discriminate; [|reflexivity].
  rewrite L. unfold good_rcode in H. unfold rcode_success, rcode_name_error.
  destruct (N.eqb rc 0); destruct (N.eqb rc 3); simpl in *; try discriminate; reflexivity.
Qed.

Lemma loop_oracle : forall arr k i c, c = i + k -> loop c i arr = oracle k arr.
Proof.
  induction arr as [|a rest IH]; intros k i c Hc.
  - cbn [loop]. rewrite oracle_nil. destruct (c <=? i) eqn:E.
    + apply Nat.leb_le in E. assert (k = 0) by lia. subst k. reflexivity.
    + apply Nat.leb_gt in E. destruct k; [lia|]. reflexivity.
  - cbn [loop]. destruct (c <=? i) eqn:E.
    + apply Nat.leb_le in E. assert (k = 0) by lia. subst k. reflexivity.
    + apply Nat.leb_gt in E. destruct k as [|k']; [lia|].
      destruct (decisive a) eqn:D.
      * rewrite (body_decisive c i a D). rewrite oracle_cons_dec by exact D. reflexivity.
      * destruct k' as [|k''].
        -- assert (L : (i <? c - 1) = false) by (apply Nat.ltb_ge; lia).
           rewrite (body_nondec_last c i a D L). rewrite oracle_one.
           destruct a as [rc t| |]; try reflexivity.
           rewrite (IH 0 (S i) c) by lia. reflexivity.
        -- assert (L : (i <? c - 1) = true) by (apply Nat.ltb_lt; lia).
           rewrite (body_nondec_more c i a D L).
           rewrite (IH (S k'') (S i) c) by lia.
           rewrite oracle_cons_skip by (try exact D; lia). reflexivity.
Qed.

Lemma collect_oracle c arr : collect c arr = oracle c arr.
Proof. unfold collect. apply loop_oracle. reflexivity. Qed.

Lemma find_app_nondec pre l : Forall nondec pre -> find decisive (pre ++ l) = find decisive l.
Proof.
  induction 1 as [|a pre Ha _ IH]; [reflexivity|]. simpl. unfold nondec in Ha. rewrite Ha. exact IH.
Qed.

Lemma firstn_app_cons {A} c (pre : list A) x post :
  length pre < c -> firstn c (pre ++ x :: post) = pre ++ x :: firstn (c - S (length pre)) post.
Proof.
  intro H. rewrite firstn_app. rewrite firstn_all2 by lia.
  replace (c - length pre) with (S (c - S (length pre))) by lia. reflexivity.
Qed.

Lemma first_decisive_wins c pre x post :
  length pre < c -> Forall nondec pre -> decisive x = true ->
  collect c (pre ++ x :: post) = outcome_of x.
Proof.
  intros L F D. rewrite collect_oracle. unfold oracle.
  rewrite firstn_app_cons by exact L. rewrite find_app_nondec by exact F.
  simpl. rewrite D. reflexivity.
Qed.

Lemma first_good_wins c pre rc t post :
  length pre < c -> Forall nondec pre -> good_rcode rc = true ->
  collect c (pre ++ AReply rc t :: post) = RReply rc t.
Proof. intros L F G. apply (first_decisive_wins c pre (AReply rc t) post L F G). Qed.

Lemma ctx_wins_if_first c pre post :
  length pre < c -> Forall nondec pre -> collect c (pre ++ ACtx :: post) = RCtx.
Proof. intros L F. apply (first_decisive_wins c pre ACtx post L F eq_refl). Qed.

Lemma else_last c pre a post :
  S (length pre) = c -> Forall nondec pre -> collect c (pre ++ a :: post) = outcome_of a.
Proof.
  intros L F. destruct (decisive a) eqn:D.
  - apply first_decisive_wins; [lia|exact F|exact D].
  - rewrite collect_oracle. unfold oracle. rewrite firstn_app_cons by lia.
    replace (c - S (length pre)) with 0 by lia. simpl firstn.
    rewrite find_app_nondec by exact F. simpl find. rewrite D.
    rewrite app_length. simpl length.
    assert (E : (length pre + 1 <? c) = false) by (apply Nat.ltb_ge; lia). rewrite E.
    rewrite last_last. reflexivity.
Qed.

Lemma loop_all_err : forall arr c i, Forall (fun a => a = AErr) arr -> length arr = c - i ->
  loop c i arr = RAllFailed.
Proof.
  induction arr as [|a rest IH]; intros c i F L; cbn [loop].
  - simpl in L. assert (E : (c <=? i) = true) by (apply Nat.leb_le; lia). rewrite E. reflexivity.
  - destruct (c <=? i) eqn:E; [reflexivity|]. apply Nat.leb_gt in E.
    inversion F as [|? ? Ha Fr]; subst. simpl body. apply IH; [exact Fr|]. simpl in L. lia.
Qed.

Lemma all_failed_error c outs_ :
  length outs_ = c -> (forall o, In o outs_ -> forall rc t, o <> UMsg rc t) ->
  collect c (map worker_result outs_) = RAllFailed.
Proof.
  intros L H. unfold collect. apply loop_all_err.
  - apply Forall_forall. intros a Ia. apply in_map_iff in Ia as [o [<- Io]].
    destruct o as [rc t| | |]; try reflexivity. exfalso. exact (H _ Io rc t eq_refl).
  - rewrite map_length. lia.
Qed.

Lemma outcome_not_waiting a : outcome_of a <> RWaiting.
Proof. destruct a; discriminate. Qed.

Lemma find_none_nondec l : find decisive l = None -> Forall nondec l.
Proof.
  intro H. apply Forall_forall. intros a Ia. exact (find_none decisive l H a Ia).
Qed.

Lemma nondec_find_none l : Forall nondec l -> find decisive l = None.
Proof.
  induction 1 as [|a l Ha _ IH]; [reflexivity|]. simpl. unfold nondec in Ha. rewrite Ha. exact IH.
Qed.

Lemma waiting_iff c arr :
  collect c arr = RWaiting <-> length arr < c /\ Forall nondec arr.
Proof.
  rewrite collect_oracle. unfold oracle. split.
  - destruct (find decisive (firstn c arr)) eqn:F.
    + intro H. exfalso. exact (outcome_not_waiting _ H).
    + destruct (length (firstn c arr) <? c) eqn:L.
      * intros _. apply Nat.ltb_lt in L. rewrite firstn_length in L.
        assert (La : length arr < c) by lia. split; [exact La|].
        rewrite firstn_all2 in F by lia. apply find_none_nondec. exact F.
      * intro H. exfalso. exact (outcome_not_waiting _ H).
  - intros [L F]. rewrite firstn_all2 by lia. rewrite nondec_find_none by exact F.
    assert (E : (length arr <? c) = true) by (apply Nat.ltb_lt; exact L). rewrite E. reflexivity.
Qed.

Lemma last_In {A} (l : list A) d : l <> [] -> In (last l d) l.
Proof.
  induction l as [|a l IH]; intro H; [congruence|].
  destruct l as [|b l']; [left; reflexivity|]. right. apply IH. discriminate.
Qed.

Lemma result_sound c arr rc t : collect c arr = RReply rc t -> In (AReply rc t) (firstn c arr).
Proof.
  rewrite collect_oracle. unfold oracle.
  destruct (find decisive (firstn c arr)) eqn:F.
  - intro H. apply find_some in F as [I _]. destruct a; try discriminate. inversion H; subst. exact I.
  - destruct (length (firstn c arr) <? c); [discriminate|].
    intro H. destruct (firstn c arr) as [|b w] eqn:W; [discriminate|].
    assert (I : In (last (b :: w) AErr) (b :: w)) by (apply last_In; discriminate).
    destruct (last (b :: w) AErr); try discriminate. inversion H; subst. exact I.
Qed.

Lemma bad_never_masks_good c arr rc t :
  In (AReply rc t) (firstn c arr) -> good_rcode rc = true -> ~ In ACtx (firstn c arr) ->
  exists rc' t', collect c arr = RReply rc' t' /\ good_rcode rc' = true /\ In (AReply rc' t') (firstn c arr).
Proof.
  intros I G NC. rewrite collect_oracle. unfold oracle.
  destruct (find decisive (firstn c arr)) eqn:F.
  - apply find_some in F as [Ia Da]. destruct a as [rc' t'| |]; try discriminate.
    + exists rc', t'. repeat split; assumption.
    + exfalso. exact (NC Ia).
  - exfalso. pose proof (find_none decisive _ F _ I) as D. simpl in D. congruence.
Qed.

Lemma ctx_only_if_cancelled c arr : collect c arr = RCtx -> In ACtx (firstn c arr).
Proof.
  rewrite collect_oracle. unfold oracle.
  destruct (find decisive (firstn c arr)) eqn:F.
  - intro H. apply find_some in F as [I _]. destruct a; try discriminate. exact I.
  - destruct (length (firstn c arr) <? c); [discriminate|].
    intro H. destruct (firstn c arr) as [|b w] eqn:W; [discriminate|].
    assert (I : In (last (b :: w) AErr) (b :: w)) by (apply last_In; discriminate).
    destruct (last (b :: w) AErr); try discriminate. exact I.
Qed.

(** * The worker/collector protocol: all interleavings by reflection *)
Lemma arrival_eqb_spec a b : arrival_eqb a b = true <-> a = b.
Proof.
  destruct a, b; simpl; split; intro H; try discriminate; try reflexivity.
  - apply andb_true_iff in H as [H1 H2]. apply N.eqb_eq in H1, H2. congruence.
  - inversion H; subst. rewrite !N.eqb_refl. reflexivity.
Qed.

Lemma result_eqb_spec a b : result_eqb a b = true <-> a = b.
Proof.
  destruct a, b; simpl; split; intro H; try discriminate; try reflexivity.
  - apply andb_true_iff in H as [H1 H2]. apply N.eqb_eq in H1, H2. congruence.
  - inversion H; subst. rewrite !N.eqb_refl. reflexivity.
Qed.

Lemma wst_eqb_spec a b : wst_eqb a b = true <-> a = b.
Proof.
  destruct a, b; simpl; split; intro H; try discriminate; try reflexivity.
  - apply arrival_eqb_spec in H. congruence.
  - inversion H; subst. apply arrival_eqb_spec. reflexivity.
Qed.

Lemma cst_eqb_spec a b : cst_eqb a b = true <-> a = b.
Proof.
  destruct a, b; simpl; split; intro H; try discriminate.
  - apply Nat.eqb_eq in H. congruence.
  - inversion H; subst. apply Nat.eqb_refl.
  - apply result_eqb_spec in H. congruence.
  - inversion H; subst. apply result_eqb_spec. reflexivity.
  - apply result_eqb_spec in H. congruence.
  - inversion H; subst. apply result_eqb_spec. reflexivity.
Qed.

Lemma st_eqb_spec a b : st_eqb a b = true <-> a = b.
Proof.
  destruct a as [c1 x1 w1 h1], b as [c2 x2 w2 h2]. unfold st_eqb. simpl.
  rewrite !andb_true_iff, cst_eqb_spec, Bool.eqb_true_iff,
    (list_eqb_spec wst_eqb wst_eqb_spec), (list_eqb_spec arrival_eqb arrival_eqb_spec).
  split.
  - intros [[[-> ->] ->] ->]. reflexivity.
  - intro H. inversion H. auto.
Qed.

Inductive reachable (stepf : st -> list st) (i : st) : st -> Prop :=
| reach_init : reachable stepf i i
| reach_step s s' : reachable stepf i s -> In s' (stepf s) -> reachable stepf i s'.

Lemma nth_In_concat {A} (z : A) h (T : list (list A)) : In z (nth h T []) -> In z (concat T).
Proof.
  intro H. destruct (Nat.lt_ge_cases h (length T)) as [L|G].
  - apply in_concat. exists (nth h T []). split; [apply nth_In; exact L|exact H].
  - rewrite nth_overflow in H by exact G. destruct H.
Qed.

Lemma tmem_In x T : tmem x T = true -> In x (concat T).
Proof.
  unfold tmem. intro H. apply existsb_exists in H as [z [Iz E]].
  apply st_eqb_spec in E. subst z. exact (nth_In_concat _ _ _ Iz).
Qed.

Lemma closed_sound stepf i T : closed stepf i T = true ->
  forall s, reachable stepf i s -> In s (concat T).
Proof.
  unfold closed. intro H. apply andb_true_iff in H as [Hi Hc].
  induction 1 as [|s s' _ IH Hs].
  - apply tmem_In. exact Hi.
  - rewrite forallb_forall in Hc. specialize (Hc s IH). rewrite forallb_forall in Hc.
    apply tmem_In. exact (Hc s' Hs).
Qed.

Lemma inv_by_reflection stepf i T (P : st -> bool) :
  closed stepf i T = true -> forallb P (concat T) = true ->
  forall s, reachable stepf i s -> P s = true.
Proof.
  intros Hc Hp s Hr. rewrite forallb_forall in Hp. apply Hp. exact (closed_sound stepf i T Hc s Hr).
Qed.

Lemma protocol_inv c : In c [1; 2; 3] ->
  forall s, reachable (step true c) (init c) s -> inv true c s = true.
Proof.
  intro H. apply (inv_by_reflection _ _ (reach_table true c)).
  - destruct H as [<-|[<-|[<-|[]]]]; vm_compute; reflexivity.
  - destruct H as [<-|[<-|[<-|[]]]]; vm_compute; reflexivity.
Qed.

(** readable consequences *)
Lemma protocol_result_is_collect c s r : In c [1; 2; 3] ->
  reachable (step true c) (init c) s -> (col s = CRet r \/ col s = CGone r) -> collect c (hist s) = r.
Proof.
  intros Hc Hr Hcol. pose proof (protocol_inv c Hc s Hr) as I. unfold inv in I.
  apply andb_true_iff in I as [I _]. apply andb_true_iff in I as [I _].
  destruct Hcol as [E|E]; rewrite E in I; apply result_eqb_spec in I; exact I.
Qed.

Lemma collector_waits_for_live_workers c s i : In c [1; 2; 3] ->
  reachable (step true c) (init c) s -> col s = CWait i ->
  i = length (hist s) /\ collect c (hist s) = RWaiting /\ i < c /\ live_workers s = c - i.
Proof.
  intros Hc Hr E. pose proof (protocol_inv c Hc s Hr) as I. unfold inv in I.
  apply andb_true_iff in I as [I _]. apply andb_true_iff in I as [I _].
  rewrite E in I. repeat (apply andb_true_iff in I as [I ?]).
  apply Nat.eqb_eq in I. apply result_eqb_spec in H1. apply Nat.ltb_lt in H0. apply Nat.eqb_eq in H.
  repeat split; assumption.
Qed.

Lemma workers_terminate c s : In c [1; 2; 3] ->
  reachable (step true c) (init c) s ->
  (forall s', In s' (step true c s) -> measure s' < measure s) /\
  (step true c s = [] -> Forall (fun w => w = WEnd) (ws s) /\ exists r, col s = CGone r).
Proof.
  intros Hc Hr. pose proof (protocol_inv c Hc s Hr) as I. unfold inv in I.
  apply andb_true_iff in I as [I T]. apply andb_true_iff in I as [_ M].
  split.
  - intros s' Hs. rewrite forallb_forall in M. specialize (M s' Hs). apply Nat.ltb_lt in M. exact M.
  - intro E. rewrite E in T. apply andb_true_iff in T as [Tw Tc]. split.
    + apply Forall_forall. intros w Iw. rewrite forallb_forall in Tw. specialize (Tw w Iw).
      destruct w; try discriminate. reflexivity.
    + destruct (col s) as [j|r|r]; try discriminate. exists r. reflexivity.
Qed.

Lemma measure_init c : measure (init c) = 6 + 2 * c.
Proof.
  unfold measure, init. simpl ctxd. simpl col. simpl ws. simpl cweight.
  induction c as [|c IH]; simpl in *; lia.
Qed.

(** explicit paths, for the witness that a plain send can block *)
Fixpoint path_ok (stepf : st -> list st) (s : st) (p : list st) : bool :=
  match p with
  | [] => true
  | x :: t => existsb (st_eqb x) (stepf s) && path_ok stepf x t
  end.

Lemma last_indep {A} (l : list A) d d' : l <> [] -> last l d = last l d'.
Proof.
  induction l as [|a l IH]; intro H; [congruence|].
  destruct l as [|b l']; [reflexivity|]. apply IH. discriminate.
Qed.

Lemma path_reachable stepf i : forall p s, reachable stepf i s -> path_ok stepf s p = true ->
  reachable stepf i (last p s).
Proof.
  induction p as [|x t IH]; intros s Hr H; [exact Hr|].
  simpl in H. apply andb_true_iff in H as [H1 H2].
  apply existsb_exists in H1 as [y [Iy E]]. apply st_eqb_spec in E. subst y.
  assert (Hx : reachable stepf i x) by (eapply reach_step; eassumption).
  specialize (IH x Hx H2). destruct t as [|z t']; [exact Hx|].
  change (last (x :: z :: t') s) with (last (z :: t') s).
  rewrite (last_indep (z :: t') s x) by discriminate. exact IH.
Qed.

Definition stuck_path : list st :=
  [ mkSt (CWait 0) false [WReady (AReply 0 1); WRun] [];
    mkSt (CRet (RReply 0 1)) false [WEnd; WRun] [AReply 0 1];
    mkSt (CGone (RReply 0 1)) false [WEnd; WRun] [AReply 0 1];
    mkSt (CGone (RReply 0 1)) false [WEnd; WReady AErr] [AReply 0 1];
    mkSt (CGone (RReply 0 1)) true [WEnd; WReady AErr] [AReply 0 1] ].

Lemma plain_send_can_block :
  exists s, reachable (step false 2) (init 2) s /\ step false 2 s = [] /\ nth 1 (ws s) WEnd = WReady AErr.
Proof.
  exists (last stuck_path (init 2)). split.
  - apply path_reachable; [apply reach_init|vm_compute; reflexivity].
  - vm_compute. split; reflexivity.
Qed.
