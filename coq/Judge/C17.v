(** C17 — case type and verdict functions evaluated by [bin/check] on the
    observations of the Go driver (harness/cmd/c17). *)
From Verif Require Import Base.Prelude Gen.Constants.
From Verif Require Export Model.UdpTc.  (* case literals use [mkHeader] *)
Open Scope N_scope.

(** ** What the harness servers were told to do *)

(** datagrams sent before the real reply: [PShort n b2] — the first [n] (< 12)
    bytes of "wire id, b2, filler"; [PWrongId b2] — a whole reply with flag
    byte [b2] whose id is not the one waited for *)
Inductive pre := PShort (n b2 : N) | PWrongId (b2 : N).

(** the UDP reply: flag bytes, ANCOUNT, extra body after the echoed question *)
Inductive udp_beh := UReply (b2 b3 an bn bseed : N) | USilent.

Inductive tcp_b :=
| JAnswer (close idflip : bool) (b2 b3 an bn bseed : N)
| JDieAfterQuery | JDieOnAccept | JPartial.

(** [ORefused]: the error is a refused connection (ECONNREFUSED from the dial)
    and came back in less than half of the caller's deadline; [OErr]: any other error *)
Inductive ores := ORep (n sum : N) | OErr | OPanic | ORefused.

(** caller's query: id, flag byte 2, question bytes [gen_bytes qn qseed] *)
Inductive step_in := SIn (cid qb2 qn qseed : N) (pres : list pre) (u : udp_beh) (t : tcp_b).

(** observed: id and checksum of the datagram the UDP server got; what
    ExchangeContext returned; (len, checksum) of every query the TCP server read;
    connections the TCP listener accepted during the step; connections the
    upstream reported opening during the step (when an observer was attached) *)
Inductive step_out :=
  SOut (wire_id wire_sum : N) (res : ores) (seen : list (N * N)) (accepted : N) (opens : option N).

Inductive case :=
  (** upstream.VerifMsgTruncated on [gen_bytes n seed] with byte 2 replaced by
      [b2] (when there is one); [None] = panic *)
| CTrunc (n seed b2 : N) (obs : option bool)
  (** miekg dns.Msg.Pack of a message with this header: its first 12 bytes,
      and VerifMsgTruncated of the whole packing *)
| CPack (h : header) (packed : bytes) (obs : option bool)
  (** one upstream from NewUpstream("udp://127.0.0.1:port"), a UDP and a TCP
      server on that port ([listening] = false: the TCP port refuses), a
      sequence of queries *)
| CSession (listening : bool) (steps : list (step_in * step_out))
  (** "the same server": NewUpstream(url, Opt{DialAddr: dial}) with several
      harness servers (UDP + TCP each) at [servers] (host text, port); every
      UDP reply has flag byte [b2]; [want] = index of the server DialAddr (or,
      without it, the url) designates.  Observed: which servers got the UDP
      query, which servers got a TCP query (in order), what the caller got:
      (0, i) server i's UDP reply, (1, i) server i's TCP reply, (2, _) an
      error, (3, _) NewUpstream failed, (4, _) panic; [intact] = the reply has
      the caller's id and question *)
| CDial (url dial : list N) (servers : list (list N * N)) (b2 want : N)
        (udp_at tcp_at : list N) (res : N * N) (intact : bool)
  (** real time: the UDP server sends its reply (flag byte [b2]) [d1] ms after
      the query, the TCP server answers [d2] ms after reading the query, the
      caller allows [deadline] ms; observed: what the caller got *)
| CDelay (d1 d2 deadline : N) (cid qn qseed b2 : N) (res : ores)
  (** query A (caller allows [dl_a] ms) then, as soon as A returned, query B
      (allows [dl_b] ms) on one upstream; both UDP replies have TC; the TCP
      server answers every query [delay] ms after reading it with a reply
      derived from that query; observed: what A's and B's callers got *)
| CAbandon (a b : N * N * N) (dl_a delay dl_b : N) (res_a res_b : ores)
  (** [k] queries at the same time, all answered with TC over UDP and, once the
      TCP server holds all [k] of them on [k] connections, over TCP ([p1_ok]:
      every caller got the reply to its own query); then, with these [k]
      connections idle, one more query [q] (TC again): the TCP server reads a
      query arriving on an old connection and closes it, and answers on new
      connections.  Observed for [q]: what the caller got, connections
      accepted, number of queries the TCP server read, all of them equal to [q] *)
| CStale (k : N) (q : N * N * N) (p1_ok : bool) (res : ores) (new_conns seen_n : N) (seen_same : bool)
  (** after [warm] ordinary exchanges on the upstream, a query whose first
      [ignored] datagrams the UDP server does not answer; it answers the next
      one (a re-send, about a second later each) with flag byte [b2] under the
      id of the datagram it answers.  Observed: (id, checksum) of these
      [ignored + 1] datagrams, and what the caller got *)
| CResend (warm ignored : N) (q : N * N * N) (b2 : N) (dgrams : list (N * N)) (res : ores)
  (** as [CStale] up to the [k] idle connections; then the TCP server closes
      them while they are idle and the client has seen all [k] die (close
      events of the upstream); then the query [q] (TC), every connection is answered *)
| CDeadIdle (k : N) (q : N * N * N) (p1_ok noticed : bool) (res : ores) (new_conns seen_n : N) (seen_same : bool).

(** ** Messages *)

Definition set2 (b2 : N) (l : bytes) : bytes :=
  match l with a :: b :: _ :: t => a :: b :: b2 :: t | _ => l end.

Definition query (cid qb2 qn qseed : N) : bytes :=
  encode_header (header_of_flags cid qb2 0 1 0 0 0) ++ gen_bytes qn qseed.

(** the servers echo id and question of the message [w] they received *)
Definition reply_to (w : bytes) (id b2 b3 an bn bseed : N) : bytes :=
  encode_header (header_of_flags id b2 b3 1 an 0 0) ++ skipn 12 w ++ gen_bytes bn bseed.

Definition pre_dgram (w : bytes) (p : pre) : bytes :=
  match p with
  | PShort n b2 => firstn (N.to_nat n) (be16 (get_id w) ++ [b2] ++ gen_bytes 8 7)
  | PWrongId b2 => reply_to w ((get_id w + 30000) mod 65536) b2 128 0 0 0
  end.

Definition udp_server (pres : list pre) (u : udp_beh) (w : bytes) : list bytes :=
  map (pre_dgram w) pres ++
  match u with
  | UReply b2 b3 an bn bseed => [reply_to w (get_id w) b2 b3 an bn bseed]
  | USilent => []
  end.

Definition to_beh (t : tcp_b) : tcp_beh :=
  match t with
  | JAnswer close idflip b2 b3 an bn bseed =>
    let f := fun w => reply_to w (if idflip then 65535 - get_id w else get_id w) b2 b3 an bn bseed in
    if close then TAnswerClose f else TAnswer f
  | JDieAfterQuery => TDieAfterQuery
  | JDieOnAccept => TDieOnAccept
  | JPartial => TPartial
  end.

Definition to_step (i : step_in) : step :=
  let 'SIn cid qb2 qn qseed pres u t := i in
  mkStep (query cid qb2 qn qseed) (udp_server pres u) (to_beh t).

(** ** agree: the observation is what the model computes *)

Definition pair_eqb (a b : N * N) : bool := (fst a =? fst b) && (snd a =? snd b).
Definition sig (b : bytes) : N * N := (len b, checksum b).

Definition res_eqb (r : result) (o : ores) : bool :=
  match r, o with
  | RReply b, ORep n s => pair_eqb (sig b) (n, s)
  | RErr e, OErr => negb (e =? e_refused)
  | RErr e, ORefused => e =? e_refused
  | RPanic, OPanic => true
  | _, _ => false
  end.

Definition step_agree (first : bool) (m : step_obs) (o : step_out) : bool :=
  let 'SOut wid wsum res seen acc opens := o in
  (get_id (o_wire m) =? wid) && (checksum (o_wire m) =? wsum)
  && res_eqb (o_res m) res
  && list_eqb pair_eqb (map sig (o_tcp_seen m)) seen
  && (acc =? o_conns m)
  && match opens with
     | None => true
     | Some k => k =? (if first then 1 else 0) + o_conns m
     end.

Fixpoint agree_steps (first : bool) (ms : list step_obs) (os : list step_out) : bool :=
  match ms, os with
  | [], [] => true
  | m :: ms', o :: os' => step_agree first m o && agree_steps false ms' os'
  | _, _ => false
  end.

Fixpoint find_server (i : N) (a : list N * N) (servers : list (list N * N)) : option N :=
  match servers with
  | [] => None
  | s :: t => if list_eqb N.eqb (fst a) (fst s) && (snd a =? snd s) then Some i
              else find_server (i + 1) a t
  end.

Definition agree_dial (url dial : list N) (servers : list (list N * N)) (b2 : N)
                      (udp_at tcp_at : list N) (res : N * N) (intact : bool) : bool :=
  match udp_upstream_dials url dial with
  | None => fst res =? 3
  | Some d =>
    match find_server 0 (d_udp d) servers, find_server 0 (d_tcp d) servers with
    | Some iu, Some it =>
      list_eqb N.eqb udp_at [iu] && intact &&
      match msg_truncated [0; 0; b2] with
      | Some true => list_eqb N.eqb tcp_at [it] && pair_eqb res (1, it)
      | Some false => list_eqb N.eqb tcp_at [] && pair_eqb res (0, iu)
      | None => false
      end
    | _, _ => false
    end
  end.

(** the timed servers: UDP reply without extra body, TCP reply derived from the query *)
Definition timed_query (x : N * N * N) : bytes :=
  let '(cid, qn, qseed) := x in query cid 1 qn qseed.
Definition timed_udp_reply (w : bytes) (b2 : N) : bytes := reply_to w (get_id w) b2 128 0 0 0.
Definition timed_tcp_reply (w : bytes) : bytes := reply_to w (get_id w) 132 128 1 4 (get_id w).

Definition agree_delay (d1 d2 deadline cid qn qseed b2 : N) (res : ores) : bool :=
  let q := timed_query (cid, qn, qseed) in
  let udp := udp_exchange q 0 [timed_udp_reply (udp_wire_query q 0) b2] in
  res_eqb (fst (udp_with_fallback_timed q deadline d1 udp d2
                  (fun q' => tcp_read_reply (timed_tcp_reply q')))) res.

(** A's caller either gave up (observed error) or, on a very slow machine,
    still got its reply; B waits.  Replies by [rrun]. *)
Definition agree_abandon (a b : N * N * N) (res_a res_b : ores) : bool :=
  let qa := timed_query a in
  let qb := timed_query b in
  let gu := match res_a with OErr => true | _ => false end in
  match rrun timed_tcp_reply rpool0 [EvExchange qa gu; EvExchange qb false] with
  | [ra; Some rb] =>
    match ra, res_a with
    | None, OErr => true
    | Some r, ORep n s0 => pair_eqb (sig r) (n, s0)
    | _, _ => false
    end && res_eqb (RReply rb) res_b
  | _ => false
  end.

Definition agree_stale (k : N) (q : N * N * N) (p1_ok : bool) (res : ores)
                       (new_conns seen_n : N) (seen_same : bool) : bool :=
  let qb := timed_query q in
  let udp := udp_exchange qb k [timed_udp_reply (udp_wire_query qb k) 130] in
  let t := reuse_stale (N.to_nat k) timed_tcp_reply qb in
  let '(r, tq) := udp_with_fallback qb udp (fun q' => fst (reuse_stale (N.to_nat k) timed_tcp_reply q')) in
  p1_ok && seen_same && res_eqb r res && tcp_used tq
  && (new_conns =? te_conns (snd t)) && (seen_n =? N.of_nat (length (te_seen (snd t)))).

Definition agree_dead_idle (k : N) (q : N * N * N) (p1_ok noticed : bool) (res : ores)
                           (new_conns seen_n : N) (seen_same : bool) : bool :=
  let qb := timed_query q in
  let udp := udp_exchange qb k [timed_udp_reply (udp_wire_query qb k) 130] in
  let t := reuse_dead_idle (N.to_nat k) timed_tcp_reply qb in
  let '(r, tq) := udp_with_fallback qb udp (fun q' => fst (reuse_dead_idle (N.to_nat k) timed_tcp_reply q')) in
  p1_ok && noticed && seen_same && res_eqb r res && tcp_used tq
  && (new_conns =? te_conns (snd t)) && (seen_n =? N.of_nat (length (te_seen (snd t)))).

Definition agree_resend (warm ignored : N) (q : N * N * N) (b2 : N) (dgrams : list (N * N)) (res : ores) : bool :=
  let qb := timed_query q in
  let sends := udp_sends qb warm (S (N.to_nat ignored)) in
  let answered := last sends [] in
  let udp := udp_exchange qb warm [timed_udp_reply answered b2] in
  list_eqb pair_eqb (map (fun d => (get_id d, checksum d)) sends) dgrams
  && res_eqb (fst (udp_with_fallback qb udp (fun q' => tcp_read_reply (timed_tcp_reply q')))) res.

Definition agree (c : case) : bool :=
  match c with
  | CTrunc n seed b2 obs =>
    option_eqb Bool.eqb (msg_truncated (set2 b2 (gen_bytes n seed))) obs
  | CPack h packed obs =>
    wf_headerb h && list_eqb N.eqb (encode_header h) packed
    && option_eqb Bool.eqb (msg_truncated packed) obs
  | CSession listening steps =>
    agree_steps true (run_session listening sess0 (map (fun p => to_step (fst p)) steps))
                (map snd steps)
  | CDial url dial servers b2 want udp_at tcp_at res intact =>
    agree_dial url dial servers b2 udp_at tcp_at res intact
  | CDelay d1 d2 deadline cid qn qseed b2 res => agree_delay d1 d2 deadline cid qn qseed b2 res
  | CAbandon a b dl_a delay dl_b res_a res_b => agree_abandon a b res_a res_b
  | CStale k q p1_ok res new_conns seen_n seen_same => agree_stale k q p1_ok res new_conns seen_n seen_same
  | CResend warm ignored q b2 dgrams res => agree_resend warm ignored q b2 dgrams res
  | CDeadIdle k q p1_ok noticed res new_conns seen_n seen_same =>
    agree_dead_idle k q p1_ok noticed res new_conns seen_n seen_same
  end.

(** ** spec: the property's own reading of the observation, on raw bytes

    TC set in the UDP reply: the caller got the TCP server's reply, the TCP
    server saw the caller's query (same bytes) and at least one connection
    was accepted so far; a TCP side that refuses / dies gives an error.
    TC clear: the caller got the UDP reply (caller's id, up to the 4095 byte
    receive buffer), the TCP server saw nothing and no connection was opened. *)
Definition tc_of (b2 : N) : bool := (b2 / 2) mod 2 =? 1.

Definition raw_msg (id b2 b3 an : N) (body : bytes) : bytes :=
  [id / 256; id mod 256; b2; b3; 0; 1; an / 256; an mod 256; 0; 0; 0; 0] ++ body.

Definition is_err (r : ores) : bool := match r with OErr => true | _ => false end.
Definition is_refused (r : ores) : bool := match r with ORefused => true | _ => false end.
Definition is_rep (r : ores) (b : bytes) : bool :=
  match r with ORep n s => pair_eqb (sig b) (n, s) | _ => false end.
Definition nonempty {A} (l : list A) : bool := match l with [] => false | _ => true end.
Definition opens_le (opens : option N) (k : N) : bool :=
  match opens with None => true | Some o => o <=? k end.

Definition step_spec (listening first : bool) (cum : N) (i : step_in) (o : step_out) : bool :=
  let 'SIn cid qb2 qn qseed pres u t := i in
  let 'SOut wid wsum res seen acc opens := o in
  let qbody := gen_bytes qn qseed in
  let q := [cid / 256; cid mod 256; qb2; 0; 0; 1; 0; 0; 0; 0; 0; 0] ++ qbody in
  let udp_only := match seen with [] => true | _ => false end && (acc =? 0)
                  && opens_le opens (if first then 1 else 0) in
  match u with
  | USilent => is_err res && udp_only
  | UReply b2 b3 an bn bseed =>
    if tc_of b2 then
      match t with
      | JAnswer close idflip tb2 tb3 tan tbn tbseed =>
        if listening then
          let r := raw_msg (if idflip then 65535 - cid else cid) tb2 tb3 tan
                           (qbody ++ gen_bytes tbn tbseed) in
          if 13 <=? len r then
            is_rep res r && (1 <=? cum + acc) && nonempty seen && forallb (pair_eqb (sig q)) seen
          else is_err res
        else is_refused res && (acc =? 0)   (* the refusal itself, promptly; not the caller's deadline *)
      | _ => (if listening then is_err res else is_refused res && (acc =? 0))
             && forallb (pair_eqb (sig q)) seen
      end
    else
      let r := raw_msg cid b2 b3 an (qbody ++ gen_bytes bn bseed) in
      is_rep res (firstn 4095 r) && udp_only
  end.

Fixpoint spec_steps (listening first : bool) (cum : N) (steps : list (step_in * step_out)) : bool :=
  match steps with
  | [] => true
  | (i, o) :: t =>
    step_spec listening first cum i o
    && spec_steps listening false (cum + let 'SOut _ _ _ _ acc _ := o in acc) t
  end.

Definition spec (c : case) : bool :=
  match c with
  | CTrunc n seed b2 obs =>
    if n <? 3 then true else option_eqb Bool.eqb obs (Some (tc_of b2))
  | CPack h packed obs =>
    option_eqb Bool.eqb obs (Some (h_tc h)) && Bool.eqb (tc_of (nth 2 packed 0)) (h_tc h)
  | CSession listening steps => spec_steps listening true 0 steps
    (* TC reply => exactly one TCP query, at the server that sent that reply,
       and the caller gets that server's TCP answer; no TC => that server's
       UDP answer and no TCP query anywhere *)
  | CDial url dial servers b2 want udp_at tcp_at res intact =>
    list_eqb N.eqb udp_at [want] && intact &&
    if tc_of b2 then list_eqb N.eqb tcp_at udp_at && pair_eqb res (1, want)
    else list_eqb N.eqb tcp_at [] && pair_eqb res (0, want)
    (* delays well inside the caller's deadline (and the 6 s connection deadline):
       TC => the caller gets the TCP reply, however late the two replies are *)
  | CDelay d1 d2 deadline cid qn qseed b2 res =>
    let qbody := gen_bytes qn qseed in
    if (d1 + d2 + 5000 <? deadline) && (d2 <? 5000) then
      if tc_of b2 then is_rep res (raw_msg cid 132 128 1 (qbody ++ gen_bytes 4 cid))
      else is_rep res (raw_msg cid b2 128 0 qbody)
    else true
    (* B's caller gets the reply to B: B's id, B's question, the answer derived from B *)
  | CAbandon a b dl_a delay dl_b res_a res_b =>
    let '(cid, qn, qseed) := b in
    if delay + 2000 <? dl_b then is_rep res_b (raw_msg cid 132 128 1 (gen_bytes qn qseed ++ gen_bytes 4 cid))
    else true
    (* the TCP server answers on a new connection: with up to maxRetry + 1 dead
       idle connections in the way the caller still gets that answer; the server
       never sees anything but the caller's query *)
  | CStale k q p1_ok res new_conns seen_n seen_same =>
    let '(cid, qn, qseed) := q in
    p1_ok && seen_same &&
    if k <=? reuse_max_retry + 1 then
      is_rep res (raw_msg cid 132 128 1 (gen_bytes qn qseed ++ gen_bytes 4 cid)) && (new_conns =? 1)
    else true
    (* a reply to a re-sent datagram is a reply to the query: TC => the TCP
       answer, else that reply with the caller's id *)
  | CResend warm ignored q b2 dgrams res =>
    let '(cid, qn, qseed) := q in
    if tc_of b2 then is_rep res (raw_msg cid 132 128 1 (gen_bytes qn qseed ++ gen_bytes 4 cid))
    else is_rep res (raw_msg cid b2 128 0 (gen_bytes qn qseed))
    (* connections that died while idle do not count: for ANY k the caller gets
       the TCP answer, from one new connection *)
  | CDeadIdle k q p1_ok noticed res new_conns seen_n seen_same =>
    let '(cid, qn, qseed) := q in
    p1_ok && noticed && seen_same
    && is_rep res (raw_msg cid 132 128 1 (gen_bytes qn qseed ++ gen_bytes 4 cid)) && (new_conns =? 1)
  end.

(** ** non-trivial: TC set somewhere, a flag byte other than the plain
    0x80 / 0x81 forms, stray datagrams, a silent UDP server, or a length at
    which msgTruncated has no byte 2 / only just has one *)
Definition plain (b2 : N) : bool := (b2 =? 128) || (b2 =? 129).

Definition step_nontrivial (i : step_in) : bool :=
  let 'SIn _ _ _ _ pres u _ := i in
  nonempty pres ||
  match u with UReply b2 _ _ _ _ => tc_of b2 || negb (plain b2) | USilent => true end.

Definition nontrivial (c : case) : bool :=
  match c with
  | CTrunc n _ b2 _ => (n <? 4) || tc_of b2 || negb (plain b2)
  | CPack h _ _ => h_tc h || negb (plain (flags_hi h))
  | CSession _ steps => existsb (fun p => step_nontrivial (fst p)) steps
  | CDial _ dial _ b2 _ _ _ _ _ => nonempty dial || tc_of b2
  | CDelay d1 d2 _ _ _ _ b2 _ => tc_of b2 && (0 <? d1 + d2)
  | CAbandon a b _ _ _ _ _ => negb (pair_eqb (fst a) (fst b))
  | CStale k _ _ _ _ _ _ => 0 <? k
  | CResend _ ignored _ _ _ _ => 0 <? ignored
  | CDeadIdle k _ _ _ _ _ _ _ => 0 <? k
  end.
