(** C19 — case type and verdict functions evaluated by [bin/check] on the
    observations of the Go driver (harness/cmd/c19).

    The Section variables of Model/Dump.v are instantiated with small stand-ins
    that satisfy the contracts of Proofs/Dump.v: a message is the pair
    (message id, proto.Size of its entry) and packs to the two "bytes"
    [id; size]; a marshalled block is a payload of the OBSERVED byte length whose
    first byte names the block in a table ([junmarshal]); the decompressor's
    behaviour on the file is the one the driver measured with the same gzip
    library ([gobs]). Everything else — grouping into blocks, the 8-byte
    headers, the limit check, the read loop, expiry filtering, error classes,
    TTL ageing — is computed by the model functions the theorems are about. *)
From Verif Require Import Base.Prelude Gen.Constants Model.Dump.
Open Scope N_scope.

(** ** instantiation *)
Definition jM : Type := (N * N)%type.
Definition jpack (m : jM) : option bytes := Some [fst m; snd m].
Definition junpack (b : bytes) : option jM :=
  match b with [m; s] => Some (m, s) | _ => None end.
Definition jesz (e : entry) : N := nth 1 (e_msg e) 0.

(** payload standing for block number i (from 0) with L bytes *)
Definition jpayload (i L : N) : bytes :=
  if L =? 0 then [] else (i + 1) :: repeat 0 (N.to_nat (L - 1)).
(** a payload that does not decode *)
Definition jbad (n : N) : bytes := repeat 0 (N.to_nat n).
Definition junmarshal (tbl : list (list entry)) (p : bytes) : option (list entry) :=
  match p with
  | [] => Some []
  | i :: _ => if i =? 0 then None else nth (N.to_nat (i - 1)) (map Some tbl) None
  end.

Definition err_code (r : lres) : N :=
  match r with
  | LOk => 0
  | LErr EGzip => 1 | LErr EName => 2 | LErr EHdr => 3 | LErr EBig => 4
  | LErr EBody => 5 | LErr EDecode => 6 | LErr EMsg => 7 | LErr EFuel => 50
  end.

Definition ms : Z := 1000000%Z.

(** ** cases *)
(** a stored item: key id, message id, proto.Size of its entry; stored / message
    expiry / cache expiry in ms relative to the case's base second *)
Inductive ritem := RI (kid mid sz : N) (st me ce : Z).
(** an entry found in the real dump: ids and the three times in seconds (same base) *)
Inductive oentry := OE (kid mid : N) (ce me st : Z).
(** an item found in the second cache: ids and the three times in ns (same base) *)
Inductive litem := LI (kid mid : N) (st me ce : Z).

Inductive ekind := ELive | EExpired | EBadMsg.
(** description of a plaintext: a marshalled block of [blen] bytes holding runs
    of entries; a block of n bytes that does not decode; a bare header; n
    filler bytes (0xFF) *)
Inductive pseg :=
| PBlk (blen : N) (es : list (N * ekind))
| PBad (n : N)
| PHdr (u : N)
| PRaw (n : N).
(** what the gzip reader did on the file: failed to open, or delivered [plen]
    bytes and ended cleanly or not *)
Inductive gobs := GErr | GOpen (plen : N) (clean : bool).
Inductive fobs := FErr | FName | FOpen (clean : bool).

Inductive case :=
  (** items -> real writeDump -> real readDump into an empty cache.
      [sub]: ns added to every time; [nd], [nl]: a time (ms) within the dump and
      within the load; [name]: gzip header name found; [oblocks]: the blocks found
      in the dump; then what the load reported and what the second cache holds
      (in dump order). *)
| CRound (sub : Z) (items : list ritem) (nd nl : Z) (name : bytes)
         (oblocks : list (N * list oentry))
         (err : N) (en : option N) (loaded : list litem)
  (** a described plaintext, compressed (and possibly cut before or after
      compression) -> real readDump. [pfx_ok]: the gzip reader delivered exactly
      the first [plen] bytes of the described plaintext; [loaded]: index ranges
      [lo, hi) of the entries found in the cache afterwards; [content_ok]: each
      of them is byte-identical (key, message, times) to the described entry. *)
| CLoad (name : bytes) (segs : list pseg) (g : gobs) (pfx_ok : bool)
        (err : N) (en : option N) (loaded : list (N * N)) (content_ok : bool) (crash : N)
  (** a corrupted or arbitrary file *)
| CFuzz (g : fobs) (err : N) (crash : N)
  (** one question asked to the first cache and to the reloaded one.
      times in ns relative to the base second; [w1], [w2]: time just before and
      just after the first / second cache answered; answers' TTLs *)
| CServe (ttl : N) (st me ce : Z) (nd nl : Z) (w1 w2 : Z * Z)
         (served1 served2 : option N) (same_answer : bool).

(** ** CRound *)
Definition key_of (k : N) : bytes := [k].
Definition to_item (sub : Z) (r : ritem) : item jM :=
  match r with
  | RI k m s st me ce =>
    mkItem (key_of k) (m, s) (st * ms + sub)%Z (me * ms + sub)%Z (ce * ms + sub)%Z
  end.

Definition oentry_eqb (e : entry) (o : oentry) : bool :=
  match o with
  | OE k m ce me st =>
    bytes_eqb (e_key e) (key_of k) && (nth 0 (e_msg e) 0 =? m)
    && (e_cexp e =? ce)%Z && (e_mexp e =? me)%Z && (e_stored e =? st)%Z
  end.
Definition litem_eqb (it : item jM) (l : litem) : bool :=
  match l with
  | LI k m st me ce =>
    bytes_eqb (i_key it) (key_of k) && (fst (i_msg it) =? m)
    && (i_stored it =? st)%Z && (i_mexp it =? me)%Z && (i_cexp it =? ce)%Z
  end.

Fixpoint list_eqb2 {A B} (f : A -> B -> bool) (a : list A) (b : list B) : bool :=
  match a, b with
  | [], [] => true
  | x :: a', y :: b' => f x y && list_eqb2 f a' b'
  | _, _ => false
  end.

Fixpoint payloads_from (i : N) (lens : list N) : list bytes :=
  match lens with
  | [] => []
  | l :: t => jpayload i l :: payloads_from (i + 1) t
  end.

Definition en_ok (model : N) (obs : option N) : bool :=
  match obs with None => true | Some n => n =? model end.

Definition agree_round sub items nd nl name (oblocks : list (N * list oentry)) err en loaded : bool :=
  let c := map (to_item sub) items in
  let '(bs, ok) := dump jpack jesz (nd * ms)%Z c in
  ok
  (* the blocks found in the dump are the model's, entry for entry *)
  && list_eqb2 (fun b ob => list_eqb2 oentry_eqb b (snd ob)) bs oblocks
  (* size contract: marshalled length <= the writer's bound *)
  && list_eqb2 (fun b ob => fst ob <=? sum_sz jesz b) bs oblocks
  && (let p := plaintext (payloads_from 0 (map fst oblocks)) in
      let '(its, men, r) := read_gz junpack (junmarshal bs) (nl * ms)%Z (GzOpen name p true) in
      list_eqb2 litem_eqb its loaded && en_ok men en && (err_code r =? err)).

(** The property's oracle for a round trip, on the inputs and the second cache
    only: every item not expired at the dump and (to the second) at the load is
    there with its key, its answer and its three times cut to whole seconds;
    nothing else is; no error. *)
Definition floor_s (t : Z) : Z := (t / 1000000000 * 1000000000)%Z.

Fixpoint ins_l (x : litem) (l : list litem) : list litem :=
  match l with
  | [] => [x]
  | y :: t =>
    if (match x, y with LI a _ _ _ _, LI b _ _ _ _ => a <=? b end) then x :: l else y :: ins_l x t
  end.
Definition sort_l (l : list litem) : list litem := fold_right ins_l [] l.

Definition litem_same (a b : litem) : bool :=
  match a, b with
  | LI k m st me ce, LI k' m' st' me' ce' =>
    (k =? k') && (m =? m') && (st =? st')%Z && (me =? me')%Z && (ce =? ce')%Z
  end.

Definition expected_loaded (sub nd nl : Z) (items : list ritem) : list litem :=
  flat_map (fun r =>
    match r with
    | RI k m _ st me ce =>
      let ce' := (ce * ms + sub)%Z in
      if (ce' <? nd * ms)%Z then []
      else if (floor_s ce' <? nl * ms)%Z then []
      else [LI k m (floor_s (st * ms + sub)) (floor_s (me * ms + sub)) (floor_s ce')]
    end) items.

Definition spec_round sub items nd nl err loaded : bool :=
  (err =? 0)
  && list_eqb2 litem_same (sort_l (expected_loaded sub nd nl items)) (sort_l loaded).

(** ** CLoad *)
Definition kind_entry (j : N) (k : ekind) : entry :=
  match k with
  | ELive => mkEntry (key_of j) [1; 0] 1000 1000 (-10)
  | EExpired => mkEntry (key_of j) [1; 0] (-1000) 1000 (-10)
  | EBadMsg => mkEntry (key_of j) [] 1000 1000 (-10)
  end.

Fixpoint run_entries (j : N) (n : nat) (k : ekind) : list entry :=
  match n with
  | O => []
  | S n' => kind_entry j k :: run_entries (j + 1) n' k
  end.

Fixpoint runs_entries (j : N) (rs : list (N * ekind)) : list entry * N :=
  match rs with
  | [] => ([], j)
  | (n, k) :: t =>
    let '(r, j') := runs_entries (j + n) t in (run_entries j (N.to_nat n) k ++ r, j')
  end.

(** plaintext and block table described by the segments.
    [bi]: number of PBlk so far, [j]: entries so far *)
Fixpoint build (bi j : N) (segs : list pseg) : bytes * list (list entry) :=
  match segs with
  | [] => ([], [])
  | PBlk blen rs :: t =>
    let '(es, j') := runs_entries j rs in
    let '(p, tbl) := build (bi + 1) j' t in
    (enc_block (jpayload bi blen) ++ p, es :: tbl)
  | PBad n :: t => let '(p, tbl) := build bi j t in (enc_block (jbad n) ++ p, tbl)
  | PHdr u :: t => let '(p, tbl) := build bi j t in (u64be u ++ p, tbl)
  | PRaw n :: t => let '(p, tbl) := build bi j t in (repeat 255 (N.to_nat n) ++ p, tbl)
  end.

(** sorted index list -> ranges [lo, hi) *)
Fixpoint ranges_aux (cur : option (N * N)) (l : list N) : list (N * N) :=
  match l with
  | [] => match cur with Some r => [r] | None => [] end
  | x :: t =>
    match cur with
    | None => ranges_aux (Some (x, x + 1)) t
    | Some (lo, hi) =>
      if x =? hi then ranges_aux (Some (lo, hi + 1)) t
      else (lo, hi) :: ranges_aux (Some (x, x + 1)) t
    end
  end.
Definition ranges (l : list N) : list (N * N) := ranges_aux None l.

Definition pair_eqb (a b : N * N) : bool := (fst a =? fst b) && (snd a =? snd b).

Definition gz_of (name : bytes) (p : bytes) (g : gobs) : gz_result :=
  match g with
  | GErr => GzErr
  | GOpen plen clean => GzOpen name (firstn (N.to_nat plen) p) clean
  end.

Definition agree_load name segs g (pfx_ok : bool) err en loaded (content_ok : bool) (crash : N) : bool :=
  let '(p, tbl) := build 0 0 segs in
  let '(its, men, r) := read_gz junpack (junmarshal tbl) 0%Z (gz_of name p g) in
  pfx_ok && content_ok && (crash =? 0)
  && (match g with GErr => true | GOpen plen _ => plen <=? len p end)
  && list_eqb pair_eqb (ranges (map (fun it => hd 0 (i_key it)) its)) loaded
  && en_ok men en && (err_code r =? err).

(** The property's oracle for a (possibly damaged) file whose intended content
    is described by [segs]; independent of the block reader: lengths are plain
    sums. *)
Definition seg_len (s : pseg) : N :=
  match s with PBlk l _ => 8 + l | PBad n => 8 + n | PHdr _ => 8 | PRaw n => n end.
Definition total_len (segs : list pseg) : N := fold_right (fun s a => seg_len s + a) 0 segs.

(** a dump as the writer produces it: only decodable blocks of valid entries *)
Definition genuine (name : bytes) (segs : list pseg) : bool :=
  bytes_eqb name dump_header
  && forallb (fun s => match s with
                       | PBlk _ rs => forallb (fun r => match snd r with EBadMsg => false | _ => true end) rs
                       | _ => false
                       end) segs.

(** index ranges of the entries that are live (not expired, valid message) *)
Fixpoint live_idx (j : N) (rs : list (N * ekind)) : list N * N :=
  match rs with
  | [] => ([], j)
  | (n, k) :: t =>
    let '(r, j') := live_idx (j + n) t in
    ((match k with ELive => map (fun i => j + N.of_nat i) (seq 0 (N.to_nat n)) | _ => [] end) ++ r, j')
  end.
Fixpoint live_all (j : N) (segs : list pseg) : list N :=
  match segs with
  | [] => []
  | PBlk _ rs :: t => let '(l, j') := live_idx j rs in l ++ live_all j' t
  | _ :: t => live_all j t
  end.

Definition range_in (live : list N) (r : N * N) : bool :=
  forallb (fun i => existsb (N.eqb i) live)
          (map (fun i => fst r + N.of_nat i) (seq 0 (N.to_nat (snd r - fst r)))).

Definition spec_load name segs g err loaded (content_ok : bool) (crash : N) : bool :=
  let live := live_all 0 segs in
  (crash =? 0)
  (* never an entry the described content does not hold *)
  && content_ok && forallb (range_in live) loaded
  && (if genuine name segs then
        match g with
        | GErr => negb (err =? 0)                       (* cut inside the gzip header *)
        | GOpen _ false => negb (err =? 0)              (* truncated copy *)
        | GOpen plen true =>
          if plen =? total_len segs
          then (err =? 0) && list_eqb pair_eqb (ranges live) loaded   (* intact *)
          else true
        end
      else true).

(** ** CFuzz *)
Definition agree_fuzz (g : fobs) (err : N) : bool :=
  match g with
  | FErr => err =? err_code (snd (read_gz junpack (junmarshal []) 0%Z GzErr))
  | FName => err =? err_code (snd (read_gz junpack (junmarshal []) 0%Z (GzOpen [] [] true)))
  | FOpen false => (3 <=? err) && (err <=? 7)     (* Proofs.Dump.unclean_is_error *)
  | FOpen true => (err =? 0) || ((3 <=? err) && (err <=? 7))
  end.

(** ** CServe *)
Definition served_model (ttl : N) (it : item jM) (t : Z) : option N :=
  match serve false t [it] (i_key it) with
  | Some (_, Some d) => Some (sub_ttl ttl d)
  | Some (_, None) => Some cache_expired_msg_ttl
  | None => None
  end.

Definition opt_eqb (a b : option N) : bool := option_eqb N.eqb a b.

(** the answer's TTL lies between the model's at the end and at the start of
    the observation window (equal to one of them when either is a miss) *)
Definition in_window (obs a b : option N) : bool :=
  match obs, a, b with
  | Some v, Some x, Some y => (y <=? v) && (v <=? x)
  | _, _, _ => opt_eqb obs a || opt_eqb obs b
  end.

Definition agree_serve ttl st me ce (nd nl : Z) (w1 w2 : Z * Z) served1 served2 (same : bool) : bool :=
  let it := mkItem (key_of 0) (1, 0) st me ce in
  let c2 := if survives nd nl it then Some (reload_item it) else None in
  same
  && in_window served1 (served_model ttl it (fst w1)) (served_model ttl it (snd w1))
  && match c2 with
     | Some it' => in_window served2 (served_model ttl it' (fst w2)) (served_model ttl it' (snd w2))
     | None => opt_eqb served2 None
     end.

(** The property's oracle: when the item is fresh for the whole observation
    (one second of slack before both expiries), the reloaded cache answers, and
    the remaining TTL is the original TTL minus the age in whole seconds, or
    one less — computed from the ORIGINAL stored time. *)
Definition spec_serve ttl st me ce (w2 : Z * Z) (served2 : option N) (same : bool) : bool :=
  let s := 1000000000%Z in
  if ((snd w2 + s <? me) && (snd w2 + s <? ce) && (st <=? fst w2))%Z then
    match served2 with
    | Some v =>
      same
      && (let hi := (Z.of_N ttl - (fst w2 - st) / s)%Z in
          let lo := (Z.of_N ttl - (snd w2 - st) / s - 1)%Z in
          (Z.max 1 lo <=? Z.of_N v)%Z && (Z.of_N v <=? Z.max 1 hi)%Z)
    | None => false
    end
  else true.

(** ** verdicts *)
Definition agree (c : case) : bool :=
  match c with
  | CRound sub items nd nl name oblocks err en loaded =>
    agree_round sub items nd nl name oblocks err en loaded
  | CLoad name segs g pfx_ok err en loaded content_ok crash =>
    agree_load name segs g pfx_ok err en loaded content_ok crash
  | CFuzz g err crash => agree_fuzz g err && (crash =? 0)
  | CServe ttl st me ce nd nl w1 w2 s1 s2 same => agree_serve ttl st me ce nd nl w1 w2 s1 s2 same
  end.

Definition spec (c : case) : bool :=
  match c with
  | CRound sub items nd nl _ _ err _ loaded => spec_round sub items nd nl err loaded
  | CLoad name segs g _ err _ loaded content_ok crash => spec_load name segs g err loaded content_ok crash
  | CFuzz _ _ crash => crash =? 0
  | CServe ttl st me ce _ _ _ w2 _ s2 same => spec_serve ttl st me ce w2 s2 same
  end.

Definition nontrivial (c : case) : bool :=
  match c with
  | CRound _ items _ _ _ oblocks _ _ loaded =>
    negb (length loaded =? 0)%nat || (1 <? N.of_nat (length oblocks))
    || negb (length items =? length loaded)%nat
  | CLoad _ segs g _ _ _ _ _ _ =>
    (1 <? N.of_nat (length segs))
    || match g with GOpen plen true => negb (plen =? total_len segs) | _ => true end
  | CFuzz _ _ _ => true
  | CServe _ _ _ _ _ _ _ _ _ s2 _ => match s2 with Some _ => true | None => false end
  end.
