(** C11 — case type and verdict functions evaluated by [bin/check] on the observations of
    the Go driver (harness/cmd/c11). *)
From Verif Require Import Base.Prelude Gen.Constants.
From Verif Require Export Model.CacheStore.
Open Scope N_scope.

(** the driver's key type: Sum() returns the key itself, so shard = key mod 64 *)
Definition hash (k : key) : N := k.

(** Times are seconds relative to the wall clock at the start of the case; every Store
    expiry is at least an hour away from it, so the clock reading of Get/Store is 0.
    gc is called with an explicit time (VerifGC) and may hit an expiry exactly. *)
(** Steps of a fill script: store the [n] fresh keys from, from+1, ... (value = key, expiry
    +3600), Flush, a sweep at [now], Close (stops the cleaner only), observe Len. *)
Inductive fstep := FStores (from n : N) | FFlush | FGc (now : Z) | FClose | FLen.

Inductive case :=
  (** one goroutine: operations, the keys each Store was observed to evict (Range before and
      after), and the result of every operation (Range sorted by key) *)
| CSeq (size : Z) (ops : list (op * list key)) (obs : list result)
  (** the same with an explicit clock reading per operation (the driver sleeps; each reading
      is at least four seconds away from every expiry) *)
| CSeqT (size : Z) (ops : list (op * Z * list key)) (obs : list result)
  (** several goroutines: the invocation/response history ordered by a global atomic counter *)
| CConc (size : Z) (h : list label)
  (** keys 0..n-1 stored one after the other (value = key, expiry +3600): observed Len *)
| CFill (size : Z) (n : N) (lenobs : N)
  (** fills beyond the capacity interleaved with Flush / gc / Close at arbitrary points; every
      key is stored at most once, so Len does not depend on the eviction choices *)
| CFillSeq (size : Z) (script : list fstep) (lens : list N)
  (** goroutines storing distinct keys while another samples Len: the largest sample *)
| CLenMax (size : Z) (maxlen : N)
  (** pkg/concurrent_lru.ShardedLRU (over ConcurrentLRU over lru.LRU), one goroutine: the result
      of every operation and the (key, value) pairs handed to onEvict during it, in order *)
| CLru (shards maxper : N) (ops : list lop) (obs : list (lres * list (key * val))).

(** * agree: the model allows the observation *)
Fixpoint index_of (k : key) (m : shard) : nat :=
  match m with
  | [] => O
  | (k', _) :: t => if k' =? k then O else S (index_of k t)
  end.
Fixpoint choices (m : shard) (evs : list key) : list nat :=
  match evs with
  | [] => []
  | k :: t => let i := index_of k m in i :: choices (remove_nth i m) t
  end.
Definition has_key (m : shard) (k : key) : bool := existsb (fun kx => fst kx =? k) m.
(** how many entries the model's [set] evicts (independent of which) *)
Definition evictions (c : cache) (k : key) : nat :=
  let m := c_sh c (ix hash k) in
  if ((0 <? c_max c) && (c_max c <? Z.of_nat (length m) + 1))%Z
  then length m - length (evict (length m) (c_max c) [] m) else O.

Fixpoint ins3 (x : key * val * Z) (l : list (key * val * Z)) :=
  match l with
  | [] => [x]
  | y :: t => if fst (fst x) <=? fst (fst y) then x :: l else y :: ins3 x t
  end.
Definition canon (r : result) : result :=
  match r with RRange l => RRange (fold_right ins3 [] l) | _ => r end.

Definition at0 (ops : list (op * list key)) : list (op * Z * list key) :=
  map (fun x => (fst x, 0%Z, snd x)) ops.

Fixpoint seq_agree (c : cache) (ops : list (op * Z * list key)) (obs : list result) : bool :=
  match ops, obs with
  | [], [] => true
  | (o, now, evs) :: ops', r :: obs' =>
    let m := match o with OStore k _ _ => c_sh c (ix hash k) | _ => [] end in
    (* an eviction that hit the stored key itself is invisible to the driver *)
    let evs' := match o with
                | OStore k _ e =>
                  if (now <=? e)%Z && Nat.ltb (length evs) (evictions c k) && has_key m k
                  then evs ++ [k] else evs
                | _ => evs end in
    let ok_ev := match o with
                 | OStore k _ e =>
                   if (e <? now)%Z then Nat.eqb (length evs) 0
                   else Nat.eqb (length evs') (evictions c k) && forallb (has_key m) evs'
                 | _ => Nat.eqb (length evs) 0 end in
    let '(c', r') := exec hash c now (choices m evs') o in
    ok_ev && result_eqb (canon r') r && seq_agree c' ops' obs'
  | _, _ => false
  end.

(** pairing of invocations and responses; None = not a well-formed history *)
Definition iop := (nat * op * nat * nat * result)%type.      (* thread, op, inv, res, result *)
Fixpoint lookup_t (t : nat) (pend : list (nat * (nat * op))) : option (nat * op) :=
  match pend with
  | [] => None
  | (t', x) :: r => if Nat.eqb t' t then Some x else lookup_t t r
  end.
Fixpoint pair_ops (i : nat) (ls : list label) (pend : list (nat * (nat * op))) (acc : list iop)
  : option (list iop * list (nat * (nat * op))) :=
  match ls with
  | [] => Some (rev acc, pend)
  | Inv t o :: r =>
    match lookup_t t pend with
    | Some _ => None
    | None => pair_ops (S i) r ((t, (i, o)) :: pend) acc
    end
  | Res t x :: r =>
    match lookup_t t pend with
    | Some (p, o) =>
      pair_ops (S i) r (filter (fun y => negb (Nat.eqb (fst y) t)) pend) ((t, o, p, i, x) :: acc)
    | None => None
    end
  | _ :: r => pair_ops (S i) r pend acc
  end.

Definition fill_ops (from n : N) : list sop :=
  map (fun j => (OStore (from + N.of_nat j) (from + N.of_nat j) 3600%Z, 0%Z, @nil nat)) (seq 0 (N.to_nat n)).
Fixpoint fill_run (c : cache) (script : list fstep) : list N :=
  match script with
  | [] => []
  | FStores from n :: t => fill_run (fst (run hash c (fill_ops from n))) t
  | FFlush :: t => fill_run (fst (exec hash c 0%Z [] OFlush)) t
  | FGc now :: t => fill_run (fst (exec hash c 0%Z [] (OGc now))) t
  | FClose :: t => fill_run c t
  | FLen :: t => c_len c :: fill_run c t
  end.

Definition kv_eqb (a b : key * val) : bool := (fst a =? fst b) && (snd a =? snd b).
Definition lres_eqb (a b : lres * list (key * val)) : bool :=
  match fst a, fst b with
  | LRGet None, LRGet None => true
  | LRGet (Some v), LRGet (Some v') => v =? v'
  | LRUnit, LRUnit => true
  | LRNum n, LRNum n' => n =? n'
  | _, _ => false
  end && list_eqb kv_eqb (snd a) (snd b).

Definition agree (c : case) : bool :=
  match c with
  | CSeq size ops obs => seq_agree (new size) (at0 ops) obs
  | CSeqT size ops obs => seq_agree (new size) ops obs
  | CConc size h =>
    match pair_ops O h [] [] with
    | Some _ => history_ok_b h && lens_ok_b size h
    | None => false
    end
  | CFill size n lenobs =>
    let ops := map (fun j => (OStore (N.of_nat j) (N.of_nat j) 3600%Z, 0%Z, @nil nat)) (seq 0 (N.to_nat n)) in
    c_len (fst (run hash (new size) ops)) =? lenobs
  | CFillSeq size script lens => list_eqb N.eqb (fill_run (new size) script) lens
  | CLenMax size maxlen => (Z.of_N maxlen <=? capacity size)%Z
  | CLru shards maxper ops obs =>
    list_eqb lres_eqb (snd (lrun_ops hash (slru_new shards maxper) ops)) obs
  end.

(** * spec: the property's own oracle on the observation, without shards, capacity-driven
    eviction or the transition system *)
Definition cap_spec (size : Z) : Z := (64 * (Z.max size 1024 / 64))%Z.

Definition amap := list (key * (val * Z)).
Fixpoint aget (k : key) (a : amap) : option (val * Z) :=
  match a with [] => None | (k', x) :: t => if k' =? k then Some x else aget k t end.
Definition adel (k : key) (a : amap) : amap := filter (fun kx => negb (fst kx =? k)) a.

Fixpoint nodup_keys (l : list (key * val * Z)) : bool :=
  match l with
  | [] => true
  | x :: t => negb (existsb (fun y => fst (fst y) =? fst (fst x)) t) && nodup_keys t
  end.

Fixpoint seq_spec (cap : Z) (a : amap) (ops : list (op * Z * list key)) (obs : list result) : bool :=
  match ops, obs with
  | [], [] => true
  | (o, now, _) :: ops', r :: obs' =>
    match o, r with
    | OGet k, RGet None =>
      (* nothing is always allowed; an expired element is dropped by the lookup *)
      let a' := match aget k a with Some (_, e) => if (e <? now)%Z then adel k a else a | None => a end in
      seq_spec cap a' ops' obs'
    | OGet k, RGet (Some (v, e)) =>
      match aget k a with
      | Some (v', e') => (v' =? v) && (e' =? e)%Z && (now <=? e)%Z && seq_spec cap a ops' obs'
      | None => false
      end
    | OStore k v e, RUnit =>
      seq_spec cap (if (e <? now)%Z then a else (k, (v, e)) :: adel k a) ops' obs'
    | OFlush, RUnit => seq_spec cap [] ops' obs'
    | OLen, RLen n =>
      (Z.of_N n <=? cap)%Z && (n <=? N.of_nat (length a)) && seq_spec cap a ops' obs'
    | ORange, RRange l =>
      (Z.of_nat (length l) <=? cap)%Z && nodup_keys l
      && forallb (fun x => match aget (fst (fst x)) a with
                           | Some (v, e) => (v =? snd (fst x)) && (e =? snd x)%Z
                           | None => false end) l
      && seq_spec cap a ops' obs'
    | OGc now', RUnit =>
      seq_spec cap (filter (fun kx => negb (snd (snd kx) <? now')%Z) a) ops' obs'
    | _, _ => false
    end
  | _, _ => false
  end.

Definition overw (k : key) (w : iop) : bool :=
  let '(_, o, _, _, _) := w in
  match o with
  | OStore k' _ e' => (k' =? k) && (0 <=? e')%Z
  | OFlush => true
  | _ => false
  end.

Definition conc_spec (cap : Z) (h : list label) : bool :=
  match pair_ops O h [] [] with
  | None => false
  | Some (done, pend) =>
    let inf := S (length h) in
    let stores := done ++ map (fun x => (fst x, snd (snd x), fst (snd x), inf, RUnit)) pend in
    forallb (fun g =>
      let '(_, o, pg, qg, r) := g in
      match o, r with
      | OGet k, RGet (Some (v, e)) =>
        (0 <=? e)%Z &&
        existsb (fun s =>
          let '(_, os, ps, qs, _) := s in
          match os with
          | OStore k' v' e' =>
            (k' =? k) &&& (v' =? v) &&& (e' =? e)%Z &&& Nat.ltb ps qg &&&
            negb (existsb (fun w =>
                    let '(_, _, pw, qw, _) := w in
                    Nat.ltb qw pg &&& Nat.ltb qs pw &&& overw k w) done)
          | _ => false
          end) stores
      | OGet _, RGet None => true
      | OLen, RLen n => (Z.of_N n <=? cap)%Z
      | ORange, RRange l => (Z.of_nat (length l) <=? cap)%Z && nodup_keys l
      | OStore _ _ _, RUnit | OFlush, RUnit | OGc _, RUnit => true
      | _, _ => false
      end) done
  end.

(** Len is never above the capacity, whatever preceded, nor above the number of keys stored
    since the last Flush; one observation per FLen *)
Fixpoint fill_spec (cap : Z) (live : N) (script : list fstep) (lens : list N) : bool :=
  match script, lens with
  | [], [] => true
  | FStores _ n :: t, _ => fill_spec cap (live + n) t lens
  | FFlush :: t, _ => fill_spec cap 0 t lens
  | FGc _ :: t, _ | FClose :: t, _ => fill_spec cap live t lens
  | FLen :: t, l :: lens' => (Z.of_N l <=? cap)%Z && (l <=? live) && fill_spec cap live t lens'
  | _, _ => false
  end.

(** LRU: a Get returns the value of the latest Add under that key (not deleted, cleaned,
    flushed or reported evicted since), every pair handed to onEvict carries the current value
    of its key, Len is within shards * maxper. The map [a] follows the OBSERVED evictions. *)
Definition lset (k : key) (v : val) (a : list (key * val)) := (k, v) :: filter (fun kx => negb (fst kx =? k)) a.
Fixpoint lru_spec (cap : N) (a : list (key * val)) (ops : list lop) (obs : list (lres * list (key * val))) : bool :=
  match ops, obs with
  | [], [] => true
  | o :: ops', (r, ev) :: obs' =>
    let ev_ok := forallb (fun kv => match lfind (fst kv) a with Some v => v =? snd kv | None => false end) ev in
    let drop (b : list (key * val)) := filter (fun kx => negb (existsb (fun e => fst e =? fst kx) ev)) b in
    ev_ok &&
    match o, r with
    | LAdd k v, LRUnit => negb (existsb (fun e => fst e =? k) ev) && lru_spec cap (lset k v (drop a)) ops' obs'
    | LGet k, LRGet None => Nat.eqb (length ev) 0 && lru_spec cap a ops' obs'
    | LGet k, LRGet (Some v) =>
      Nat.eqb (length ev) 0 &&
      match lfind k a with Some v' => (v' =? v) && lru_spec cap a ops' obs' | None => false end
    | LDel k, LRUnit => forallb (fun e => fst e =? k) ev && lru_spec cap (filter (fun kx => negb (fst kx =? k)) a) ops' obs'
    | LClean m r', LRNum n =>
      (n =? N.of_nat (length ev)) && forallb (fun e => (fst e + snd e) mod m =? r') ev
      && lru_spec cap (drop a) ops' obs'
    | LLen, LRNum n => (n <=? cap) && (n <=? N.of_nat (length a)) && Nat.eqb (length ev) 0 && lru_spec cap a ops' obs'
    | LFlush, LRUnit => Nat.eqb (length ev) 0 && lru_spec cap [] ops' obs'
    | _, _ => false
    end
  | _, _ => false
  end.

Definition spec (c : case) : bool :=
  match c with
  | CSeq size ops obs => seq_spec (cap_spec size) [] (at0 ops) obs
  | CSeqT size ops obs => seq_spec (cap_spec size) [] ops obs
  | CConc size h => conc_spec (cap_spec size) h
  | CFill size n lenobs => (Z.of_N lenobs <=? cap_spec size)%Z && (lenobs <=? n)
  | CFillSeq size script lens => fill_spec (cap_spec size) 0 script lens
  | CLenMax size maxlen => (Z.of_N maxlen <=? cap_spec size)%Z
  | CLru shards maxper ops obs => lru_spec (shards * maxper) [] ops obs
  end.

(** * nontrivial: a size below the minimum or not a multiple of 64, an eviction, or (for
    histories) two calls of different goroutines on the same key that overlap in time *)
Definition odd_size (size : Z) : bool := (size <? 1024)%Z || negb (size mod 64 =? 0)%Z.
Definition op_key (o : op) : option key :=
  match o with OGet k => Some k | OStore k _ _ => Some k | _ => None end.
Definition overlap (a b : iop) : bool :=
  let '(ta, oa, pa, qa, _) := a in
  let '(tb, ob, pb, qb, _) := b in
  negb (Nat.eqb ta tb) &&& Nat.ltb pa qb &&& Nat.ltb pb qa &&&
  match op_key oa, op_key ob with
  | Some ka, Some kb => ka =? kb
  | _, _ => false
  end.
Definition nontrivial (c : case) : bool :=
  match c with
  | CSeq size ops _ => odd_size size || existsb (fun x => negb (Nat.eqb (length (snd x)) 0)) ops
  | CSeqT _ _ _ => true
  | CConc size h =>
    odd_size size ||
    match pair_ops O h [] [] with
    | Some (done, _) => existsb (fun a => existsb (overlap a) done) done
    | None => false
    end
  | CFill size n _ => odd_size size || (cap_spec size <? Z.of_N n)%Z
  | CFillSeq size script _ =>
    existsb (fun x => match x with FFlush | FGc _ | FClose => true | _ => false end) script
  | CLenMax size _ => true
  | CLru _ _ ops obs =>
    (* an overwrite of a present key, or an eviction *)
    existsb (fun x => negb (Nat.eqb (length (snd x)) 0)) obs
    || existsb (fun o => match o with
                         | LAdd k _ => Nat.ltb 1 (length (filter (fun o' => match o' with LAdd k' _ => k' =? k | _ => false end) ops))
                         | _ => false end) ops
  end.
