(** C04 — case type and verdict functions evaluated by [bin/check] on the
    observations of the Go driver (harness/cmd/c04). *)
From Verif Require Import Base.Prelude Gen.Constants.
From Verif Require Export Model.CacheKey.
Open Scope N_scope.

(** * Input descriptions *)

(** A name: [gen_bytes n seed ++ suffix] (short names are all suffix). *)
Inductive nm := Nm (n seed : N) (suffix : bytes).
Definition nm_bytes (x : nm) : bytes := match x with Nm n s suf => gen_bytes n s ++ suf end.

(** A message as handed to getMsgKey / as [qCtx.Q()] presents it to Cache.Exec:
    QR, opcode, AD, CD, questions (name, type, class), additional section. *)
Inductive qd := Q (qr : bool) (opcode : N) (ad cd : bool) (qs : list (nm * N * N)) (extra : list extra_rr).

Definition qd_msg (d : qd) : qmsg :=
  match d with
  | Q qr op ad cd qs ex =>
    mkq qr op ad cd (map (fun x => mkqu (nm_bytes (fst (fst x))) (snd (fst x)) (snd x)) qs) ex
  end.

(** An observed key: absent (""), the raw bytes, or for long keys the first six
    bytes, the total length and the checksum of the whole key. *)
Inductive kobs := KNone | KRaw (b : bytes) | KSum (head : bytes) (n ck : N).

(** One step of a history run on one Cache instance.
    [HQ q kind replace]: Cache.Exec on [q]; the rest of the chain, when it finds
    no response (or [replace] is set), leaves the response [resp_of kind]:
      0 none; 1 a good answer; 2 a truncated answer; 3 an answer whose question
      has another name; 4 ... another type; 5 ... another class; 6 an answer
      without question section.
    [HFlush]: GET /flush on the plugin's API. *)
Inductive hop := HQ (q : qd) (kind : N) (replace : bool) | HFlush.

Inductive case :=
  (** VerifGetMsgKey on two messages; [eq]: the two Go strings are equal *)
| CKeys (q1 q2 : qd) (k1 k2 : kobs) (eq : bool)
  (** fresh Cache, Exec q1 (good answer), Exec q2: [hit12] = the second execution
      was answered from the cache; [hit21] likewise in the other order *)
| CPair (q1 q2 : qd) (hit12 hit21 : bool)
  (** a history on one Cache; per step [Some i] when the step was served the
      answer created in step [i], [None] otherwise *)
| CHist (ops : list hop) (obs : list (option N))
  (** query_context.NewContext on a client message: the additional section of
      [Q()] afterwards, and the key of [Q()] *)
| CCtx (client : qd) (seen : list extra_rr) (k : kobs)
  (** implementation-side sweep of one component over [total] values around
      [base]: number of distinct keys, and the checksum over the concatenated
      keys of the [cnt] values [start, start+step, ...] *)
| CSweep (dim : N) (base : qd) (total distinct : N) (start step cnt ck : N).

(** * Model side *)

Definition kobs_ok (model : option bytes) (o : kobs) : bool :=
  match model, o with
  | None, KNone => true
  | Some k, KRaw b => list_eqb N.eqb k b
  | Some k, KSum h n ck => list_eqb N.eqb (firstn key_prefix_len k) h && (len k =? n) && (checksum k =? ck)
  | _, _ => false
  end.

Definition add1_16 (x : N) : N := (x + 1) mod 65536.

Definition resp_of (kind : N) (q : qmsg) (i : N) : option resp :=
  match kind with
  | 0 => None
  | 1 => Some (mkr (q_question q) true i)
  | 2 => Some (mkr (q_question q) false i)
  | 3 => Some (mkr (map (fun u => mkqu (qname u ++ [120]) (qtype u) (qclass u)) (q_question q)) true i)
  | 4 => Some (mkr (map (fun u => mkqu (qname u) (add1_16 (qtype u)) (qclass u)) (q_question q)) true i)
  | 5 => Some (mkr (map (fun u => mkqu (qname u) (qtype u) (add1_16 (qclass u))) (q_question q)) true i)
  | _ => Some (mkr [] true i)
  end.

Fixpoint hops_ops (i : N) (l : list hop) : list op :=
  match l with
  | [] => []
  | HQ d kind replace :: t =>
    let q := qd_msg d in
    let r := resp_of kind q i in
    Query q r (if replace then r else None) :: hops_ops (i + 1) t
  | HFlush :: t => Flush :: hops_ops (i + 1) t
  end.

Definition outcome_obs (o : outcome) : option N :=
  match o with Hit v => Some (r_id v) | _ => None end.

Definition optN_eqb := option_eqb N.eqb.

(** Swept queries: component [dim] of [base] replaced by the value [i]. *)
Definition sweep_q (dim : N) (base : qd) (i : N) : qd :=
  match base with
  | Q qr op ad cd qs ex =>
    match qs with
    | (n, t, c) :: _ =>
      match dim with
      | 0 => Q qr op ad cd [(n, i, c)] ex
      | 1 => Q qr op ad cd [(n, t, i)] ex
      | 2 => Q qr op (N.testbit i 0) (N.testbit i 1) [(n, t, c)]
               [XOpt (if N.testbit i 2 then 32768 else 0)]
      | _ => Q qr op ad cd [(Nm 0 0 (repeat 97 (N.to_nat i + 1)), t, c)] ex
      end
    | [] => base
    end
  end.

Fixpoint sweep_keys (fuel : nat) (dim : N) (base : qd) (i step : N) : bytes :=
  match fuel with
  | O => []
  | S f => get_msg_key (qd_msg (sweep_q dim base i)) ++ sweep_keys f dim base (i + step) step
  end.

Definition agree (c : case) : bool :=
  match c with
  | CKeys d1 d2 k1 k2 eq =>
    let q1 := qd_msg d1 in let q2 := qd_msg d2 in
    kobs_ok (msg_key q1) k1 && kobs_ok (msg_key q2) k2
    && Bool.eqb eq (list_eqb N.eqb (get_msg_key q1) (get_msg_key q2))
  | CPair d1 d2 hit12 hit21 =>
    let q1 := qd_msg d1 in let q2 := qd_msg d2 in
    let r1 := resp_of 1 q1 0 in let r2 := resp_of 1 q2 0 in
    let m12 := served [Query q1 r1 None] q2 in
    let m21 := served [Query q2 r2 None] q1 in
    Bool.eqb hit12 (match m12 with Hit _ => true | _ => false end)
    && Bool.eqb hit21 (match m21 with Hit _ => true | _ => false end)
  | CHist ops obs =>
    list_eqb optN_eqb (map outcome_obs (snd (run (hops_ops 0 ops)))) obs
  | CCtx d seen k =>
    let q := qd_msg d in
    list_eqb (fun a b => match a, b with
                         | XOpt x, XOpt y => x =? y
                         | XOther, XOther => true
                         | _, _ => false
                         end) (q_extra (ctx_query q)) seen
    && kobs_ok (msg_key (ctx_query q)) k
  | CSweep dim base total distinct start step cnt ck =>
    (* pairwise different queries have pairwise different keys (key_injective) *)
    (distinct =? total)
    && (checksum (sweep_keys (N.to_nat cnt) dim base start step) =? ck)
  end.

(** * The property's own oracle, written without the key *)

Definition cacheable (q : qmsg) : bool :=
  negb (q_qr q) && (q_opcode q =? 0) && (length (q_question q) =? 1)%nat.

(** DO as the last OPT of the additional section carries it (bit 15 of the TTL field). *)
Definition do_flag (q : qmsg) : bool :=
  fold_left (fun acc x => match x with XOpt t => N.testbit t 15 | XOther => acc end) (q_extra q) false.

Definition same_qf_b (q1 q2 : qmsg) : bool :=
  match q_question q1, q_question q2 with
  | [a], [b] =>
    bytes_eqb (qname a) (qname b) && (qtype a =? qtype b) && (qclass a =? qclass b)
    && Bool.eqb (q_ad q1) (q_ad q2) && Bool.eqb (q_cd q1) (q_cd q2)
    && Bool.eqb (do_flag q1) (do_flag q2)
  | _, _ => false
  end.

Definition is_knone (k : kobs) : bool := match k with KNone => true | _ => false end.

Definition hop_q (o : hop) : option qmsg :=
  match o with HQ d _ _ => Some (qd_msg d) | HFlush => None end.

(** Every served answer was created by an earlier step whose query has the same
    question and flags as the one it is served to. *)
Fixpoint hist_sound (ops : list hop) (i : nat) (rest : list hop) (obs : list (option N)) : bool :=
  match rest, obs with
  | [], [] => true
  | o :: rest', ob :: obs' =>
    (match ob with
     | None => true
     | Some p =>
       (N.to_nat p <? i)%nat &&
       match hop_q o, nth_error ops (N.to_nat p) with
       | Some q, Some (HQ dp _ _) =>
         cacheable q && cacheable (qd_msg dp) && same_qf_b (qd_msg dp) q
       | _, _ => false
       end
     end) && hist_sound ops (S i) rest' obs'
  | _, _ => false
  end.

Definition spec (c : case) : bool :=
  match c with
  | CKeys d1 d2 k1 k2 eq =>
    let q1 := qd_msg d1 in let q2 := qd_msg d2 in
    Bool.eqb (is_knone k1) (negb (cacheable q1)) && Bool.eqb (is_knone k2) (negb (cacheable q2))
    && (if cacheable q1 && cacheable q2 then Bool.eqb eq (same_qf_b q1 q2) else true)
  | CPair d1 d2 hit12 hit21 =>
    let q1 := qd_msg d1 in let q2 := qd_msg d2 in
    let want := cacheable q1 && cacheable q2 && same_qf_b q1 q2 in
    Bool.eqb hit12 want && Bool.eqb hit21 want
  | CHist ops obs => hist_sound ops 0 ops obs
  | CCtx d seen k => Bool.eqb (is_knone k) (negb (cacheable (qd_msg d)))
  | CSweep dim base total distinct start step cnt ck => distinct =? total
  end.

(** * Non-triviality *)

(** Number of components (name, type, class, AD, CD, DO) in which two
    single-question messages differ. *)
Definition b2n (b : bool) : N := if b then 1 else 0.
Definition diff_count (q1 q2 : qmsg) : N :=
  match q_question q1, q_question q2 with
  | [a], [b] =>
    b2n (negb (bytes_eqb (qname a) (qname b))) + b2n (negb (qtype a =? qtype b))
    + b2n (negb (qclass a =? qclass b)) + b2n (negb (Bool.eqb (q_ad q1) (q_ad q2)))
    + b2n (negb (Bool.eqb (q_cd q1) (q_cd q2))) + b2n (negb (Bool.eqb (do_flag q1) (do_flag q2)))
  | _, _ => 0
  end.

Definition one_apart (d1 d2 : qd) : bool :=
  let q1 := qd_msg d1 in let q2 := qd_msg d2 in
  cacheable q1 && cacheable q2 && (diff_count q1 q2 =? 1).

Definition is_some {A} (o : option A) : bool := match o with Some _ => true | None => false end.

Definition nontrivial (c : case) : bool :=
  match c with
  | CKeys d1 d2 _ _ _ => one_apart d1 d2
  | CPair d1 d2 _ _ => one_apart d1 d2
  | CHist ops obs =>
    existsb is_some obs
    && (2 <=? N.of_nat (length (filter (fun p => match fst p, snd p with
                                                   | HQ d _ _, None => cacheable (qd_msg d)
                                                   | _, _ => false
                                                   end) (combine ops obs))))
  | CCtx d _ _ => existsb (fun x => match x with XOpt t => N.testbit t 15 | XOther => false end)
                          (q_extra (qd_msg d))
  | CSweep _ _ _ _ _ _ _ _ => true
  end.
