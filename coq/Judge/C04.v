(** C04 — case type and verdict functions evaluated by [bin/check] on the
    observations of the Go driver (harness/cmd/c04). *)
From Verif Require Import Base.Prelude Gen.Constants.
From Verif Require Export Model.CacheKey.
Open Scope N_scope.

(** * Input descriptions *)

(** A name: [gen_bytes n seed ++ suffix] (short names are all suffix). *)
Inductive nm := Nm (n seed : N) (suffix : bytes).
Definition nm_bytes (x : nm) : bytes := match x with Nm n s suf => gen_bytes n s ++ suf end.

(** A message as handed to getMsgKey / as [qCtx.Q()] presents it to Cache.Exec:
    QR, opcode, AD, CD, questions (name, type, class), additional section. *)
Inductive qd := Q (qr : bool) (opcode : N) (ad cd : bool) (qs : list (nm * N * N)) (extra : list extra_rr).

Definition qd_msg (d : qd) : qmsg :=
  match d with
  | Q qr op ad cd qs ex =>
    mkq qr op ad cd (map (fun x => mkqu (nm_bytes (fst (fst x))) (snd (fst x)) (snd x)) qs) ex
  end.

(** An observed key: absent (""), the raw bytes, or for long keys the first six
    bytes, the total length and the checksum of the whole key. *)
Inductive kobs := KNone | KRaw (b : bytes) | KSum (head : bytes) (n ck : N).

(** One step of a history run on one Cache instance.
    [HQ q kind replace]: Cache.Exec on [q]; the rest of the chain, when it finds
    no response (or [replace] is set), leaves the response [resp_of kind]:
      0 none; 1 a good answer; 2 a truncated answer; 3 an answer whose question
      has another name; 4 ... another type; 5 ... another class; 6 an answer
      without question section.
    [HFlush]: GET /flush on the plugin's API. *)
Inductive hop := HQ (q : qd) (kind : N) (replace : bool) | HFlush.

(** Steps of a redirect + lazy cache run.
    [LAsk n]: a query for name n through the whole chain, then every lazy update
    in flight is joined. [LAge n]: the entry under key(n) is made 400 s older
    (the answers' TTL is 300 s, the lazy TTL a day). *)
Inductive lop := LAsk (n : N) | LAge (n : N).

(** [OAsk qn owners ip sync bg]: the reply's question name, the owner names of its
    answer records, the name the address in it belongs to, whether the upstream
    was asked synchronously (a miss), and the name the upstream was asked for by a
    background (lazy) update, if one ran. [OAge present]: the entry existed. *)
Inductive lobs :=
| OAsk (qn : N) (owners : list N) (ip : N) (sync : bool) (bg : option N)
| OAge (present : bool).

Inductive case :=
  (** VerifGetMsgKey on two messages; [eq]: the two Go strings are equal *)
| CKeys (q1 q2 : qd) (k1 k2 : kobs) (eq : bool)
  (** fresh Cache, Exec q1 (good answer), Exec q2: [hit12] = the second execution
      was answered from the cache; [hit21] likewise in the other order *)
| CPair (q1 q2 : qd) (hit12 hit21 : bool)
  (** a history on one Cache; per step [Some i] when the step was served the
      answer created in step [i], [None] otherwise *)
| CHist (ops : list hop) (obs : list (option N))
  (** query_context.NewContext on a client message: the additional section of
      [Q()] afterwards, and the key of [Q()] *)
| CCtx (client : qd) (seen : list extra_rr) (k : kobs)
  (** implementation-side sweep of one component over [total] values around
      [base]: number of distinct keys, and the checksum over the concatenated
      keys of the [cnt] values [start, start+step, ...] *)
| CSweep (dim : N) (base : qd) (total distinct : N) (start step cnt ck : N)
  (** the chain [redirect rules; cache; upstream] on one Cache with
      lazy_cache_ttl > 0 ([lazy]) or 0: names are the ids 0..9 (the name "n<i>."),
      [rules] the redirect rules (alias, target), every question is (name, A, IN).
      Per step what was observed, and at the end what the store holds under the
      key of each name 0..m-1 (question name, owner names of the answer records). *)
| CLazy (lazy : bool) (rules : list (N * N)) (ops : list lop) (obs : list lobs)
        (held : list (option (N * list N))).

(** * Model side *)

Definition kobs_ok (model : option bytes) (o : kobs) : bool :=
  match model, o with
  | None, KNone => true
  | Some k, KRaw b => list_eqb N.eqb k b
  | Some k, KSum h n ck => list_eqb N.eqb (firstn key_prefix_len k) h && (len k =? n) && (checksum k =? ck)
  | _, _ => false
  end.

Definition add1_16 (x : N) : N := (x + 1) mod 65536.

Definition resp_of (kind : N) (q : qmsg) (i : N) : option resp :=
  match kind with
  | 0 => None
  | 1 => Some (mkr (q_question q) true i)
  | 2 => Some (mkr (q_question q) false i)
  | 3 => Some (mkr (map (fun u => mkqu (qname u ++ [120]) (qtype u) (qclass u)) (q_question q)) true i)
  | 4 => Some (mkr (map (fun u => mkqu (qname u) (add1_16 (qtype u)) (qclass u)) (q_question q)) true i)
  | 5 => Some (mkr (map (fun u => mkqu (qname u) (qtype u) (add1_16 (qclass u))) (q_question q)) true i)
  | _ => Some (mkr [] true i)
  end.

Fixpoint hops_ops (i : N) (l : list hop) : list op :=
  match l with
  | [] => []
  | HQ d kind replace :: t =>
    let q := qd_msg d in
    let r := resp_of kind q i in
    Query q r (if replace then r else None) :: hops_ops (i + 1) t
  | HFlush :: t => Flush :: hops_ops (i + 1) t
  end.

Definition outcome_obs (o : outcome) : option N :=
  match o with Hit v => Some (r_id v) | _ => None end.

Definition optN_eqb := option_eqb N.eqb.

(** Swept queries: component [dim] of [base] replaced by the value [i]. *)
Definition sweep_q (dim : N) (base : qd) (i : N) : qd :=
  match base with
  | Q qr op ad cd qs ex =>
    match qs with
    | (n, t, c) :: _ =>
      match dim with
      | 0 => Q qr op ad cd [(n, i, c)] ex
      | 1 => Q qr op ad cd [(n, t, i)] ex
      | 2 => Q qr op (N.testbit i 0) (N.testbit i 1) [(n, t, c)]
               [XOpt (if N.testbit i 2 then 32768 else 0)]
      | _ => Q qr op ad cd [(Nm 0 0 (repeat 97 (N.to_nat i + 1)), t, c)] ex
      end
    | [] => base
    end
  end.

Fixpoint sweep_keys (fuel : nat) (dim : N) (base : qd) (i step : N) : bytes :=
  match fuel with
  | O => []
  | S f => get_msg_key (qd_msg (sweep_q dim base i)) ++ sweep_keys f dim base (i + step) step
  end.

(** ** redirect in front of a (lazy) cache, on the model's [step] *)

Definition lname (i : N) : bytes := [110; 48 + i; 46].            (* "n<i>." *)
Definition lid (b : bytes) : N := match b with [110; d; 46] => d - 48 | _ => 99 end.
Definition lq (i : N) : qmsg := mkq false 0 false false [mkqu (lname i) 1 1] [XOpt 0].
(** the upstream's answer when asked for name i: question i, records of i *)
Definition lresp (i : N) : option resp := Some (mkr [mkqu (lname i) 1 1] true i).
Definition lkey (i : N) : bytes := get_msg_key (lq i).

(** redirect: the first rule for the name, no chaining *)
Fixpoint ltarget (rules : list (N * N)) (n : N) : N :=
  match rules with
  | [] => n
  | (a, t) :: r => if a =? n then t else ltarget r n
  end.

Definition resp_name (v : resp) : N :=
  match r_question v with [qu] => lid (qname qu) | _ => 99 end.

(** What the cache does, in terms of the model's steps: a fresh or absent entry
    is one execution; an entry whose message has expired is, with lazy cache, a
    hit followed by the background update — an execution of the SAME query (the
    context is copied when the update is started) that stores what the upstream
    says — and without lazy cache a removal followed by a miss. *)
Fixpoint lazy_run (lazy : bool) (rules : list (N * N)) (st : store) (stale : list N)
         (ops : list lop) : list lobs * store :=
  match ops with
  | [] => ([], st)
  | LAge n :: t =>
    let present := match lookup (lkey n) st with Some _ => true | None => false end in
    let '(o, st') := lazy_run lazy rules st (if present then n :: stale else stale) t in
    (OAge present :: o, st')
  | LAsk n :: t =>
    let k := ltarget rules n in
    let is_stale := existsb (N.eqb k) stale in
    let st0 := if is_stale && negb lazy then fst (step st (Drop (lkey k))) else st in
    let '(st1, out) := step st0 (Query (lq k) (lresp k) None) in
    let st2 := if is_stale && lazy then fst (step st1 (Query (lq k) (lresp k) (lresp k))) else st1 in
    let served := match out with Hit v => Some v | _ => lresp k end in
    let ob := match served with
              | Some v =>
                let vn := resp_name v in
                OAsk (if vn =? k then n else vn)
                     ((if k =? n then [] else [n]) ++ [r_id v]) (r_id v)
                     (match out with Hit _ => false | _ => true end)
                     (if is_stale && lazy then Some k else None)
              | None => OAge false
              end in
    let '(o, st') := lazy_run lazy rules st2 (filter (fun x => negb (x =? k)) stale) t in
    (ob :: o, st')
  end.

Fixpoint held_from (st : store) (i : N) (m : nat) : list (option (N * list N)) :=
  match m with
  | O => []
  | S m' =>
    match lookup (lkey i) st with
    | Some v => Some (resp_name v, [r_id v])
    | None => None
    end :: held_from st (i + 1) m'
  end.

Definition lobs_eqb (a b : lobs) : bool :=
  match a, b with
  | OAsk q1 o1 i1 s1 b1, OAsk q2 o2 i2 s2 b2 =>
    (q1 =? q2) && list_eqb N.eqb o1 o2 && (i1 =? i2) && Bool.eqb s1 s2 && optN_eqb b1 b2
  | OAge p1, OAge p2 => Bool.eqb p1 p2
  | _, _ => false
  end.

Definition held_eqb (a b : option (N * list N)) : bool :=
  option_eqb (fun x y => (fst x =? fst y) && list_eqb N.eqb (snd x) (snd y)) a b.

Definition agree (c : case) : bool :=
  match c with
  | CKeys d1 d2 k1 k2 eq =>
    let q1 := qd_msg d1 in let q2 := qd_msg d2 in
    kobs_ok (msg_key q1) k1 && kobs_ok (msg_key q2) k2
    && Bool.eqb eq (list_eqb N.eqb (get_msg_key q1) (get_msg_key q2))
  | CPair d1 d2 hit12 hit21 =>
    let q1 := qd_msg d1 in let q2 := qd_msg d2 in
    let r1 := resp_of 1 q1 0 in let r2 := resp_of 1 q2 0 in
    let m12 := served [Query q1 r1 None] q2 in
    let m21 := served [Query q2 r2 None] q1 in
    Bool.eqb hit12 (match m12 with Hit _ => true | _ => false end)
    && Bool.eqb hit21 (match m21 with Hit _ => true | _ => false end)
  | CHist ops obs =>
    list_eqb optN_eqb (map outcome_obs (snd (run (hops_ops 0 ops)))) obs
  | CCtx d seen k =>
    let q := qd_msg d in
    list_eqb (fun a b => match a, b with
                         | XOpt x, XOpt y => x =? y
                         | XOther, XOther => true
                         | _, _ => false
                         end) (q_extra (ctx_query q)) seen
    && kobs_ok (msg_key (ctx_query q)) k
  | CSweep dim base total distinct start step cnt ck =>
    (* pairwise different queries have pairwise different keys (key_injective) *)
    (distinct =? total)
    && (checksum (sweep_keys (N.to_nat cnt) dim base start step) =? ck)
  | CLazy lazy rules ops obs held =>
    let '(o, st) := lazy_run lazy rules [] [] ops in
    list_eqb lobs_eqb o obs && list_eqb held_eqb (held_from st 0 (length held)) held
  end.

(** * The property's own oracle, written without the key *)

Definition cacheable (q : qmsg) : bool :=
  negb (q_qr q) && (q_opcode q =? 0) && (length (q_question q) =? 1)%nat.

(** DO as the last OPT of the additional section carries it (bit 15 of the TTL field). *)
Definition do_flag (q : qmsg) : bool :=
  fold_left (fun acc x => match x with XOpt t => N.testbit t 15 | XOther => acc end) (q_extra q) false.

Definition same_qf_b (q1 q2 : qmsg) : bool :=
  match q_question q1, q_question q2 with
  | [a], [b] =>
    bytes_eqb (qname a) (qname b) && (qtype a =? qtype b) && (qclass a =? qclass b)
    && Bool.eqb (q_ad q1) (q_ad q2) && Bool.eqb (q_cd q1) (q_cd q2)
    && Bool.eqb (do_flag q1) (do_flag q2)
  | _, _ => false
  end.

Definition is_knone (k : kobs) : bool := match k with KNone => true | _ => false end.

Definition hop_q (o : hop) : option qmsg :=
  match o with HQ d _ _ => Some (qd_msg d) | HFlush => None end.

(** Every served answer was created by an earlier step whose query has the same
    question and flags as the one it is served to. *)
Fixpoint hist_sound (ops : list hop) (i : nat) (rest : list hop) (obs : list (option N)) : bool :=
  match rest, obs with
  | [], [] => true
  | o :: rest', ob :: obs' =>
    (match ob with
     | None => true
     | Some p =>
       (N.to_nat p <? i)%nat &&
       match hop_q o, nth_error ops (N.to_nat p) with
       | Some q, Some (HQ dp _ _) =>
         cacheable q && cacheable (qd_msg dp) && same_qf_b (qd_msg dp) q
       | _, _ => false
       end
     end) && hist_sound ops (S i) rest' obs'
  | _, _ => false
  end.

(** Redirect + lazy cache, stated on names only: a reply to a query for n carries
    the question n, its records end at the name the rules send n to and carry
    that name's address; whatever the store holds under the key of name i is an
    answer to the question i with records of i. *)
Definition rule_target (rules : list (N * N)) (n : N) : N :=
  match find (fun p => fst p =? n) rules with Some p => snd p | None => n end.

Fixpoint lazy_sound (rules : list (N * N)) (ops : list lop) (obs : list lobs) : bool :=
  match ops, obs with
  | [], [] => true
  | LAsk n :: ops', OAsk qn owners ip _ _ :: obs' =>
    (qn =? n) && (hd 99 owners =? n) && (last owners 99 =? rule_target rules n)
    && (ip =? rule_target rules n) && lazy_sound rules ops' obs'
  | LAge _ :: ops', OAge _ :: obs' => lazy_sound rules ops' obs'
  | _, _ => false
  end.

Fixpoint held_sound (i : N) (held : list (option (N * list N))) : bool :=
  match held with
  | [] => true
  | None :: t => held_sound (i + 1) t
  | Some (qn, owners) :: t =>
    (qn =? i) && forallb (N.eqb i) owners && held_sound (i + 1) t
  end.

Definition spec (c : case) : bool :=
  match c with
  | CKeys d1 d2 k1 k2 eq =>
    let q1 := qd_msg d1 in let q2 := qd_msg d2 in
    Bool.eqb (is_knone k1) (negb (cacheable q1)) && Bool.eqb (is_knone k2) (negb (cacheable q2))
    && (if cacheable q1 && cacheable q2 then Bool.eqb eq (same_qf_b q1 q2) else true)
  | CPair d1 d2 hit12 hit21 =>
    let q1 := qd_msg d1 in let q2 := qd_msg d2 in
    let want := cacheable q1 && cacheable q2 && same_qf_b q1 q2 in
    Bool.eqb hit12 want && Bool.eqb hit21 want
  | CHist ops obs => hist_sound ops 0 ops obs
  | CCtx d seen k => Bool.eqb (is_knone k) (negb (cacheable (qd_msg d)))
  | CSweep dim base total distinct start step cnt ck => distinct =? total
  | CLazy lazy rules ops obs held => lazy_sound rules ops obs && held_sound 0 held
  end.

(** * Non-triviality *)

(** Number of components (name, type, class, AD, CD, DO) in which two
    single-question messages differ. *)
Definition b2n (b : bool) : N := if b then 1 else 0.
Definition diff_count (q1 q2 : qmsg) : N :=
  match q_question q1, q_question q2 with
  | [a], [b] =>
    b2n (negb (bytes_eqb (qname a) (qname b))) + b2n (negb (qtype a =? qtype b))
    + b2n (negb (qclass a =? qclass b)) + b2n (negb (Bool.eqb (q_ad q1) (q_ad q2)))
    + b2n (negb (Bool.eqb (q_cd q1) (q_cd q2))) + b2n (negb (Bool.eqb (do_flag q1) (do_flag q2)))
  | _, _ => 0
  end.

Definition one_apart (d1 d2 : qd) : bool :=
  let q1 := qd_msg d1 in let q2 := qd_msg d2 in
  cacheable q1 && cacheable q2 && (diff_count q1 q2 =? 1).

Definition is_some {A} (o : option A) : bool := match o with Some _ => true | None => false end.

Definition nontrivial (c : case) : bool :=
  match c with
  | CKeys d1 d2 _ _ _ => one_apart d1 d2
  | CPair d1 d2 _ _ => one_apart d1 d2
  | CHist ops obs =>
    existsb is_some obs
    && (2 <=? N.of_nat (length (filter (fun p => match fst p, snd p with
                                                   | HQ d _ _, None => cacheable (qd_msg d)
                                                   | _, _ => false
                                                   end) (combine ops obs))))
  | CCtx d _ _ => existsb (fun x => match x with XOpt t => N.testbit t 15 | XOther => false end)
                          (q_extra (qd_msg d))
  | CSweep _ _ _ _ _ _ _ _ => true
  | CLazy lazy rules ops obs _ =>
    (* a background update happened for a redirected query, and something was asked after it *)
    lazy && negb (match rules with [] => true | _ => false end)
    && existsb (fun o => match o with OAsk _ (_ :: _ :: _) _ _ (Some _) => true | _ => false end)
               (removelast obs)
  end.
