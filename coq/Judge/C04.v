(** C04 — case type and verdict functions evaluated by [bin/check] on the
    observations of the Go driver (harness/cmd/c04). *)
From Verif Require Import Base.Prelude Gen.Constants.
From Verif Require Export Model.CacheKey.
Open Scope N_scope.

(** * Input descriptions *)

(** A name: [gen_bytes n seed ++ suffix] (short names are all suffix). *)
Inductive nm := Nm (n seed : N) (suffix : bytes).
Definition nm_bytes (x : nm) : bytes := match x with Nm n s suf => gen_bytes n s ++ suf end.

(** A message as handed to getMsgKey / as [qCtx.Q()] presents it to Cache.Exec:
    QR, opcode, AD, CD, questions (name, type, class), additional section. *)
Inductive qd := Q (qr : bool) (opcode : N) (ad cd : bool) (qs : list (nm * N * N)) (extra : list extra_rr).

Definition qd_msg (d : qd) : qmsg :=
  match d with
  | Q qr op ad cd qs ex =>
    mkq qr op ad cd (map (fun x => mkqu (nm_bytes (fst (fst x))) (snd (fst x)) (snd x)) qs) ex
  end.

(** An observed key: absent (""), the raw bytes, or for long keys the first six
    bytes, the total length and the checksum of the whole key. *)
Inductive kobs := KNone | KRaw (b : bytes) | KSum (head : bytes) (n ck : N).

(** One step of a history run on one Cache instance.
    [HQ q kind replace]: Cache.Exec on [q]; the rest of the chain, when it finds
    no response (or [replace] is set), leaves the response [resp_of kind]:
      0 none; 1 a good answer; 2 a truncated answer; 3 an answer whose question
      has another name; 4 ... another type; 5 ... another class; 6 an answer
      without question section.
    [HFlush]: GET /flush on the plugin's API. [HDump]: GET /dump, the body is
    kept. [HReload fresh]: POST /load_dump with the last body, into the same Cache
    or ([fresh]) into a new one that replaces it (a restart). *)
Inductive hop := HQ (q : qd) (kind : N) (replace : bool) | HFlush | HDump | HReload (fresh : bool).

(** Steps of a redirect + lazy cache run.
    [LAsk n]: a query for name n through the whole chain, then every lazy update
    in flight is joined. [LAge n]: the entry under key(n) is made 400 s older
    (the answers' TTL is 300 s, the lazy TTL a day). [LAskF n mode]: like [LAsk n],
    but a background (lazy) update started by it does not land: the upstream
    returns an error (mode 1), returns without a response (2) or answers with a
    truncated reply, which is not stored (3). *)
Inductive lop := LAsk (n : N) | LAge (n : N) | LAskF (n mode : N).

(** [OAsk qn owners ip sync bg]: the reply's question name, the owner names of its
    answer records, the name the address in it belongs to, whether the upstream
    was asked synchronously (a miss), and the name the upstream was asked for by a
    background (lazy) update, if one ran. [OAge present]: the entry existed. *)
Inductive lobs :=
| OAsk (qn : N) (owners : list N) (ip : N) (sync : bool) (bg : option N)
| OAge (present : bool).

(** Steps of a run of the chain [front; prefer_ipv4/6 (optional); cache; upstream].
    Questions are (name id, type, class). [PAsk q pre]: a query for [q]; when
    [pre = Some q'] a plugin in front has already put a response to the question
    [q'] (one record of q') into the context. [PAge q]: the entry under key(q) is
    made 400 s older. The upstream (asked only when the context holds no
    response) answers [q] with one record of q's name and type — except for the
    type the selector prefers, for which it has no data (empty answer + SOA). *)
Inductive pop := PAsk (q : N * N * N) (pre : option (N * N * N)) | PAge (q : N * N * N).

(** [POAsk rq recs]: question of the reply and (owner, rrtype) of its answer
    records. [POAge present]. *)
Inductive pobs := POAsk (rq : N * N * N) (recs : list (N * N)) | POAge (present : bool).

(** Steps of a run of [cache; upstream] with queries that differ in AD/CD/DO.
    A query is (name id, flags), flags = AD + 2 CD + 4 DO, type A, class IN. The
    upstream answers as a function of the FULL query it receives: one A record of
    the query's name whose address encodes that name and the flags it saw.
    [FAsk n f]: the query, then every lazy update is joined. [FAge n f]: the entry
    under its key is made 400 s older. *)
Inductive fop := FAsk (n f : N) | FAge (n f : N).

(** [FOAsk qn an af sync bg]: the reply's question name, the name and the flags
    its address was computed for, whether the upstream was asked synchronously,
    and the (name, flags) of the query a background refresh sent upstream. *)
Inductive fobs := FOAsk (qn an af : N) (sync : bool) (bg : option (N * N)) | FOAge (present : bool).

Inductive case :=
  (** VerifGetMsgKey on two messages; [eq]: the two Go strings are equal *)
| CKeys (q1 q2 : qd) (k1 k2 : kobs) (eq : bool)
  (** fresh Cache, Exec q1 (good answer), Exec q2: [hit12] = the second execution
      was answered from the cache; [hit21] likewise in the other order *)
| CPair (q1 q2 : qd) (hit12 hit21 : bool)
  (** a history on one Cache; per step [Some (i, name_ok, t, c)] when the step was
      served the answer created in step [i], whose question section has the
      query's name ([name_ok]), type [t] and class [c]; [None] otherwise *)
| CHist (ops : list hop) (obs : list (option (N * bool * N * N)))
  (** query_context.NewContext on a client message: the additional section of
      [Q()] afterwards, and the key of [Q()] *)
| CCtx (client : qd) (seen : list extra_rr) (k : kobs)
  (** implementation-side sweep of one component over [total] values around
      [base]: number of distinct keys, and the checksum over the concatenated
      keys of the [cnt] values [start, start+step, ...] *)
| CSweep (dim : N) (base : qd) (total distinct : N) (start step cnt ck : N)
  (** the chain [redirect rules; cache; upstream] on one Cache with
      lazy_cache_ttl > 0 ([lazy]) or 0: names are the ids 0..9 (the name "n<i>."),
      [rules] the redirect rules (alias, target), every question is (name, A, IN).
      Per step what was observed, and at the end what the store holds under the
      key of each name 0..m-1 (question name, owner names of the answer records). *)
| CLazy (lazy : bool) (rules : list (N * N)) (ops : list lop) (obs : list lobs)
        (held : list (option (N * list N)))
  (** the chain [front; selector; cache; upstream] on one Cache: [sel] = 0 (no
      selector), 1 (prefer_ipv4) or 28 (prefer_ipv6); names 0..m-1. At the end, for
      every question (n, t, c), n < m, t in 1, 28, 16, c in 1, 3 (in that order)
      under whose key the store holds something: that question, the question
      section of what is held and (owner, rrtype) of its answer records. *)
| CChain (lazy : bool) (sel m : N) (ops : list pop) (obs : list pobs)
         (held : list ((N * N * N) * (N * N * N) * list (N * N)))
  (** [cache; flag-sensitive upstream] on one Cache (lazy or not), names 0..m-1;
      at the end, for every (name, flags) under whose key something is held:
      that pair and (question name, name and flags the address was computed for) *)
| CFlag (lazy : bool) (m : N) (ops : list fop) (obs : list fobs)
        (held : list ((N * N) * (N * N * N))).

(** * Model side *)

Definition kobs_ok (model : option bytes) (o : kobs) : bool :=
  match model, o with
  | None, KNone => true
  | Some k, KRaw b => list_eqb N.eqb k b
  | Some k, KSum h n ck => list_eqb N.eqb (firstn key_prefix_len k) h && (len k =? n) && (checksum k =? ck)
  | _, _ => false
  end.

Definition add1_16 (x : N) : N := (x + 1) mod 65536.

Definition resp_of (kind : N) (q : qmsg) (i : N) : option resp :=
  match kind with
  | 0 => None
  | 1 => Some (mkr (q_question q) true i)
  | 2 => Some (mkr (q_question q) false i)
  | 3 => Some (mkr (map (fun u => mkqu (qname u ++ [120]) (qtype u) (qclass u)) (q_question q)) true i)
  | 4 => Some (mkr (map (fun u => mkqu (qname u) (add1_16 (qtype u)) (qclass u)) (q_question q)) true i)
  | 5 => Some (mkr (map (fun u => mkqu (qname u) (qtype u) (add1_16 (qclass u))) (q_question q)) true i)
  | _ => Some (mkr [] true i)
  end.

Fixpoint hops_ops (i : N) (l : list hop) : list op :=
  match l with
  | [] => []
  | HQ d kind replace :: t =>
    let q := qd_msg d in
    let r := resp_of kind q i in
    Query q r (if replace then r else None) :: hops_ops (i + 1) t
  | HFlush :: t => Flush :: hops_ops (i + 1) t
  | _ :: t => hops_ops (i + 1) t
  end.

Definition hobs_of (q : qmsg) (o : outcome) : option (N * bool * N * N) :=
  match o with
  | Hit v =>
    match r_question v, q_question q with
    | [a], b :: _ => Some (r_id v, list_eqb N.eqb (qname a) (qname b), qtype a, qclass a)
    | _, _ => Some (r_id v, false, 0, 0)
    end
  | _ => None
  end.

(** A history with dumps: the dump is the store's content, loading it puts every
    dumped entry (back) under its key ([reload]). *)
Fixpoint hist_run (i : N) (st dump : store) (l : list hop) : list outcome :=
  match l with
  | [] => []
  | HQ d kind replace :: t =>
    let q := qd_msg d in
    let r := resp_of kind q i in
    let '(st', out) := step st (Query q r (if replace then r else None)) in
    out :: hist_run (i + 1) st' dump t
  | HFlush :: t => Bypass :: hist_run (i + 1) (fst (step st Flush)) dump t
  | HDump :: t => Bypass :: hist_run (i + 1) st st t
  | HReload fresh :: t => Bypass :: hist_run (i + 1) (reload fresh dump st) dump t
  end.

Definition has_dump (l : list hop) : bool :=
  existsb (fun o => match o with HDump | HReload _ => true | _ => false end) l.

Fixpoint hist_obs (ops : list hop) (outs : list outcome) : list (option (N * bool * N * N)) :=
  match ops, outs with
  | HQ d _ _ :: ops', o :: outs' => hobs_of (qd_msg d) o :: hist_obs ops' outs'
  | _ :: ops', _ :: outs' => None :: hist_obs ops' outs'
  | _, _ => []
  end.

Definition hobs_eqb (a b : option (N * bool * N * N)) : bool :=
  option_eqb (fun x y =>
    match x, y with
    | (i1, n1, t1, c1), (i2, n2, t2, c2) => (i1 =? i2) && Bool.eqb n1 n2 && (t1 =? t2) && (c1 =? c2)
    end) a b.

Definition optN_eqb := option_eqb N.eqb.

(** Swept queries: component [dim] of [base] replaced by the value [i]. *)
Definition sweep_q (dim : N) (base : qd) (i : N) : qd :=
  match base with
  | Q qr op ad cd qs ex =>
    match qs with
    | (n, t, c) :: _ =>
      match dim with
      | 0 => Q qr op ad cd [(n, i, c)] ex
      | 1 => Q qr op ad cd [(n, t, i)] ex
      | 2 => Q qr op (N.testbit i 0) (N.testbit i 1) [(n, t, c)]
               [XOpt (if N.testbit i 2 then 32768 else 0)]
      | _ => Q qr op ad cd [(Nm 0 0 (repeat 97 (N.to_nat i + 1)), t, c)] ex
      end
    | [] => base
    end
  end.

Fixpoint sweep_keys (fuel : nat) (dim : N) (base : qd) (i step : N) : bytes :=
  match fuel with
  | O => []
  | S f => get_msg_key (qd_msg (sweep_q dim base i)) ++ sweep_keys f dim base (i + step) step
  end.

(** ** redirect in front of a (lazy) cache, on the model's [step] *)

Definition lname (i : N) : bytes := [110; 48 + i; 46].            (* "n<i>." *)
Definition lid (b : bytes) : N := match b with [110; d; 46] => d - 48 | _ => 99 end.
Definition lq (i : N) : qmsg := mkq false 0 false false [mkqu (lname i) 1 1] [XOpt 0].
(** the upstream's answer when asked for name i: question i, records of i *)
Definition lresp (i : N) : option resp := Some (mkr [mkqu (lname i) 1 1] true i).
Definition lkey (i : N) : bytes := get_msg_key (lq i).

(** redirect: the first rule for the name, no chaining *)
Fixpoint ltarget (rules : list (N * N)) (n : N) : N :=
  match rules with
  | [] => n
  | (a, t) :: r => if a =? n then t else ltarget r n
  end.

Definition resp_name (v : resp) : N :=
  match r_question v with [qu] => lid (qname qu) | _ => 99 end.

(** What the cache does, in terms of the model's steps: a fresh or absent entry
    is one execution; an entry whose message has expired is, with lazy cache, a
    hit followed by the background update — an execution of the SAME query (the
    context is copied when the update is started) that stores what the upstream
    says — and without lazy cache a removal followed by a miss. *)
Definition lop_ask (o : lop) : option (N * N) :=
  match o with LAsk n => Some (n, 0) | LAskF n m => Some (n, m) | LAge _ => None end.

Fixpoint lazy_run (lazy : bool) (rules : list (N * N)) (st : store) (stale : list N)
         (ops : list lop) : list lobs * store :=
  match ops with
  | [] => ([], st)
  | o :: t =>
    match lop_ask o with
    | None =>
      let n := match o with LAge n => n | _ => 0 end in
      let present := match lookup (lkey n) st with Some _ => true | None => false end in
      let '(ob, st') := lazy_run lazy rules st (if present then n :: stale else stale) t in
      (OAge present :: ob, st')
    | Some (n, mode) =>
      let k := ltarget rules n in
      let is_stale := existsb (N.eqb k) stale in
      let refresh := is_stale && lazy in
      let lands := mode =? 0 in
      let st0 := if is_stale && negb lazy then fst (step st (Drop (lkey k))) else st in
      let '(st1, out) := step st0 (Query (lq k) (lresp k) None) in
      let st2 := if refresh && lands then fst (step st1 (Query (lq k) (lresp k) (lresp k))) else st1 in
      let served := match out with Hit v => Some v | _ => lresp k end in
      let ob := match served with
                | Some v =>
                  let vn := resp_name v in
                  OAsk (if vn =? k then n else vn)
                       ((if k =? n then [] else [n]) ++ [r_id v]) (r_id v)
                       (match out with Hit _ => false | _ => true end)
                       (if refresh then Some k else None)
                | None => OAge false
                end in
      (* a refresh that does not land leaves the entry as it is: still expired *)
      let stale' := if refresh && negb lands then stale else filter (fun x => negb (x =? k)) stale in
      let '(obs, st') := lazy_run lazy rules st2 stale' t in
      (ob :: obs, st')
    end
  end.

Fixpoint held_from (st : store) (i : N) (m : nat) : list (option (N * list N)) :=
  match m with
  | O => []
  | S m' =>
    match lookup (lkey i) st with
    | Some v => Some (resp_name v, [r_id v])
    | None => None
    end :: held_from st (i + 1) m'
  end.

Definition lobs_eqb (a b : lobs) : bool :=
  match a, b with
  | OAsk q1 o1 i1 s1 b1, OAsk q2 o2 i2 s2 b2 =>
    (q1 =? q2) && list_eqb N.eqb o1 o2 && (i1 =? i2) && Bool.eqb s1 s2 && optN_eqb b1 b2
  | OAge p1, OAge p2 => Bool.eqb p1 p2
  | _, _ => false
  end.

Definition held_eqb (a b : option (N * list N)) : bool :=
  option_eqb (fun x y => (fst x =? fst y) && list_eqb N.eqb (snd x) (snd y)) a b.

(** ** a response already in the context, and dual_selector, in front of the cache *)

Definition pq_msg (q : N * N * N) : qmsg :=
  match q with (n, t, c) => mkq false 0 false false [mkqu (lname n) t c] [XOpt 0] end.
Definition pkey (q : N * N * N) : bytes := get_msg_key (pq_msg q).
(** a response to the question q, with one record of q's name and type ([has]) or none *)
Definition presp (has : bool) (q : N * N * N) : resp :=
  match q with (n, t, c) => mkr [mkqu (lname n) t c] true (if has then 1 else 0) end.
Definition pupstream (sel : N) (q : N * N * N) : resp :=
  match q with (n, t, c) => presp (negb (t =? sel)) q end.

Definition resp_q (v : resp) : N * N * N :=
  match r_question v with [qu] => (lid (qname qu), qtype qu, qclass qu) | _ => (99, 0, 0) end.
Definition resp_recs (v : resp) : list (N * N) :=
  match r_question v with
  | [qu] => if r_id v =? 1 then [(lid (qname qu), qtype qu)] else []
  | _ => []
  end.

Definition key_in (k : bytes) (l : list bytes) : bool := existsb (list_eqb N.eqb k) l.
Definition key_del (k : bytes) (l : list bytes) : list bytes :=
  filter (fun x => negb (list_eqb N.eqb k x)) l.

(** Cache.Exec entered with the response [pre] in the context, the rest of the
    chain being the upstream: in terms of the model's [step]. What the rest of
    the chain leaves is [pre] if there is one, else the upstream's answer; on a hit
    the cached response replaces [pre]; the background update of a stale (lazy)
    hit works on a copy taken before that, i.e. one that still holds [pre]. *)
Definition cache_exec (lazy : bool) (sel : N) (st : store) (stale : list bytes)
           (q : N * N * N) (pre : option resp) : store * list bytes * resp :=
  let k := pkey q in
  let is_stale := key_in k stale in
  let down := match pre with Some r => r | None => pupstream sel q end in
  if is_stale && negb lazy then
    (* the expired entry is not served; it stays (expired) unless it is overwritten *)
    if answers_question down (pq_msg q)
    then (fst (step (fst (step st (Drop k))) (Query (pq_msg q) (Some down) None)), key_del k stale, down)
    else (st, stale, down)
  else
    let '(st1, out) := step st (Query (pq_msg q) (Some down) None) in
    match out with
    | Hit v =>
      if is_stale then
        let st2 := fst (step st1 (Query (pq_msg q) (Some down) (Some down))) in
        (st2, if answers_question down (pq_msg q) then key_del k stale else stale, v)
      else (st1, stale, v)
    | _ => (st1, stale, down)
    end.

(** dual_selector for a name without data of the preferred type: a query of the
    other address type runs a reference sub-query (the context copied, response
    included, the type rewritten to the preferred one) and the original, both
    through the rest of the chain; the original's result is the reply. *)
Definition chain_exec (lazy : bool) (sel : N) (st : store) (stale : list bytes)
           (q : N * N * N) (pre : option resp) : store * list bytes * resp :=
  match q with
  | (n, t, c) =>
    if negb (sel =? 0) && ((t =? 1) || (t =? 28)) && negb (t =? sel) then
      match cache_exec lazy sel st stale (n, sel, c) pre with
      | (st1, stale1, _) => cache_exec lazy sel st1 stale1 q pre
      end
    else cache_exec lazy sel st stale q pre
  end.

Fixpoint chain_run (lazy : bool) (sel : N) (st : store) (stale : list bytes)
         (ops : list pop) : list pobs * store :=
  match ops with
  | [] => ([], st)
  | PAge q :: t =>
    let present := match lookup (pkey q) st with Some _ => true | None => false end in
    let stale' := if present && negb (key_in (pkey q) stale) then pkey q :: stale else stale in
    let '(o, st') := chain_run lazy sel st stale' t in
    (POAge present :: o, st')
  | PAsk q pre :: t =>
    match chain_exec lazy sel st stale q (option_map (presp true) pre) with
    | (st1, stale1, v) =>
      let '(o, st') := chain_run lazy sel st1 stale1 t in
      (POAsk (resp_q v) (resp_recs v) :: o, st')
    end
  end.

(** the questions whose keys are looked at, in the driver's order *)
Fixpoint universe_from (n : N) (m : nat) : list (N * N * N) :=
  match m with
  | O => []
  | S m' => [(n, 1, 1); (n, 1, 3); (n, 28, 1); (n, 28, 3); (n, 16, 1); (n, 16, 3)] ++ universe_from (n + 1) m'
  end.

Definition held3_from (st : store) (m : N) : list ((N * N * N) * (N * N * N) * list (N * N)) :=
  flat_map (fun q => match lookup (pkey q) st with
                     | Some v => [(q, resp_q v, resp_recs v)]
                     | None => []
                     end) (universe_from 0 (N.to_nat m)).

Definition q3_eqb (a b : N * N * N) : bool :=
  match a, b with (n1, t1, c1), (n2, t2, c2) => (n1 =? n2) && (t1 =? t2) && (c1 =? c2) end.
Definition rec_eqb (a b : N * N) : bool := (fst a =? fst b) && (snd a =? snd b).

Definition pobs_eqb (a b : pobs) : bool :=
  match a, b with
  | POAsk q1 r1, POAsk q2 r2 => q3_eqb q1 q2 && list_eqb rec_eqb r1 r2
  | POAge p1, POAge p2 => Bool.eqb p1 p2
  | _, _ => false
  end.

Definition held3_eqb (a b : (N * N * N) * (N * N * N) * list (N * N)) : bool :=
  match a, b with
  | (k1, q1, r1), (k2, q2, r2) => q3_eqb k1 k2 && q3_eqb q1 q2 && list_eqb rec_eqb r1 r2
  end.

(** ** queries that differ in AD/CD/DO in front of a (lazy) cache *)

Definition fq (n f : N) : qmsg :=
  mkq false 0 (N.testbit f 0) (N.testbit f 1) [mkqu (lname n) 1 1]
      [XOpt (if N.testbit f 2 then 32768 else 0)].
Definition fkey (n f : N) : bytes := get_msg_key (fq n f).
(** the upstream's answer to the query (n, f); its identity encodes both *)
Definition fresp (n f : N) : resp := mkr [mkqu (lname n) 1 1] true (n + 16 * f).

(** The background refresh of a stale hit is an execution of the same query —
    same question, same AD/CD/DO — whose upstream answer replaces the entry. *)
Fixpoint flag_run (lazy : bool) (st : store) (stale : list bytes) (ops : list fop)
  : list fobs * store :=
  match ops with
  | [] => ([], st)
  | FAge n f :: t =>
    let k := fkey n f in
    let present := match lookup k st with Some _ => true | None => false end in
    let '(o, st') := flag_run lazy st (if present && negb (key_in k stale) then k :: stale else stale) t in
    (FOAge present :: o, st')
  | FAsk n f :: t =>
    let k := fkey n f in
    let is_stale := key_in k stale in
    let refresh := is_stale && lazy in
    let st0 := if is_stale && negb lazy then fst (step st (Drop k)) else st in
    let '(st1, out) := step st0 (Query (fq n f) (Some (fresp n f)) None) in
    let st2 := if refresh
               then fst (step st1 (Query (fq n f) (Some (fresp n f)) (Some (fresp n f))))
               else st1 in
    let v := match out with Hit v => v | _ => fresp n f end in
    let ob := FOAsk (resp_name v) (r_id v mod 16) (r_id v / 16)
                    (match out with Hit _ => false | _ => true end)
                    (if refresh then Some (n, f) else None) in
    let '(o, st') := flag_run lazy st2 (key_del k stale) t in
    (ob :: o, st')
  end.

Fixpoint funiverse (n : N) (m : nat) : list (N * N) :=
  match m with
  | O => []
  | S m' => map (fun f => (n, f)) [0; 1; 2; 3; 4; 5; 6; 7] ++ funiverse (n + 1) m'
  end.

Definition fheld_from (st : store) (m : N) : list ((N * N) * (N * N * N)) :=
  flat_map (fun p => match lookup (fkey (fst p) (snd p)) st with
                     | Some v => [(p, (resp_name v, r_id v mod 16, r_id v / 16))]
                     | None => []
                     end) (funiverse 0 (N.to_nat m)).

Definition nn_eqb (a b : N * N) : bool := (fst a =? fst b) && (snd a =? snd b).
Definition fobs_eqb (a b : fobs) : bool :=
  match a, b with
  | FOAsk q1 n1 f1 s1 b1, FOAsk q2 n2 f2 s2 b2 =>
    (q1 =? q2) && (n1 =? n2) && (f1 =? f2) && Bool.eqb s1 s2 && option_eqb nn_eqb b1 b2
  | FOAge p1, FOAge p2 => Bool.eqb p1 p2
  | _, _ => false
  end.
Definition fheld_eqb (a b : (N * N) * (N * N * N)) : bool :=
  match a, b with
  | (k1, (q1, n1, f1)), (k2, (q2, n2, f2)) =>
    nn_eqb k1 k2 && (q1 =? q2) && (n1 =? n2) && (f1 =? f2)
  end.

Definition agree (c : case) : bool :=
  match c with
  | CKeys d1 d2 k1 k2 eq =>
    let q1 := qd_msg d1 in let q2 := qd_msg d2 in
    kobs_ok (msg_key q1) k1 && kobs_ok (msg_key q2) k2
    && Bool.eqb eq (list_eqb N.eqb (get_msg_key q1) (get_msg_key q2))
  | CPair d1 d2 hit12 hit21 =>
    let q1 := qd_msg d1 in let q2 := qd_msg d2 in
    let r1 := resp_of 1 q1 0 in let r2 := resp_of 1 q2 0 in
    let m12 := served [Query q1 r1 None] q2 in
    let m21 := served [Query q2 r2 None] q1 in
    Bool.eqb hit12 (match m12 with Hit _ => true | _ => false end)
    && Bool.eqb hit21 (match m21 with Hit _ => true | _ => false end)
  | CHist ops obs =>
    list_eqb hobs_eqb
      (hist_obs ops (if has_dump ops then hist_run 0 [] [] ops else snd (run (hops_ops 0 ops)))) obs
  | CCtx d seen k =>
    let q := qd_msg d in
    list_eqb (fun a b => match a, b with
                         | XOpt x, XOpt y => x =? y
                         | XOther, XOther => true
                         | _, _ => false
                         end) (q_extra (ctx_query q)) seen
    && kobs_ok (msg_key (ctx_query q)) k
  | CSweep dim base total distinct start step cnt ck =>
    (* pairwise different queries have pairwise different keys (key_injective) *)
    (distinct =? total)
    && (checksum (sweep_keys (N.to_nat cnt) dim base start step) =? ck)
  | CLazy lazy rules ops obs held =>
    let '(o, st) := lazy_run lazy rules [] [] ops in
    list_eqb lobs_eqb o obs && list_eqb held_eqb (held_from st 0 (length held)) held
  | CChain lazy sel m ops obs held =>
    let '(o, st) := chain_run lazy sel [] [] ops in
    list_eqb pobs_eqb o obs && list_eqb held3_eqb (held3_from st m) held
  | CFlag lazy m ops obs held =>
    let '(o, st) := flag_run lazy [] [] ops in
    list_eqb fobs_eqb o obs && list_eqb fheld_eqb (fheld_from st m) held
  end.

(** * The property's own oracle, written without the key *)

Definition cacheable (q : qmsg) : bool :=
  negb (q_qr q) && (q_opcode q =? 0) && (length (q_question q) =? 1)%nat.

(** DO as the last OPT of the additional section carries it (bit 15 of the TTL field). *)
Definition do_flag (q : qmsg) : bool :=
  fold_left (fun acc x => match x with XOpt t => N.testbit t 15 | XOther => acc end) (q_extra q) false.

Definition same_qf_b (q1 q2 : qmsg) : bool :=
  match q_question q1, q_question q2 with
  | [a], [b] =>
    bytes_eqb (qname a) (qname b) && (qtype a =? qtype b) && (qclass a =? qclass b)
    && Bool.eqb (q_ad q1) (q_ad q2) && Bool.eqb (q_cd q1) (q_cd q2)
    && Bool.eqb (do_flag q1) (do_flag q2)
  | _, _ => false
  end.

Definition is_knone (k : kobs) : bool := match k with KNone => true | _ => false end.

Definition hop_q (o : hop) : option qmsg :=
  match o with HQ d _ _ => Some (qd_msg d) | _ => None end.

(** Every served answer was created by an earlier step whose query has the same
    question and flags as the one it is served to. *)
Fixpoint hist_sound (ops : list hop) (i : nat) (rest : list hop)
         (obs : list (option (N * bool * N * N))) : bool :=
  match rest, obs with
  | [], [] => true
  | o :: rest', ob :: obs' =>
    (match ob with
     | None => true
     | Some (p, name_ok, t, c) =>
       (N.to_nat p <? i)%nat &&
       match hop_q o, nth_error ops (N.to_nat p) with
       | Some q, Some (HQ dp _ _) =>
         cacheable q && cacheable (qd_msg dp) && same_qf_b (qd_msg dp) q
         (* and what is served carries the query's own question *)
         && name_ok
         && match q_question q with [qu] => (t =? qtype qu) && (c =? qclass qu) | _ => false end
       | _, _ => false
       end
     end) && hist_sound ops (S i) rest' obs'
  | _, _ => false
  end.

(** Redirect + lazy cache, stated on names only: a reply to a query for n carries
    the question n, its records end at the name the rules send n to and carry
    that name's address; whatever the store holds under the key of name i is an
    answer to the question i with records of i. *)
Definition rule_target (rules : list (N * N)) (n : N) : N :=
  match find (fun p => fst p =? n) rules with Some p => snd p | None => n end.

Fixpoint lazy_sound (rules : list (N * N)) (ops : list lop) (obs : list lobs) : bool :=
  match ops, obs with
  | [], [] => true
  | LAsk n :: ops', OAsk qn owners ip _ _ :: obs' =>
    (qn =? n) && (hd 99 owners =? n) && (last owners 99 =? rule_target rules n)
    && (ip =? rule_target rules n) && lazy_sound rules ops' obs'
  | LAskF n _ :: ops', OAsk qn owners ip _ _ :: obs' =>
    (qn =? n) && (hd 99 owners =? n) && (last owners 99 =? rule_target rules n)
    && (ip =? rule_target rules n) && lazy_sound rules ops' obs'
  | LAge _ :: ops', OAge _ :: obs' => lazy_sound rules ops' obs'
  | _, _ => false
  end.

Fixpoint held_sound (i : N) (held : list (option (N * list N))) : bool :=
  match held with
  | [] => true
  | None :: t => held_sound (i + 1) t
  | Some (qn, owners) :: t =>
    (qn =? i) && forallb (N.eqb i) owners && held_sound (i + 1) t
  end.

(** Chain runs, on (name, type, class) only: whatever the store holds under the
    key of a question has exactly that question and only records of that name
    and type; a reply to a query that entered the chain without a response
    carries the query's question and only records of its name and type. *)
Definition answers3 (q rq : N * N * N) (recs : list (N * N)) : bool :=
  match q, rq with
  | (n, t, c), (n', t', c') =>
    (n' =? n) && (t' =? t) && (c' =? c)
    && forallb (fun r => (fst r =? n) && (snd r =? t)) recs
  end.

Fixpoint chain_sound (ops : list pop) (obs : list pobs) : bool :=
  match ops, obs with
  | [], [] => true
  | PAsk q None :: ops', POAsk rq recs :: obs' => answers3 q rq recs && chain_sound ops' obs'
  | PAsk _ (Some _) :: ops', POAsk _ _ :: obs' => chain_sound ops' obs'
  | PAge _ :: ops', POAge _ :: obs' => chain_sound ops' obs'
  | _, _ => false
  end.

(** Flag runs: a reply to the query (n, f) carries the question n and an answer
    the downstream computed for exactly the name n and the flags f; a background
    refresh asks the downstream the same name with the same flags; whatever is held
    under the key of (n, f) is the downstream's answer to (n, f). *)
Fixpoint flag_sound (ops : list fop) (obs : list fobs) : bool :=
  match ops, obs with
  | [], [] => true
  | FAsk n f :: ops', FOAsk qn an af _ bg :: obs' =>
    (qn =? n) && (an =? n) && (af =? f)
    && match bg with Some (bn, bf) => (bn =? n) && (bf =? f) | None => true end
    && flag_sound ops' obs'
  | FAge _ _ :: ops', FOAge _ :: obs' => flag_sound ops' obs'
  | _, _ => false
  end.

Definition spec (c : case) : bool :=
  match c with
  | CKeys d1 d2 k1 k2 eq =>
    let q1 := qd_msg d1 in let q2 := qd_msg d2 in
    Bool.eqb (is_knone k1) (negb (cacheable q1)) && Bool.eqb (is_knone k2) (negb (cacheable q2))
    && (if cacheable q1 && cacheable q2 then Bool.eqb eq (same_qf_b q1 q2) else true)
  | CPair d1 d2 hit12 hit21 =>
    let q1 := qd_msg d1 in let q2 := qd_msg d2 in
    let want := cacheable q1 && cacheable q2 && same_qf_b q1 q2 in
    Bool.eqb hit12 want && Bool.eqb hit21 want
  | CHist ops obs => hist_sound ops 0 ops obs
  | CCtx d seen k => Bool.eqb (is_knone k) (negb (cacheable (qd_msg d)))
  | CSweep dim base total distinct start step cnt ck => distinct =? total
  | CLazy lazy rules ops obs held => lazy_sound rules ops obs && held_sound 0 held
  | CChain lazy sel m ops obs held =>
    chain_sound ops obs
    && forallb (fun e => match e with (k, rq, recs) => answers3 k rq recs end) held
  | CFlag lazy m ops obs held =>
    flag_sound ops obs
    && forallb (fun e => match e with
                         | ((n, f), (qn, an, af)) => (qn =? n) && (an =? n) && (af =? f)
                         end) held
  end.

(** * Non-triviality *)

(** Number of components (name, type, class, AD, CD, DO) in which two
    single-question messages differ. *)
Definition b2n (b : bool) : N := if b then 1 else 0.
Definition diff_count (q1 q2 : qmsg) : N :=
  match q_question q1, q_question q2 with
  | [a], [b] =>
    b2n (negb (bytes_eqb (qname a) (qname b))) + b2n (negb (qtype a =? qtype b))
    + b2n (negb (qclass a =? qclass b)) + b2n (negb (Bool.eqb (q_ad q1) (q_ad q2)))
    + b2n (negb (Bool.eqb (q_cd q1) (q_cd q2))) + b2n (negb (Bool.eqb (do_flag q1) (do_flag q2)))
  | _, _ => 0
  end.

Definition one_apart (d1 d2 : qd) : bool :=
  let q1 := qd_msg d1 in let q2 := qd_msg d2 in
  cacheable q1 && cacheable q2 && (diff_count q1 q2 =? 1).

Definition is_some {A} (o : option A) : bool := match o with Some _ => true | None => false end.

Definition nontrivial (c : case) : bool :=
  match c with
  | CKeys d1 d2 _ _ _ => one_apart d1 d2
  | CPair d1 d2 _ _ => one_apart d1 d2
  | CHist ops obs =>
    existsb is_some obs
    && (2 <=? N.of_nat (length (filter (fun p => match fst p, snd p with
                                                   | HQ d _ _, None => cacheable (qd_msg d)
                                                   | _, _ => false
                                                   end) (combine ops obs))))
  | CCtx d _ _ => existsb (fun x => match x with XOpt t => N.testbit t 15 | XOther => false end)
                          (q_extra (qd_msg d))
  | CSweep _ _ _ _ _ _ _ _ => true
  | CLazy lazy rules ops obs _ =>
    (* a background update happened for a redirected query, and something was asked after it *)
    lazy && negb (match rules with [] => true | _ => false end)
    && existsb (fun o => match o with OAsk _ (_ :: _ :: _) _ _ (Some _) => true | _ => false end)
               (removelast obs)
  | CChain lazy sel m ops obs held =>
    (* a response was already in the context when the cache was reached, or the
       selector ran its reference sub-query; and a plain query came last *)
    (existsb (fun o => match o with PAsk _ (Some _) => true | _ => false end) ops
     || (negb (sel =? 0)
         && existsb (fun o => match o with
                              | PAsk (_, t, _) _ => ((t =? 1) || (t =? 28)) && negb (t =? sel)
                              | _ => false
                              end) ops))
    && match last ops (PAge (0, 0, 0)) with PAsk _ None => true | _ => false end
  | CFlag lazy m ops obs held =>
    (* a background refresh ran for a query with AD or CD set, and a query came after it *)
    lazy && existsb (fun o => match o with
                              | FOAsk _ _ _ _ (Some (_, f)) => negb (N.land f 3 =? 0)
                              | _ => false
                              end) (removelast obs)
  end.
