(** C06 — case type and verdict functions evaluated by [bin/check] on the
    observations of the Go driver (harness/cmd/c06). *)
From Verif Require Import Base.Prelude.
From Verif Require Export Model.Sequence.
Open Scope N_scope.

(** What the driver saw: building sequence number [i] failed; or all were
    built and the last one was executed: the recorded trace (one number per
    plugin invocation), the returned error (0 = nil, else the code of the plugin
    whose error value came back, identified through wrapping; 9998 = an error
    no plugin made) and the final response (0 = none, 1 + rcode). *)
Inductive obs := OLoadFail (i : N) | ORun (tr : list N) (err resp : N).

Inductive case :=
  (** sequences as configured, built in order, the last one executed on a
      context whose response is [init] (0 = none, 1 + rcode) *)
| CProg (ss : list tseq) (init : N) (o : obs)
  (** parseMatch on an ASCII string: observed Tag, Type, Args, Reverse *)
| CParseM (s tag typ args : str) (reverse : bool)
  (** parseExec on an ASCII string: observed tag, typ, args *)
| CParseE (s tag typ args : str).

(** The numbers the harness plugins record. The built-in matchers _true (100)
    and _false (101) are not harness plugins and record nothing. *)
Definition enc_event (e : event) : N :=
  match e with
  | EMatch m r => 1000 + 10 * m + match r with MFalse => 0 | MTrue => 1 | MErr _ => 2 end
  | EExec x => 3000 + x
  | EWrap w i => 10000 * (w + 1) + i
  end.
Definition visible (e : event) : bool :=
  match e with EMatch m _ => m <? 100 | _ => true end.

Definition st_of (c : N) : hstate := if c =? 0 then None else Some (c - 1).

Definition predict (run : rules -> hstate -> outcome hstate) (ss : list tseq) (init : N) : obs :=
  match build_all harness_known ss with
  | inr i => OLoadFail i
  | inl [] => ORun [] 0 init
  | inl ((_, prog) :: _) =>
    let '(t, s, r) := run prog (st_of init) in
    ORun (map enc_event (filter visible t)) (match r with None => 0 | Some c => c end) (hcode s)
  end.

Definition obs_eqb (a b : obs) : bool :=
  match a, b with
  | OLoadFail i, OLoadFail j => i =? j
  | ORun t e r, ORun t' e' r' => list_eqb N.eqb t t' && (e =? e') && (r =? r')
  | _, _ => false
  end.

Definition str_eqb := list_eqb N.eqb.

Definition parse_m_ok (mk : str -> match_config) (s tag typ args : str) (reverse : bool) : bool :=
  let c := mk s in
  str_eqb (mc_tag c) tag && str_eqb (mc_type c) typ && str_eqb (mc_args c) args
  && Bool.eqb (mc_reverse c) reverse.

(** The model (the machine = ChainWalker.ExecNext, the builder, the parsers)
    predicts exactly what was observed. *)
Definition agree (c : case) : bool :=
  match c with
  | CProg ss init o => obs_eqb (predict (run_seq harness_env) ss init) o
  | CParseM s tag typ args reverse => parse_m_ok parse_match s tag typ args reverse
  | CParseE s tag typ args =>
    let '(t, y, a) := parse_exec s in str_eqb t tag && str_eqb y typ && str_eqb a args
  end.

(** The property's own reading. Programs: the big-step interpreter
    [spec_rules] (rules in order, matchers left to right with '!', accept /
    reject / return / jump / goto / errors by result code) gives exactly the
    observed trace, error and response. Rule text, stated without the parser
    model: the fields contain no blank at either end, exactly one of tag and
    type is used, [reverse] iff the text starts with '!', and putting the
    fields back together gives the text up to blanks. *)
Definition no_outer_blank (s : str) : bool :=
  match s with
  | [] => true
  | c :: _ => negb (is_space c) && negb (is_space (last s 0))
  end.
(** the name is what stands before the first ' ' *)
Definition name_ok (s : str) : bool :=
  negb (existsb (N.eqb 32) s) && match s with c :: _ => negb (is_space c) | [] => true end.
Definition squeeze (s : str) : str := filter (fun c => negb (is_space c)) s.
Definition first_nonblank (s : str) : N := hd 0 (squeeze s).

(** the text, without blanks, is [bang ++ ('$' tag | type) ++ args] *)
Definition reassembles (s bang tag typ args : str) : bool :=
  let heads := match tag, typ with
               | [], [] => [[]; [36]]
               | [], _ => [typ]
               | _, _ => [36 :: tag]
               end in
  existsb (fun h => list_eqb N.eqb (squeeze s) (squeeze (bang ++ h ++ args))) heads.

Definition fields_ok (tag typ args : str) : bool :=
  name_ok tag && no_outer_blank tag && name_ok typ && no_outer_blank args
  && (match tag, typ with [], _ => true | _, [] => true | _, _ => false end).

Definition spec (c : case) : bool :=
  match c with
  | CProg ss init o => obs_eqb (predict (spec_seq harness_env) ss init) o
  | CParseM s tag typ args reverse =>
    fields_ok tag typ args
    && Bool.eqb reverse (first_nonblank s =? 33)
    && reassembles s (if reverse then [33] else []) tag typ args
  | CParseE s tag typ args =>
    fields_ok tag typ args && reassembles s [] tag typ args
  end.

(** Non-trivial: the executed program has a return or goto inside a sequence
    that is itself entered by jump/goto or used as a plain action ($seq), or a wrapper that runs its
    continuation twice or keeps it for later; rule text with a '!' or surplus blanks. *)
Fixpoint has_ret_goto (rs : rules) : bool :=
  match rs with
  | RNil => false
  | RCons (Rule _ a) rest =>
    match a with
    | Return | Goto _ => true
    | Jump t | Call t => has_ret_goto t || has_ret_goto rest
    | _ => has_ret_goto rest
    end
  end.
Fixpoint deep (rs : rules) : bool :=
  match rs with
  | RNil => false
  | RCons (Rule _ a) rest =>
    match a with
    | Jump t | Goto t | Call t => has_ret_goto t || deep t || deep rest
    | Wrap w => (2 <=? w mod 3) || (18 <=? w) || deep rest
    | _ => deep rest
    end
  end.

Definition nontrivial (c : case) : bool :=
  match c with
  | CProg ss _ (ORun _ _ _) =>
    match build_all harness_known ss with
    | inl ((_, prog) :: _) => deep prog
    | _ => false
    end
  | CProg _ _ (OLoadFail _) => false
  | CParseM s _ _ _ reverse => reverse || (length (squeeze s) + 1 <? length s)%nat
  | CParseE s _ _ _ => (length (squeeze s) + 1 <? length s)%nat
  end.
