(** C03 — case type and verdict functions evaluated by [bin/check] on the
    observations of the Go driver harness/cmd/c03. The case type and [agree]
    are those of Judge/C15.v (one model, one printer); [spec] is C03's own
    oracle on the observations: the client query, what the plugin chain left
    behind (error / nothing / an answer — observed at EntryHandlerOpts.Entry),
    and the reply with its length. *)
From Verif Require Import Base.Prelude Gen.Constants.
From Verif Require Export Judge.C15.
Open Scope N_scope.

Definition case := Judge.C15.case.
Definition agree : case -> bool := Judge.C15.agree.

(** * The property's own oracle *)

(** well-formed: QR=0, exactly one question, no answer/authority records, at
    most one additional record *)
Definition wellformed (q : msg) : bool :=
  negb (m_qr q)
  && match m_question q with [_] => true | _ => false end
  && match m_answer q, m_ns q with [], [] => true | _, _ => false end
  && match m_extra q with [] | [_] => true | _ => false end.

Definition strip_opt (l : list rr) : list rr := filter (fun r => negb (is_opt r)) l.

(** max(512, the client's advertised EDNS size) *)
Definition size_limit (q : msg) : N :=
  N.max 512 (match client_opt q with Some o => o_udp o | None => 0 end).

(** carries the query's ID and question unchanged, with QR and RA set *)
Definition echoes (q r : msg) : bool :=
  (m_id r =? m_id q) && list_eqb question_eqb (m_question r) (m_question q) && m_qr r && m_ra r.

(** a synthesised reply: the rcode and no records (apart from the OPT) *)
Definition synthesised (rc : N) (q r : msg) : bool :=
  (m_rcode r =? rc) && (m_opcode r =? m_opcode q)
  && match m_answer r, m_ns r, strip_opt (m_extra r) with [], [], [] => true | _, _, _ => false end.

Definition lost (a r : msg) : bool :=
  (length (m_answer r) <? length (m_answer a))%nat || (length (m_ns r) <? length (m_ns a))%nat
  || (length (strip_opt (m_extra r)) <? length (m_extra a))%nat.

(** the plugins' answer: same header (RA aside), same rcode, and the records —
    all of them, or over UDP a prefix of every section with TC set when
    something was dropped *)
Definition is_answer (udp : bool) (a r : msg) : bool :=
  (m_rcode r =? m_rcode a) && (m_opcode r =? m_opcode a)
  && Bool.eqb (m_aa r) (m_aa a) && Bool.eqb (m_rd r) (m_rd a) && Bool.eqb (m_z r) (m_z a)
  && Bool.eqb (m_ad r) (m_ad a) && Bool.eqb (m_cd r) (m_cd a)
  && is_prefix_rr (m_answer r) (m_answer a) && is_prefix_rr (m_ns r) (m_ns a)
  && is_prefix_rr (strip_opt (m_extra r)) (m_extra a)
  && Bool.eqb (m_tc r) (m_tc a || lost a r)
  && (udp || negb (lost a r)).

Definition chain_rcode (c : chain_obs) : N :=
  match c with OErr => rcode_servfail | ONone => Msg.rcode_refused | OAnswer a => m_rcode a end.

Definition spec_query03 (o : qobs) : bool :=
  match o with
  | QObs q udp ca seen chain reply rlen =>
    if wellformed q then
      (* extended rcodes are in scope only when the client sent OPT *)
      if (chain_rcode chain <? 16) || match client_opt q with Some _ => true | None => false end then
        match reply with
        | None => false                                  (* exactly one reply *)
        | Some r =>
          echoes q r
          && match chain with
             | OErr => synthesised rcode_servfail q r
             | ONone => synthesised Msg.rcode_refused q r
             | OAnswer a => is_answer udp a r
             end
          && (negb udp || (rlen <=? size_limit q))
        end
      else true
    else
      match reply with None => true | Some _ => false end   (* malformed queries get no DNS reply *)
  end.

(** Through the real servers, whatever the transport of arrival: a well-formed
    query gets exactly one reply with its ID and question, QR and RA set (the
    scripted upstreams of these cases use rcodes 0..15 only); over UDP it is
    not longer than max(512, advertised); a malformed query gets none. *)
Definition spec_net (o : nobs) : bool :=
  match o with
  | NObs tr q reply rlen =>
    if wellformed q then
      match reply with
      | Some r => echoes q r && (negb (tr =? 0) || (rlen <=? size_limit q))
      | None => false
      end
    else match reply with None => true | Some _ => false end
  end.

Definition spec03 (c : case) : bool :=
  match c with
  | CRun xs ws scripts prog qs => forallb spec_query03 qs
  | CFun _ _ _ _ _ => true
  | CCopy _ _ _ _ _ _ _ _ _ _ => true
  | CNet xs ws scripts prog ns => forallb spec_net ns
  | CLazy xs ws scripts prog steps =>
    forallb (fun st => match st with
                       | LQ o _ => spec_query03 o
                       | LExpire => true
                       | LPair a b _ => spec_query03 a && spec_query03 b
                       end) steps
  end.
Definition spec := spec03.

(** Non-trivial: the program contains at least two of {cache, redirect, a
    local-answer plugin, forward, fallback, dual_selector}, some query was
    answered by the plugins and replied to. *)
Definition b2n (b : bool) : N := if b then 1 else 0.
Definition nontrivial03 (c : case) : bool :=
  match c with
  | CRun xs ws scripts prog qs =>
    (2 <=? b2n (existsb (fun d => match d with DCache _ _ => true | _ => false end) ws)
           + b2n (existsb (fun d => match d with DRedirect _ => true | _ => false end) ws)
           + b2n (existsb (fun d => match d with DHosts _ | DBlackHole _ _ | DArbitrary _ => true | _ => false end) xs)
           + b2n (existsb (fun d => match d with DForward _ => true | _ => false end) xs)
           + b2n (existsb (fun d => match d with DFallback _ _ _ => true | _ => false end) xs)
           + b2n (existsb (fun d => match d with DDual _ _ => true | _ => false end) ws))
    && existsb (fun o => match o with QObs _ _ _ _ (OAnswer _) (Some _) _ => true | _ => false end) qs
  | CFun _ _ _ _ _ => false
  | CCopy _ _ _ _ _ _ _ _ _ _ => false
  | CLazy xs ws scripts prog steps => Judge.C15.nontrivial15 c
  | CNet _ _ _ _ ns =>
    (* all five transports were used and some query is at a boundary: the root name, or a reply of more than 512 bytes *)
    (* ... or at least 8 replies came back on pipelined connections *)
    (8 <=? count_true (fun o => match o with NObs 2 _ (Some _) _ => true | _ => false end) ns)
    || forallb (fun t => existsb (fun o => match o with NObs tr _ (Some _) _ => tr =? t | _ => false end) ns) [0; 1; 2; 3; 4]
    && existsb (fun o => match o with
                         | NObs _ q _ rlen =>
                           (512 <? rlen) || match m_question q with qu :: _ => (length (qname qu) <=? 1)%nat | [] => false end
                         end) ns
  end.
Definition nontrivial := nontrivial03.
