(** C02 — verdict functions for harness/cmd/c02: schedules on the ID-multiplexed connection (Judge.Tdc),
    on the non-pipelined transport (Judge.Reuse) and on the pipeline transport's retry loop around dummy
    connections (Judge.PPool: a reply handed up by a connection is returned whatever happened to the caller's
    context meanwhile). *)
From Verif Require Import Base.Prelude.
From Verif Require Judge.Tdc Judge.Reuse Judge.PPool.
Export Judge.Tdc Judge.Reuse Judge.PPool.
Inductive case := KTdc (c : Judge.Tdc.case) | KReuse (c : Judge.Reuse.case) | KPool (c : Judge.PPool.case).
Definition agree (c : case) : bool :=
  match c with KTdc x => Judge.Tdc.agree x | KReuse x => Judge.Reuse.agree x | KPool x => Judge.PPool.agree x end.
Definition spec (c : case) : bool :=
  match c with KTdc x => Judge.Tdc.spec_c02 x | KReuse x => Judge.Reuse.spec_c02 x | KPool x => Judge.PPool.spec_c02 x end.
Definition nontrivial (c : case) : bool :=
  match c with KTdc x => Judge.Tdc.nontrivial_c02 x | KReuse x => Judge.Reuse.nontrivial x | KPool x => Judge.PPool.nontrivial_c02 x end.
