(** C15 (and, re-exported by Judge/C03.v, C03) — case type and verdict functions
    evaluated by [bin/check] on the observations of the Go drivers
    (harness/cmd/c15, harness/cmd/c03; shared printer harness/msgx).

    One case = one program (sequences of the real plugins, loaded from rule
    text by sequence.NewSequence) run through EntryHandler.Handle on a list of
    client queries, one after the other, so that cache contents carry over.
    Observed per query: the messages the in-memory upstreams received, what the
    entry sequence left in the query context (error / no response / R()), and
    the packed reply re-parsed (or "no reply") with its length. *)
From Verif Require Import Base.Prelude Gen.Constants.
From Verif Require Export Model.Msg Model.Handler Model.Sequence Model.Plugins.
From Verif Require Model.Domain.
Open Scope N_scope.

(** * Literal helpers (the drivers print these) *)

(** The name table. *)
Definition n0 : bytes := [97;46;116;101;115;116;46].                (* a.test. *)
Definition n1 : bytes := [98;46;116;101;115;116;46].                (* b.test. *)
Definition n2 : bytes := [99;46;116;101;115;116;46].                (* c.test. *)
Definition n3 : bytes := [65;46;84;101;115;116;46].                 (* A.Test. *)
Definition n4 : bytes := [100;46;101;120;97;109;112;108;101;46].    (* d.example. *)
Definition n5 : bytes := [66;46;84;69;83;84;46].                    (* B.TEST. *)
Definition n6 : bytes := [101;46;116;101;115;116;46].               (* e.test. *)
Definition n7 : bytes := [46].                                      (* . *)

(** A long name: [k] letters from the shared generator, a dot after every 50,
    then ".test." *)
Fixpoint dotify (i : nat) (l : bytes) : bytes :=
  match l with
  | [] => []
  | c :: t => match i with
              | O => 46 :: c :: dotify 49 t
              | S i' => c :: dotify i' t
              end
  end.
Definition ln (k seed : N) : bytes :=
  dotify 50 (map (fun b => 97 + b mod 26) (gen_bytes k seed)) ++ [46;116;101;115;116;46].

Definition Q (n : bytes) (t c : N) : question := mkqu n t c.
Definition R (n : bytes) (ty cl ttl tag : N) : rr := RR n ty cl ttl (RTag tag).
Definition CN (n : bytes) (ttl : N) (tgt : bytes) : rr := RR n type_cname class_inet ttl (RName tgt).
Definition O (udp : N) (do : bool) (ver ext : N) (opts : list eopt) : rr := OPT (Opt udp do ver ext opts).

(** [mk id fl rc ...]: [fl] is the 16 bit flag word of the DNS header (QR,
    opcode, AA, TC, RD, RA, Z, AD, CD; the rcode bits are ignored), [rc] the
    full rcode as miekg holds it. *)
Definition mk (id fl rc : N) (qs : list question) (an ns ex : list rr) : msg :=
  Msg id (N.testbit fl 15) (N.land (N.shiftr fl 11) 15) (N.testbit fl 10) (N.testbit fl 9)
      (N.testbit fl 8) (N.testbit fl 7) (N.testbit fl 6) (N.testbit fl 5) (N.testbit fl 4)
      rc qs an ns ex.

(** * Plugin configurations *)
Inductive xdesc :=
| DHosts (t : list (bytes * list N * list N))     (* entries "pattern ip..." : pattern, IPv4 tags, IPv6 tags *)
| DBlackHole (v4 v6 : list N)
| DArbitrary (z : list (question * list rr))      (* zone records grouped by (lower-cased owner, type, class) *)
| DTtl (f mn mx : N)
| DForward (u : N)
| DDropResp
| DRendezvous                                   (* harness: overlapping queries meet here; no effect on the context *)
| DFallback (primary secondary : N) (standby : bool).   (* Args: sequence names, always_standby *)

Inductive wdesc :=
| DCache (inst lazy : N)                          (* lazy_cache_ttl *)
| DRedirect (t : list (bytes * bytes))            (* rules "pattern target" *)
| DEcs (fwd send : bool) (preset : option addr) (m4 m6 : N)   (* Args as given to NewHandler *)
| DFwdOpt (codes : list N)
| DDual (inst : N) (v6 : bool).                   (* prefer_ipv6 / prefer_ipv4 *)

(** A scripted upstream reply: fails, or echoes id, opcode, RD and question
    with these flag bits (AA TC RA Z AD CD of [fl]), rcode, records (an empty
    owner name stands for the query name) and OPT. *)
Inductive rtmpl := RT (fail : bool) (fl rc : N) (an ns ex : list rr) (o : option opt).

Inductive chain_obs := OErr | ONone | OAnswer (r : msg).

Inductive qobs :=
  QObs (q : msg) (udp : bool) (ca : option addr)
       (seen : list (N * msg)) (chain : chain_obs) (reply : option msg) (rlen : N).

(** [CFun op arg m out aux]: one helper applied to a message that may hold
    OPT records anywhere: op 0 SetTTL(arg), 1 ApplyMinimalTTL(arg),
    2 ApplyMaximumTTL(arg), 3 SubtractTTL(arg) (aux = 1 when it reports an
    overflow), 4 GetMinimalTTL (aux = result), 5 cache.copyNoOpt,
    6 NewContext: out = Q(), aux = 2*[clientOpt != nil] + [RespOpt().Do()],
    7 SetResponse: out = R(), aux = [UpstreamOpt() != nil]. *)
Inductive case :=
| CRun (xs : list xdesc) (ws : list wdesc) (scripts : list (list rtmpl))
       (prog : list tseq) (qs : list qobs)
| CFun (op arg : N) (m out : msg) (aux : N)
  (** Context.Copy(): a context is made from [q0] (and given the response
      [pre]), copied, and then ONE of the two (the copy when [on_copy]) is
      written to the way plugins do: options appended to RespOpt() and to the
      query OPT, TTLs of R() rewritten in place, SetResponse([m2]). Observed:
      the context before, and original and copy afterwards. *)
| CCopy (q0 : msg) (pre : option msg) (on_copy : bool) (es_resp es_q : list eopt) (ttl : N) (m2 : option msg)
        (before orig copy : cobs)
  (** The real servers of pkg/server in front of EntryHandler over a stateless
      program (no cache, no selector): every query is sent over a transport
      [tr] — 0 ServeUDP on a loopback socket, 1 ServeTCP on a connection of its
      own, 2 ServeTCP pipelined with others on one connection, 3 / 4 the DoH
      handler behind a loopback HTTP server by GET / POST — and the reply bytes
      that came back are re-parsed ([None]: nothing within the waiting time /
      connection closed / HTTP error). *)
  (** A program with a lazy cache, run on steps: [LQ] one query (the lazy
      update it may start is joined), with the message the first cache then
      holds under the query's key; [LExpire]: every stored message expires
      (VerifC10Backdate by an hour), the entries are retained; [LPair a b]: two
      queries whose Handle calls overlap — [a] passes the cache first, both
      wait behind it until both are there, the upstreams are held until both
      replies are out (so the lazy update [a] started is still in flight when
      [b] hits); the upstream messages of both are listed with [a]. *)
| CLazy (xs : list xdesc) (ws : list wdesc) (scripts : list (list rtmpl)) (prog : list tseq) (steps : list lstep)
| CNet (xs : list xdesc) (ws : list wdesc) (scripts : list (list rtmpl)) (prog : list tseq) (ns : list nobs)
with lstep := LQ (o : qobs) (stored : option msg) | LExpire | LPair (a b : qobs) (stored : option msg)
with nobs := NObs (tr : N) (q : msg) (reply : option msg) (rlen : N)
with cobs := CObs (q : msg) (co : option opt) (r : option msg) (ro uo : option opt).

(** * Model side *)

(** domain.FullMatcher: Add normalises the pattern and overwrites, Match
    normalises the name. *)
Fixpoint assoc_last {V} (k : bytes) (t : list (bytes * V)) : option V :=
  match t with
  | [] => None
  | (k', v) :: t' =>
    match assoc_last k t' with
    | Some x => Some x
    | None => if name_eqb (Domain.normalize k') k then Some v else None
    end
  end.
Definition full_match {V} (t : list (bytes * V)) (name : bytes) : option V :=
  assoc_last (Domain.normalize name) t.

(** dns.Fqdn on a plain name *)
Definition fqdn (s : bytes) : bytes :=
  match rev s with
  | 46 :: _ => s
  | _ => s ++ [46]
  end.

(** zone_file.Matcher.Search *)
Fixpoint zone_search (z : list (question * list rr)) (qu : question) : list rr :=
  match z with
  | [] => []
  | (k, rrs) :: t =>
    if question_eqb k (mkqu (Domain.to_lower (qname qu)) (qtype qu) (qclass qu)) then rrs
    else zone_search t qu
  end.

Definition xplugin_of (reg : registry) (d : xdesc) : xplugin :=
  match d with
  | DHosts t => XHosts (fun name => match full_match (map (fun e => (fst (fst e), (snd (fst e), snd e))) t) name with
                                    | Some v => v | None => ([], []) end)
  | DBlackHole v4 v6 => XBlackHole v4 v6
  | DArbitrary z => XArbitrary (zone_search z)
  | DTtl f mn mx => XTtl f mn mx
  | DForward u => XForward u
  | DDropResp => XDropResp
  | DRendezvous => XTtl 0 0 0
  | DFallback p s standby =>
    match Sequence.lookup reg p, Sequence.lookup reg s with
    | Some rp, Some rs => XFallback rp rs standby
    | _, _ => XDropResp          (* the driver only names sequences it has built *)
    end
  end.

Definition wplugin_of (d : wdesc) : wplugin :=
  match d with
  | DCache i lazy => WCache i lazy
  | DRedirect t => WRedirect (full_match (map (fun e => (fst e, fqdn (snd e))) t))
  | DEcs fwd send preset m4 m6 =>
    match new_ecs fwd send preset m4 m6 with
    | Some p => p
    | None => WFwdOpt []          (* the driver never configures an invalid mask *)
    end
  | DFwdOpt codes => WFwdOpt codes
  | DDual i v6 => WDual i v6
  end.

(** Matcher ids: 0 = has_resp, 100 / 101 = _true / _false, any other id m = "qtype m". *)
Definition matcher_of (m : N) : matcher :=
  if m =? 0 then MHasResp
  else if m =? 100 then MOracle (fun _ => MTrue)
  else if m =? 101 then MOracle (fun _ => MFalse)
  else MQtype [m].

(** The scripted upstream as a function of the message it receives. *)
Definition subst_name (qn : bytes) (r : rr) : rr :=
  match r with
  | RR [] ty cl ttl rd => RR qn ty cl ttl rd
  | _ => r
  end.

Definition pick_index (q : msg) : N :=
  match m_question q with
  | qu :: _ => checksum (qname qu) + qtype qu + m_id q
  | [] => m_id q
  end.

Definition reply_of (t : rtmpl) (q : msg) : option msg :=
  match t with
  | RT true _ _ _ _ _ _ => None
  | RT false fl rc an ns ex o =>
    let qn := match m_question q with qu :: _ => qname qu | [] => [] end in
    let sub := map (subst_name qn) in
    Some (wire (Msg (m_id q) true (m_opcode q) (N.testbit fl 10) (N.testbit fl 9) (m_rd q)
                    (N.testbit fl 7) (N.testbit fl 6) (N.testbit fl 5) (N.testbit fl 4) rc
                    (m_question q) (sub an) (sub ns)
                    (sub ex ++ match o with Some x => [OPT x] | None => [] end)))
  end.

Definition ups_of (scripts : list (list rtmpl)) (u : N) (q : msg) : option msg :=
  match nth_error scripts (N.to_nat u) with
  | Some (t0 :: ts) => reply_of (nth (N.to_nat (pick_index q mod N.of_nat (S (length ts)))) (t0 :: ts) t0) q
  | _ => None
  end.

(** Within one run (well under a second) nothing expires and no whole second passes. *)
Definition jclock (_ : N) : option N := Some 0.

(** Instances of the library Section variables used to run the model: the
    reply before truncation (the truncation itself is checked as a relation),
    and miekg's Pack failing exactly for an extended rcode without OPT. *)
Definition jtruncate (_ : N) (m : msg) : msg := m.
Definition jpacks (m : msg) : bool := (m_rcode m <? 16) || (0 <? count_opt (m_extra m))%nat.

Definition jknown (xs : list xdesc) (ws : list wdesc) : known :=
  Known (fun _ => true) (fun e => e <? N.of_nat (length xs)) (fun w => w <? N.of_nat (length ws)).

Definition build_prog (xs : list xdesc) (ws : list wdesc) (prog : list tseq) : option (registry * rules) :=
  match build_all (jknown xs ws) prog with
  | inl ((n, rs) :: t) => Some ((n, rs) :: t, rs)
  | _ => None
  end.

(** fallback nests at most as deep as there are sequences *)
Definition jdepth : nat := 6.

Definition jentry (xs : list xdesc) (ws : list wdesc) (scripts : list (list rtmpl)) (reg : registry) (rs : rules) :
  state -> state * option N :=
  entry (ups_of scripts) jclock
        (fun e => xplugin_of reg (nth (N.to_nat e) xs DDropResp))
        (fun w => wplugin_of (nth (N.to_nat w) ws (DFwdOpt [])))
        matcher_of jdepth rs.

(** Programs with dual_selector or a standing-by fallback run sub-chains
    concurrently: the order in which upstreams are reached is free. *)
Definition concurrent (xs : list xdesc) (ws : list wdesc) : bool :=
  existsb (fun d => match d with DFallback _ _ true => true | _ => false end) xs
  || existsb (fun d => match d with DDual _ _ => true | _ => false end) ws.

Definition seen_eqb (a b : N * msg) : bool := (fst a =? fst b) && msg_eqb (snd a) (snd b).

Fixpoint remove_first (x : N * msg) (l : list (N * msg)) : option (list (N * msg)) :=
  match l with
  | [] => None
  | y :: t => if seen_eqb x y then Some t
              else match remove_first x t with Some t' => Some (y :: t') | None => None end
  end.
Fixpoint is_perm (a b : list (N * msg)) : bool :=
  match a with
  | [] => match b with [] => true | _ => false end
  | x :: a' => match remove_first x b with Some b' => is_perm a' b' | None => false end
  end.

Definition chain_eqb (m : chain_result) (o : chain_obs) : bool :=
  match m, o with
  | ChainErr, OErr => true
  | ChainNone, ONone => true
  | ChainAnswer a, OAnswer b => msg_eqb a b
  | _, _ => false
  end.

Definition reply_agrees (udp : bool) (size : N) (model : option msg) (obs : option msg) (rlen : N) : bool :=
  match model, obs with
  | None, None => true
  | Some r0, Some r =>
    if udp then trunc_rel (wire r0) r && (rlen <=? size)      (* the contract of Msg.Truncate *)
    else msg_eqb (wire r0) r
  | _, _ => false
  end.

Definition client_opt (q : msg) : option opt := find_opt (m_extra q).

Fixpoint agree_queries (conc : bool) (ent : state -> state * option N) (w : world) (qs : list qobs) : bool :=
  match qs with
  | [] => true
  | QObs q udp ca seen chain reply rlen :: t =>
    let w0 := clear_log w in
    let '(w1, r0) := handle jtruncate jpacks ent w0 q udp ca in
    let chain_ok :=
      if valid_query q then
        let '((c, _), err) := ent (new_context q udp ca, w0) in chain_eqb (chain_result_of c err) chain
      else match chain with ONone => true | _ => false end in
    (if conc then is_perm (w_log w1) seen else list_eqb seen_eqb (rev (w_log w1)) seen)
    && chain_ok
    && reply_agrees udp (valid_udp_size (client_opt q)) r0 reply rlen
    && agree_queries conc ent w1 t
  end.

Definition b2N (b : bool) : N := if b then 1 else 0.

(** lazy-cache steps *)
Definition cache_insts (ws : list wdesc) : list N :=
  flat_map (fun d => match d with DCache i _ => [i] | _ => [] end) ws.

(** the message the first cache holds under the key of [q] *)
Definition stored_under (ws : list wdesc) (w : world) (q : msg) : option msg :=
  match cache_insts ws, msg_key (c_query (new_context q false None)) with
  | i :: _, Some key => lookup key (w_store w i)
  | _, _ => None
  end.

Definition one_query (ent : state -> state * option N) (w0 : world) (o : qobs) : world * bool :=
  match o with
  | QObs q udp ca seen chain reply rlen =>
    let '(w1, r0) := handle jtruncate jpacks ent w0 q udp ca in
    let chain_ok :=
      if valid_query q then
        let '((c, _), err) := ent (new_context q udp ca, w0) in chain_eqb (chain_result_of c err) chain
      else match chain with ONone => true | _ => false end in
    (w1, chain_ok && reply_agrees udp (valid_udp_size (client_opt q)) r0 reply rlen)
  end.

Definition seen_of (o : qobs) : list (N * msg) := match o with QObs _ _ _ seen _ _ _ => seen end.
Definition query_of (o : qobs) : msg := match o with QObs q _ _ _ _ _ _ => q end.

Fixpoint agree_steps (ws : list wdesc) (ent : state -> state * option N) (w : world) (steps : list lstep) : bool :=
  match steps with
  | [] => true
  | LQ o stored :: t =>
    let '(w1, ok) := one_query ent (clear_log w) o in
    ok && is_perm (w_log w1) (seen_of o)
    && option_eqb msg_eqb (stored_under ws w1 (query_of o)) stored
    && agree_steps ws ent w1 t
  | LExpire :: t => agree_steps ws ent (expire_all w (cache_insts ws)) t
  | LPair a b stored :: t =>
    let '(w1, ok1) := one_query ent (clear_log w) a in
    (* the lazy update [a] started is in flight while [b] is handled *)
    let '(w2, ok2) := one_query ent (set_sf w1 true) b in
    let w2 := set_sf w2 false in
    ok1 && ok2 && is_perm (w_log w2) (seen_of a ++ seen_of b)
    && option_eqb msg_eqb (stored_under ws w2 (query_of a)) stored
    && agree_steps ws ent w2 t
  end.

Definition all_rrs (m : msg) : list rr := m_answer m ++ m_ns m ++ m_extra m.
Definition ttl_of (r : rr) : option N := match r with RR _ _ _ t _ => Some t | OPT _ => None end.

Definition fun_model (op arg : N) (m : msg) : msg * N :=
  match op with
  | 0 => (set_ttl arg m, 0)
  | 1 => (apply_min_ttl arg m, 0)
  | 2 => (apply_max_ttl arg m, 0)
  | 3 => (subtract_ttl arg m,
          b2N (existsb (fun r => match ttl_of r with Some t => negb (arg <? t) | None => false end) (all_rrs m)))
  | 4 => (m, min_ttl m)
  | 5 => (copy_no_opt m, 0)
  | 6 => let c := new_context m false None in
         (c_query c, 2 * b2N (match c_client_opt c with Some _ => true | None => false end)
                     + b2N (match c_resp_opt c with Some o => o_do o | None => false end))
  | _ => let c := set_response (new_context (mk 0 0 0 [] [] [] []) false None) 1 m in
         (match c_resp c with Some r => r | None => m end,
          b2N (match c_upstream_opt c with Some _ => true | None => false end))
  end.

(** the Copy experiment in the model: the context before, and the written one *)
Definition obs_of (c : ctx) : cobs :=
  CObs (c_query c) (c_client_opt c) (c_resp c) (c_resp_opt c) (c_upstream_opt c).

Definition cobs_eqb (a b : cobs) : bool :=
  match a, b with
  | CObs q1 co1 r1 ro1 uo1, CObs q2 co2 r2 ro2 uo2 =>
    msg_eqb q1 q2 && option_eqb opt_eqb co1 co2 && option_eqb msg_eqb r1 r2
    && option_eqb opt_eqb ro1 ro2 && option_eqb opt_eqb uo1 uo2
  end.

Definition copy_model (q0 : msg) (pre : option msg) (es_resp es_q : list eopt) (ttl : N) (m2 : option msg) : cobs * cobs :=
  let c0 := new_context q0 false None in
  let c1 := match pre with Some m => set_response c0 1 m | None => c0 end in
  (* Copy() is the identity on everything observed; then the writes *)
  let c2 := fst (ctx_copy (c1, empty_world)) in
  let c3 := resp_add_opts c2 es_resp in
  let c4 := match c_resp c3 with
            | Some r => if 0 <? ttl then with_resp_inplace c3 (set_ttl ttl r) else c3
            | None => c3
            end in
  let c5 := q_add_opts c4 es_q in
  let c6 := match m2 with Some m => set_response c5 2 m | None => c5 end in
  (obs_of c1, obs_of c6).

Definition agree (c : case) : bool :=
  match c with
  | CRun xs ws scripts prog qs =>
    match build_prog xs ws prog with
    | Some (reg, rs) => agree_queries (concurrent xs ws) (jentry xs ws scripts reg rs) empty_world qs
    | None => false
    end
  | CFun op arg m out aux =>
    let '(o, a) := fun_model op arg m in msg_eqb o out && (a =? aux)
  | CLazy xs ws scripts prog steps =>
    match build_prog xs ws prog with
    | Some (reg, rs) => agree_steps ws (jentry xs ws scripts reg rs) empty_world steps
    | None => false
    end
  | CNet xs ws scripts prog ns =>
    (* the transport is transparent: Handle on the unpacked query, FromUDP for transport 0 *)
    match build_prog xs ws prog with
    | Some (reg, rs) =>
      forallb (fun o => match o with
                        | NObs tr q reply rlen =>
                          let udp := tr =? 0 in
                          let '(_, r0) := handle jtruncate jpacks (jentry xs ws scripts reg rs) empty_world q udp None in
                          reply_agrees udp (valid_udp_size (client_opt q)) r0 reply rlen
                        end) ns
    | None => false
    end
  | CCopy q0 pre on_copy es_resp es_q ttl m2 before orig copy =>
    let '(b, t) := copy_model q0 pre es_resp es_q ttl m2 in
    cobs_eqb b before
    && cobs_eqb (if on_copy then b else t) orig
    && cobs_eqb (if on_copy then t else b) copy
  end.

(** * The property's own oracle for C15, on the observations alone *)

Definition mem_eopt (e : eopt) (l : list eopt) : bool := existsb (eopt_eqb e) l.

Definition opts_client (q : msg) : list eopt :=
  match client_opt q with Some o => o_opts o | None => [] end.

(** A plugin that forwards EDNS0 options with this code explicitly. *)
Definition forwards_code (ws : list wdesc) (code : N) : bool :=
  existsb (fun d => match d with
                    | DFwdOpt codes => existsb (N.eqb code) codes
                    | DEcs fwd _ _ _ _ => fwd && (code =? ecs_code)
                    | _ => false
                    end) ws.
(** The client-subnet options the ecs_handlers of the chain are configured to
    make themselves: from their preset address, or (send) from the client's
    address [ca]; mask4 / mask6 default to 24 / 48. *)
Definition subnet_option (a : addr) (m4 m6 : N) : eopt :=
  let m := if fst a then (if m6 =? 0 then 48 else m6) else (if m4 =? 0 then 24 else m4) in
  (ecs_code, ((((if fst a then 2 else 1) * 256 + m) * 256 + 0) * 4294967296) + snd a).
Definition made_ecs (ws : list wdesc) (ca : option addr) : list eopt :=
  flat_map (fun d => match d with
                     | DEcs _ send preset m4 m6 =>
                       match preset with Some a => [subnet_option a m4 m6] | None => [] end
                       ++ match send, ca with true, Some a => [subnet_option a m4 m6] | _, _ => [] end
                     | _ => []
                     end) ws.

(** The message an upstream received: exactly one OPT, in the additional
    section, fresh (size edns0Size, DO clear, version 0); every option is a
    client option that a plugin of the chain is configured to forward
    (forward_edns0opt: its listed codes; ecs_handler: the client's subnet only
    with forward: true), or exactly a client-subnet option an ecs_handler is
    configured to make (preset / send). *)
Definition upstream_msg_ok (ws : list wdesc) (q : msg) (ca : option addr) (m : msg) : bool :=
  no_opt (m_answer m) && no_opt (m_ns m)
  && match opts_of (m_extra m) with
     | [o] =>
       (o_udp o =? edns0_size) && negb (o_do o) && (o_ver o =? 0)
       && forallb (fun e =>
                     (mem_eopt e (opts_client q) && forwards_code ws (fst e))
                     || mem_eopt e (made_ecs ws ca)) (o_opts o)
     | _ => false
     end.

(** All options any scripted upstream reply carries. *)
Definition opts_upstream (scripts : list (list rtmpl)) : list eopt :=
  flat_map (flat_map (fun t => match t with RT _ _ _ _ _ _ (Some o) => o_opts o | _ => [] end)) scripts.

(** The options of the reply the scripted upstream gave to one message it received. *)
Definition opts_answered (scripts : list (list rtmpl)) (s : N * msg) : list eopt :=
  match ups_of scripts (fst s) (snd s) with
  | Some r => match find_opt (m_extra r) with Some o => o_opts o | None => [] end
  | None => []
  end.

(** The reply: exactly one OPT iff the client sent one, DO mirrored, fresh;
    every option was sent by an upstream and a plugin forwards its code. *)
(** ... and all of them come from ONE upstream reply given while this query
    was handled (the one that was served): options of other upstream replies —
    of a reference query, of the losing branch of a fallback — are nobody's to
    forward to this client. *)
Definition reply_opt_ok (ws : list wdesc) (scripts : list (list rtmpl)) (seen : list (N * msg)) (q r : msg) : bool :=
  no_opt (m_answer r) && no_opt (m_ns r)
  && match client_opt q, opts_of (m_extra r) with
     | None, [] => true
     | Some co, [o] =>
       Bool.eqb (o_do o) (o_do co) && (o_udp o =? edns0_size) && (o_ver o =? 0)
       && forallb (fun e => mem_eopt e (opts_upstream scripts) && forwards_code ws (fst e)) (o_opts o)
       && match o_opts o with
          | [] => true
          | es => existsb (fun s => forallb (fun e => mem_eopt e (opts_answered scripts s)) es) seen
          end
     | _, _ => false
     end.

(** R() never holds an OPT (so nothing that is cached or TTL-rewritten does). *)
Definition chain_ok (c : chain_obs) : bool :=
  match c with
  | OAnswer r => no_opt (m_answer r) && no_opt (m_ns r) && no_opt (m_extra r)
  | _ => true
  end.

Definition spec_query (ws : list wdesc) (scripts : list (list rtmpl)) (o : qobs) : bool :=
  match o with
  | QObs q udp ca seen chain reply rlen =>
    forallb (fun s => upstream_msg_ok ws q ca (snd s)) seen
    && chain_ok chain
    && match reply with
       | Some r => reply_opt_ok ws scripts seen q r
       | None => true
       end
  end.

(** the OPT records of every section, with their positions *)
Definition opt_layout (l : list rr) : list (option opt) :=
  map (fun r => match r with OPT o => Some o | _ => None end) l.
Definition layout_eqb (a b : list rr) : bool :=
  list_eqb (option_eqb opt_eqb) (opt_layout a) (opt_layout b).
Definition drop_opts (l : list rr) : list rr := filter (fun r => negb (is_opt r)) l.

(** the helpers, on the observation alone: TTL rewriting leaves every OPT where
    and as it is; a copy for the cache has no OPT in the additional section and
    is otherwise the message; a fresh context has exactly one, fresh, OPT in
    its query; SetResponse takes exactly the last OPT out *)
Definition spec_fun (op : N) (m out : msg) (aux : N) : bool :=
  match op with
  | 0 | 1 | 2 | 3 | 4 =>
    layout_eqb (m_answer m) (m_answer out) && layout_eqb (m_ns m) (m_ns out) && layout_eqb (m_extra m) (m_extra out)
  | 5 =>
    no_opt (m_extra out) && list_eqb rr_eqb (m_extra out) (drop_opts (m_extra m))
    && list_eqb rr_eqb (m_answer out) (m_answer m) && list_eqb rr_eqb (m_ns out) (m_ns m)
  | 6 =>
    match rev (opts_of (m_extra out)), rev (opts_of (m_extra m)) with
    | o :: rest, [] => opt_eqb o new_opt && (aux =? 0) && match rest with [] => true | _ => false end
    | o :: rest, co :: rest' =>
      opt_eqb o new_opt && list_eqb opt_eqb rest rest' && (aux =? 2 + b2N (o_do co))
    | [], _ => false
    end
  | _ =>
    (length (opts_of (m_extra out)) =? pred (length (opts_of (m_extra m))))%nat
    && list_eqb rr_eqb (drop_opts (m_extra out)) (drop_opts (m_extra m))
    && (aux =? b2N (negb (no_opt (m_extra m))))
  end.

Definition stored_ok (stored : option msg) : bool :=
  match stored with Some m => no_opt (m_answer m) && no_opt (m_ns m) && no_opt (m_extra m) | None => true end.

Definition spec15 (c : case) : bool :=
  match c with
  | CRun xs ws scripts prog qs => forallb (spec_query ws scripts) qs
  | CFun op arg m out aux => spec_fun op m out aux
  | CLazy xs ws scripts prog steps =>
    (* every query as in CRun; and what the cache holds never has an OPT *)
    forallb (fun st => match st with
                       | LQ o stored => spec_query ws scripts o && stored_ok stored
                       | LExpire => true
                       | LPair a b stored =>
                         spec_query ws scripts a && spec_query ws scripts b && stored_ok stored
                       end) steps
  | CNet xs ws scripts prog ns =>
    forallb (fun o => match o with
                      | NObs tr q (Some r) rlen =>
                        no_opt (m_answer r) && no_opt (m_ns r)
                        && match client_opt q, opts_of (m_extra r) with
                           | None, [] => true
                           | Some co, [o] =>
                             Bool.eqb (o_do o) (o_do co) && (o_udp o =? edns0_size) && (o_ver o =? 0)
                             && forallb (fun e => mem_eopt e (opts_upstream scripts) && forwards_code ws (fst e)) (o_opts o)
                           | _, _ => false
                           end
                      | _ => true
                      end) ns
  | CCopy q0 pre on_copy es_resp es_q ttl m2 before orig copy =>
    (* the one that was not written to is what it was; the other has the appended options *)
    let untouched := if on_copy then orig else copy in
    let touched := if on_copy then copy else orig in
    cobs_eqb untouched before
    && match before, touched with
       | CObs _ co _ ro _, CObs _ co' _ ro' _ =>
         option_eqb opt_eqb co co'
         && match ro, ro' with
            | Some a, Some b => list_eqb eopt_eqb (o_opts b) (o_opts a ++ es_resp)
            | None, None => true
            | _, _ => false
            end
       end
  end.
Definition spec := spec15.

(** Non-trivial: some query carries client options or meets upstream options,
    reached an upstream, got a reply, and the program contains one of cache,
    ttl, ecs_handler, forward_edns0opt. *)
Definition has_edns_plugin (xs : list xdesc) (ws : list wdesc) : bool :=
  existsb (fun d => match d with DTtl _ _ _ => true | _ => false end) xs
  || existsb (fun d => match d with DRedirect _ => false | _ => true end) ws.

Definition nontrivial15 (c : case) : bool :=
  match c with
  | CRun xs ws scripts prog qs =>
    has_edns_plugin xs ws
    && existsb (fun o => match o with
                         | QObs q _ _ seen _ (Some _) _ =>
                           (0 <? length seen)%nat
                           && ((0 <? length (opts_client q))%nat || (0 <? length (opts_upstream scripts))%nat)
                         | _ => false
                         end) qs
  | CFun op arg m out aux => negb (no_opt (all_rrs m))
  | CNet xs ws scripts prog ns => false
  | CLazy xs ws scripts prog steps =>
    (* an overlapping pair of stale hits by clients with OPT *)
    existsb (fun st => match st with
                       | LPair (QObs qa _ _ _ (OAnswer _) (Some _) _) (QObs qb _ _ sb (OAnswer _) (Some _) _) (Some _) =>
                         match client_opt qa, client_opt qb, sb with Some _, Some _, [] => true | _, _, _ => false end
                       | _ => false
                       end) steps
  | CCopy q0 pre on_copy es_resp es_q ttl m2 before orig copy =>
    match before with CObs _ _ _ (Some _) _ => (0 <? length es_resp)%nat | _ => false end
  end.
Definition nontrivial := nontrivial15.
