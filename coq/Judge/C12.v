(** C12 — case type and verdict functions evaluated by [bin/check] on the
    observations of the Go driver (harness/cmd/c12). *)
From Verif Require Import Base.Prelude Model.Domain.
Open Scope N_scope.

(** Values carried by rules: a short list of numbers (MixMatcher[[]int] in the
    direct cases, last octets of the A records for hosts, the number in the
    redirect target, [[]] for the value-less domain sets). *)
Definition VV := list N.
Definition vv_eqb : VV -> VV -> bool := list_eqb N.eqb.

(** The fixed regular-expression menu the driver draws from, with
    "regexp.Compile succeeds". The driver has the same table and refuses to
    start if Go disagrees about the second column. *)
Definition re_menu : list (str * bool) := [
  ([94; 97; 92; 46], true);            (* 0  ^a\.   *)
  ([98; 36], true);                    (* 1  b$     *)
  ([97; 46; 98], true);                (* 2  a.b    *)
  ([92; 46; 97; 92; 46], true);        (* 3  \.a\.  *)
  ([65], true);                        (* 4  A      *)
  ([94; 97; 98], true);                (* 5  ^ab    *)
  ([98; 92; 46; 97; 36], true);        (* 6  b\.a$  *)
  ([40], false);                       (* 7  (      *)
  ([91; 97], false);                   (* 8  [a     *)
  ([46], true);                        (* 9  .      *)
  ([97; 58; 63; 92; 46], true);        (* 10 a:?\.  *)
  ([94; 97; 46], true);                (* 11 ^a.    *)
  ([94; 98; 36], true);                (* 12 ^b$    *)
  ([94; 91; 97; 45; 122; 46; 93; 43; 36], true); (* 13 ^[a-z.]+$ *)
  ([94; 92; 68], true)                 (* 14 ^\D    *)
].

Fixpoint menu_find (e : str) (i : N) (m : list (str * bool)) : option (N * bool) :=
  match m with
  | [] => None
  | (e', ok) :: t => if str_eqb e e' then Some (i, ok) else menu_find e (i + 1) t
  end.
Definition re_valid_j (e : str) : bool :=
  match menu_find e 0 re_menu with Some (_, ok) => ok | None => false end.
(** The regexp oracle of one query: bit i of [mask] = Go's MatchString of menu
    entry i on the normalised query name, as observed by the driver. *)
Definition re_match_j (mask : N) (e _ : str) : bool :=
  match menu_find e 0 re_menu with Some (i, true) => N.testbit mask i | _ => false end.

(** A query: the name as given to Match, the regexp oracle, and what Match
    returned ([None] = no match). *)
Inductive query := Q (name : str) (mask : N) (obs : option VV).

(** An intended rule, used only by [spec]: type (1 full, 2 domain, 3 regexp,
    4 keyword), pattern as written, value. *)
Definition irule := (N * str * VV)%type.

(** A rule text with long runs written compactly: literal bytes, or [n] copies of one byte. *)
Inductive tseg := TLit (s : str) | TRep (b n : N).
Definition expand (segs : list tseg) : str :=
  flat_map (fun g => match g with TLit s => s | TRep b n => repeat b (N.to_nat n) end) segs.

Inductive case :=
  (** MixMatcher[[]int]: SetDefaultMatcher(dflt) (when not ""), Add(rule, value)
      for every rule (error classes observed, continuing after errors), then
      Match for every query. *)
| CMix (dflt : str) (rules : list (str * VV)) (errs : list N) (qs : list query)
  (** one of the four matchers on its own (kind as in [irule]); patterns without type prefix *)
| CSingle (kind : N) (rules : list (str * VV)) (errs : list N) (qs : list query)
  (** loaders: which = 0 domain.Load / LoadFromTextReader with the nil parser into
      a fresh MixMatcher with default [dflt] (queries run on whatever was loaded),
      1 domain_set.NewDomainSet (exps + one file), 2 plugin hosts.NewHosts
      (entries + one file), 3 redirect.NewRedirect (rules + one file), 4 the qname
      matcher of sequences (qname.QuickSetup "exp ... &file" -> base_domain.NewMatcher);
      for 1..4 the queries run only when the constructor succeeded. [intended] = the
      rules the generator meant to express (up to the first broken line). *)
| CLoad (which : N) (dflt : str) (entries : list str) (text : str) (failed : bool)
        (intended : list irule) (qs : list query)
  (** domain sets assembled from members: [sets] are created in list order as
      domain_set plugins (exps, one file, references to EARLIER sets by index).
      The set [top] is then consumed: via = 0 [GetDomainMatcher().Match], 1 a qname
      matcher "$top", 2 a qname matcher "extra-exps... $top". [intended] = all
      rules of the sets reachable from [top] (and [extra]), as the generator
      computed them. *)
  (** the loaders of [CLoad] on a text with over-long lines (around bufio's 64 KiB
      token limit), or, for which = 0 only, read through a reader that delivers
      the first [k] bytes and then fails ([cut = Some k]). [intended] = ALL the
      rules of the entries and of the whole text: a load that reports success
      must have loaded every one of them. *)
| CLoadX (which : N) (dflt : str) (entries : list str) (segs : list tseg) (cut : option N)
         (failed : bool) (intended : list irule) (qs : list query)
| CCompose (sets : list (list str * str * list N)) (top via : N) (extra : list str)
           (failed : bool) (intended : list irule) (qs : list query).

(** ** the model on a case *)

Definition obs_ok (allowed : list VV) (obs : option VV) : bool :=
  match obs with
  | None => match allowed with [] => true | _ :: _ => false end
  | Some v => existsb (vv_eqb v) allowed
  end.

Definition opt_list {A} (o : option A) : list A := match o with Some v => [v] | None => [] end.

Definition check_queries (m : @mix VV) (qs : list query) : bool :=
  forallb (fun q => match q with Q n mask obs => obs_ok (mix_allowed (re_match_j mask) m n) obs end) qs.

(** the single matchers *)
Fixpoint single_add_all (kind : N) (rs : list (str * VV)) (m : @mix VV) : @mix VV * list N :=
  match rs with
  | [] => (m, [])
  | (p, v) :: t =>
    let ty := match kind with 1 => TFull | 2 => TDomain | 3 => TRegexp | _ => TKeyword end in
    match typed_add re_valid_j ty p v m with
    | Ok m' => let '(mf, es) := single_add_all kind t m' in (mf, 0 :: es)
    | Er e => let '(mf, es) := single_add_all kind t m in (mf, e :: es)
    end
  end.
Definition single_allowed (kind : N) (mask : N) (m : @mix VV) (n : str) : list VV :=
  match kind with
  | 1 => opt_list (full_match (m_full m) n)
  | 2 => opt_list (sub_match (m_dom m) n)
  | 3 => re_allowed (re_match_j mask) (m_re m) n
  | _ => kw_allowed (m_kw m) n
  end.

(** the value parsers of the plugins, as far as the driver exercises them:
    the number at the end of a field ("10.0.0.7" -> 7, "v7" -> 7) *)
Definition is_digit (b : N) : bool := (48 <=? b) && (b <=? 57).
Definition last_decimal (s : str) : N :=
  fold_left (fun acc b => if is_digit b then acc * 10 + (b - 48) else 0) s 0.

(** hosts.ParseIPs: first field = pattern, the others = addresses (the driver only
    writes well-formed 10.0.0.x addresses; address syntax is outside this model) *)
Definition parse_hosts : @parse_fn VV :=
  fun s => match fields s with
           | [] => None
           | p :: vs => Some (p, map last_decimal vs)
           end.
(** redirect's parseFunc: exactly two fields *)
Definition parse_redirect : @parse_fn VV :=
  fun s => match fields s with
           | [p; v] => Some (p, [last_decimal v])
           | _ => None
           end.
(** domain_set.LoadExps hands the expression to Add as it is *)
Definition parse_raw : @parse_fn VV := fun s => Some (s, []).

(** the providers that load value-less sets with default type "domain" and keep
    the loaded matcher only [if Len() > 0]: domain_set (1) and base_domain / qname (4) *)
Definition is_provider (which : N) : bool := (which =? 1) || (which =? 4).

Definition entry_parser (which : N) : @parse_fn VV :=
  match which with 0 => pattern_only [] | 1 => parse_raw | 2 => parse_hosts | 4 => parse_raw | _ => parse_redirect end.
Definition line_parser (which : N) : @parse_fn VV :=
  match which with 0 => pattern_only [] | 1 => pattern_only [] | 2 => parse_hosts | 4 => pattern_only [] | _ => parse_redirect end.
Definition which_default (which : N) (dflt : str) : str :=
  match which with 0 => dflt | 1 => s_domain | 4 => s_domain | _ => s_full end.

(** entries first (stop at the first error), then the file *)
Definition run_load (which : N) (dflt : str) (entries : list str) (text : str) : @mix VV * bool :=
  let d := which_default which dflt in
  let '(m1, e1) := load_list re_valid_j (entry_parser which) d 0 entries empty_mix in
  if negb (e1 =? 0) then (m1, true)
  else let '(m2, e2) := load_text re_valid_j (line_parser which) d text m1 in (m2, negb (e2 =? 0)).

(** NewDomainSet and base_domain.NewMatcher keep their own matcher only [if m.Len() > 0] *)
Definition loaded_view (which : N) (m : @mix VV) : @mix VV :=
  if is_provider which && (mix_len m =? 0) then empty_mix else m.

(** every domain_set as the group of matchers it hands out *)
Definition build_sets (sets : list (list str * str * list N)) : list (list (@mix VV)) * bool :=
  fold_left (fun acc d =>
               let '(groups, failed) := acc in
               let '(exps, text, refs) := d in
               let '(m, f) := run_load 1 [] exps text in
               (groups ++ [set_members m (map (fun i => nth (N.to_nat i) groups []) refs)], failed || f))
            sets ([], false).

Definition compose_group (sets : list (list str * str * list N)) (top via : N) (extra : list str)
  : list (@mix VV) * bool :=
  let '(groups, f) := build_sets sets in
  let g := nth (N.to_nat top) groups [] in
  match via with
  | 0 => (g, f)
  | 1 => (g, f)
  | _ => let '(m, f2) := run_load 4 [] extra [] in
         (* base_domain.NewMatcher: referenced sets first, then its own anonymous set *)
         (g ++ set_members m [], f || f2)
  end.

Definition agree (c : case) : bool :=
  match c with
  | CMix dflt rules errs qs =>
    let '(m, es) := mix_add_all re_valid_j dflt rules empty_mix in
    list_eqb N.eqb es errs && check_queries m qs
  | CSingle kind rules errs qs =>
    let '(m, es) := single_add_all kind rules empty_mix in
    list_eqb N.eqb es errs
    && forallb (fun q => match q with Q n mask obs => obs_ok (single_allowed kind mask m n) obs end) qs
  | CLoad which dflt entries text failed _ qs =>
    let '(m, f) := run_load which dflt entries text in
    Bool.eqb f failed
    && (if f && negb (which =? 0) then match qs with [] => true | _ :: _ => false end
        else check_queries (loaded_view which m) qs)
  | CLoadX which dflt entries segs cut failed _ qs =>
    let text := expand segs in
    let '(m, f0) := run_load which dflt entries
                             (match cut with Some k => firstn (N.to_nat k) text | None => text end) in
    (* a failing reader: the scanner hands out what it has read, then reports the error *)
    let f := f0 || match cut with Some _ => true | None => false end in
    Bool.eqb f failed
    && (if f && negb (which =? 0) then match qs with [] => true | _ :: _ => false end
        else check_queries (loaded_view which m) qs)
  | CCompose sets top via extra failed _ qs =>
    let '(g, f) := compose_group sets top via extra in
    Bool.eqb f failed
    && (if f then match qs with [] => true | _ :: _ => false end
        else forallb (fun q => match q with
                               | Q n mask obs =>
                                 obs_ok (if group_matches (re_match_j mask) g n then [[]] else []) obs
                               end) qs)
  end.

(** ** the property's own oracle: test every rule against the name *)

Definition strip_dot (s : str) : str :=
  match rev s with
  | c :: t => if c =? 46 then rev t else s
  | [] => s
  end.
Definition lower1 (b : N) : N := if (b <? 65) || (90 <? b) then b else b + 32.
Definition nnorm (s : str) : str := map lower1 (strip_dot s).
Definition ends_with (s suf : str) : bool := is_prefix (rev suf) (rev s).

(** non-empty, and no empty label *)
Definition label_ok (s : str) : bool :=
  match s with
  | [] => false
  | c :: _ => negb (c =? 46) && negb (ends_with s [46]) && negb (contains s [46; 46])
  end.

Definition type_code (t : str) : option N :=
  if str_eqb t s_full then Some 1
  else if str_eqb t s_domain then Some 2
  else if str_eqb t s_regexp then Some 3
  else if str_eqb t s_keyword then Some 4
  else None.
Fixpoint cut_colon (s acc : str) : option (str * str) :=
  match s with
  | [] => None
  | c :: t => if c =? 58 then Some (rev acc, t) else cut_colon t (c :: acc)
  end.
(** the rule a string handed to MixMatcher.Add stands for; [None] = not a rule *)
Definition intend (dflt : str) (r : str * VV) : option irule :=
  let '(s, v) := r in
  let '(ty, pat) := match cut_colon s [] with
                    | Some (a, b) => (match a with [] => dflt | _ :: _ => a end, b)
                    | None => (dflt, s)
                    end in
  match type_code ty with
  | Some k => if (k =? 3) && negb (re_valid_j pat) then None else Some (k, pat, v)
  | None => None
  end.
Fixpoint intend_all (dflt : str) (rs : list (str * VV)) : list irule :=
  match rs with
  | [] => []
  | r :: t => match intend dflt r with Some i => i :: intend_all dflt t | None => intend_all dflt t end
  end.

Definition i_kind (r : irule) : N := fst (fst r).
Definition i_pat (r : irule) : str := snd (fst r).
Definition i_val (r : irule) : VV := snd r.

(** "the rule describes the (normalised) name" *)
Definition describes (mask : N) (n' : str) (r : irule) : bool :=
  match i_kind r with
  | 1 => str_eqb n' (nnorm (i_pat r))
  | 2 => str_eqb n' (nnorm (i_pat r)) || ends_with n' (46 :: nnorm (i_pat r))
  | 3 => re_match_j mask (i_pat r) n'
  | _ => contains n' (nnorm (i_pat r))
  end.
Definition matching (mask : N) (n' : str) (k : N) (rs : list irule) : list irule :=
  filter (fun r => (i_kind r =? k) && describes mask n' r) rs.

Definition last_value (rs : list irule) : option VV :=
  match rev rs with r :: _ => Some (i_val r) | [] => None end.
(** the longest pattern, the last one among equally long ones *)
Definition best_domain (rs : list irule) : option VV :=
  match fold_left (fun best r =>
                     match best with
                     | None => Some r
                     | Some b => if (length (nnorm (i_pat b)) <=? length (nnorm (i_pat r)))%nat
                                 then Some r else best
                     end) rs None with
  | Some r => Some (i_val r)
  | None => None
  end.
Definition one_of (rs : list irule) (obs : option VV) : bool :=
  match obs with Some v => existsb (fun r => vv_eqb v (i_val r)) rs | None => false end.

Definition spec_query (rs : list irule) (q : query) : bool :=
  match q with
  | Q name mask obs =>
    let n' := nnorm name in
    if negb (label_ok n') then true
    else
      match matching mask n' 1 rs with
      | (_ :: _) as l => option_eqb vv_eqb obs (last_value l)
      | [] =>
        match matching mask n' 2 rs with
        | (_ :: _) as l => option_eqb vv_eqb obs (best_domain l)
        | [] =>
          match matching mask n' 3 rs with
          | (_ :: _) as l => one_of l obs
          | [] =>
            match matching mask n' 4 rs with
            | (_ :: _) as l => one_of l obs
            | [] => match obs with None => true | Some _ => false end
            end
          end
        end
      end
  end.

(** the property speaks about full/domain rules whose pattern is a name *)
Definition rules_ok (rs : list irule) : bool :=
  forallb (fun r => if (i_kind r =? 1) || (i_kind r =? 2) then label_ok (nnorm (i_pat r)) else true) rs.

Definition case_rules (c : case) : list irule :=
  match c with
  | CMix dflt rules _ _ => intend_all dflt rules
  | CSingle kind rules _ _ =>
    intend_all (match kind with 1 => s_full | 2 => s_domain | 3 => s_regexp | _ => s_keyword end)
               (map (fun r => (c_colon :: fst r, snd r)) rules)
  | CLoad _ _ _ _ _ intended _ => intended
  | CLoadX _ _ _ _ _ _ intended _ => intended
  | CCompose _ _ _ _ _ intended _ => intended
  end.
Definition case_queries (c : case) : list query :=
  match c with
  | CMix _ _ _ qs => qs | CSingle _ _ _ qs => qs | CLoad _ _ _ _ _ _ qs => qs
  | CLoadX _ _ _ _ _ _ _ qs => qs
  | CCompose _ _ _ _ _ _ qs => qs
  end.

(** For [CLoadX]: either the load reports an error (then nothing is claimed about
    what a partially loaded matcher answers), or every rule of the text is in the set. *)
Definition spec (c : case) : bool :=
  match c with
  | CLoadX _ _ _ _ _ true _ _ => true
  | _ =>
    let rs := case_rules c in
    if rules_ok rs then forallb (spec_query rs) (case_queries c) else true
  end.

(** A query is non-trivial when at least two rules describe the name, or a
    domain rule is a string suffix of the name without describing it. *)
Definition nontrivial_query (rs : list irule) (q : query) : bool :=
  match q with
  | Q name mask _ =>
    let n' := nnorm name in
    (2 <=? length (filter (describes mask n') rs))%nat
    || existsb (fun r => (i_kind r =? 2) && ends_with n' (nnorm (i_pat r)) && negb (describes mask n' r)) rs
  end.
Definition nontrivial (c : case) : bool :=
  let rs := case_rules c in existsb (nontrivial_query rs) (case_queries c).
