(** Scripted schedules on the real TraditionalDnsConn (harness/tdcx) judged
    against the transition system Model.Tdc. A script is a list of harness
    actions; each action is a fixed sequence of model labels (DESIGN.md
    Appendix B) followed by the *eager returns*: every call whose return is
    enabled and that the harness does not hold returns before the next action.
    Shared by C01, C02, C09 (and the connection-level part of C07). *)
From Verif Require Import Base.Prelude Gen.Constants Model.Tdc.
Open Scope N_scope.

Inductive feed :=
| FReply (c : nat) (tag : N)      (* the server answers call c's query (its wire id), payload [tag] *)
| FStray (wid : N) (tag : N).     (* a frame nobody asked for *)

Inductive action :=
| AReserve (c : nat) (orig : N)
| AWithdraw (c : nat)
| AStart (c : nat)                      (* go ExchangeReserved; runs until its Write is entered *)
| AWriteEnd (c : nat) (ok hold : bool)  (* let the Write return; [hold]: park the caller before its wait *)
| ARelease (c : nat)
| AFeed (f : feed)
| AFeedErr
| AClose
| ACancel (c : nat)
| ASetQid (n : N)
| AExpire                               (* the armed read deadline expires: Read fails with a timeout *)
| ARunt (n : N)
| AFeedEof (f : feed)                   (* stream framing: the last bytes of the frame come back from Read together with EOF *)
| AFeedHold (f : feed)                  (* the reader reads the frame and looks up its waiter, then is parked before the hand-over *)
| AReaderGo                             (* the parked reader hands the frame over and reads on *)
| AFeedRead (f : feed)                  (* the reader's Read takes the frame off the connection and is parked before it returns: no lookup yet *)
| AFeedSplit (f : feed)                 (* stream framing: the frame arrives in two pieces; for the reader it is one frame *)
| ASleep.                               (* datagram framing only: more than a second of real time passes (the caller re-sends) *)                        (* datagram framing only: a datagram of n < 12 bytes arrives; the reader skips it *)                      (* test hook VerifSetNextQid: forces the wire-id counter *)

(** What the harness saw. [o_code]: AReserve: 0 admitted, 1 refused (full),
    2 refused (closed); AStart: wire id + 1 of the query written, 0 if the call
    returned instead; AExpire: which deadline was armed, 1 idle, 2 waiting-reply. [o_ret]: calls that returned during this action, ascending,
    as (call, kind, a, b): kind 0 = reply (tag a, id b), kind 1 = error class a. *)
Record obs := mkObs { o_code : N; o_ret : list (nat * N * N * N) }.

Inductive case :=
| CTdc (maxcq : N) (tcp : bool) (nq0 : N) (script : list (action * obs))
       (fin_reserved fin_queued : N) (fin_closed : bool) (fin_blocked : list nat)
       (fin_arms : list N).   (* every SetReadDeadline call, oldest first: 1 idle timeout, 2 waiting-reply timeout *)

Definition err_code (e : err) : N :=
  match e with EClosed => 1 | ECtx => 2 | EWrite => 3 | ERead => 4 | ETooMany => 5 end.

Definition steps (s : st) (ls : list label) : option st := run s ls.

Definition reader_sees_close (s : st) : option st :=
  if reader_dead s then Some s
  else match hold s with None => step s LRecvErr | Some _ => Some s end.

(** The labels of one action. Returns the new state, the new held set and
    whether the action-specific observation matches. *)
Definition exec_action (s : st) (held : list nat) (a : action) (o : obs) : option (st * list nat * bool) :=
  match a with
  | AReserve c orig =>
    match step s (LReserve c orig) with
    | Some s1 =>
      let code := match cres (calls s1 c) with
                  | Some (RRefused true) => 2 | Some (RRefused false) => 1 | _ => 0 end in
      Some (s1, held, code =? o_code o)
    | None => None
    end
  | AWithdraw c => match step s (LWithdraw c) with Some s1 => Some (s1, held, true) | None => None end
  | AStart c =>
    match step s (LCheck c) with
    | Some s1 =>
      match cres (calls s1 c) with
      | Some _ => Some (s1, held, o_code o =? 0)
      | None =>
        match step s1 (LAdd c) with
        | Some s2 =>
          match cres (calls s2 c) with
          | Some _ => Some (s2, held, o_code o =? 0)
          | None =>
            match step s2 (LWriteBegin c) with
            | Some s3 => Some (s3, held, o_code o =? cwid (calls s3 c) + 1)
            | None => None
            end
          end
        | None => None
        end
      end
    | None => None
    end
  | AWriteEnd c ok hd =>
    match step s (LWriteEnd c ok) with
    | Some s1 =>
      if ok then
        match step s1 (LArm c) with
        | Some s2 => Some (s2, if hd then c :: held else held, true)
        | None => None
        end
      else match reader_sees_close s1 with Some s2 => Some (s2, held, true) | None => None end
    | None => None
    end
  | ARelease c => Some (s, remove_nat c held, true)
  | AFeed f =>
    let r := match f with
             | FReply c tag => let w := cwid (calls s c) in mkReply w w tag (Some c)
             | FStray w tag => mkReply w w tag None
             end in
    match steps s [LRecv r; LLookup; LHandoff] with Some s1 => Some (s1, held, true) | None => None end
  | AFeedEof f =>
    let r := match f with
             | FReply c tag => let w := cwid (calls s c) in mkReply w w tag (Some c)
             | FStray w tag => mkReply w w tag None
             end in
    if is_tcp s then
      match steps s [LRecv r; LLookup; LHandoff; LRecvErr] with Some s1 => Some (s1, held, true) | None => None end
    else None
  | AFeedSplit f =>
    let r := match f with
             | FReply c tag => let w := cwid (calls s c) in mkReply w w tag (Some c)
             | FStray w tag => mkReply w w tag None
             end in
    if is_tcp s then
      match steps s [LRecv r; LLookup; LHandoff] with Some s1 => Some (s1, held, true) | None => None end
    else None
  | AFeedHold f =>
    let r := match f with
             | FReply c tag => let w := cwid (calls s c) in mkReply w w tag (Some c)
             | FStray w tag => mkReply w w tag None
             end in
    match steps s [LRecv r; LLookup] with Some s1 => Some (s1, held, true) | None => None end
  | AFeedRead f =>
    let r := match f with
             | FReply c tag => let w := cwid (calls s c) in mkReply w w tag (Some c)
             | FStray w tag => mkReply w w tag None
             end in
    match step s (LRecv r) with Some s1 => Some (s1, held, true) | None => None end
  | AReaderGo =>
    (* parked inside Read: the lookup is still to come; parked after the lookup: the hand-over only. If the
       connection was closed under the parked reader, its next Read fails. *)
    match steps s (match htarget s with Some _ => [LHandoff] | None => [LLookup; LHandoff] end) with
    | Some s1 =>
      if closed s1 then match reader_sees_close s1 with Some s2 => Some (s2, held, true) | None => None end
      else Some (s1, held, true)
    | None => None
    end
  | AFeedErr => match step s LRecvErr with Some s1 => Some (s1, held, true) | None => None end
  | AClose =>
    match step s LClose with
    | Some s1 => match reader_sees_close s1 with Some s2 => Some (s2, held, true) | None => None end
    | None => None
    end
  | ACancel c => match step s (LCtx c) with Some s1 => Some (s1, held, true) | None => None end
  | AExpire =>
    let k := match arms s with ArmWaiting :: _ => 2 | _ => 1 end in
    match step s LRecvErr with Some s1 => Some (s1, held, o_code o =? k) | None => None end
  | ARunt _ => if is_tcp s then None else Some (s, held, true)
  | ASleep => if is_tcp s then None else Some (s, held, true)
  | ASetQid n =>
    Some (mkSt (closed s) (close_err s) (queue s) (wrap16 n) (reserved s) (qlen s) (max_cq s) (is_tcp s)
               (calls s) (live s) (hold s) (htarget s) (reader_dead s) (waiting_resp s) (arms s), held, true)
  end.

Definition res_matches (r : option result) (kind a b : N) : bool :=
  match r with
  | Some (ROk rp) => (kind =? 0) && (rtag rp =? a) && (rid rp =? b)
  | Some (RErr e) => (kind =? 1) && (err_code e =? a)
  | _ => false
  end.

(** One observed return of call [c]. *)
Definition exec_return (s : st) (held : list nat) (x : nat * N * N * N) : option (st * bool) :=
  let '(c, kind, a, b) := x in
  let k := calls s c in
  match cres k with
  | Some _ => Some (s, res_matches (cres k) kind a b)       (* returned inside the action itself *)
  | None =>
    match cpc k with
    | PExiting _ =>
      match step s (LTake c) with
      | Some s1 => Some (s1, res_matches (cres (calls s1 c)) kind a b)
      | None => None
      end
    | PWaiting =>
      if mem_nat c held then None else
      let sl := if kind =? 0 then SelReply else if a =? 2 then SelCtx else SelClose in
      match step s (LSelect c sl) with
      | Some s1 =>
        match cres (calls s1 c) with
        | Some _ => Some (s1, res_matches (cres (calls s1 c)) kind a b)
        | None =>
          match step s1 (LTake c) with
          | Some s2 => Some (s2, res_matches (cres (calls s2 c)) kind a b)
          | None => None
          end
        end
      | None => None
      end
    | _ => None
    end
  end.

Fixpoint exec_returns (s : st) (held : list nat) (xs : list (nat * N * N * N)) : option (st * bool) :=
  match xs with
  | [] => Some (s, true)
  | x :: t =>
    match exec_return s held x with
    | Some (s1, ok1) =>
      match exec_returns s1 held t with
      | Some (s2, ok2) => Some (s2, ok1 && ok2)
      | None => None
      end
    | None => None
    end
  end.

(** No call that could return is left behind. *)
Definition must_return (s : st) (held : list nat) (c : nat) : bool :=
  let k := calls s c in
  match cpc k with
  | PExiting _ => true
  | PWaiting =>
    negb (mem_nat c held) && (match cbuf k with Some _ => true | None => false end || cctx k || closed s)
  | _ => false
  end.
Definition quiescent (s : st) (held : list nat) : bool :=
  forallb (fun c => negb (must_return s held c)) (live s).

Fixpoint exec_script (s : st) (held : list nat) (sc : list (action * obs)) : option (st * bool) :=
  match sc with
  | [] => Some (s, true)
  | (a, o) :: t =>
    match exec_action s held a o with
    | Some (s1, held1, ok1) =>
      match exec_returns s1 held1 (o_ret o) with
      | Some (s2, ok2) =>
        match exec_script s2 held1 t with
        | Some (s3, ok3) => Some (s3, ok1 && ok2 && quiescent s2 held1 && ok3)
        | None => None
        end
      | None => None
      end
    | None => None
    end
  end.

Fixpoint insert_nat (x : nat) (l : list nat) : list nat :=
  match l with
  | [] => [x]
  | y :: t => if (x <=? y)%nat then x :: l else y :: insert_nat x t
  end.
Definition sort_nat (l : list nat) : list nat := fold_right insert_nat [] l.

Definition started (s : st) (c : nat) : bool :=
  match cpc (calls s c) with PReserved | PIdle | PDone => false | _ => true end.

Definition agree (c : case) : bool :=
  match c with
  | CTdc maxcq tcp nq0 script fr fq fc fb fa =>
    match exec_script (init maxcq tcp nq0) [] script with
    | Some (s, ok) =>
      ok && (reserved s =? fr) && (qlen s =? fq) && Bool.eqb (closed s) fc
      && list_eqb Nat.eqb (sort_nat (filter (started s) (live s))) (sort_nat fb)
      && list_eqb N.eqb (map (fun a => match a with ArmIdle => 1 | ArmWaiting => 2 end) (rev (arms s))) fa
    | None => false
    end
  end.

(** * The properties' own oracles, from the script and the observations alone *)

Definition ret_of (c : nat) (o : obs) : option (N * N * N) :=
  match find (fun x => Nat.eqb (fst (fst (fst x))) c) (o_ret o) with
  | Some (_, k, a, b) => Some (k, a, b)
  | None => None
  end.

Fixpoint orig_of (c : nat) (sc : list (action * obs)) : N :=
  match sc with
  | [] => 0
  | (AReserve c' o', _) :: t => if Nat.eqb c c' then o' else orig_of c t
  | _ :: t => orig_of c t
  end.

Fixpoint tags_for (c : nat) (sc : list (action * obs)) : list N :=
  match sc with
  | [] => []
  | (AFeed (FReply c' tag), _) :: t | (AFeedEof (FReply c' tag), _) :: t | (AFeedHold (FReply c' tag), _) :: t
  | (AFeedSplit (FReply c' tag), _) :: t | (AFeedRead (FReply c' tag), _) :: t =>
    if Nat.eqb c c' then tag :: tags_for c t else tags_for c t
  | _ :: t => tags_for c t
  end.

(** C01: every reply a call returned was produced for that call, id restored. *)
Definition spec_c01 (cs : case) : bool :=
  match cs with
  | CTdc _ _ _ script _ _ _ _ _ =>
    forallb (fun ao =>
      forallb (fun x =>
        let '(c, k, a, b) := x in
        if k =? 0 then existsb (N.eqb a) (tags_for c script) && (b =? orig_of c script) else true)
        (o_ret (snd ao))) script
  end.

(** C02: walk the script keeping, per call, whether it is in flight and which
    reply (if any) it is owed: a reply fed while the call is registered (its
    query written, not yet returned) and not cancelled is owed to it. *)
Record trk := mkTrk { t_inflight : list nat; t_cancelled : list nat; t_owed : list (nat * N);
                      t_pend : option (nat * N)   (* the reply the parked reader holds *) }.

Definition owed_of (c : nat) (l : list (nat * N)) : option N :=
  match find (fun x => Nat.eqb (fst x) c) l with Some (_, t) => Some t | None => None end.

Definition c02_ret_ok (script : list (action * obs)) (tk : trk) (x : nat * N * N * N) : bool :=
  let '(c, k, a, b) := x in
  match owed_of c (t_owed tk) with
  | Some tag => (k =? 0) && (a =? tag) && (b =? orig_of c script)
  | None => true
  end.

(** A reply counts as received for its call when the reader hands it over while the call is registered
    (its query written, not yet returned), not cancelled, and not already owed one. *)
Definition c02_deliver (tk : trk) (c : nat) (tag : N) : trk :=
  if mem_nat c (t_inflight tk) && negb (mem_nat c (t_cancelled tk))
     && match owed_of c (t_owed tk) with None => true | Some _ => false end
  then mkTrk (t_inflight tk) (t_cancelled tk) ((c, tag) :: t_owed tk) (t_pend tk) else tk.

Fixpoint c02_walk (script : list (action * obs)) (tk : trk) (sc : list (action * obs)) : bool :=
  match sc with
  | [] => (* a call still owed a reply at the end must not be blocked for ever: it is held or unreleased *) true
  | (a, o) :: t =>
    let tk1 :=
      match a with
      | AStart c => if o_code o =? 0 then tk else mkTrk (c :: t_inflight tk) (t_cancelled tk) (t_owed tk) (t_pend tk)
      | ACancel c => mkTrk (t_inflight tk) (c :: t_cancelled tk) (t_owed tk) (t_pend tk)
      | AFeed (FReply c tag) | AFeedEof (FReply c tag) | AFeedSplit (FReply c tag) => c02_deliver tk c tag
      | AFeedHold (FReply c tag) | AFeedRead (FReply c tag) => mkTrk (t_inflight tk) (t_cancelled tk) (t_owed tk) (Some (c, tag))
      | AReaderGo =>
        match t_pend tk with
        | Some (c, tag) => c02_deliver (mkTrk (t_inflight tk) (t_cancelled tk) (t_owed tk) None) c tag
        | None => tk
        end
      | _ => tk
      end in
    forallb (c02_ret_ok script tk1) (o_ret o)
    && c02_walk script
         (mkTrk (filter (fun c => match ret_of c o with Some _ => false | None => true end) (t_inflight tk1))
                (t_cancelled tk1) (t_owed tk1) (t_pend tk1)) t
  end.

(** … and at the end no call that is owed a reply is still blocked unless the
    harness itself holds it. The final blocked list is checked by [c02_final]. *)
Fixpoint held_at_end (held : list nat) (sc : list (action * obs)) : list nat :=
  match sc with
  | [] => held
  | (AWriteEnd c true true, _) :: t => held_at_end (c :: held) t
  | (ARelease c, _) :: t => held_at_end (remove_nat c held) t
  | _ :: t => held_at_end held t
  end.

Fixpoint owed_calls (script : list (action * obs)) (inflight cancelled owed : list nat) (sc : list (action * obs)) : list nat :=
  match sc with
  | [] => owed
  | (a, o) :: t =>
    let inflight1 := match a with AStart c => if o_code o =? 0 then inflight else c :: inflight | _ => inflight end in
    let cancelled1 := match a with ACancel c => c :: cancelled | _ => cancelled end in
    let owed1 := match a with
                 | AFeed (FReply c _) | AFeedEof (FReply c _) | AFeedSplit (FReply c _) =>
                   if mem_nat c inflight1 && negb (mem_nat c cancelled1) then c :: owed else owed
                 | _ => owed end in
    owed_calls script (filter (fun c => match ret_of c o with Some _ => false | None => true end) inflight1)
               cancelled1 owed1 t
  end.

(** A call still inside its gated Write cannot return; the harness ends a
    script with such calls only when it is deliberate. *)
Fixpoint in_write_at_end (w : list nat) (sc : list (action * obs)) : list nat :=
  match sc with
  | [] => w
  | (AStart c, o) :: t => in_write_at_end (if o_code o =? 0 then w else c :: w) t
  | (AWriteEnd c _ _, _) :: t => in_write_at_end (remove_nat c w) t
  | _ :: t => in_write_at_end w t
  end.

Definition spec_c02 (cs : case) : bool :=
  match cs with
  | CTdc _ _ _ script _ _ _ fb _ =>
    c02_walk script (mkTrk [] [] [] None) script
    && forallb (fun c => negb (mem_nat c (owed_calls script [] [] [] script))
                         || mem_nat c (held_at_end [] script) || mem_nat c (in_write_at_end [] script)) fb
  end.

(** C09: from the observations alone — the number of admitted, unfinished
    calls never exceeds the limit; a refusal for lack of capacity happens only
    at the limit; at the end the connection's counters equal the number of
    admitted unfinished calls (nothing leaked, nothing underflowed). *)
Fixpoint c09_walk (maxcq : N) (adm : list nat) (closed_seen : bool) (sc : list (action * obs))
  : bool * list nat :=
  match sc with
  | [] => (true, adm)
  | (a, o) :: t =>
    let n := N.of_nat (length adm) in
    let '(ok1, adm1) :=
      match a with
      | AReserve c _ =>
        if o_code o =? 0 then (n <? maxcq, c :: adm)
        else if o_code o =? 1 then (maxcq <=? n, adm)
        else (true, adm)
      | AWithdraw c => (true, remove_nat c adm)
      | _ => (true, adm)
      end in
    let adm2 := filter (fun c => match ret_of c o with Some _ => false | None => true end) adm1 in
    let '(ok2, admf) := c09_walk maxcq adm2 closed_seen t in
    (ok1 && ok2, admf)
  end.

Definition spec_c09 (cs : case) : bool :=
  match cs with
  | CTdc maxcq _ _ script fr fq _ _ _ =>
    let '(ok, adm) := c09_walk maxcq [] false script in
    ok && (fr + fq =? N.of_nat (length adm))
  end.

(** C07 (connection level), from the script and the observations alone:
    - a call whose context ended, or whose connection was closed by any means
      (peer EOF / read error / deadline expiry, write error, Close), has
      returned — with an error or a reply — by the end of the script unless
      the harness itself still holds it (gated Write / parked before its wait);
    - once the connection is closed, later reservations are refused as closed;
    - when the read deadline expires while a query is written and unanswered,
      the deadline that was armed is the waiting-reply one (so silence is
      detected within that timeout, not the idle timeout). *)
Record trk7 := mkTrk7 { k_inflight : list nat; k_waiting : list nat; k_cancelled : list nat; k_closed : bool; k_replied : list nat }.

Fixpoint c07_walk (strict : bool) (tk : trk7) (sc : list (action * obs)) : bool * trk7 :=
  match sc with
  | [] => (true, tk)
  | (a, o) :: t =>
    let ok_a :=
      match a with
      | AReserve _ _ => if k_closed tk then o_code o =? 2 else negb (o_code o =? 2)
      | AExpire => match k_waiting tk with [] => true | _ => negb strict || (o_code o =? 2) end
      | _ => true
      end
      (* a call that returns, returns a reply or an error: never neither *)
      && forallb (fun x => let '(_, k, e, _) := x in negb ((k =? 1) && (e =? 0))) (o_ret o) in
    let tk1 :=
      match a with
      | AStart c => if o_code o =? 0 then tk else mkTrk7 (c :: k_inflight tk) (k_waiting tk) (k_cancelled tk) (k_closed tk) (k_replied tk)
      | AWriteEnd c true _ => mkTrk7 (k_inflight tk) (if mem_nat c (k_replied tk) then k_waiting tk else c :: k_waiting tk) (k_cancelled tk) (k_closed tk) (k_replied tk)
      | AWriteEnd c false _ => mkTrk7 (k_inflight tk) (k_waiting tk) (k_cancelled tk) true (k_replied tk)
      | ACancel c => mkTrk7 (k_inflight tk) (k_waiting tk) (c :: k_cancelled tk) (k_closed tk) (k_replied tk)
      | AFeedErr | AClose | AExpire | AFeedEof (FStray _ _) => mkTrk7 (k_inflight tk) (k_waiting tk) (k_cancelled tk) true (k_replied tk)
      | AFeed (FReply c _) | AFeedHold (FReply c _) | AFeedSplit (FReply c _) | AFeedRead (FReply c _) => mkTrk7 (k_inflight tk) (remove_nat c (k_waiting tk)) (k_cancelled tk) (k_closed tk) (if mem_nat c (k_inflight tk) then c :: k_replied tk else k_replied tk)
      | AFeedEof (FReply c _) => mkTrk7 (k_inflight tk) (remove_nat c (k_waiting tk)) (k_cancelled tk) true (if mem_nat c (k_inflight tk) then c :: k_replied tk else k_replied tk)
      | _ => tk
      end in
    let gone c := match ret_of c o with Some _ => false | None => true end in
    let tk2 := mkTrk7 (filter gone (k_inflight tk1)) (filter gone (k_waiting tk1)) (k_cancelled tk1) (k_closed tk1) (k_replied tk1) in
    let '(ok_t, tkf) := c07_walk strict tk2 t in
    (ok_a && ok_t, tkf)
  end.

Definition spec_c07_gen (strict : bool) (cs : case) : bool :=
  match cs with
  | CTdc _ _ _ script _ _ _ fb arms =>
    let '(ok, tk) := c07_walk strict (mkTrk7 [] [] [] false []) script in
    (* the waiting-reply deadline is armed by sending a query, never pushed back otherwise (a re-send to a
       silent server must not postpone the moment the connection is declared dead) *)
    (length (filter (fun a : N => (a =? 2)%N) arms) <=? length (filter (fun ao => match fst ao with AWriteEnd _ true _ => true | _ => false end) script))%nat
    && ok && forallb (fun c =>
            mem_nat c (held_at_end [] script) || mem_nat c (in_write_at_end [] script)
            || negb (k_closed tk || mem_nat c (k_cancelled tk))) fb
  end.

Definition spec_c07 := spec_c07_gen true.
(** The same without the clause that finding F10 violates (which deadline was
    armed when silence is detected); used to make sure a case downgraded to a
    KNOWN-FINDING fails for that reason only. *)
Definition spec_c07_relaxed := spec_c07_gen false.

(** Non-triviality. *)
Definition script_actions (cs : case) : list action :=
  match cs with CTdc _ _ _ script _ _ _ _ _ => map fst script end.

Definition count_act (f : action -> bool) (cs : case) : nat := length (filter f (script_actions cs)).

Definition nontrivial_c01 (cs : case) : bool :=
  (2 <=? count_act (fun a => match a with AStart _ => true | _ => false end) cs)%nat
  && (2 <=? count_act (fun a => match a with AFeed _ => true | _ => false end) cs)%nat.

Definition nontrivial_c02 (cs : case) : bool :=
  (* a reply fed while some write is still gated or the caller is parked before its wait, or a fault follows a reply *)
  (1 <=? count_act (fun a => match a with AWriteEnd _ true true => true | _ => false end) cs)%nat
  || (1 <=? count_act (fun a => match a with AFeedErr | AClose | ACancel _ => true | _ => false end) cs)%nat.

Definition nontrivial_c09 (cs : case) : bool :=
  match cs with
  | CTdc maxcq _ _ script _ _ _ _ _ =>
    existsb (fun ao => match fst ao with AReserve _ _ => negb (o_code (snd ao) =? 0) | _ => false end) script
    || (N.to_nat maxcq <=? count_act (fun a => match a with AReserve _ _ => true | _ => false end) cs)%nat
  end.

Definition nontrivial_c07 (cs : case) : bool :=
  (1 <=? count_act (fun a => match a with AFeedErr | AClose | AExpire | ACancel _ | AWriteEnd _ false _ => true | _ => false end) cs)%nat
  && (1 <=? count_act (fun a => match a with AWriteEnd _ true _ => true | _ => false end) cs)%nat.
