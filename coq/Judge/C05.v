(** C05 — case type and verdict functions evaluated by [bin/check] on the
    observations of the Go driver (harness/cmd/c05). *)
From Verif Require Import Base.Prelude Gen.Constants.
From Verif Require Export Model.CacheTTL.
Open Scope N_scope.

Inductive case :=
  (** A history on one plugin instance (lazy_cache_ttl, operations) and what
      each operation showed. The driver runs it inside one wall-clock second
      (plus the whole seconds of [OWait]); dump times are whole seconds.
      [refresh_missing]: a stale hit with no refresh running for its question
      did not start one (the driver then gives up on the case). *)
| CSeq (lazy_ttl : Z) (ops : list op) (observed : list obs) (refresh_missing : bool)
  (** uint32(time.Unix(now_s, now_ns).Sub(time.Unix(stored_s, 0)).Seconds()) *)
| CElapsed (now_s now_ns stored_s : Z) (observed : N)
  (** dnsutils.GetMinimalTTL, SubtractTTL(delta), SetTTL(set) on a message *)
| CHelpers (m : msg) (delta set : N) (obs_min : N) (obs_sub obs_set : list rr)
  (** nk stale entries, n concurrent queries each, refreshes held: refreshes
      started per key while held, largest number running at once per key, all
      replies were the stale one with TTL 5, lazy_hit_total, follow-up ok *)
| CBurst (nk n : N) (refresh : option N) (held maxc : list N) (all5 : bool) (lazy_hits follow : N).

(** * Equality tests *)
Definition rr_eqb (a b : rr) : bool :=
  (rr_sec a =? rr_sec b) && Bool.eqb (rr_opt a) (rr_opt b) && (rr_ttl a =? rr_ttl b).
Definition rrs_eqb := list_eqb rr_eqb.
Definition dump_eqb (a b : N * (Z * Z * Z) * list rr) : bool :=
  let '(ka, (a1, a2, a3), ra) := a in
  let '(kb, (b1, b2, b3), rb) := b in
  (ka =? kb) && (a1 =? b1)%Z && (a2 =? b2)%Z && (a3 =? b3)%Z && rrs_eqb ra rb.
Definition obs_eqb (a b : obs) : bool :=
  match a, b with
  | BExec s l, BExec s' l' => option_eqb rrs_eqb s s' && Bool.eqb l l'
  | BDump d, BDump d' => list_eqb dump_eqb d d'
  | BNone, BNone => true
  | _, _ => false
  end.

(** * The model's prediction *)

(** The case ran at an unknown instant inside a second; the model is run at
    1 ms and at 998 ms into the second and both must give the observation. *)
Definition base_s : Z := 1790000000.
Definition model_seq (lazy_ttl frac : Z) (ops : list op) : list obs :=
  snd (run_with secs_go lazy_ttl (CState (base_s * second + frac) st_empty []) ops).

Definition keys_upto (nk : N) : list N := map N.of_nat (seq 0 (N.to_nat nk)).
Definition burst_trace (nk n : N) : list sflabel :=
  flat_map (fun _ => map StaleHit (keys_upto nk)) (seq 0 (N.to_nat n)).

Definition burst_old : msg := Msg 0 false [RR 0 false 100; RR 1 false 7; RR 2 true 32768].
Definition burst_lazy : Z := 3600.

Definition agree (c : case) : bool :=
  match c with
  | CSeq lazy_ttl ops observed refresh_missing =>
    negb refresh_missing
    && list_eqb obs_eqb (model_seq lazy_ttl 1000000 ops) observed
    && list_eqb obs_eqb (model_seq lazy_ttl 998000000 ops) observed
  | CElapsed now_s now_ns stored_s observed =>
    elapsed_with secs_go (now_s * second + now_ns) (stored_s * second) =? observed
  | CHelpers m delta set obs_min obs_sub obs_set =>
    (min_ttl m =? obs_min)
    && rrs_eqb (m_rrs (subtract_ttl delta m)) obs_sub
    && rrs_eqb (m_rrs (set_ttl set m)) obs_set
  | CBurst nk n refresh held maxc all5 lazy_hits follow =>
    let s := sf_run sf_init (burst_trace nk n) in
    let ks := keys_upto nk in
    list_eqb N.eqb (map (fun k => in_flight k s) ks) held
    && list_eqb N.eqb (map (fun k => in_flight k s) ks) maxc
    && (lazy_hits =? n * nk)
    (* every query of the burst sees the stale entry *)
    && list_eqb obs_eqb
         (model_seq burst_lazy 1000000 [OLoad 0 50%Z 7%Z burst_lazy burst_old; OExec 0 None])
         [BNone; BExec (Some [RR 0 false 5; RR 1 false 5; RR 2 true 32768]) true]
    && all5
    && (let after :=
          match refresh with
          | Some t =>
            (* the refresh's reply replaces the entry if it is accepted *)
            match model_seq burst_lazy 1000000
                    [OLoad 0 50%Z 7%Z burst_lazy burst_old; OExec 0 (Some (Msg 0 false [RR 0 false t])); OExec 0 None] with
            | [_; _; BExec (Some [r]) false] => if rr_eqb r (RR 0 false t) then 1 else 0
            | _ => 2
            end
          | None => 2
          end in
        match after with
        | 1 => follow =? 1
        | _ =>
          (* still stale: once the refresh has returned a new one starts *)
          match sf_map s 0 with
          | Some id =>
            let s' := sf_run s [FnReturn 0 id; StaleHit 0] in
            if (in_flight 0 s' =? 1) && (sf_next s' =? sf_next s + 1) then follow =? 1 else follow =? 0
          | None => false
          end
        end)
  end.

(** * The property's own oracle *)

Definition spec_min (rs : list rr) : N :=
  match filter (fun r => negb (rr_opt r)) rs with
  | [] => 0
  | r :: t => fold_left (fun a x => N.min a (rr_ttl x)) t (rr_ttl r)
  end.

(** record by record: an OPT is unchanged; otherwise [f ttl] *)
Fixpoint rrs_by (f : N -> N) (orig served : list rr) : bool :=
  match orig, served with
  | [], [] => true
  | r :: o', s :: s' =>
    (rr_sec r =? rr_sec s) && Bool.eqb (rr_opt r) (rr_opt s)
    && (rr_ttl s =? (if rr_opt r then rr_ttl r else f (rr_ttl r)))
    && rrs_by f o' s'
  | _, _ => false
  end.

Definition aged_by (e : N) : N -> N := fun ttl => N.max 1 (ttl - e).

Definition sane_obs (lazy_ttl : Z) (b : obs) : bool :=
  match b with
  | BExec (Some rs) lz =>
    forallb (fun r => rr_opt r || (1 <=? rr_ttl r)) rs
    && (if lz then (0 <? lazy_ttl)%Z && forallb (fun r => rr_opt r || (rr_ttl r =? 5)) rs else true)
  | BExec None lz => negb lz
  | _ => true
  end.

Definition no_extra_opt (rs : list rr) : list rr := filter (fun r => negb (rr_opt r && (rr_sec r =? 2))) rs.

(** The oracle for histories works in whole seconds only: per question the
    last entry written (age when written, second in which it was written,
    message and cache lifetimes, records); an entry is alive while age < cache
    lifetime and fresh while age < message lifetime (the case runs strictly
    inside a second, dump times are whole seconds). *)
Record sent := SEnt { s_age0 : Z; s_t0 : Z; s_ml : Z; s_cl : Z; s_rrs : list rr }.
Fixpoint sfind (k : N) (l : list (N * sent)) : option sent :=
  match l with
  | [] => None
  | (k', e) :: t => if k' =? k then Some e else sfind k t
  end.
Definition sset (k : N) (e : sent) (l : list (N * sent)) : list (N * sent) :=
  (k, e) :: filter (fun p => negb (fst p =? k)) l.
Fixpoint sins (x : N * sent) (l : list (N * sent)) : list (N * sent) :=
  match l with
  | [] => [x]
  | y :: t => if fst x <=? fst y then x :: l else y :: sins x t
  end.

(** lifetimes in seconds by the property's rule; None = must not be stored *)
Definition spec_life (lazy_ttl : Z) (m : msg) : option (Z * Z) :=
  let mn := spec_min (m_rrs m) in
  let ans := existsb (fun r => rr_sec r =? 0) (m_rrs m) in
  if m_tc m then None
  else if m_rcode m =? 3 then Some (30, 30)%Z
  else if m_rcode m =? 2 then Some (5, 5)%Z
  else if m_rcode m =? 0 then
    if mn =? 0 then None
    else if ans then Some (Z.of_N mn, if (0 <? lazy_ttl)%Z then lazy_ttl else Z.of_N mn)
    else Some (Z.of_N (N.min 300 mn), Z.of_N (N.min 300 mn))
  else None.

Definition is_miss (served : option (list rr)) (lz : bool) : bool :=
  negb lz && match served with None => true | Some _ => false end.

Definition check_exec (lazy_ttl : Z) (en : option sent) (t : Z) (served : option (list rr)) (lz : bool) : bool :=
  match en with
  | Some s =>
    let age := (s_age0 s + (t - s_t0 s))%Z in
    if (age <? s_cl s)%Z then
      if (age <? s_ml s)%Z then
        (* alive and not expired: aged by the whole seconds elapsed *)
        negb lz &&
        match served with
        | Some rs =>
          if (0 <=? age)%Z && (age <? 4294967296)%Z then rrs_by (aged_by (Z.to_N age)) (s_rrs s) rs
          else true (* crafted stored time (future, or 2^32 s and more ago): not the property's concern *)
        | None => false
        end
      else if (0 <? lazy_ttl)%Z then
        lz && match served with Some rs => rrs_by (fun _ => 5) (s_rrs s) rs | None => false end
      else is_miss served lz
    else is_miss served lz
  | None => is_miss served lz
  end.

(** the entry is alive, its message has run out and lazy caching is on *)
Definition is_stale (lazy_ttl : Z) (en : option sent) (t : Z) : bool :=
  match en with
  | Some s =>
    let age := (s_age0 s + (t - s_t0 s))%Z in
    (age <? s_cl s)%Z && negb (age <? s_ml s)%Z && (0 <? lazy_ttl)%Z
  | None => false
  end.

Fixpoint spec_go (lazy_ttl t : Z) (st : list (N * sent)) (ops : list op) (observed : list obs) : bool :=
  match ops, observed with
  | [], [] => true
  | OLoad k age ml cl m :: ops', BNone :: obs' =>
    spec_go lazy_ttl t (if (age <? cl)%Z then sset k (SEnt age t ml cl (m_rrs m)) st else st) ops' obs'
  | OExec k resp :: ops', BExec served lz :: obs' =>
    check_exec lazy_ttl (sfind k st) t served lz &&
    match resp with
    | None => spec_go lazy_ttl t st ops' obs'
    | Some m =>
      if (9223372036 <? lazy_ttl)%Z && existsb (fun r => rr_sec r =? 0) (m_rrs m)
      then true (* lazy_cache_ttl overflows time.Duration: outside the property *)
      else match spec_life lazy_ttl m with
           | Some (a, b) => spec_go lazy_ttl t (sset k (SEnt 0 t a b (no_extra_opt (m_rrs m))) st) ops' obs'
           | None => spec_go lazy_ttl t st ops' obs'
           end
    end
  | ODump :: ops', BDump d :: obs' =>
    list_eqb dump_eqb d
      (map (fun p => let s := snd p in (fst p, ((s_age0 s + (t - s_t0 s))%Z, s_ml s, s_cl s), s_rrs s))
           (fold_right sins [] (filter (fun p => let s := snd p in (s_age0 s + (t - s_t0 s) <? s_cl s)%Z) st)))
    && spec_go lazy_ttl t st ops' obs'
  | OExecR k bg :: ops', BExec served lz :: obs' =>
    (* the reply of the refresh is stored by exactly the rule for foreground replies *)
    check_exec lazy_ttl (sfind k st) t served lz &&
    match bg with
    | Some m =>
      if negb (is_stale lazy_ttl (sfind k st) t) then spec_go lazy_ttl t st ops' obs'
      else if (9223372036 <? lazy_ttl)%Z && existsb (fun r => rr_sec r =? 0) (m_rrs m) then true
      else match spec_life lazy_ttl m with
           | Some (a, b) => spec_go lazy_ttl t (sset k (SEnt 0 t a b (no_extra_opt (m_rrs m))) st) ops' obs'
           | None => spec_go lazy_ttl t st ops' obs'
           end
    | None => spec_go lazy_ttl t st ops' obs'
    end
  | OWait w :: ops', BNone :: obs' => spec_go lazy_ttl (t + Z.max 0 w)%Z st ops' obs'
  | _, _ => false
  end.

Definition spec_seq (lazy_ttl : Z) (ops : list op) (observed : list obs) : bool :=
  forallb (sane_obs lazy_ttl) observed && spec_go lazy_ttl 0 [] ops observed.

Definition spec (c : case) : bool :=
  match c with
  | CSeq lazy_ttl ops observed refresh_missing => negb refresh_missing && spec_seq lazy_ttl ops observed
  | CElapsed now_s now_ns stored_s observed =>
    let d := ((now_s - stored_s) * 1000000000 + now_ns)%Z in
    let q := (d / 1000000000)%Z in
    if (0 <=? d)%Z && (q <? 16777216)%Z then observed =? Z.to_N q
    else if (0 <=? d)%Z && (q <? 4294967295)%Z then (observed =? Z.to_N q) || (observed =? Z.to_N q + 1)
    else true
  | CHelpers m delta set obs_min obs_sub obs_set =>
    (obs_min =? spec_min (m_rrs m))
    && rrs_by (aged_by delta) (m_rrs m) obs_sub
    && rrs_by (fun _ => set) (m_rrs m) obs_set
  | CBurst nk n refresh held maxc all5 lazy_hits follow =>
    (N.of_nat (length held) =? nk) && forallb (N.eqb 1) held && forallb (N.eqb 1) maxc
    && all5 && (follow =? 1)
  end.

(** * Non-trivial cases: within 2 s of an expiry instant, a stale (lazy) hit,
    a TTL of 0, 1 or 2^32-1, real waiting, exact-instant time arithmetic,
    concurrent bursts. *)
Definition edge_ttl (t : N) : bool := (t <=? 1) || (t =? 4294967295).
Definition msg_edge (m : msg) : bool := existsb (fun r => negb (rr_opt r) && edge_ttl (rr_ttl r)) (m_rrs m).
Definition near (a b : Z) : bool := (Z.abs (a - b) <=? 2)%Z.
Definition op_nontrivial (o : op) : bool :=
  match o with
  | OLoad _ age ml cl m => near age ml || near age cl || msg_edge m
  | OExec _ (Some m) =>
    msg_edge m || (m_rcode m =? 2) || (m_rcode m =? 3) || m_tc m
    || (let mn := spec_min (m_rrs m) in (299 <=? mn) && (mn <=? 301))
  | OWait _ => true
  | OExecR _ (Some m) =>
    msg_edge m || negb (m_rcode m =? 0) || m_tc m
    || (let mn := spec_min (m_rrs m) in (299 <=? mn) && (mn <=? 301))
  | _ => false
  end.
Definition nontrivial (c : case) : bool :=
  match c with
  | CSeq _ ops observed _ =>
    existsb op_nontrivial ops
    || existsb (fun b => match b with BExec _ true => true | _ => false end) observed
  | CElapsed now_s now_ns stored_s _ =>
    (now_s <? stored_s)%Z || (now_ns =? 0)%Z || (999999000 <=? now_ns)%Z || (16777216 <=? now_s - stored_s)%Z
  | CHelpers m delta _ _ _ _ =>
    msg_edge m || existsb (fun r => (rr_ttl r <=? delta + 1) && (delta <=? rr_ttl r + 1)) (m_rrs m)
  | CBurst _ _ _ _ _ _ _ _ => true
  end.
