(** Scripted schedules on the real lazyDnsConn (harness/lazyx) judged against
    Model.Lazy. The real connection behind it is a harness dummy with a
    capacity counter, exactly the abstraction the model makes. *)
From Verif Require Import Base.Prelude Gen.Constants.
From Verif Require Export Model.Lazy.
Open Scope N_scope.

Inductive zaction :=
| YReserve (c : nat)          (* ReserveNewQuery, expected to return at once *)
| YReserveBg (c : nat)        (* ReserveNewQuery in the background: may block behind early callers *)
| YWithdraw (c : nat)
| YStart (c : nat)            (* go ExchangeReserved on an early reservation *)
| YCancel (c : nat)
| YDial (ok : bool)           (* the dial function returns *)
| YReRes (c : nat)            (* release the early caller parked before its re-reservation *)
| YInnerDone (c : nat) (ok : bool)
| YInnerClose
| YClose.

(** [z_code]: YReserve/YReserveBg: 0 early, 1 real connection, 2 refused (full), 3 refused (closed), 9 blocked.
    [z_ret]: calls that returned during the action (call, class): 0 reply, 1 context, 2 dial error,
    3 dial cancelled, 4 cannot reserve, 5 error of the real connection.
    [z_bg]: background reservations that completed during the action (call, code as above). *)
Record zobs := mkZObs { z_code : N; z_ret : list (nat * N); z_bg : list (nat * N) }.

Inductive case :=
| CLazy (maxq im : N) (script : list (zaction * zobs))
        (fin_reserved fin_inner : N) (fin_blocked : list nat).

Definition res_code (r : option lres) : N :=
  match r with
  | Some LROk => 0
  | Some (LRErr LECtx) => 1
  | Some (LRErr LEDial) => 2
  | Some (LRErr LECancelled) => 3
  | Some (LRErr LECannotReserve) => 4
  | Some (LRErr LEInner) => 5
  | _ => 99
  end.

Definition reserve_code (s1 : lst) (c : nat) : N :=
  match qres (lcalls s1 c) with
  | Some (LRRefused true) => 3
  | Some (LRRefused false) => 2
  | _ => match qpc (lcalls s1 c) with QEarly => 0 | _ => 1 end
  end.

(** All early callers that wait for the dial take the dialFinished case. With
    the dial ok they park at the schedule point; otherwise they return. *)
Fixpoint go_all (s : lst) (cs : list nat) : lst :=
  match cs with
  | [] => s
  | c :: t =>
    match qpc (lcalls s c) with
    | QEarlyWait => match lstep s (ZGo c) with Some s1 => go_all s1 t | None => go_all s t end
    | _ => go_all s t
    end
  end.

(** Background reservations that are no longer blocked complete, in order. *)
Fixpoint bg_progress (fuel : nat) (s : lst) (bg : list nat) (done : list (nat * N)) : lst * list nat * list (nat * N) :=
  match fuel with
  | O => (s, bg, done)
  | S f =>
    match bg with
    | [] => (s, [], done)
    | c :: t =>
      match lstep s (ZReserve c) with
      | Some s1 => bg_progress f s1 t (done ++ [(c, reserve_code s1 c)])
      | None => (s, bg, done)
      end
    end
  end.

Definition exec_zaction (s : lst) (bg : list nat) (a : zaction) (o : zobs) : option (lst * list nat * bool) :=
  match a with
  | YReserve c =>
    match lstep s (ZReserve c) with
    | Some s1 => Some (s1, bg, z_code o =? reserve_code s1 c)
    | None => Some (s, bg, false)
    end
  | YReserveBg c =>
    match lstep s (ZReserve c) with
    | Some s1 => Some (s1, bg, z_code o =? reserve_code s1 c)
    | None => Some (s, bg ++ [c], z_code o =? 9)
    end
  | YWithdraw c => match lstep s (ZWithdraw c) with Some s1 => Some (s1, bg, true) | None => None end
  | YStart c =>
    match lstep s (ZStart c) with
    | Some s1 => Some (go_all s1 [c], bg, true)
    | None => None
    end
  | YCancel c =>
    match lstep s (ZCtx c) with
    | Some s1 =>
      match qpc (lcalls s1 c) with
      | QEarlyWait => match lstep s1 (ZCtxExit c) with Some s2 => Some (s2, bg, true) | None => None end
      | _ => Some (s1, bg, true)
      end
    | None => None
    end
  | YDial ok =>
    match lstep s (ZDialDone ok) with
    | Some s1 => Some (go_all s1 (llive s1), bg, true)
    | None => None
    end
  | YReRes c => match lstep s (ZReReserve c) with Some s1 => Some (s1, bg, true) | None => None end
  | YInnerDone c ok => match lstep s (ZInnerDone c ok) with Some s1 => Some (s1, bg, true) | None => None end
  | YInnerClose => match lstep s ZInnerClose with Some s1 => Some (s1, bg, true) | None => None end
  | YClose =>
    match lstep s ZClose with
    | Some s1 => Some (go_all s1 (llive s1), bg, true)
    | None => None
    end
  end.

Fixpoint insert_p (x : nat * N) (l : list (nat * N)) : list (nat * N) :=
  match l with
  | [] => [x]
  | y :: t => if (fst x <=? fst y)%nat then x :: l else y :: insert_p x t
  end.
Definition sort_p (l : list (nat * N)) := fold_right insert_p [] l.
Definition pair_eqb (a b : nat * N) : bool := Nat.eqb (fst a) (fst b) && (snd a =? snd b).

(** Calls that returned between two states, with their result class. *)
Definition returned_between (s0 s1 : lst) : list (nat * N) :=
  map (fun c => (c, res_code (qres (lcalls s1 c))))
      (filter (fun c => match qres (lcalls s1 c), qpc (lcalls s0 c) with
                        | Some (LRRefused _), _ | Some LRWithdrawn, _ => false
                        | Some _, _ => true
                        | None, _ => false end) (llive s0)).

Fixpoint exec_zscript (s : lst) (bg : list nat) (sc : list (zaction * zobs)) : option (lst * list nat * bool) :=
  match sc with
  | [] => Some (s, bg, true)
  | (a, o) :: t =>
    match exec_zaction s bg a o with
    | Some (s1, bg1, ok1) =>
      let '(s2, bg2, done) := bg_progress (S (length bg1)) s1 bg1 [] in
      let ok2 := list_eqb pair_eqb (sort_p (returned_between s s2)) (sort_p (z_ret o))
                 && list_eqb pair_eqb done (z_bg o) in
      match exec_zscript s2 bg2 t with
      | Some (s3, bg3, ok3) => Some (s3, bg3, ok1 && ok2 && ok3)
      | None => None
      end
    | None => None
    end
  end.

Fixpoint ins_nat (x : nat) (l : list nat) : list nat :=
  match l with [] => [x] | y :: t => if (x <=? y)%nat then x :: l else y :: ins_nat x t end.
Definition sortn (l : list nat) := fold_right ins_nat [] l.

Definition agree (c : case) : bool :=
  match c with
  | CLazy maxq im script fr fi fb =>
    match exec_zscript (linit maxq im) [] script with
    | Some (s, bg, ok) =>
      ok && (lreserved s =? fr) && (icount s =? fi) && list_eqb Nat.eqb (sortn bg) (sortn fb)
    | None => false
    end
  end.

(** C09 (dialing phase), from the observations alone. Early reservations
    outstanding never exceed the queue limit and a refusal for lack of room
    happens only at the limit; reservations of the real connection never
    exceed its limit; with equal limits no early caller is refused by the real
    connection while it is alive ("cannot reserve"); at the end the lazy
    connection's counter equals the number of early callers still inside. *)
Record ztrk := mkZT { zt_early : list nat; zt_inner : list nat; zt_dialing : bool; zt_alive : bool }.

Fixpoint c09z_walk (maxq im : N) (tk : ztrk) (sc : list (zaction * zobs)) : bool * ztrk :=
  match sc with
  | [] => (true, tk)
  | (a, o) :: t =>
    let ne := N.of_nat (length (zt_early tk)) in
    let reserve_ok code c tk :=
      if code =? 0 then (ne <? maxq, mkZT (c :: zt_early tk) (zt_inner tk) (zt_dialing tk) (zt_alive tk))
      else if code =? 1 then (N.of_nat (length (zt_inner tk)) <? im,
                              mkZT (zt_early tk) (c :: zt_inner tk) (zt_dialing tk) (zt_alive tk))
      else if code =? 2 then (if zt_dialing tk then maxq <=? ne else im <=? N.of_nat (length (zt_inner tk)), tk)
      else (true, tk) in
    let '(ok1, tk1) :=
      match a with
      | YReserve c | YReserveBg c => reserve_ok (z_code o) c tk
      | YWithdraw c => (true, mkZT (gremove c (zt_early tk)) (zt_inner tk) (zt_dialing tk) (zt_alive tk))
      | YDial ok => (true, mkZT (zt_early tk) (zt_inner tk) false (zt_alive tk && ok))
      | YReRes c => (true, mkZT (zt_early tk) (c :: zt_inner tk) (zt_dialing tk) (zt_alive tk))
      | YInnerClose | YClose => (true, mkZT (zt_early tk) (zt_inner tk) false false)
      | _ => (true, tk)
      end in
    let ok_bg := forallb (fun x => negb (snd x =? 0)) (z_bg o) in
    let tk2 := fold_left (fun k x => if snd x =? 1 then mkZT (zt_early k) (fst x :: zt_inner k) (zt_dialing k) (zt_alive k) else k)
                         (z_bg o) tk1 in
    (* with equal limits and a live connection nobody queued while dialing is refused by it *)
    let ok_ret := forallb (fun x => negb ((snd x =? 4) && (maxq <=? im) && zt_alive tk2)) (z_ret o) in
    let gone c := negb (existsb (fun x => Nat.eqb (fst x) c) (z_ret o)) in
    let tk3 := mkZT (filter gone (zt_early tk2)) (filter gone (zt_inner tk2)) (zt_dialing tk2) (zt_alive tk2) in
    let '(ok_t, tkf) := c09z_walk maxq im tk3 t in
    (ok1 && ok_bg && ok_ret && ok_t, tkf)
  end.

Definition spec_c09 (c : case) : bool :=
  match c with
  | CLazy maxq im script fr fi fb =>
    let '(ok, tk) := c09z_walk maxq im (mkZT [] [] true true) script in
    ok && (fr =? N.of_nat (length (zt_early tk)))
  end.

(** C07 (dial level): every caller waiting for the dial returns once the
    dial has failed, the connection was closed, or its context ended; after
    Close reservations are refused as closed. *)
Fixpoint c07z_walk (waiting : list nat) (dialing closed : bool) (sc : list (zaction * zobs)) : bool :=
  match sc with
  | [] => true
  | (a, o) :: t =>
    let returned c := existsb (fun x => Nat.eqb (fst x) c) (z_ret o) in
    let ok1 :=
      match a with
      | YDial false => forallb returned waiting
      | YClose => if dialing then forallb returned waiting else true
      | YCancel c => if gmem c waiting then returned c else true
      | YReserve c | YReserveBg c =>
        (* after Close a reservation is refused as closed (or is still parked behind an early caller the harness holds) *)
        if closed then (z_code o =? 3) || (z_code o =? 9) else true
      | _ => true
      end && (if closed then forallb (fun x => snd x =? 3) (z_bg o) else true) in
    let waiting1 := match a with YStart c => if dialing then c :: waiting else waiting | _ => waiting end in
    let closed1 := match a with YClose => true | _ => closed end in
    let dialing1 := match a with YDial _ | YClose => false | _ => dialing end in
    (* after the dial has finished nobody waits for it any more *)
    let waiting2 := if dialing1 then filter (fun c => negb (returned c)) waiting1 else [] in
    ok1 && c07z_walk waiting2 dialing1 closed1 t
  end.

(** … and no reservation is left hanging at the end: the harness lets every
    early caller through before it stops, so a reservation still blocked (or a
    connection whose mutex can no longer be taken, reported as 77777) means a
    call that will never return. *)
Definition spec_c07 (c : case) : bool :=
  match c with
  | CLazy _ _ script fr _ fb =>
    c07z_walk [] true false script && match fb with [] => true | _ => false end && negb (fr =? 77777)
  end.

Definition zactions (c : case) : list zaction := match c with CLazy _ _ script _ _ _ => map fst script end.
Definition nontrivial_c09 (c : case) : bool :=
  match c with
  | CLazy maxq im script _ _ _ =>
    existsb (fun ao => match fst ao with YReserve _ | YReserveBg _ => negb (z_code (snd ao) <? 2) | _ => false end) script
    || existsb (fun a => match a with YReRes _ => true | _ => false end) (map fst script)
  end.
Definition nontrivial_c07 (c : case) : bool :=
  existsb (fun a => match a with YDial false | YClose | YCancel _ => true | _ => false end) (zactions c)
  && existsb (fun a => match a with YStart _ => true | _ => false end) (zactions c).

(** Debug aid: per action (action-specific check, returns/background check). *)
Fixpoint trace_zscript (s : lst) (bg : list nat) (sc : list (zaction * zobs)) : list (bool * bool * list (nat * N) * list (nat * N)) :=
  match sc with
  | [] => []
  | (a, o) :: t =>
    match exec_zaction s bg a o with
    | Some (s1, bg1, ok1) =>
      let '(s2, bg2, done) := bg_progress (S (length bg1)) s1 bg1 [] in
      (ok1, list_eqb pair_eqb (sort_p (returned_between s s2)) (sort_p (z_ret o)) && list_eqb pair_eqb done (z_bg o),
       returned_between s s2, done) :: trace_zscript s2 bg2 t
    | None => [(false, false, [], [])]
    end
  end.
Definition trace (c : case) :=
  match c with CLazy maxq im script _ _ _ => trace_zscript (linit maxq im) [] script end.
