(** C07 (connection level) — verdict functions for the cases of harness/cmd/tdc (-prop C07). *)
From Verif Require Import Base.Prelude Model.Tdc.
From Verif Require Judge.Tdc.
Export Judge.Tdc.
Definition case := Judge.Tdc.case.
Definition agree : case -> bool := Judge.Tdc.agree.
Definition spec : case -> bool := Judge.Tdc.spec_c07.
Definition nontrivial : case -> bool := Judge.Tdc.nontrivial_c07.
Definition spec_relaxed : case -> bool := Judge.Tdc.spec_c07_relaxed.
