(** C07 — verdict functions for harness/cmd/c07: schedules on the established connection (Judge.Tdc), on the
    still-dialing connection (Judge.Lazy) and on the non-pipelined transport (Judge.Reuse). *)
From Verif Require Import Base.Prelude.
From Verif Require Judge.Tdc Judge.Lazy Judge.Reuse Judge.Pool Judge.PPool Judge.Live.
Export Judge.Tdc Judge.Lazy Judge.Reuse Judge.Pool Judge.PPool Judge.Live.
Inductive case := KTdc (c : Judge.Tdc.case) | KLazy (c : Judge.Lazy.case) | KReuse (c : Judge.Reuse.case) | KBurst (c : Judge.Pool.bcase)
  | KPool (c : Judge.PPool.case)
  | KLive (c : Judge.Live.lcase).
Definition agree (c : case) : bool :=
  match c with KTdc x => Judge.Tdc.agree x | KLazy x => Judge.Lazy.agree x | KReuse x => Judge.Reuse.agree x | KBurst x => Judge.Pool.b_agree x | KPool x => Judge.PPool.agree x | KLive x => Judge.Live.l_agree x end.
Definition spec (c : case) : bool :=
  match c with KTdc x => Judge.Tdc.spec_c07 x | KLazy x => Judge.Lazy.spec_c07 x | KReuse x => Judge.Reuse.spec_c07 x | KBurst x => Judge.Pool.b_spec_c07 x | KPool x => Judge.PPool.spec_c07 x | KLive x => Judge.Live.l_spec x end.
Definition nontrivial (c : case) : bool :=
  match c with KTdc x => Judge.Tdc.nontrivial_c07 x | KLazy x => Judge.Lazy.nontrivial_c07 x | KReuse x => Judge.Reuse.nontrivial x | KBurst x => Judge.Pool.b_nontrivial x | KPool x => Judge.PPool.nontrivial x | KLive x => Judge.Live.l_nontrivial x end.
Definition spec_relaxed (c : case) : bool :=
  match c with KTdc x => Judge.Tdc.spec_c07_relaxed x | KLazy x => Judge.Lazy.spec_c07 x | KReuse x => Judge.Reuse.spec_c07 x | KBurst x => Judge.Pool.b_spec_c07 x | KPool x => Judge.PPool.spec_c07 x | KLive x => Judge.Live.l_spec x end.
