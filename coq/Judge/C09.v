(** C09 — verdict functions for harness/cmd/c09: schedules on the established connection (Judge.Tdc)
    and on the still-dialing connection (Judge.Lazy). *)
From Verif Require Import Base.Prelude.
From Verif Require Judge.Tdc Judge.Lazy.
Export Judge.Tdc Judge.Lazy.
Inductive case := KTdc (c : Judge.Tdc.case) | KLazy (c : Judge.Lazy.case).
Definition agree (c : case) : bool :=
  match c with KTdc x => Judge.Tdc.agree x | KLazy x => Judge.Lazy.agree x end.
Definition spec (c : case) : bool :=
  match c with KTdc x => Judge.Tdc.spec_c09 x | KLazy x => Judge.Lazy.spec_c09 x end.
Definition nontrivial (c : case) : bool :=
  match c with KTdc x => Judge.Tdc.nontrivial_c09 x | KLazy x => Judge.Lazy.nontrivial_c09 x end.
