(** C08 — verdicts for the per-query observations of harness/cmd/c08: the
    passes a query made through the retry loop of the real pipeline / reuse
    transport, as seen through the schedule points "<t>.attempt" and
    "<t>.conn.created" (on the caller's goroutine) and the fake connections. *)
From Verif Require Import Base.Prelude Gen.Constants Gen.RetryFacts.
From Verif Require Export Model.Retry.
From Verif Require Judge.PPool.
Export Judge.PPool.
Open Scope N_scope.

(** One observed pass: [p_acq] an exchange was attempted (a connection was
    obtained); [p_created] a connection was opened for this query in this pass;
    [p_ok] the exchange returned a reply; [p_written] the query's bytes were
    handed to a connection. *)
Record opass := mkOP { p_acq : bool; p_created : bool; p_ok : bool; p_written : bool;
  p_dead : bool (* the query was written to a connection the client itself had already closed *) }.

Inductive case :=
| CRetry (pipeline : bool) (passes : list opass) (ctx_cancelled t_closed : bool)
         (final : N)   (* 0 reply, 1 exchange error, 2 no connection obtained, 3 still running *)
         (conns : N)   (* distinct connections the query was written to *)
         (stale : N)   (* connections whose server side was gone but that the client had not closed when the query
                          started, plus those the scenario kills while it runs *)
         (must : bool)  (* scenario guarantee: every fresh connection works, nobody cancels, the transport stays open *)
| KPool (c : Judge.PPool.case).   (* scripted calls on the real PipelineTransport over dummy connections *)

Definition cfg_of (pipeline : bool) : cfg := if pipeline then pipeline_cfg else reuse_cfg.

Fixpoint to_passes (ctx_cancelled : bool) (ps : list opass) : list pass :=
  match ps with
  | [] => []
  | [p] => [if p_acq p then Exch (mkAtt (p_created p) (p_ok p) ctx_cancelled) else AcqFail]
  | p :: t => (if p_acq p then Exch (mkAtt (p_created p) (p_ok p) false) else AcqFail) :: to_passes ctx_cancelled t
  end.

Definition final_code (f : final) : N := match f with FOk => 0 | FErr => 1 | FAcq => 2 | FMore => 3 end.

(** The loop model, fed with what each pass was handed, stops exactly where
    the real call stopped, with the same outcome. A cancelled context makes the
    last pass's classification ambiguous for the reuse transport (the context
    error may come from the dial wait or from the exchange): both are accepted. *)
Definition agree (c : case) : bool :=
  match c with
  | CRetry pl ps cc tc fin conns _ _ =>
    let '(f, n) := loop (cfg_of pl) 0 (to_passes cc ps) in
    (if final_code f =? 3 then (fin =? 3) && (n =? length ps)%nat
     else (final_code f =? fin) && (n =? length ps)%nat)
    && (conns <=? N.of_nat (length (filter p_written ps)))
    (* the pool never hands out a connection the client has already closed *)
    && forallb (fun p => negb (p_dead p)) ps
  | KPool x => Judge.PPool.agree x
  end.

Definition n_exch (ps : list opass) : N := N.of_nat (length (filter p_acq ps)).

(** The property, on the observations alone. *)
Definition spec (c : case) : bool :=
  match c with
  | CRetry pl ps cc tc fin conns stale must =>
    let bound := allowed (cfg_of pl) + 1 in
    (n_exch ps <=? 4) && (conns <=? 4)
    && (if fin =? 1 then
          match rev ps with
          | last :: _ => p_created last || (bound <=? n_exch ps) || cc || tc
          | [] => false
          end
        else true)
    && (if fin =? 0 then match rev ps with last :: _ => p_ok last | [] => false end else true)
    && forallb (fun p => negb (p_ok p)) (removelast ps)
    (* transparent retry: with fewer dead connections around than the retry budget and a working fresh
       connection, the query succeeds *)
    && (if must && (stale <=? allowed (cfg_of pl)) then fin =? 0 else true)
    (* a failure must not be built on attempts at connections the client already knew were closed *)
    && (if fin =? 1 then negb (existsb p_dead ps) else true)
  | KPool x => Judge.PPool.spec_c08 x
  end.

Definition nontrivial (c : case) : bool :=
  match c with
  | CRetry _ ps _ _ _ _ _ _ => (2 <=? length ps)%nat || existsb (fun p => negb (p_ok p)) ps
  | KPool x => Judge.PPool.nontrivial x
  end.
