(** Transport-level bursts (harness/poolx/burst.go): n concurrent queries on the real pipeline / reuse
    transport over fake connections, then Close with further queries in flight. What is judged is what the
    connection-level theorems promise at transport level: no connection ever carries more unanswered
    queries than its limit (C09: c09_inflight_le_limit, c09_reuse_one_query_per_conn), the transport opens
    further connections instead of refusing, and Close releases every call and goroutine (C07). *)
From Verif Require Import Base.Prelude.
Open Scope N_scope.

Inductive bcase := CBurst (pipeline : bool) (limit : N) (maxinfl : list N) (failed leaked blocked : N).

Definition b_limit (c : bcase) : bool :=
  match c with CBurst pl limit ms _ _ _ => forallb (fun m => m <=? (if pl then limit else 1)) ms end.
Definition b_served (c : bcase) : bool := match c with CBurst _ _ _ f _ _ => f =? 0 end.
Definition b_released (c : bcase) : bool := match c with CBurst _ _ _ _ l b => (l =? 0) && (b =? 0) end.

Definition b_agree (c : bcase) : bool := b_limit c && b_served c && b_released c.
Definition b_spec_c09 (c : bcase) : bool := b_limit c && b_served c.
Definition b_spec_c07 (c : bcase) : bool := b_released c.
Definition b_nontrivial (c : bcase) : bool :=
  match c with CBurst pl limit ms _ _ _ => (2 <=? length ms)%nat end.
