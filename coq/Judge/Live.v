(** The dial functions and the silent-server timeouts of the upstreams that pkg/upstream/upstream.go
    builds (harness/dialx). The transport models (Lazy, Reuse) take as environment that a dial ends when
    its context does and that a reader's deadline fires; this judge holds the real upstreams to it.
    scheme: 0 tls, 1 tls+pipeline, 2 tcp, 3 tcp+pipeline, 4 udp (every datagram is answered with TC set, so the
    exchange continues on the upstream's tcp fallback, which meets the silent listener). variant: 0 an unbounded caller against a server
    that accepts and says nothing, 1 Close while the exchange is stuck there. Observed: the exchange
    returned (with an error), within the bound (dial timeout / waiting-reply timeouts plus a margin; at
    once after Close), and every socket the upstream opened was closed. *)
From Verif Require Import Base.Prelude.
Open Scope N_scope.

Inductive lcase := CLive (scheme variant : N) (returned within released : bool).

(** The model's prediction is the environment assumption itself. *)
Definition l_agree (c : lcase) : bool :=
  match c with CLive _ _ r w rel => r && w && rel end.
(** C07: every exchange returns within the transport's own liveness timeouts when the server stays silent,
    and after Close pending calls return and every connection is released. *)
Definition l_spec (c : lcase) : bool :=
  match c with CLive _ _ r w rel => r && w && rel end.
Definition l_nontrivial (c : lcase) : bool := true.
