(** C01 — verdict functions for harness/cmd/c01: schedules on the ID-multiplexed connection (Judge.Tdc)
    and on the non-pipelined transport (Judge.Reuse). *)
From Verif Require Import Base.Prelude.
From Verif Require Judge.Tdc Judge.Reuse Judge.IdZero.
Export Judge.Tdc Judge.Reuse Judge.IdZero.
Inductive case := KTdc (c : Judge.Tdc.case) | KReuse (c : Judge.Reuse.case) | KId (c : Judge.IdZero.icase)
  | KIdB (l : list Judge.IdZero.icase)
  | KHeld (c : Judge.IdZero.hcase)   (* exchanges run concurrently on one DoH upstream / one QUIC connection *)
  | KIdW (c : Judge.IdZero.wcase).   (* DoQ: failed stream writes, then concurrent exchanges with interleaved payload building *)
Definition agree (c : case) : bool :=
  match c with KTdc x => Judge.Tdc.agree x | KReuse x => Judge.Reuse.agree x | KId x => Judge.IdZero.i_agree x
  | KIdB l => forallb Judge.IdZero.i_agree l
  | KHeld x => Judge.IdZero.h_agree x
  | KIdW x => Judge.IdZero.w_agree x end.
Definition spec (c : case) : bool :=
  match c with KTdc x => Judge.Tdc.spec_c01 x | KReuse x => Judge.Reuse.spec_c01 x | KId x => Judge.IdZero.i_spec x
  | KIdB l => forallb Judge.IdZero.i_spec l
  | KHeld x => Judge.IdZero.h_spec x
  | KIdW x => Judge.IdZero.w_spec x end.
Definition nontrivial (c : case) : bool :=
  match c with KTdc x => Judge.Tdc.nontrivial_c01 x | KReuse x => Judge.Reuse.nontrivial x | KId x => Judge.IdZero.i_nontrivial x
  | KIdB l => (2 <=? length l)%nat
  | KHeld x => Judge.IdZero.h_nontrivial x
  | KIdW x => Judge.IdZero.w_nontrivial x end.
