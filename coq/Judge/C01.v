(** C01 — verdict functions for the cases of harness/cmd/tdc (-prop C01). *)
From Verif Require Import Base.Prelude Model.Tdc.
From Verif Require Judge.Tdc.
Export Judge.Tdc.
Definition case := Judge.Tdc.case.
Definition agree : case -> bool := Judge.Tdc.agree.
Definition spec : case -> bool := Judge.Tdc.spec_c01.
Definition nontrivial : case -> bool := Judge.Tdc.nontrivial_c01.
