(** C18 — case type and verdict functions evaluated by [bin/check] on the
    observations of the Go driver (harness/cmd/c18). *)
From Coq Require Import Ascii String.
From Verif Require Import Base.Prelude.
From Verif Require Export Model.Addr.   (* the generated case files name its constructors *)
Open Scope N_scope.

(** An input string: literal, or an endpoint of the grammar (the string is its
    rendering and the endpoint says what the user meant). *)
Inductive inp := IRaw (s : str) | IEp (e : ep).
Definition inp_str (i : inp) : str := match i with IRaw s => s | IEp e => render_ep e end.

(** What a SOCKS5 CONNECT request / a loopback socket saw as destination, and
    the name the harness certificate was issued for. IP addresses are 4 or 16 bytes. *)
Inductive dest := DIp (b : list N) | DName (s : str).
Inductive san := SanNone | SanIp (b : list N) | SanName (s : str).

(** The address given to NewUpstream: raw strings, or scheme ("" = none
    written) :// endpoint path with an optional dial_addr endpoint;
    [eff_ip]/[url_ip] = netip.ParseAddr (run by the driver) on the host text of
    the effective (dial_addr if given, else URL) and of the URL endpoint. *)
Inductive uin :=
| URaw (addr dial : str)
| UMean (scheme : str) (e : ep) (path : str) (dial : option ep) (eff_ip url_ip : option (list N)).

Definition uin_addr (a : uin) : str :=
  match a with
  | URaw addr _ => addr
  | UMean scheme e path _ _ _ =>
    if is_nil scheme then render_ep e ++ path else scheme ++ lit "://" ++ render_ep e ++ path
  end.
Definition uin_dial (a : uin) : str :=
  match a with
  | URaw _ d => d
  | UMean _ _ _ (Some d) _ _ => render_ep d
  | UMean _ _ _ None _ _ => []
  end.

Inductive case :=
  (** tryTrimIpv6Brackets *)
| CTrim (s obs : str)
  (** library checks: net.SplitHostPort (error class 0 = nil, host, port),
      strconv.ParseUint(s,10,16), netip.ParseAddr, url.Parse (Scheme, Host) *)
| CStd (s : str) (err : N) (host port : str)
| CUint (s : str) (obs : option N)
| CIp (s : str) (obs : option (list N))
| CUrl (s : str) (obs : option (str * str))
  (** trySplitHostPort, tryRemovePort, parseDialAddr *)
| CSplit (s : inp) (obs : option (str * N))
| CRemove (s : inp) (obs : str)
| CParse (u d : inp) (def : N) (obs : option (str * N))
  (** NewUpstream: created? *)
| CNew (a : uin) (socks : bool) (obs : bool)
  (** NewUpstream + one exchange: [None] = creation refused, else the distinct
      destinations seen, the SNI seen, the Host header seen (https), and whether
      the exchange succeeded (for tls/https that means the certificate for
      [cert] was accepted) *)
| CNet (a : uin) (socks : bool) (cert : san) (obs : option (list (dest * N) * str * str * bool))
  (** NewUpstream with Opt.Bootstrap = [bs] (no proxy): created? [bs_ip] =
      netip.ParseAddr (run by the driver) accepts the host text of [bs] *)
| CNewB (a : uin) (bs : inp) (bs_ip : bool) (obs : bool)
  (** as CNet without proxy, with Opt.Bootstrap = [bs], the address of a DNS
      server of the harness that answers every name with the address [ans];
      the observation also lists the distinct names that server was asked for *)
| CBoot (a : uin) (bs : str) (ans : list N) (cert : san)
        (obs : option (list (dest * N) * list str * str * str * bool))
  (** the plain udp upstream against servers that answer every UDP query
      truncated (TC=1): [None] = creation refused, else the distinct
      destinations of the UDP datagrams, the distinct destinations of the TCP
      connections, and whether the exchange ended with the TCP answer *)
| CTrunc (a : uin) (obs : option (list (dest * N) * list (dest * N) * bool))
  (** upstreams created one after another from ONE shared Opt.TLSConfig whose
      ServerName is [preset] (usually empty), then used in that order: per
      upstream the address, whether a proxy is set, the name its server's
      certificate is issued for and [None] = refused / [Some (SNI seen,
      exchange succeeded)]; and the shared config afterwards: its ServerName
      and the length of its NextProtos *)
| CSeq (preset : str) (ups : list (uin * bool * san * option (str * bool))) (after_name : str) (after_protos : N)
  (** the code under test panicked on these input strings *)
| CPanic (a b : str).

(** ** agree: the observation is what the model computes *)

Definition hp_eqb (a b : option (str * N)) : bool :=
  option_eqb (fun x y => str_eqb (fst x) (fst y) && (snd x =? snd y)) a b.

Definition err_code (e : shp_err) : N :=
  match e with EMissingPort => 1 | ETooManyColons => 2 | EMissingRbr => 3 | EUnexpLbr => 4 | EUnexpRbr => 5 end.

(** IPv4 as IPv4-mapped IPv6 so that 1.2.3.4 and ::ffff:1.2.3.4 compare equal
    (Go dials and proxies both as IPv4) *)
Definition to16 (b : list N) : list N :=
  if (length b =? 4)%nat then repeat 0 10 ++ [255; 255] ++ b else b.
Definition ip_eqb (a b : list N) : bool := list_eqb N.eqb (to16 a) (to16 b).

Definition dest_matches (d : dest) (h : str) : bool :=
  match parse_ip h, d with
  | Some b, DIp b' => ip_eqb b b'
  | None, DName s => str_eqb s h
  | _, _ => false
  end.

Definition san_matches (name : str) (c : san) : bool :=
  match parse_ip name, c with
  | Some b, SanIp b' => ip_eqb b b'
  | None, SanName s => str_eqb s name
  | _, _ => false
  end.

(** crypto/tls leaves trailing dots out of the server_name extension *)
Definition strip_dots (s : str) : str :=
  rev ((fix go (r : str) := match r with c :: t => if c =? c_dot then go t else r | [] => [] end) (rev s)).

(** the model of url.Parse is declined outside its alphabet *)
Definition in_domain (addr : str) : bool := forallb url_safe addr.

Definition is_some {A} (o : option A) : bool := match o with Some _ => true | None => false end.

Definition no_names (l : list str) : bool := match l with [] => true | _ => false end.

(** Host header (https), SNI and certificate verdict the model predicts *)
Definition agree_upper (t : target) (cert : san) (sni hh : str) (ok : bool) : bool :=
  match t_transport t, t_http_host t with
  | THttps, Some h => negb ok || str_eqb hh h
  | _, _ => is_nil hh
  end
  && match t_transport t, t_tls_name t with
     | TTls, Some name | THttps, Some name =>
       str_eqb sni (if ip_literal name then [] else strip_dots name) && Bool.eqb ok (san_matches name cert)
     | TUdp, _ | TTcp, _ => is_nil sni && ok
     | _, _ => is_nil sni && negb ok          (* quic / h3: only the first datagram is observed *)
     end.

Definition agree (c : case) : bool :=
  match c with
  | CTrim s obs => str_eqb (trim_v6_brackets s) obs
  | CStd s err h p =>
    match split_host_port s with
    | ShpOk h' p' => (err =? 0) && str_eqb h h' && str_eqb p p'
    | ShpErr e => (err =? err_code e) && is_nil h && is_nil p
    end
  | CUint s obs => option_eqb N.eqb (parse_uint16 s) obs
  | CIp s obs => option_eqb (list_eqb N.eqb) (parse_ip s) obs
  | CUrl s obs =>
    match url_parse s, obs with
    | UrlOut, _ => true
    | UrlErr, None => true
    | UrlOk sc h, Some (sc', h') => str_eqb sc sc' && str_eqb h h'
    | _, _ => false
    end
  | CSplit s obs => hp_eqb (try_split_host_port (inp_str s)) obs
  | CRemove s obs => str_eqb (try_remove_port (inp_str s)) obs
  | CParse u d def obs => hp_eqb (parse_dial_addr (inp_str u) (inp_str d) def) obs
  | CNew a socks obs =>
    negb (in_domain (uin_addr a))
    || Bool.eqb (is_some (new_upstream ip_literal (uin_addr a) (uin_dial a) socks)) obs
  | CNet a socks cert obs =>
    negb (in_domain (uin_addr a)) ||
    match new_upstream ip_literal (uin_addr a) (uin_dial a) socks, obs with
    | None, None => true
    | Some t, Some (dests, sni, hh, ok) =>
      match dests with
      | [(d, port)] => dest_matches d (t_host t) && (port =? t_port t)
      | _ => false
      end
      && agree_upper t cert sni hh ok
    | _, _ => false
    end
  | CNewB a bs _ obs =>
    negb (in_domain (uin_addr a))
    || Bool.eqb (is_some (new_upstream_bs ip_literal (uin_addr a) (uin_dial a) false (inp_str bs))) obs
  | CBoot a bs ans cert obs =>
    negb (in_domain (uin_addr a)) ||
    match new_upstream_bs ip_literal (uin_addr a) (uin_dial a) false bs, obs with
    | None, None => true
    | Some (t, plan), Some (dests, asked, sni, hh, ok) =>
      match plan, dests with
      | DialLiteral h p, [(d, port)] => dest_matches d h && (port =? p) && no_names asked
      | DialBootstrap h p, [(DIp b, port)] =>
        ip_eqb b ans && (port =? p) && list_eqb str_eqb asked [h ++ [c_dot]]
      | _, _ => false
      end
      && agree_upper t cert sni hh ok
    | _, _ => false
    end
  | CTrunc a obs =>
    negb (in_domain (uin_addr a)) ||
    match new_upstream ip_literal (uin_addr a) (uin_dial a) false, obs with
    | None, None => true
    | Some t, Some (udps, tcps, ok) =>
      (* one observed destination per dial site of the model, in its order *)
      match dial_sites t, udps, tcps with
      | [(NetUdp, h1, p1); (NetTcp, h2, p2)], [(d1, q1)], [(d2, q2)] =>
        dest_matches d1 h1 && (q1 =? p1) && dest_matches d2 h2 && (q2 =? p2) && ok
      | _, _, _ => false
      end
    | _, _ => false
    end
  | CSeq preset ups after_name after_protos =>
    str_eqb after_name preset && (after_protos =? 0)
    && forallb (fun u =>
         let '(a, socks, cert, obs) := u in
         negb (in_domain (uin_addr a)) ||
         match nth_error (new_upstreams ip_literal [(uin_addr a, uin_dial a, socks)]) 0, obs with
         | Some None, None => true
         | Some (Some t), Some (sni, ok) =>
           match effective_tls_name preset t with
           | Some name =>
             str_eqb sni (if ip_literal name then [] else strip_dots name)
             && match t_transport t with
                | TTls | THttps => Bool.eqb ok (san_matches name cert)
                | _ => negb ok
                end
           | None => is_nil sni && ok
           end
         | _, _ => false
         end) ups
  | CPanic _ _ => false
  end.

(** ** spec: the property's own oracle on the observation, from what the
    generator meant — no parser of the model is used here *)

Definition host_wf (e : ep) : bool :=
  match e with
  | EName h _ => negb (is_nil h) && forallb name_char h
  | EV6 v br p =>
    forallb inner_char v && (2 <=? count_colon v)%nat
    && (br || match p with None => true | Some _ => false end)
  end.

Definition bad_port_text (d : str) : bool :=
  is_nil d || negb (forallb is_digit d) || (65535 <? dec_value d).

(** the (host, port) an endpoint denotes: [Some None] = must be refused,
    [None] = the property does not say (port 0, text outside the grammar) *)
Definition denotes (in_url : bool) (e : ep) (def : N) : option (option (str * N)) :=
  if host_wf e && (in_url || dial_ok_ep e) then
    match ep_port e with
    | None => Some (Some (ep_host e, def))
    | Some d =>
      if bad_port_text d then Some None
      else if dec_value d =? 0 then None
      else Some (Some (ep_host e, dec_value d))
    end
  else None.

(** outside the grammar: whatever is returned is a piece of the input, the
    port is the default or the number after the last colon *)
Definition piece_ok (s : str) (def : N) (obs : option (str * N)) : bool :=
  match obs with
  | None => true
  | Some (h, p) => contains h s && ((p =? def) || (p =? dec_value (after_last_colon s)))
  end.

Definition spec_hp (i : inp) (def : N) (obs : option (str * N)) : bool :=
  match i with
  | IRaw s => piece_ok s def obs
  | IEp e =>
    match denotes false e def with
    | Some want => hp_eqb want obs
    | None => piece_ok (render_ep e) def obs
    end
  end.

Definition lookup_scheme (s : str) : option (transport * N) :=
  if is_nil s then Some (TUdp, 53) else
  match find (fun r => str_eqb (lit (fst (fst r))) s) scheme_table with
  | Some r => Some (snd (fst r), snd r)
  | None => None
  end.

(** independent formulation of the bracket rule *)
Definition spec_trim (s obs : str) : bool :=
  match s with
  | 91 :: t => match rev t with 93 :: m => str_eqb obs (rev m) | _ => str_eqb obs s end
  | _ => str_eqb obs s
  end.

Definition dest_is (d : dest) (ip : option (list N)) (h : str) : bool :=
  match ip, d with
  | Some b, DIp b' => ip_eqb b b'
  | None, DName s => str_eqb s h
  | _, _ => false
  end.

(** what a well-formed address must do. [Some false]: refused; [Some true]:
    created; [None]: not decided by the property *)
Definition must_create (scheme : str) (e : ep) (path : str) (dial : option ep)
           (eff_ip : option (list N)) (socks : bool) : option bool :=
  match lookup_scheme scheme with
  | None => Some false
  | Some (tr, def) =>
    if host_wf e && url_ok_ep e && wf_path path then
      let by_ep (d : option (option (str * N))) :=
        match d with
        | Some None => Some false
        | Some (Some _) => Some (negb (needs_ip tr socks) || is_some eff_ip)
        | None => None
        end in
      match dial with
      | None => by_ep (denotes true e def)
      | Some d => if wf_port_opt (ep_port e) then by_ep (denotes false d def) else None
      end
    else None
  end.

(** TLS name = URL host: SNI for names, certificate verdict for both *)
Definition spec_upper (tr : transport) (e : ep) (url_ip : option (list N)) (cert : san) (sni : str) (ok : bool) : bool :=
  match tr with
  | TTls | THttps =>
    match url_ip with
    | Some b => is_nil sni && Bool.eqb ok (match cert with SanIp b' => ip_eqb b b' | _ => false end)
    | None => str_eqb sni (strip_dots (ep_host e))
              && Bool.eqb ok (match cert with SanName s => str_eqb s (ep_host e) | _ => false end)
    end
  | TUdp | TTcp => ok
  | _ => true
  end.

Definition spec (c : case) : bool :=
  match c with
  | CTrim s obs => spec_trim s obs
  | CStd _ _ _ _ | CIp _ _ | CUrl _ _ => true
  | CUint s obs =>
    if bad_port_text s then negb (is_some obs) else option_eqb N.eqb obs (Some (dec_value s))
  | CSplit s obs => spec_hp s 0 obs
  | CRemove s obs =>
    match s with
    | IRaw t => contains obs t
    | IEp e =>
      match denotes false e 0 with
      | Some (Some (h, _)) => str_eqb obs h
      | _ => contains obs (render_ep e)
      end
    end
  | CParse u d def obs => spec_hp (if is_nil (inp_str d) then u else d) def obs
  | CNew a socks obs =>
    match a with
    | URaw _ _ => true
    | UMean scheme e path dial eff_ip _ =>
      match must_create scheme e path dial eff_ip socks with
      | Some b => Bool.eqb obs b
      | None => true
      end
    end
  | CNet a socks cert obs =>
    match a with
    | URaw addr dial =>
      match obs with
      | Some (dests, _, _, _) =>
        forallb (fun dp => match fst dp with DName s => contains s addr || contains s dial | DIp _ => true end) dests
      | None => true
      end
    | UMean scheme e path dial eff_ip url_ip =>
      match must_create scheme e path dial eff_ip socks, obs with
      | Some false, None => true
      | Some true, Some (dests, sni, _, ok) =>
        match lookup_scheme scheme,
              match dial with Some d => denotes false d 0 | None => denotes true e 0 end with
        | Some (tr, def), Some (Some (h, p)) =>
          match dests with
          | [(d, port)] => dest_is d eff_ip h && (port =? (if p =? 0 then def else p))
          | _ => false
          end
          && spec_upper tr e url_ip cert sni ok
        | _, _ => false
        end
      | Some _, _ => false
      | None, _ => true
      end
    end
  | CNewB a bs bs_ip obs =>
    match a with
    | URaw _ _ => true
    | UMean scheme e path dial eff_ip _ =>
      let bs_good :=
        match bs with
        | IRaw [] => Some true
        | IRaw _ => None
        | IEp be =>
          match denotes false be 53 with
          | Some (Some _) => Some bs_ip
          | Some None => Some false
          | None => None
          end
        end in
      match must_create scheme e path dial eff_ip false, bs_good with
      | Some b, Some g => Bool.eqb obs (b && g)
      | Some false, None | None, Some false => negb obs
      | _, _ => true
      end
    end
  | CBoot a bs ans cert obs =>
    match a with
    | URaw _ _ => true
    | UMean scheme e path dial eff_ip url_ip =>
      match must_create scheme e path dial eff_ip false, obs with
      | Some false, None => true
      | Some true, Some (dests, asked, sni, _, ok) =>
        let eff := match dial with Some d => d | None => e end in
        match lookup_scheme scheme,
              match dial with Some d => denotes false d 0 | None => denotes true e 0 end with
        | Some (tr, def), Some (Some (h, p)) =>
          match dests with
          | [(DIp b, port)] =>
            (port =? (if p =? 0 then def else p))
            && match eff_ip with
               | Some ip => ip_eqb b ip && no_names asked          (* an IP literal is not resolved *)
               | None => ip_eqb b ans && list_eqb str_eqb asked [h ++ [c_dot]]
               end
          | _ => false
          end
          && spec_upper tr e url_ip cert sni ok
        | _, _ => false
        end
      | Some _, _ => false
      | None, _ => true
      end
    end
  | CTrunc a obs =>
    match a with
    | URaw _ _ => true
    | UMean scheme e path dial eff_ip _ =>
      match must_create scheme e path dial eff_ip false, obs with
      | Some false, None => true
      | Some true, Some (udps, tcps, ok) =>
        match lookup_scheme scheme,
              match dial with Some d => denotes false d 0 | None => denotes true e 0 end with
        | Some (_, def), Some (Some (h, p)) =>
          let want := if p =? 0 then def else p in
          (* the TCP connection arrives where the UDP datagram went: the configured address *)
          match udps, tcps with
          | [(d1, q1)], [(d2, q2)] =>
            dest_is d1 eff_ip h && (q1 =? want) && dest_is d2 eff_ip h && (q2 =? want) && ok
          | _, _ => false
          end
        | _, _ => false
        end
      | Some _, _ => false
      | None, _ => true
      end
    end
  | CSeq preset ups after_name after_protos =>
    (* the caller's config is left as it was, and every upstream uses its own
       URL host (or the caller's preset name) whatever was created before it *)
    str_eqb after_name preset && (after_protos =? 0)
    && forallb (fun u =>
         let '(a, socks, cert, obs) := u in
         match a with
         | URaw _ _ => true
         | UMean scheme e path dial eff_ip url_ip =>
           match must_create scheme e path dial eff_ip socks, lookup_scheme scheme, obs with
           | Some true, Some (tr, _), Some (sni, ok) =>
             if is_nil preset then
               match tr with
               | TTls | THttps => spec_upper tr e url_ip cert sni ok
               | TH3 | TQuic =>
                 match url_ip with Some _ => is_nil sni | None => str_eqb sni (strip_dots (ep_host e)) end
               | _ => is_nil sni && ok
               end
             else
               str_eqb sni preset
               && match tr with
                  | TTls | THttps => Bool.eqb ok (match cert with SanName s => str_eqb s preset | _ => false end)
                  | _ => true
                  end
           | Some false, _, None => true
           | Some _, _, _ => false
           | None, _, _ => true
           end
         end) ups
  | CPanic _ _ => false
  end.

(** ** nontrivial: an IPv6 form, a dial_addr override or an omitted port is involved *)
Definition v6ish (s : str) : bool := has c_lbr s || (2 <=? count_colon s)%nat.

Definition nontrivial (c : case) : bool :=
  match c with
  | CTrim s _ | CStd s _ _ _ | CIp s _ => v6ish s
  | CUrl s _ => v6ish (skipn 6 s)
  | CUint s _ => (65530 <=? dec_value s) || is_nil s
  | CSplit s _ | CRemove s _ => v6ish (inp_str s) || negb (has c_colon (inp_str s))
  | CParse u d _ _ =>
    negb (is_nil (inp_str d)) || v6ish (inp_str u) || negb (has c_colon (inp_str u))
  | CNew a _ _ | CNet a _ _ _ | CNewB a _ _ _ | CBoot a _ _ _ _ | CTrunc a _ =>
    in_domain (uin_addr a) &&
    (negb (is_nil (uin_dial a)) || v6ish (uin_addr a)
    || match a with UMean _ e _ _ _ _ => negb (is_some (ep_port e)) | _ => false end)
  | CSeq _ ups _ _ => (2 <=? length ups)%nat
  | CPanic _ _ => true
  end.
