(** C13 — case type and verdict functions evaluated by [bin/check] on the
    observations of the Go driver (harness/cmd/c13). *)
From Verif Require Import Base.Prelude.
From Verif Require Export Model.Netlist.
Open Scope N_scope.

(** A probe: the address asked and the answer the Go code gave. *)
Definition probe := (query * bool)%type.

(** [path] says through which public entry the entries were loaded (the model is
    the same for all of them):
    0 = List.Append one prefix per call, 1 = one variadic Append,
    2 = netlist.LoadFromReader on a text with comments/blank lines,
    3 = netlist.LoadFromText per entry, 4 = ip_set.NewIPSet(Args.IPs),
    5 = ip_set.NewIPSet(Args.Files). *)
Inductive case :=
  (** load, Sort, observe Len() (where reachable) and the probes *)
| CList (path : N) (es : list entry) (len : option N) (probes : list probe)
  (** load es1, Sort, probe, append es2 to the sorted list, Sort again, probe *)
| CIncr (es1 es2 : list entry) (len1 len2 : N) (probes1 probes2 : list probe)
  (** ip_set plugins composed through "sets:" references to any depth; the
      probes were put to the matcher (MatcherGroup.Match) of the top set *)
| CGroup (top : setdef) (probes : list probe)
  (** a loader input whose line/entry number [bad] (1-based for text, 0-based
      for Args.IPs) is malformed: observed position reported in the error;
      [es] = the entries before it, which the text loaders have appended *)
| CBad (path : N) (es : list entry) (bad obs : N) (probes : list probe).

Definition probes_agree (f : query -> option bool) (ps : list probe) : bool :=
  forallb (fun p => option_eqb Bool.eqb (f (fst p)) (Some (snd p))) ps.

Definition len_agree (e : list pfx) (len : option N) : bool :=
  match len with None => true | Some n => N.of_nat (length e) =? n end.

Definition agree (c : case) : bool :=
  match c with
  | CList _ es len probes =>
    let e := sort_with isort (load es) in
    len_agree e len && probes_agree (lookup e) probes
  | CIncr es1 es2 len1 len2 probes1 probes2 =>
    let e1 := sort_with isort (load es1) in
    let e2 := sort_with isort (e1 ++ load es2) in
    len_agree e1 (Some len1) && probes_agree (lookup e1) probes1
    && len_agree e2 (Some len2) && probes_agree (lookup e2) probes2
  | CGroup top probes => probes_agree (group_lookup (build_set isort top)) probes
  | CBad _ es bad obs probes =>
    (bad =? obs) && probes_agree (lookup (sort_with isort (load es))) probes
  end.

(** The property's own oracle, written without the model's functions: lift the
    rule and the address to 128 bits (IPv4 at ::ffff:0:0), and test whether
    the address lies in [lo, lo + 2^(128-len)) where lo clears the host bits. *)
Definition s_v4 : N := 281470681743360.
Definition s_addr (x : raddr) : N := match x with A4 a => s_v4 + a | A6 a => a end.
Definition s_ivl (e : entry) : N * N :=
  let '(a, n) := match e with
                 | EPfx (A4 a) b => (s_v4 + a, b + 96)
                 | EPfx (A6 a) b => (a, b)
                 | EAddr x => (s_addr x, 128)
                 end in
  let s := 2 ^ (128 - n) in (a - a mod s, s).
Definition s_in (a : N) (e : entry) : bool :=
  let '(lo, s) := s_ivl e in (lo <=? a) && (a <? lo + s).
Definition s_cov (es : list entry) (q : query) : bool :=
  match q with
  | Q4 a => existsb (s_in (s_v4 + a)) es
  | Q6 a => existsb (s_in a) es
  | Q6z _ => false
  | QInvalid => false
  end.
Definition probes_spec (es : list entry) (ps : list probe) : bool :=
  forallb (fun p => Bool.eqb (snd p) (s_cov es (fst p))) ps.

(** every entry of a configuration, collected without the model's functions *)
Fixpoint s_entries (s : setdef) : list entry :=
  match s with
  | SetDef own refs => fold_right (fun r acc => s_entries r ++ acc) own refs
  end.

Definition spec (c : case) : bool :=
  match c with
  | CList _ es _ probes => probes_spec es probes
  | CIncr es1 es2 _ _ probes1 probes2 => probes_spec es1 probes1 && probes_spec (es1 ++ es2) probes2
  | CGroup top probes => probes_spec (s_entries top) probes
  | CBad _ es bad obs probes => (bad =? obs) && probes_spec es probes
  end.

(** Non-trivial: two of the loaded prefixes are duplicates, nested or adjacent,
    and some probe is within 1 of a boundary of some loaded prefix. *)
Definition related (e1 e2 : entry) : bool :=
  let '(l1, s1) := s_ivl e1 in
  let '(l2, s2) := s_ivl e2 in
  ((l1 <=? l2) && (l2 <? l1 + s1)) || ((l2 <=? l1) && (l1 <? l2 + s2))
  || (l1 + s1 =? l2) || (l2 + s2 =? l1).
Fixpoint has_related (es : list entry) : bool :=
  match es with
  | [] => false
  | e :: t => existsb (related e) t || has_related t
  end.
Definition q_addr (q : query) : option N :=
  match q with Q4 a => Some (s_v4 + a) | Q6 a => Some a | Q6z a => Some a | QInvalid => None end.
Definition near (es : list entry) (p : probe) : bool :=
  match q_addr (fst p) with
  | None => false
  | Some a =>
    existsb (fun e => let '(lo, s) := s_ivl e in
                      (a =? lo) || (a + 1 =? lo) || (a + 1 =? lo + s) || (a =? lo + s)) es
  end.
Definition nontrivial (c : case) : bool :=
  match c with
  | CList _ es _ probes => has_related es && existsb (near es) probes
  | CIncr es1 es2 _ _ p1 p2 => has_related (es1 ++ es2) && existsb (near (es1 ++ es2)) (p1 ++ p2)
  | CGroup top probes =>
    let es := s_entries top in has_related es && existsb (near es) probes
  | CBad _ es _ _ probes => has_related es && existsb (near es) probes
  end.
