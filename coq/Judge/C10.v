(** C10 — case type and verdict functions evaluated by [bin/check] on the
    observations of the Go driver (harness/cmd/c10).

    One case is one history on one real Cache: executions of Cache.Exec with a
    scripted rest-of-chain, in-place writes to every message the driver was
    ever handed or ever passed in, clock moves of stored items, /flush, GET /dump
    and POST /load_dump (the header word of a value carries Msg.Compress as bit 16).
    Observed: what the rest of the chain saw on every execution (the cached
    response handed to it, as a checksum of its canonical serialisation and of
    its packed bytes), and at the end the serialisation checksum of every
    message the driver holds. *)
From Verif Require Import Base.Prelude Gen.Constants.
From Verif Require Export Model.CacheIso.
Open Scope N_scope.

(** * Input descriptions *)

(** A record: owner-name tag, Rrtype, Ttl, rdata = gen_bytes n seed
    (A: 4 bytes, AAAA: 16 bytes, TXT: one string tag per element, CNAME: one
    target tag, OPT: one byte per EDNS0_LOCAL option). *)
Inductive rr := R (name type ttl n seed : N).
(** A response as the rest of the chain builds it (its Id is the query's). *)
Inductive pay := P (hdr : N) (qs : list N) (an ns ex : list rr).

Definition rr_val (r : rr) : rval :=
  match r with R name type ttl n seed => mkrv name type ttl (gen_bytes n seed) end.
Definition pay_val (p : pay) (q : N) : mval :=
  match p with P hdr qs an ns ex => mkmv q hdr qs (map rr_val an) (map rr_val ns) (map rr_val ex) end.

(** What the rest of the chain leaves in the context. *)
Inductive dn := KKeep | KNew (p : pay) | KOld (h : nat).

(** What the rest of the chain was handed: nothing, or the cached response:
    its Id, the age its TTLs show (stored TTL - served TTL of the first record
    that has one; 0 on the lazy path), the checksum of its serialisation and
    the checksum of its packed bytes (Id zeroed, TTLs un-aged). *)
Inductive obs := OMiss | OHit (id delta ck pk : N).

Inductive hop :=
  (** Cache.Exec for client [c]: key/question tag [k], query id [q]; [d]: what
      the rest of the chain does; [lz]: what the rest of the chain does when it
      is run again by the lazy update (only happens after a lazy hit) *)
| HX (c : nat) (k q : N) (d lz : dn) (o : obs)
  (** the holder of handle [h] writes to it *)
| HM (h : nat) (mu : mutation)
  (** the item under [k] looks [secs] older (far less than any lifetime) *)
| HAge (k secs : N)
  (** the message lifetime of the item under [k] is over *)
| HExpire (k : N)
| HFlush
  (** GET /dump: the driver keeps the bytes *)
| HDump
  (** POST /load_dump with the bytes of the last dump; [items]: for the keys
      1..3 that have an item afterwards, the checksum of the message kept *)
| HLoad (items : list (N * N)).

(** [lazy]: lazy_cache_ttl > 0. [finals]: per held message, in the order they
    were obtained, the checksum of its serialisation at the end. [items]: for
    the keys 1..3 that have an item in the backend at the end, the checksum of
    the serialisation of the message the cache keeps. *)
Inductive case := Case (lazy : bool) (hops : list hop) (finals : list N) (items : list (N * N)).

(** * Canonical serialisation of a value (the driver implements the same) *)

Definition b8 (n : N) : N := N.land n 255.
Definition u16 (n : N) : bytes := [b8 (N.shiftr n 8); b8 n].
Definition u32 (n : N) : bytes := [b8 (N.shiftr n 24); b8 (N.shiftr n 16); b8 (N.shiftr n 8); b8 n].
Definition ser_rv (r : rval) : bytes :=
  u16 (v_name r) ++ u16 (v_type r) ++ u32 (v_ttl r) ++ b8 (len (v_data r)) :: map b8 (v_data r).
Definition ser_sec (l : list rval) : bytes := b8 (N.of_nat (length l)) :: flat_map ser_rv l.
Definition ser (v : mval) : bytes :=
  u16 (mv_id v) ++ u32 (mv_hdr v) ++ (b8 (N.of_nat (length (mv_q v))) :: flat_map u16 (mv_q v))
  ++ ser_sec (mv_an v) ++ ser_sec (mv_ns v) ++ ser_sec (mv_ex v).
Definition vsum (v : mval) : N := checksum (ser v).

(** The header word carries dns.Msg.Compress as bit 16 (it is not on the wire:
    a message built by Unpack has it clear). *)
Definition unc (v : mval) : mval :=
  mkmv (mv_id v) (N.land (mv_hdr v) 65535) (mv_q v) (mv_an v) (mv_ns v) (mv_ex v).

(** * query_context.SetResponse: popOpt removes the last OPT of Extra *)

Fixpoint last_opt (l : list rval) (i : nat) : option nat :=
  match l with
  | [] => None
  | r :: t =>
    match last_opt t (S i) with
    | Some j => Some j
    | None => if is_opt r then Some i else None
    end
  end.
Definition pop_opt (v : mval) : mval :=
  match last_opt (mv_ex v) O with
  | Some i => mkmv (mv_id v) (mv_hdr v) (mv_q v) (mv_an v) (mv_ns v) (del_nth i (mv_ex v))
  | None => v
  end.

(** * Model side: the history as steps of Model.CacheIso *)

Fixpoint memN (k : N) (l : list N) : bool :=
  match l with [] => false | x :: t => (x =? k) || memN k t end.
Definition delN (k : N) (l : list N) : list N := filter (fun x => negb (x =? k)) l.

Definition opt_nat_eqb := option_eqb Nat.eqb.

(** The steps of the rest of the chain + the tail of Exec for one response. *)
Definition down_ops (s : state) (c : nat) (k q : N) (d : dn) : list op :=
  match d with
  | KKeep => []
  | KNew p => [Store c k (pop_opt (pay_val p q))]
  | KOld h =>
    match nth_error (handles s) h with
    | Some m =>
      match last_opt (mv_ex (value (hp s) m)) O with
      | Some i => [Mutate h (MDelete Ex i); Restore k h]
      | None => [Restore k h]
      end
    | None => []
    end
  end.

(** Running [ops] and forgetting the expiry mark of [k] when its entry was replaced. *)
Definition run_down (s : state) (exp : list N) (k : N) (ops : list op) : state * list N :=
  let s' := run_from s ops in
  (s', if opt_nat_eqb (lookup k (cache s')) (lookup k (cache s)) then exp else delN k exp).

Record jst := mkj { j_s : state; j_exp : list N; j_ok : bool; j_dump : list (N * mval) }.

Definition obs_ok (o : obs) (got : option mval) : bool :=
  match o, got with
  | OMiss, None => true
  | OHit id _ ck _, Some v => (mv_id v =? id) && (vsum v =? ck)
  | _, _ => false
  end.

Fixpoint assocN (k : N) (l : list (N * N)) : option N :=
  match l with
  | [] => None
  | (k', v) :: t => if k =? k' then Some v else assocN k t
  end.

Definition all_keys : list N := [1; 2; 3].

(** The backend keeps an expired item the model already dropped (lazy cache off). *)
Definition item_ok (j : jst) (items : list (N * N)) (k : N) : bool :=
  match cache_val (j_s j) k, assocN k items with
  | Some v, Some ck => vsum v =? ck
  | None, None => true
  | None, Some _ => memN k (j_exp j)
  | Some _, None => false
  end.

Definition jstep (lazy : bool) (j : jst) (h : hop) : jst :=
  let s := j_s j in
  match h with
  | HX c k q d lz o =>
    let expired := memN k (j_exp j) in
    (* an expired message is only served when lazy cache is on *)
    let s0 := if expired && negb lazy then step s (Drop k) else s in
    let a := if expired then ASet cache_expired_msg_ttl
             else ASub (match o with OHit _ delta _ _ => delta | OMiss => 0 end) in
    let s1 := step s0 (Hit c k q a) in
    let got := last (served s1) None in
    let '(s2, e2) := run_down s1 (j_exp j) k (down_ops s1 c k q d) in
    let lazy_hit := expired && lazy && match got with Some _ => true | None => false end in
    let '(s3, e3) := if lazy_hit then run_down s2 e2 k (down_ops s2 c k q lz) else (s2, e2) in
    mkj s3 e3 (j_ok j && obs_ok o got) (j_dump j)
  | HM h mu => mkj (step s (Mutate h mu)) (j_exp j) (j_ok j) (j_dump j)
  | HAge _ _ => j
  | HExpire k =>
    match lookup k (cache s) with
    | Some _ => mkj s (k :: j_exp j) (j_ok j) (j_dump j)
    | None => j
    end
  | HFlush => mkj (step s Flush) [] (j_ok j) (j_dump j)
  | HDump => mkj (step s Dump) (j_exp j) (j_ok j) (dump_of s all_keys)
  | HLoad items =>
    let j' := mkj (step s (Load (map (fun e => (fst e, unc (snd e))) (j_dump j)))) (j_exp j) (j_ok j) (j_dump j) in
    mkj (j_s j') (j_exp j) (j_ok j && forallb (item_ok j' items) all_keys) (j_dump j)
  end.

Definition jrun (lazy : bool) (hops : list hop) : jst :=
  fold_left (jstep lazy) hops (mkj init [] true []).

Definition agree (c : case) : bool :=
  match c with
  | Case lazy hops finals items =>
    let j := jrun lazy hops in
    j_ok j && list_eqb N.eqb (map (fun m => vsum (value (hp (j_s j)) m)) (handles (j_s j))) finals
    && forallb (item_ok j items) all_keys
  end.

(** * The property's own oracle: a cache of immutable values, no heap.
    It ignores every [HM] step. *)

(** Per key: the value an (admitted) store left, if known; the age given to the
    item; whether it was expired; the packed-bytes checksum of the first hit
    served from it, per path. *)
Record ent := mke { e_val : option mval; e_age : N; e_exp : bool; e_pk : option N; e_pkl : option N }.

Fixpoint ref_get (k : N) (r : list (N * ent)) : option ent :=
  match r with
  | [] => None
  | (k', e) :: t => if k =? k' then Some e else ref_get k t
  end.
Definition ref_set (k : N) (e : ent) (r : list (N * ent)) : list (N * ent) :=
  (k, e) :: filter (fun x => negb (fst x =? k)) r.

Definition age_slack : N := 600.

Record sst := mks { s_ref : list (N * ent); s_made : list N; s_ok : bool; s_dump : list (N * ent) }.

(** The effect of one response on the reference cache and on the list of
    messages the driver holds (their checksum when obtained). *)
Definition spec_down (t : sst) (k q : N) (d : dn) : sst :=
  match d with
  | KKeep => t
  | KNew p =>
    let v := pop_opt (pay_val p q) in
    let r := if answers v k && admissible v
             then ref_set k (mke (Some (strip_opt v)) 0 false None None) (s_ref t)
             else s_ref t in
    mks r (s_made t ++ [vsum v]) (s_ok t) (s_dump t)
  | KOld _ =>
    (* a message that may have been rewritten: what is stored is not known here *)
    mks (ref_set k (mke None 0 false None None) (s_ref t)) (s_made t) (s_ok t) (s_dump t)
  end.

Definition pk_ok (seen : option N) (pk : N) : bool :=
  match seen with Some x => x =? pk | None => true end.

(** What the cache keeps under a key is the value that was stored, whatever
    was written to any message since. *)
Definition item_spec (t : sst) (items : list (N * N)) (k : N) : bool :=
  match ref_get k (s_ref t), assocN k items with
  | Some en, Some ck => match e_val en with Some v => vsum v =? ck | None => true end
  | _, _ => true
  end.

Definition spec_step (lazy : bool) (t : sst) (h : hop) : sst :=
  match h with
  | HX c k q d lz o =>
    let e := ref_get k (s_ref t) in
    let t1 :=
      match o with
      | OMiss => t
      | OHit id delta ck pk =>
        let made := s_made t ++ [ck] in
        match e with
        | None => mks (s_ref t) made false (s_dump t)    (* served something never stored *)
        | Some en =>
          match e_val en with
          | None => mks (s_ref t) made (s_ok t && (id =? q)) (s_dump t)
          | Some v =>
            let a := if e_exp en then ASet cache_expired_msg_ttl else ASub delta in
            let val_ok := vsum (set_id q (adjust_val a v)) =? ck in
            (* the age is only visible when some record carries a TTL *)
            let age_ok := e_exp en || negb (existsb (fun r => negb (is_opt r)) (mv_an v ++ mv_ns v ++ mv_ex v))
                          || ((e_age en <=? delta) && (delta <=? e_age en + age_slack)) in
            let exp_ok := negb (e_exp en) || lazy in
            let pk_seen := if e_exp en then e_pkl en else e_pk en in
            let en' := if e_exp en then mke (e_val en) (e_age en) true (e_pk en) (Some pk)
                       else mke (e_val en) (e_age en) false (Some pk) (e_pkl en) in
            mks (ref_set k en' (s_ref t)) made
                (s_ok t && (id =? q) && val_ok && age_ok && exp_ok && pk_ok pk_seen pk) (s_dump t)
          end
        end
      end in
    (* the driver reports [lz] = KKeep when the lazy update did not run *)
    spec_down (spec_down t1 k q d) k q lz
  | HM _ _ => t
  | HAge k secs =>
    match ref_get k (s_ref t) with
    | Some en => mks (ref_set k (mke (e_val en) (e_age en + secs) (e_exp en) (e_pk en) (e_pkl en)) (s_ref t))
                     (s_made t) (s_ok t) (s_dump t)
    | None => t
    end
  | HExpire k =>
    match ref_get k (s_ref t) with
    | Some en => mks (ref_set k (mke (e_val en) (e_age en) true (e_pk en) (e_pkl en)) (s_ref t))
                     (s_made t) (s_ok t) (s_dump t)
    | None => t
    end
  | HFlush => mks [] (s_made t) (s_ok t) (s_dump t)
  | HDump => mks (s_ref t) (s_made t) (s_ok t) (s_ref t)
  | HLoad items =>
    (* every key of the dump holds what it held when the dump was written
       (Compress is not on the wire); a new item: packed bytes are compared afresh *)
    let r := fold_left (fun r ke =>
                 let en := snd ke in
                 ref_set (fst ke) (mke (option_map unc (e_val en)) (e_age en) (e_exp en) None None) r)
               (s_dump t) (s_ref t) in
    let t' := mks r (s_made t) (s_ok t) (s_dump t) in
    mks r (s_made t) (s_ok t && forallb (item_spec t' items) all_keys) (s_dump t)
  end.

(** Handles some step wrote to, took a reference from, or handed back to the cache. *)
Definition touched (h : hop) : list nat :=
  match h with
  | HM x mu => x :: match link_src mu with Some y => [y] | None => [] end
  | HX _ _ _ d lz _ =>
    match d with KOld x => [x] | _ => [] end ++ match lz with KOld x => [x] | _ => [] end
  | _ => []
  end.

Fixpoint untouched_same (i : nat) (tl : list nat) (made finals : list N) : bool :=
  match made, finals with
  | [], [] => true
  | a :: made', b :: finals' =>
    (existsb (Nat.eqb i) tl || (a =? b)) && untouched_same (S i) tl made' finals'
  | _, _ => false
  end.

Definition spec (c : case) : bool :=
  match c with
  | Case lazy hops finals items =>
    let t := fold_left (spec_step lazy) hops (mks [] [] true []) in
    s_ok t && untouched_same O (flat_map touched hops) (s_made t) finals
    && forallb (item_spec t items) all_keys
  end.

(** * Non-triviality: a message obtained for key [k] is written to, and a later
    execution for [k] is served from the cache. *)

(** Keys of the held messages, in the order they were obtained. *)
Definition hop_keys (lazy_seen : bool) (h : hop) : list N :=
  match h with
  | HX _ k _ d lz o =>
    match o with OHit _ _ _ _ => [k] | OMiss => [] end
    ++ match d with KNew _ => [k] | _ => [] end
    ++ match lz with KNew _ => [k] | _ => [] end
  | _ => []
  end.

Fixpoint nt_scan (hops : list hop) (keys : list N) (dirty : list N) : bool :=
  match hops with
  | [] => false
  | h :: t =>
    match h with
    | HM x _ =>
      nt_scan t keys (match nth_error keys x with Some k => k :: dirty | None => dirty end)
    | HX _ k _ _ _ o =>
      match o with
      | OHit _ _ _ _ => if memN k dirty then true else nt_scan t (keys ++ hop_keys false h) dirty
      | OMiss => nt_scan t (keys ++ hop_keys false h) dirty
      end
    | _ => nt_scan t keys dirty
    end
  end.

Definition nontrivial (c : case) : bool :=
  match c with Case _ hops _ _ => nt_scan hops [] [] end.
