(** Scripted schedules on the real ReuseConnTransport (harness/reusex) judged
    against Model.Reuse. A script is a list of harness actions; each action is
    followed by the events it provoked (a query written on a connection, a
    dial requested, a call returned) and the pool's (tracked, idle) counts. *)
From Verif Require Import Base.Prelude Gen.Constants Gen.RetryFacts.
From Verif Require Export Model.Reuse.
Open Scope N_scope.

Inductive vaction :=
| VStart (c : nat)
| VDial (c : nat) (ok : bool)          (* the dial requested by call c completes *)
| VWriteEnd (c : nat) (ok hold : bool)
| VRelease (c : nat)
| VFeed (n : nat) (tag : N)            (* the server behind connection n sends one frame *)
| VEof (n : nat)
| VCancel (c : nat)
| VTClose
| VReadFail (c : nat) (tag : N)        (* the reply to c's query is read by the connection's reader while c's Write is still running; the Write
                                          then fails; the reader hands the reply over before c, closing the connection, looks for it *)
| VFailClose (c : nat).                (* the gated write of c fails and the transport is closed while c is inside
                                          closeWithErr; for the transition system: the write error, then Close *)

(** [EvWrite c n]: call c entered Write on connection n; [EvDial c]: c asked for a dial;
    [EvRet c k a]: c returned — k = 0 a reply with tag a, k = 1 an error of class a
    (1 transport closed, 2 context, 3 write, 4 read, 5 unexpected response, 6 dial). *)
Inductive vev := EvWrite (c n : nat) | EvDial (c : nat) | EvRet (c : nat) (k a : N).

Record vobs := mkVObs { v_events : list vev; v_conns : N; v_idle : N; v_open : N }.   (* v_open: sockets dialled for the transport and not closed *)

Inductive case := CReuse (script : list (vaction * vobs)) (fin_blocked : list nat).

Definition xerr_code (e : xerr) : N :=
  match e with XClosedT => 1 | XCtx => 2 | XWrite => 3 | XRead => 4 | XUnexpected => 5 | XDial => 6 end.

Definition res_ok (r : option xres) (k a : N) : bool :=
  match r with
  | Some (XOk y) => (k =? 0) && (xtag y =? a)
  | Some (XErr e) => (k =? 1) && (xerr_code e =? a)
  | None => false
  end.

(** Drive call [c] with its own labels until the event has happened. The
    harness holds calls in [held] before their wait. *)
Fixpoint advance (fuel : nat) (s : xst) (held : list nat) (e : vev) : option xst :=
  match fuel with
  | O => None
  | S f =>
    let c := match e with EvWrite c _ | EvDial c | EvRet c _ _ => c end in
    let k := xcalls s c in
    let go l := match xstep s l with Some s1 => advance f s1 held e | None => None end in
    match upc k with
    | UDone =>
      match e with
      | EvRet _ kd a => if res_ok (ures k) kd a then Some s else None
      | EvDial _ => match udial k with DPending => Some s | _ => None end   (* the dial it spawned before leaving *)
      | _ => None
      end
    | U0 => go (MBegin c)
    | ULoop =>
      match e with
      | EvWrite _ n => go (MGetIdle c (Some n))
      | _ => go (MGetIdle c None)
      end
    | UDialWait =>
      match udial k with
      | DPending => match e with EvDial _ => Some s | EvRet _ _ _ => go (MDialAbandon c) | _ => None end
      | DDone _ _ => go (MDialRecv c)
      | _ => None
      end
    | UHave => go (MInstall c)
    | UInstalled => go (MWriteBegin c)
    | UWriting => match e with EvWrite _ n => if Nat.eqb (uconn k) n then Some s else None | _ => None end
    | UWaiting =>
      if gmem c held then None else
      match ubuf k with
      | Some _ => go (MSelect c XSelReply)
      | None =>
        (* an error exit: the observed class decides between the context and the close case *)
        match e with
        | EvRet _ _ a => if a =? 2 then go (MSelect c XSelCtx) else go (MSelect c XSelClose)
        | _ => if xclosed (conns s (uconn k)) then go (MSelect c XSelClose) else go (MSelect c XSelCtx)
        end
      end
    | UExiting _ => go (MTake c)
    | UFailed _ => go (MAfter c)
    end
  end.

Fixpoint advance_all (s : xst) (held : list nat) (es : list vev) : option xst :=
  match es with
  | [] => Some s
  | e :: t => match advance 12 s held e with Some s1 => advance_all s1 held t | None => None end
  end.

(** After the events no call may be able to move on its own. *)
Definition at_rest (s : xst) (held : list nat) (c : nat) : bool :=
  let k := xcalls s c in
  match upc k with
  | U0 | UDone | UWriting => true
  | UDialWait => match udial k with DPending => negb (uctx k) && negb (tclosed s) | _ => false end
  | UWaiting =>
    gmem c held || negb (match ubuf k with Some _ => true | None => false end || uctx k || xclosed (conns s (uconn k)))
  | _ => false
  end.

Definition close_readers (s1 : xst) : xst :=
  fold_left (fun x n => match xstep x (MRecvErr n) with Some y => y | None => x end) (seq 0 (nconns s1)) s1.

Definition exec_vaction (s : xst) (held : list nat) (a : vaction) : option (xst * list nat) :=
  match a with
  | VStart c => Some (s, held)      (* the call's labels are driven by its first event *)
  | VDial c ok =>
    match xstep s (MDialDone c ok) with
    | Some s1 =>
      (* a dial whose caller has left hands its connection to the idle pool *)
      match upc (xcalls s1 c) with
      | UDone => match xstep s1 (MDialOrphan c) with Some s2 => Some (s2, held) | None => None end
      | _ => Some (s1, held)
      end
    | None => None
    end
  | VWriteEnd c ok hd =>
    match xstep s (MWriteEnd c ok) with
    | Some s1 =>
      let s2 := if ok then s1 else
                  (* the client closed the socket: its reader sees that *)
                  match xstep s1 (MRecvErr (uconn (xcalls s c))) with Some x => x | None => s1 end in
      Some (s2, if hd then c :: held else held)
    | None => None
    end
  | VRelease c => Some (s, gremove c held)
  | VFeed n tag =>
    let r := mkXR tag (match xwaiting (conns s n) with Some (c, _) => Some c | None => None end) in
    match xstep s (MRecv n r) with
    | Some s1 => match xstep s1 (MDispatch n) with Some s2 => Some (s2, held) | None => None end
    | None => None
    end
  | VEof n => match xstep s (MRecvErr n) with Some s1 => Some (s1, held) | None => None end
  | VCancel c => match xstep s (MCtx c) with Some s1 => Some (s1, held) | None => None end
  | VTClose =>
    match xstep s MTClose with
    | Some s1 =>
      (* every reader sees its socket closed *)
      Some (close_readers s1, held)
    | None => None
    end
  | VReadFail c tag =>
    let n := uconn (xcalls s c) in
    let r := mkXR tag (match xwaiting (conns s n) with Some (c', _) => Some c' | None => None end) in
    match xrun s [MRecv n r; MWriteEnd c false; MDispatch n] with
    | Some s1 => Some (match xstep s1 (MRecvErr n) with Some x => x | None => s1 end, held)
    | None => None
    end
  | VFailClose c =>
    match xstep s (MWriteEnd c false) with
    | Some s1 =>
      let s2 := match xstep s1 (MRecvErr (uconn (xcalls s c))) with Some x => x | None => s1 end in
      match xstep s2 MTClose with
      | Some s3 => Some (close_readers s3, held)
      | None => None
      end
    | None => None
    end
  end.

Definition started_calls (sc : list (vaction * vobs)) : list nat :=
  fold_right (fun ao acc => match fst ao with VStart c => c :: acc | _ => acc end) [] sc.

Fixpoint exec_vscript (all : list nat) (s : xst) (held : list nat) (sc : list (vaction * vobs)) : option (xst * bool) :=
  match sc with
  | [] => Some (s, true)
  | (a, o) :: t =>
    match exec_vaction s held a with
    | Some (s1, held1) =>
      (* a call that has just been started and produced no event would be stuck in U0: drive it by its event *)
      match advance_all s1 held1 (v_events o) with
      | Some s2 =>
        let ok := forallb (at_rest s2 held1) all
                  && (N.of_nat (length (cset s2)) =? v_conns o) && (N.of_nat (length (idle s2)) =? v_idle o)
                  && (N.of_nat (length (cset s2)) =? v_open o) in
        match exec_vscript all s2 held1 t with
        | Some (s3, ok3) => Some (s3, ok && ok3)
        | None => None
        end
      | None => None
      end
    | None => None
    end
  end.

Fixpoint vins (x : nat) (l : list nat) : list nat :=
  match l with [] => [x] | y :: t => if (x <=? y)%nat then x :: l else y :: vins x t end.
Definition vsort (l : list nat) := fold_right vins [] l.

Definition agree (c : case) : bool :=
  match c with
  | CReuse script fb =>
    let all := started_calls script in
    match exec_vscript all xinit [] script with
    | Some (s, ok) =>
      ok && list_eqb Nat.eqb (vsort (filter (fun c => match upc (xcalls s c) with UDone | U0 => false | _ => true end) all)) (vsort fb)
    | None => false
    end
  end.

(** * The properties, from the script and the events alone *)

(** Tags the server sent as the answer to call [c] (the harness feeds a frame
    as the reply to whoever's query is outstanding on that connection; which
    call that is comes from the write events). *)
Fixpoint owner_of (n : nat) (evs_rev : list vev) : option nat :=
  match evs_rev with
  | [] => None
  | EvWrite c m :: t => if Nat.eqb m n then Some c else owner_of n t
  | _ :: t => owner_of n t
  end.

(** walk: [outst n] = the call whose query is written and unanswered on connection n. *)
Record vtrk := mkVT {
  vt_fed : list (nat * N);          (* call -> every reply tag fed as the answer to its outstanding query *)
  vt_outst : list (nat * nat);      (* (connection, call) *)
  vt_owed : list (nat * N);         (* call -> first reply tag fed for its outstanding query *)
  vt_cancelled : list nat;
  vt_closed : bool
}.

Definition lookup_nat {B} (k : nat) (l : list (nat * B)) : option B :=
  match find (fun x => Nat.eqb (fst x) k) l with Some (_, v) => Some v | None => None end.
Definition remove_key {B} (k : nat) (l : list (nat * B)) : list (nat * B) :=
  filter (fun x => negb (Nat.eqb (fst x) k)) l.

Fixpoint spec_walk (c01 c02 c09 : bool) (tk : vtrk) (sc : list (vaction * vobs)) : bool :=
  match sc with
  | [] => true
  | (a, o) :: t =>
    (* the action *)
    let '(ok_a, tk1) :=
      match a with
      | VFeed n tag =>
        match lookup_nat n (vt_outst tk) with
        | Some c =>
          (true, mkVT ((c, tag) :: vt_fed tk) (remove_key n (vt_outst tk))
                      (if gmem c (vt_cancelled tk) then vt_owed tk else (c, tag) :: vt_owed tk)
                      (vt_cancelled tk) (vt_closed tk))
        | None => (true, tk)      (* a surplus frame *)
        end
      | VEof n => (true, mkVT (vt_fed tk) (remove_key n (vt_outst tk)) (vt_owed tk) (vt_cancelled tk) (vt_closed tk))
      | VWriteEnd c false _ =>
        (true, mkVT (vt_fed tk) (filter (fun x => negb (Nat.eqb (snd x) c)) (vt_outst tk)) (vt_owed tk) (vt_cancelled tk) (vt_closed tk))
      | VCancel c => (true, mkVT (vt_fed tk) (vt_outst tk) (vt_owed tk) (c :: vt_cancelled tk) (vt_closed tk))
      | VReadFail c tag =>
        (* the reply was received, and handed over, before the caller gave up on the connection: it is owed *)
        (true, mkVT ((c, tag) :: vt_fed tk) (filter (fun x => negb (Nat.eqb (snd x) c)) (vt_outst tk))
                    (if gmem c (vt_cancelled tk) then vt_owed tk else (c, tag) :: vt_owed tk)
                    (vt_cancelled tk) (vt_closed tk))
      | VTClose | VFailClose _ => (true, mkVT (vt_fed tk) [] (vt_owed tk) (vt_cancelled tk) true)
      | _ => (true, tk)
      end in
    (* the events *)
    let step_ev (acc : bool * vtrk) (e : vev) : bool * vtrk :=
      let '(ok, k) := acc in
      match e with
      | EvWrite c n =>
        (* C09: a connection carries at most one unanswered query *)
        (ok && (negb c09 || match lookup_nat n (vt_outst k) with None => true | Some _ => false end),
         mkVT (remove_key c (vt_fed k)) ((n, c) :: vt_outst k) (remove_key c (vt_owed k)) (vt_cancelled k) (vt_closed k))
      | EvDial _ => (ok, k)
      | EvRet c kd v =>
        (ok
         (* C01: a reply returned to c was fed as the answer to c's own outstanding query *)
         && (negb c01 || negb (kd =? 0) || existsb (fun x => Nat.eqb (fst x) c && (snd x =? v)) (vt_fed k))
         (* C02: a call that is owed a reply returns exactly it *)
         && (negb c02 || match lookup_nat c (vt_owed k) with Some tg => (kd =? 0) && (tg =? v) | None => true end),
         k)
      end in
    let '(ok_e, tk2) := fold_left step_ev (v_events o) (true, tk1) in
    (* C09, capacity is never lost: every tracked connection that is not available to new queries carries a
       written, unanswered query (limit 1: a live connection without one admits a query) *)
    let ok_cap := negb c09 || (v_conns o - v_idle o <=? N.of_nat (length (vt_outst tk2))) in
    ok_a && ok_e && ok_cap && spec_walk c01 c02 c09 tk2 t
  end.

Definition spec_gen (c01 c02 c09 : bool) (c : case) : bool :=
  match c with CReuse script _ => spec_walk c01 c02 c09 (mkVT [] [] [] [] false) script end.

(** C02 also: a call owed a reply is not left blocked at the end (unless the harness holds it). *)
Fixpoint vheld_at_end (held : list nat) (sc : list (vaction * vobs)) : list nat :=
  match sc with
  | [] => held
  | (VWriteEnd c true true, _) :: t => vheld_at_end (c :: held) t
  | (VRelease c, _) :: t => vheld_at_end (gremove c held) t
  | _ :: t => vheld_at_end held t
  end.

(** Calls the harness itself still holds inside a gated Write at the end of the script. *)
Fixpoint vinwrite_at_end (w : list nat) (sc : list (vaction * vobs)) : list nat :=
  match sc with
  | [] => w
  | (a, o) :: t =>
    let w1 := match a with VWriteEnd c _ _ | VFailClose c | VReadFail c _ => gremove c w | _ => w end in
    let w2 := fold_left (fun acc e => match e with EvWrite c _ => c :: acc | EvRet c _ _ => gremove c acc | _ => acc end) (v_events o) w1 in
    vinwrite_at_end w2 t
  end.

Definition spec_c01 := spec_gen true false false.
Definition spec_c02 := spec_gen false true false.
Definition spec_c09 := spec_gen false false true.

(** C07/C08 at this level: after a cancel, a fault on its connection or Close of the transport, no call stays
    blocked; after Close every later call fails with "transport closed". *)
Fixpoint c07v_walk (closed : bool) (late : list nat) (sc : list (vaction * vobs)) : bool :=
  match sc with
  | [] => true
  | (a, o) :: t =>
    let closed1 := match a with VTClose | VFailClose _ => true | _ => closed end in
    let late1 := match a with VStart c => if closed then c :: late else late | _ => late end in
    forallb (fun e => match e with
                      | EvRet c kd v => if gmem c late1 then (kd =? 1) && (v =? 1) else true
                      | EvWrite c _ | EvDial c => negb (gmem c late1)
                      end) (v_events o)
    (* every connection the transport created is tracked by it while open, and released by Close
       (also one whose dial completes after Close) *)
    && (v_open o <=? v_conns o) && (if closed1 then v_open o =? 0 else true)
    && c07v_walk closed1 late1 t
  end.
Definition spec_c07 (c : case) : bool :=
  match c with
  | CReuse script fb =>
    c07v_walk false [] script
    && (if existsb (fun ao => match fst ao with VTClose | VFailClose _ => true | _ => false end) script
        then forallb (fun c => gmem c (vheld_at_end [] script) || gmem c (vinwrite_at_end [] script)) fb else true)
  end.

Definition vactions (c : case) := match c with CReuse script _ => map fst script end.
Definition nontrivial (c : case) : bool :=
  (2 <=? length (filter (fun a => match a with VStart _ => true | _ => false end) (vactions c)))%nat
  && existsb (fun a => match a with VFeed _ _ | VEof _ | VCancel _ | VTClose | VFailClose _ | VReadFail _ _ | VWriteEnd _ false _ => true | _ => false end) (vactions c).
