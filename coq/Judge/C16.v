(** C16 — case type and verdict functions evaluated by [bin/check] on the
    observations of the Go driver (harness/cmd/c16). *)
From Verif Require Import Base.Prelude Gen.Constants Model.Framing.
Open Scope N_scope.

(** Stream description. [SFrame n seed]: a correct frame around the message
    [gen_bytes n seed]; [SRaw n seed]: n arbitrary bytes; [SBytes b]: literal
    bytes; [SFail]: the next read fails with a non-EOF error. *)
Inductive seg := SFrame (n seed : N) | SRaw (n seed : N) | SBytes (b : bytes) | SFail.

Definition seg_bytes (g : seg) : bytes :=
  match g with
  | SFrame n seed => enc_len (n mod 65536) ++ gen_bytes n seed
  | SRaw n seed => gen_bytes n seed
  | SBytes b => b
  | SFail => []
  end.

(** Bytes up to the next [SFail], and the segments after it. *)
Fixpoint run_until_fail (gs : list seg) : bytes * option (list seg) :=
  match gs with
  | [] => ([], None)
  | SFail :: t => ([], Some t)
  | g :: t => let '(b, r) := run_until_fail t in (seg_bytes g ++ b, r)
  end.

Fixpoint build_stream (fuel : nat) (sizes : list nat) (gs : list seg) : stream :=
  match fuel with
  | O => []
  | S f =>
    let '(b, r) := run_until_fail gs in
    let s := chunk_by (S (length b)) sizes sizes b in
    match r with
    | None => s
    | Some t => s ++ Fail :: build_stream f sizes t
    end
  end.

(** Error classes as the driver reports them. *)
Definition err_code (e : rerr) : N :=
  match e with EEOF => 1 | EUnexpectedEOF => 2 | EIO => 3 | ETooSmall => 4 end.

Inductive writer := WRaw | WCopy.

Inductive case :=
  (** read frames until the first error: observed (len, checksum) of every
      returned buffer and the class of the final error *)
| CStream (gs : list seg) (sizes : list nat) (obs : list (N * N)) (err : N)
  (** one of the raw writers on [gen_bytes n seed]: observed [Some (number of
      Write calls, output length, output checksum)] or [None] when refused *)
| CWrite (w : writer) (n seed : N) (obs : option (N * N * N))
  (** pool.PackTCPBuffer on a message whose independent packing has length n:
      observed [Some (h0, h1, output length, body equals the packing)] *)
| CPack (n : N) (obs : option (N * N * N * bool))
  (** concurrent replies on one server connection: expected and observed
      (id, len, checksum) per frame, and max Write calls per reply *)
| CServer (expected observed : list (N * N * N)) (max_writes : N)
  (** dnsutils.ReadMsgFromTCP (frame reader + unpacking, what ServeTCP and the DoQ server use) on one frame
      whose payload is [gen_bytes n seed], mostly garbage: [parses] is what the DNS library itself says about
      these bytes; observed 0 a message came back, 1 an error, 2 a panic *)
| CUnpack (n seed : N) (parses : bool) (res : N)
  (** the DoQ client (transport.NewQuicDnsConn over an in-memory quic stream): the caller's query is
      [qid/256; qid mod 256] ++ gen_bytes qn qseed; the peer's reply stream is [gs] cut into reads of [sizes]
      ([SFail] = the stream is reset / the read deadline passes; end of [gs] = FIN). Observed: [sent] = number of
      Write calls, number of bytes and checksum of what went out on the stream, and whether the FIN followed;
      [ret] = (id, length, checksum of everything after the id) of the returned message; [err] = error class, 0 = none *)
| CDoq (qid qn qseed : N) (gs : list seg) (sizes : list nat)
       (sent : N * N * N) (fin : bool) (ret : option (N * N * N)) (err : N)
  (** ServeTCP after a reply whose write failed ([failed] = the harness saw that write fail): rounds of queries
      on one pipelined connection whose replies (all of one size class of the byte pool) are packed before any
      of them is written. Per round: the expected (id, len, checksum) of the reply to every query sent, what an
      independent framer read from the connection, and the Write calls the server made in that round *)
| CTcpRounds (failed : bool) (rounds : list (list (N * N * N) * list (N * N * N) * N))
  (** ServeDoQ with overlapping streams on one connection (every query is in its handler before the first
      handler returns). Per stream: (len, checksum) of the answer to the query sent on THAT stream, the frames
      an independent framer read from it up to the end of the stream, and whether the stream ended with a clean FIN *)
| CDoqServer (streams : list ((N * N) * list (N * N) * bool)).

Definition pair_eqb (a b : N * N) : bool := (fst a =? fst b) && (snd a =? snd b).
Definition triple_eqb (a b : N * N * N) : bool :=
  (fst (fst a) =? fst (fst b)) && (snd (fst a) =? snd (fst b)) && (snd a =? snd b).

Definition model_stream (gs : list seg) (sizes : list nat) : list (N * N) * N :=
  let s := build_stream (S (length gs)) sizes gs in
  let '(ms, e) := read_frames (S (S (length (flat s)))) s in
  (map (fun m => (len m, checksum m)) ms, err_code e).

Definition model_write (n seed : N) : option (N * N) :=
  match frame (gen_bytes n seed) with
  | Some f => Some (len f, checksum f)
  | None => None
  end.

(** The DoQ client: the query goes out as ONE frame with the id zeroed, then FIN; the reply is the first frame
    of the stream as the shared reader reads it, with the caller's id put back; a reader error is the call's error. *)
Definition doq_sent (qn qseed : N) : N * N * N :=
  let f := enc_len (qn + 2) ++ 0 :: 0 :: gen_bytes qn qseed in (1, len f, checksum f).
Definition model_doq (qid : N) (gs : list seg) (sizes : list nat) : option (N * N * N) * N :=
  match fst (read_frame (build_stream (S (length gs)) sizes gs)) with
  | Ok m => (Some (qid, len m, checksum (skipn 2 m)), 0)
  | Er e => (None, err_code e)
  end.
Definition ret_eqb (a b : option (N * N * N)) : bool :=
  match a, b with
  | Some x, Some y => triple_eqb x y
  | None, None => true
  | _, _ => false
  end.

(** insertion sort on the id for the permutation comparison *)
Fixpoint ins (x : N * N * N) (l : list (N * N * N)) :=
  match l with
  | [] => [x]
  | y :: t => if fst (fst x) <=? fst (fst y) then x :: l else y :: ins x t
  end.
Definition sort3 (l : list (N * N * N)) := fold_right ins [] l.

(** The server side of the framing: every query gets exactly ONE frame, the packing of its own answer, written
    in one Write (a round: the frames read are a permutation of the expected ones and there was one Write per
    frame; a DoQ stream: exactly the one expected frame, then FIN). *)
Definition round_ok (r : list (N * N * N) * list (N * N * N) * N) : bool :=
  let '(e, o, w) := r in
  list_eqb triple_eqb (sort3 e) (sort3 o) && (w =? N.of_nat (length e)).
Definition stream_ok (x : (N * N) * list (N * N) * bool) : bool :=
  let '(e, o, fin) := x in list_eqb pair_eqb o [e] && fin.

Definition agree (c : case) : bool :=
  match c with
  | CStream gs sizes obs err =>
    let '(ms, e) := model_stream gs sizes in
    list_eqb pair_eqb ms obs && (e =? err)
  | CWrite w n seed obs =>
    match model_write n seed, obs with
    | Some (l, ck), Some (nw, ol, ock) => (nw =? 1) && (l =? ol) && (ck =? ock)
    | None, None => true
    | _, _ => false
    end
  | CPack n obs =>
    match obs with
    | Some (h0, h1, ol, beq) =>
      (n <=? max_msg_size_pack) && list_eqb N.eqb (enc_len n) [h0; h1] && (ol =? n + 2) && beq
    | None => max_msg_size_pack <? n
    end
  | CServer expected observed mw =>
    list_eqb triple_eqb (sort3 expected) (sort3 observed) && (mw =? 1)
  | CUnpack n seed parses res =>
    if (min_frame_len <=? n) && (n <=? 65535) && parses then res =? 0 else res =? 1
  | CDoq qid qn qseed gs sizes sent fin ret err =>
    let '(r, e) := model_doq qid gs sizes in
    (qn + 2 <=? max_msg_size_copy) && triple_eqb sent (doq_sent qn qseed) && fin
    && ret_eqb r ret && (e =? err)
  | CTcpRounds _ rounds => forallb round_ok rounds
  | CDoqServer streams => forallb stream_ok streams
  end.

(** The property's own oracle, stated without the reader model where that is
    possible: every leading well-formed frame (13..65535) comes back exactly;
    no returned buffer is shorter than 13; writers produce exactly
    length ++ message in one write, or refuse above 65535. *)
Fixpoint leading_frames (gs : list seg) : list (N * N) :=
  match gs with
  | SFrame n seed :: t =>
    if (13 <=? n) && (n <=? 65535) then (n, checksum (gen_bytes n seed)) :: leading_frames t else []
  | _ => []
  end.

Fixpoint is_prefix (a b : list (N * N)) : bool :=
  match a, b with
  | [], _ => true
  | x :: a', y :: b' => pair_eqb x y && is_prefix a' b'
  | _, [] => false
  end.

Definition spec (c : case) : bool :=
  match c with
  | CStream gs sizes obs err =>
    is_prefix (leading_frames gs) obs
    && forallb (fun p => (13 <=? fst p) && (fst p <=? 65535)) obs
    && negb (err =? 0)
    (* nothing is made up: the messages handed back, with their length prefixes, fit into what the stream
       delivered (a frame cut short by the end of the stream is an error, not a message) *)
    && (fold_left (fun acc p => acc + fst p + 2) obs 0
        <=? len (flat (build_stream (S (length gs)) sizes gs)))
  | CWrite w n seed obs =>
    if n <=? 65535 then
      match obs with
      | Some (nw, ol, ock) =>
        (nw =? 1) && (ol =? n + 2) && (ock =? checksum ([n / 256; n mod 256] ++ gen_bytes n seed))
      | None => false
      end
    else match obs with None => true | Some _ => false end
  | CPack n obs =>
    if n <=? 65535 then
      match obs with
      | Some (h0, h1, ol, beq) => (h0 =? n / 256) && (h1 =? n mod 256) && (ol =? n + 2) && beq
      | None => false
      end
    else match obs with None => true | Some _ => false end
  | CServer expected observed mw =>
    list_eqb triple_eqb (sort3 expected) (sort3 observed)
  | CUnpack n seed parses res =>
    (* garbage yields an error, never a panic; what the library can parse comes back *)
    negb (res =? 2) && (if (13 <=? n) && (n <=? 65535) && parses then res =? 0 else res =? 1)
  | CDoq qid qn qseed gs sizes sent fin ret err =>
    (* stated on the bytes the stream delivers before it ends or fails, whatever the reads look like: when a
       whole frame announcing 13..65535 bytes arrived, exactly its bytes come back under the caller's id and there
       is no error; a stream that ends or fails before that, or announces less than 13, is an error and no
       message (a panic is reported by the driver as a violation). The query went out as one write of
       length ++ message with id 0, followed by FIN. *)
    let d := flat (build_stream (S (length gs)) sizes gs) in
    let l := dec_len d in
    triple_eqb sent (1, qn + 4, checksum ([(qn + 2) / 256; (qn + 2) mod 256; 0; 0] ++ gen_bytes qn qseed)) && fin
    && (if (2 <=? len d) && (13 <=? l) && (l + 2 <=? len d)
        then ret_eqb ret (Some (qid, l, checksum (firstn (N.to_nat (l - 2)) (skipn 4 d)))) && (err =? 0)
        else ret_eqb ret None && negb (err =? 0))
  | CTcpRounds _ rounds =>
    (* every query sent gets its own reply as one intact frame, once: per round the frames read, sorted by id,
       are exactly the expected ones (how many Write calls it took is the model's business, not the property's) *)
    forallb (fun r => let '(e, o, _) := r in list_eqb triple_eqb (sort3 e) (sort3 o)) rounds
  | CDoqServer streams =>
    (* a stream carries exactly one frame, the answer to the query sent on it, and then ends *)
    forallb (fun x => let '(e, o, fin) := x in
               match o with [f] => pair_eqb f e | _ => false end && fin) streams
  end.

(** A case is non-trivial when it exercises a split header, a multi-frame
    stream, a boundary length or the concurrent server. *)
Definition boundary (n : N) : bool :=
  existsb (N.eqb n) [0; 1; 11; 12; 13; 14; 65534; 65535; 65536].
Definition nontrivial (c : case) : bool :=
  match c with
  | CStream gs sizes _ _ =>
    (1 <? N.of_nat (length gs)) || existsb (fun k => (k <=? 1)%nat) sizes
    || existsb (fun g => match g with SFrame n _ => boundary n | _ => false end) gs
  | CWrite _ n _ _ => boundary n || (65535 <? n)
  | CPack n _ => true
  | CServer e _ _ => 1 <? N.of_nat (length e)
  | CUnpack n _ parses _ => negb parses
  | CDoq _ _ _ gs sizes _ _ _ _ =>
    match gs with
    | [SFrame n _] => boundary n || existsb (fun k => (k <=? 1)%nat) sizes
    | _ => true
    end
  | CTcpRounds failed rounds =>
    failed && existsb (fun r => (2 <=? length (fst (fst r)))%nat) rounds
  | CDoqServer streams => (2 <=? length streams)%nat
  end.
