(** C14 — case type and verdict functions evaluated by [bin/check] on the
    observations of the Go driver (harness/cmd/c14). *)
From Verif Require Import Base.Prelude Gen.Constants.
From Verif Require Export Model.Forward.
Local Open Scope nat_scope.

(** How the forward was entered: [Exec] on all upstreams, [QuickConfigureExec ""]
    (all upstreams), or [QuickConfigureExec "tag tag ..."] given as positions
    into the configured list (repeats allowed). *)
Inductive sel := SExec | SQuickAll | SQuick (sub : list nat).

(** What the script did, in the order it did it: the [k]-th event is "a call on
    upstream [u] was let go with outcome [o] and its worker goroutine was seen
    to finish" or "the caller's context was cancelled". *)
Inductive ev := EArr (u : nat) (o : uout) | ECancel.

Inductive obs :=
| ORep (rcode tag : N)   (* nil error, this reply in the query context *)
| OErrCtx                (* err == context.Cause(ctx) *)
| OErrAll                (* "all upstream servers failed" *)
| OErrNoUp               (* "no upstream to exchange" *)
| OErrOther
| OHang.                 (* did not return although nothing more was pending *)

Inductive case :=
  (** [real]: built by NewForward over loopback UDP servers (deadlines and goroutines
      are then not observable) / by VerifNewForward over in-memory upstreams.
      [qlen]: bytes of this call's packed query (sizes around the 8191 byte scratch
      buffer of pool.PackBuffer and up to 65535 are part of the cases).
      [cdl]: whole seconds from the start of the call to the deadline of the caller's
      context ([None]: it has none; cancel-only).
      [n] upstreams, entry [s], configured concurrency [c]; [ordered]: events were
      applied one after the other (each worker seen to finish before the next
      event) / all at once. Observed: the upstream index of every ExchangeContext
      call ([calls]), whether every call got THIS call's packed query byte for byte
      in a private buffer ([pay_ok], computed by the driver against qCtx.Q() packed
      independently; it covers helper goroutines that start only after Exec has
      returned and the query buffer went back to the pool), the whole seconds of the upstream deadlines seen from before
      the call (floor) and from inside the upstream (ceil), the outcome, and the
      number of worker goroutines still alive at the end. *)
| CRun (real : bool) (qlen : N) (cdl : option Z) (n : nat) (s : sel) (c : Z) (ordered : bool) (calls : list nat) (pay_ok : bool)
       (dl : option (Z * Z)) (evs : list ev) (o : obs) (stuck : nat)
  (** QuickConfigureExec on a tag list that does / does not contain an unknown tag *)
| CQuickErr (n : nat) (bad_tag : bool) (err : bool).

(** ** helpers *)
Fixpoint ins (x : nat) (l : list nat) : list nat :=
  match l with
  | [] => [x]
  | y :: t => if x <=? y then x :: l else y :: ins x t
  end.
Definition sort (l : list nat) : list nat := fold_right ins [] l.

Fixpoint insert_all {A} (x : A) (l : list A) : list (list A) :=
  match l with
  | [] => [[x]]
  | y :: t => (x :: l) :: map (cons y) (insert_all x t)
  end.
Fixpoint perms {A} (l : list A) : list (list A) :=
  match l with
  | [] => [[]]
  | x :: t => flat_map (insert_all x) (perms t)
  end.

(** sorted sub-multiset *)
Fixpoint sub_sorted (a b : list nat) : bool :=
  match a, b with
  | [], _ => true
  | _, [] => false
  | x :: a', y :: b' => if x =? y then sub_sorted a' b' else if y <? x then sub_sorted a b' else false
  end.

Definition obs_eqb (a b : obs) : bool :=
  match a, b with
  | ORep r t, ORep r' t' => N.eqb r r' && N.eqb t t'
  | OErrCtx, OErrCtx | OErrAll, OErrAll | OErrNoUp, OErrNoUp | OErrOther, OErrOther | OHang, OHang => true
  | _, _ => false
  end.

Definition res_to_obs (r : result) : obs :=
  match r with
  | RReply rc t => ORep rc t
  | RCtx => OErrCtx
  | RAllFailed => OErrAll
  | RNoUpstream => OErrNoUp
  | RWaiting => OHang
  end.

Definition sel_sub (s : sel) : option (list nat) :=
  match s with SQuick sub => Some sub | _ => None end.

Definition arrivals (evs : list ev) : list arrival :=
  map (fun e => match e with EArr _ o => worker_result o | ECancel => ACtx end) evs.
Definition ev_upstreams (evs : list ev) : list nat :=
  flat_map (fun e => match e with EArr u _ => [u] | ECancel => [] end) evs.

(** ** agree: the observation is what the model predicts (for some start r) *)
Definition model_calls (n : nat) (s : sel) (c : Z) (r : nat) : list nat :=
  let ps := effective n (sel_sub s) in
  map (fun p => nth p ps 0) (map fst (queries tt r (clamp c) (length ps))).

Definition secs (t : Z) : Z := (t / 1000000000)%Z.

Definition agree (x : case) : bool :=
  match x with
  | CRun real qlen cdl n s c ordered calls pay_ok dl evs o stuck =>
    let m := length (effective n (sel_sub s)) in
    let arr := arrivals evs in
    (if m =? 0 then match calls with [] => true | _ => false end
     else existsb (fun r => list_eqb Nat.eqb (sort (model_calls n s c r)) (sort calls)) (seq 0 m))
    && sub_sorted (sort (ev_upstreams evs)) (sort calls)
    && pay_ok
    && match dl with
       | None => real || match calls with [] => true | _ => false end
       | Some (lo, hi) =>
         let t := upstream_deadline (option_map (fun d => d * 1000000000)%Z cdl) in
         negb real && (secs t <=? lo)%Z && (hi <=? secs (t + 999999999))%Z
       end
    && (if ordered then obs_eqb (res_to_obs (exchange m c arr)) o
        else existsb (fun p => obs_eqb (res_to_obs (exchange m c p)) o) (perms arr))
    && (stuck =? 0)
  | CQuickErr n bad_tag err => Bool.eqb bad_tag err
  end.

(** ** spec: the property's own reading of the observation *)
Definition spec_cc (c : Z) : nat := Z.to_nat (Z.min 3 (Z.max 1 c)).

Fixpoint walk (ps : list nat) (m r k : nat) : list nat :=
  match k with
  | O => []
  | S k' => nth r ps 0 :: walk ps m (if S r =? m then 0 else S r) k'
  end.

Definition count (x : nat) (l : list nat) : nat := length (filter (Nat.eqb x) l).
Definition same_multiset (a b : list nat) : bool :=
  forallb (fun x => count x a =? count x b) (a ++ b).

Definition is_good (a : arrival) : bool :=
  match a with AReply rc _ => N.eqb rc 0 || N.eqb rc 3 | _ => false end.
Definition is_ctx (a : arrival) : bool := match a with ACtx => true | _ => false end.
Definition is_reply (a : arrival) : bool := match a with AReply _ _ => true | _ => false end.

Definition arrival_obs (a : arrival) : obs :=
  match a with AReply rc t => ORep rc t | AErr => OErrAll | ACtx => OErrCtx end.

(** first good answer or context end among the window, else the last of a full window *)
Definition spec_outcome (cc : nat) (arr : list arrival) : option obs :=
  let w := firstn cc arr in
  match find (fun a => is_good a || is_ctx a) w with
  | Some a => Some (arrival_obs a)
  | None =>
    match rev w with
    | [] => None
    | a :: _ => if length w =? cc then Some (arrival_obs a) else None
    end
  end.

Definition spec (x : case) : bool :=
  match x with
  | CRun real qlen cdl n s c ordered calls pay_ok dl evs o stuck =>
    let ps := match s with SQuick sub => sub | _ => seq 0 n end in
    let m := length ps in
    let cc := spec_cc c in
    let arr := arrivals evs in
    if m =? 0 then obs_eqb o OErrNoUp && match calls with [] => true | _ => false end
    else
      (* c cyclically consecutive positions from some start *)
      existsb (fun r => same_multiset (walk ps m r cc) calls) (seq 0 m)
      (* byte for byte, private copy *)
      && pay_ok
      (* fixed 5 s timeout for every upstream exchange *)
      && match dl with
         | Some (lo, hi) =>
           (* never later than 5 s after the call started, whatever the caller's deadline; and not
              earlier than 5 s either unless the caller itself gives up earlier *)
           (hi <=? 5)%Z
           && ((match cdl with Some d => if (d <=? 5)%Z then d - 1 else 5 | None => 5 end) <=? lo)%Z
         | None => real
         end
      (* helper goroutines end *)
      && (stuck =? 0)
      && (if ordered then
            match spec_outcome cc arr with
            | Some e => obs_eqb e o
            | None => false
            end
          else
            match o with
            | ORep rc t =>
              existsb (arrival_eqb (AReply rc t)) arr
              && (N.eqb rc 0 || N.eqb rc 3
                  || (negb (existsb is_good arr) && (length (filter (fun a => negb (is_ctx a)) arr) =? cc)))
            | OErrAll =>
              negb (existsb is_good arr) && (length (filter (fun a => negb (is_ctx a)) arr) =? cc)
              && existsb (arrival_eqb AErr) arr
            | OErrCtx => existsb is_ctx arr
            | _ => false
            end)
  | CQuickErr n bad_tag err => Bool.eqb bad_tag err
  end.

(** ** nontrivial: at least two workers and a bad outcome arriving before a good
    one, or a context cancellation among the events, or a wrap-around, or a query that
    does not fit the packing scratch buffer. *)
Fixpoint bad_then_good (seen_bad : bool) (arr : list arrival) : bool :=
  match arr with
  | [] => false
  | a :: t =>
    if is_good a then seen_bad || bad_then_good seen_bad t
    else bad_then_good (seen_bad || negb (is_ctx a)) t
  end.

Definition nontrivial (x : case) : bool :=
  match x with
  | CRun real qlen cdl n s c ordered calls pay_ok dl evs o stuck =>
    let m := length (effective n (sel_sub s)) in
    let arr := arrivals evs in
    ((2 <=? spec_cc c) && (bad_then_good false arr || existsb is_ctx arr))
    || ((m <? spec_cc c) && (0 <? m))
    || ((8190 <? qlen)%N && (0 <? m))
  | CQuickErr _ _ _ => false
  end.
