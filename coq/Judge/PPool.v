(** Scripted runs of the real PipelineTransport over dummy connections (harness/ppx) judged against
    Model.PPool (the pool) and Model.Retry (the retry loop around it).

    The dummies answer ReserveNewQuery as the script tells them ([QSet]) and log every call, so the
    order in which getReservedExchanger walked the connection map is an observation: the label of
    the pool model is built from it. *)
From Verif Require Import Base.Prelude Base.Count Gen.Constants Gen.RetryFacts.
From Verif Require Export Model.PPool Model.Retry.
Open Scope N_scope.

Inductive qaction :=
| QStart (c : nat)                 (* ExchangeContext of call c begins; runs until its exchange is blocked on a connection or it returns *)
| QSet (n : nat) (r : rres)        (* from now on connection n answers r *)
| QFinish (c : nat) (ok : bool)    (* the exchange call c is blocked in ends with a reply / with an error *)
| QTClose
| QCancel (c : nat).               (* the context of call c, blocked in its exchange, ends *)

(** One pass of the retry loop of call [c]: the visits of its scan in order, where it landed
    (connection + 1; 0: no reservation), whether a connection was created for it. *)
Record qatt := mkQA { qa_call : nat; qa_visits : list visit; qa_landed : N; qa_created : bool }.

(** Return of a call: 0 reply, 1 transport closed, 2 new connection refused the reservation, 3 the exchange's
    error, 4 the caller's context. [q_leaked]: reservations handed out by connections on which neither
    ExchangeReserved nor WithdrawReserved was ever called (at rest). *)
Record qobs := mkQO { q_atts : list qatt; q_ret : list (nat * N); q_pool : N; q_leaked : N }.

Inductive case := CPool (script : list (qaction * qobs)).

Record qcall := mkQC { k_conn : option nat; k_new : bool; k_retry : N; k_done : bool }.
Record jst := mkJ { j_pool : pst; j_mode : nat -> rres; j_calls : nat -> qcall }.
Definition jinit : jst := mkJ pinit (fun _ => RAdmit) (fun _ => mkQC None false 0 false).

Definition rres_eqb (a b : rres) : bool :=
  match a, b with RAdmit, RAdmit | RFull, RFull | RClosed, RClosed => true | _, _ => false end.

(** One observed pass through the pool: the visits carry the answers the dummies were set to, the
    model accepts the label and predicts the landing. *)
Definition exec_att (s : jst) (a : qatt) : option jst :=
  let c := qa_call a in
  if negb (forallb (fun v => rres_eqb (snd v) (j_mode s (fst v))) (qa_visits a)) then None else
  match pstep (j_pool s) (PGet (qa_visits a) true) with
  | Some (p1, Some (PoConn n isnew)) =>
    if (qa_landed a =? N.of_nat n + 1) && Bool.eqb isnew (qa_created a)
    then Some (mkJ p1 (j_mode s) (gupd (j_calls s) c (mkQC (Some n) isnew (k_retry (j_calls s c)) false)))
    else None
  | Some (p1, Some PoErrClosed) =>
    if (qa_landed a =? 0) && negb (qa_created a)
    then Some (mkJ p1 (j_mode s) (gupd (j_calls s) c (mkQC None false (k_retry (j_calls s c)) true)))
    else None
  | _ => None
  end.

Definition ret_of (c : nat) (o : qobs) : option N :=
  match find (fun x => Nat.eqb (fst x) c) (q_ret o) with Some (_, r) => Some r | None => None end.
Definition atts_of (c : nat) (o : qobs) : list qatt := filter (fun a => Nat.eqb (qa_call a) c) (q_atts o).

Definition exec_qaction (s : jst) (a : qaction) (o : qobs) : option jst :=
  match a with
  | QStart c =>
    match atts_of c o with
    | [at1] =>
      match exec_att s at1 with
      | Some s1 =>
        (* returns at once only when the transport is closed *)
        match k_conn (j_calls s1 c), ret_of c o with
        | None, Some 1 => Some s1
        | Some _, None => Some s1
        | _, _ => None
        end
      | None => None
      end
    | _ => None
    end
  | QSet n r => if (length (q_atts o) =? 0)%nat then Some (mkJ (j_pool s) (gupd (j_mode s) n r) (j_calls s)) else None
  | QFinish c ok =>
    let k := j_calls s c in
    match k_conn k with
    | None => None
    | Some _ =>
      if ok then
        match atts_of c o, ret_of c o with
        | [], Some 0 => Some (mkJ (j_pool s) (j_mode s) (gupd (j_calls s) c (mkQC None false (k_retry k) true)))
        | _, _ => None
        end
      else if may_retry pipeline_cfg (k_retry k) (mkAtt (k_new k) false false) then
        (* retried: one more pass, observed in this step *)
        match atts_of c o with
        | [at1] =>
          let s0 := mkJ (j_pool s) (j_mode s) (gupd (j_calls s) c (mkQC None false (k_retry k + 1) false)) in
          match exec_att s0 at1 with
          | Some s1 =>
            match k_conn (j_calls s1 c), ret_of c o with
            | None, Some 1 => Some s1
            | Some _, None => Some s1
            | _, _ => None
            end
          | None => None
          end
        | _ => None
        end
      else
        match atts_of c o, ret_of c o with
        | [], Some 3 => Some (mkJ (j_pool s) (j_mode s) (gupd (j_calls s) c (mkQC None false (k_retry k) true)))
        | _, _ => None
        end
    end
  | QCancel c =>
    let k := j_calls s c in
    match k_conn k with
    | None => None
    | Some _ =>
      if may_retry pipeline_cfg (k_retry k) (mkAtt (k_new k) false true) then
        (* the loop does not look at the context: one more pass, which then fails on the dead context *)
        None
      else
        match atts_of c o, ret_of c o with
        | [], Some 4 => Some (mkJ (j_pool s) (j_mode s) (gupd (j_calls s) c (mkQC None false (k_retry k) true)))
        | _, _ => None
        end
    end
  | QTClose =>
    match pstep (j_pool s) PTClose with
    | Some (p1, _) => if (length (q_atts o) =? 0)%nat then Some (mkJ p1 (j_mode s) (j_calls s)) else None
    | None => None
    end
  end.

Fixpoint exec_qscript (s : jst) (sc : list (qaction * qobs)) : bool :=
  match sc with
  | [] => true
  | (a, o) :: t =>
    match exec_qaction s a o with
    | Some s1 =>
      (* the transport's own count of pooled connections; after Close the map is kept *)
      (N.of_nat (length (pt_pool (j_pool s1))) =? q_pool o) && (q_leaked o =? 0) && exec_qscript s1 t
    | None => false
    end
  end.

Definition agree (c : case) : bool := match c with CPool sc => exec_qscript jinit sc end.

(** * The properties, from the script and the observations alone *)

Record qtrk := mkQT {
  t_mode : nat -> rres;
  t_created : list nat;            (* connections that exist *)
  t_dropped : list nat;            (* connections that told the pool they are closed *)
  t_passes : nat -> N;             (* passes of the retry loop per call *)
  t_lastnew : nat -> bool;         (* the call's current connection was opened for it *)
  t_closed : bool
}.

Definition walk_att (tk : qtrk) (a : qatt) : bool * qtrk :=
  let c := qa_call a in
  let usable n := negb (gmem n (t_dropped tk)) && rres_eqb (t_mode tk n) RAdmit in
  let landed := qa_landed a in
  let ok :=
    (* C09: a reservation is only ever made on a connection that admitted it, a connection is opened
       only when no pooled one that was asked admitted, and an admitting connection is not passed over
       unless the scan was cut short by its bound *)
    (if qa_created a then
       forallb (fun v => negb (rres_eqb (snd v) RAdmit)) (qa_visits a)
       && ((pipeline_max_reserve_attempt <? N.of_nat (length (qa_visits a)))
           || forallb (fun n => negb (usable n)) (t_created tk))
     else if landed =? 0 then true
     else rres_eqb (t_mode tk (N.to_nat (landed - 1))) RAdmit && gmem (N.to_nat (landed - 1)) (t_created tk))
    (* C08: never more than 1 + maxRetry passes *)
    && (t_passes tk c + 1 <=? 4) in
  let dropped := fold_left (fun acc v => if rres_eqb (snd v) RClosed then fst v :: acc else acc) (qa_visits a) (t_dropped tk) in
  let created := if qa_created a then (length (t_created tk)) :: t_created tk else t_created tk in
  (ok, mkQT (t_mode tk) created dropped (gupd (t_passes tk) c (t_passes tk c + 1)) (gupd (t_lastnew tk) c (qa_created a)) (t_closed tk)).

Fixpoint spec_walk (c07 c08 c09 : bool) (tk : qtrk) (sc : list (qaction * qobs)) : bool :=
  match sc with
  | [] => true
  | (a, o) :: t =>
    let '(ok_atts, tk1) := fold_left (fun acc x => let '(ok, k) := acc in let '(ok1, k1) := walk_att k x in (ok && (ok1 || negb (c08 || c09)), k1))
                                     (q_atts o) (true, tk) in
    let ok_a :=
      match a with
      | QStart c =>
        (* C07: after Close a call fails at once, asking no connection *)
        if t_closed tk then negb c07 || (match ret_of c o with Some 1 => true | _ => false end
                                          && forallb (fun x => (length (qa_visits x) =? 0)%nat && (qa_landed x =? 0)) (q_atts o)) else true
      | QFinish c false =>
        (* C08: an exchange that failed on a pooled connection is retried; one that failed on a connection
           opened for it is reported *)
        negb c08 || t_closed tk ||
        (if t_lastnew tk c then (match ret_of c o with Some 3 => true | _ => false end) && (length (atts_of c o) =? 0)%nat
         else if t_passes tk c <? 2 then (length (atts_of c o) =? 1)%nat      (* at least one transparent retry *)
         else true)
      | QFinish c true => match ret_of c o with Some 0 => true | _ => false end
      | QCancel c =>
        (* C07: the call returns promptly with the context's error; C09: it takes no further reservation *)
        (negb c07 || match ret_of c o with Some 4 => true | _ => false end)
        && (negb c09 || (length (atts_of c o) =? 0)%nat)
      | _ => true
      end
      (* C09: a reservation is always exchanged on or withdrawn (capacity is not lost to abandoned reservations) *)
      && (negb c09 || (q_leaked o =? 0)) in
    let tk2 :=
      match a with
      | QSet n r => mkQT (gupd (t_mode tk1) n r) (t_created tk1) (t_dropped tk1) (t_passes tk1) (t_lastnew tk1) (t_closed tk1)
      | QTClose => mkQT (t_mode tk1) (t_created tk1) (t_dropped tk1) (t_passes tk1) (t_lastnew tk1) true
      | _ => tk1
      end in
    ok_atts && ok_a && spec_walk c07 c08 c09 tk2 t
  end.

Definition qtinit : qtrk := mkQT (fun _ => RAdmit) [] [] (fun _ => 0) (fun _ => false) false.
Definition spec_c07 (c : case) : bool := match c with CPool sc => spec_walk true false false qtinit sc end.
Definition spec_c08 (c : case) : bool := match c with CPool sc => spec_walk false true false qtinit sc end.
Definition spec_c09 (c : case) : bool := match c with CPool sc => spec_walk false false true qtinit sc end.
(** C02 at this level: an exchange that ended with a reply is returned to the caller, whatever has happened
    to the caller's context meanwhile (the clause that needs no flag). *)
Definition spec_c02 (c : case) : bool := match c with CPool sc => spec_walk false false false qtinit sc end.
Definition nontrivial_c02 (c : case) : bool :=
  match c with CPool sc => existsb (fun ao => match fst ao with QFinish _ true => true | _ => false end) sc end.

Definition nontrivial (c : case) : bool :=
  match c with CPool sc =>
    (2 <=? length (filter (fun ao => match fst ao with QStart _ => true | _ => false end) sc))%nat
    && existsb (fun ao => match fst ao with QSet _ _ | QFinish _ false | QTClose | QCancel _ => true | _ => false end) sc
  end.

(** All three at once (stand-alone driver harness/cmd/ppool). *)
Definition spec (c : case) : bool := spec_c07 c && spec_c08 c && spec_c09 c.
