(** DoH / DoQ id handling — verdicts for the cases of harness/idx. *)
From Verif Require Import Base.Prelude.
From Verif Require Export Model.IdZero.
Open Scope N_scope.

(** [doq]: false DoH, true DoQ. The query is [hi; lo] ++ gen_bytes n seed (caller id = hi*256+lo); the fake
    server answers [rh; rl] ++ gen_bytes rn rseed. Observed: the id and the (length, checksum) of the rest of
    what went on the wire, and of what the caller got back. *)
Inductive icase :=
| CId (doq : bool) (qid n seed rid rn rseed : N)
      (wire_id wire_len wire_sum ret_id ret_len ret_sum : N).

Definition mk (id n seed : N) : bytes := (id / 256) :: (id mod 256) :: gen_bytes n seed.

Definition i_agree (c : icase) : bool :=
  match c with
  | CId _ qid n seed rid rn rseed wi wl ws ri rl rs =>
    let q := mk qid n seed in
    let r := mk rid rn rseed in
    let w := wire_query q in
    let g := returned_reply q r in
    (get_id w =? wi) && (len (skipn 2 w) =? wl) && (checksum (skipn 2 w) =? ws)
    && (get_id g =? ri) && (len (skipn 2 g) =? rl) && (checksum (skipn 2 g) =? rs)
  end.

(** The property: id 0 on the wire and nothing else changed; the caller's id on the reply and nothing else changed. *)
Definition i_spec (c : icase) : bool :=
  match c with
  | CId _ qid n seed rid rn rseed wi wl ws ri rl rs =>
    (wi =? 0) && (wl =? n) && (ws =? checksum (gen_bytes n seed))
    && (ri =? qid) && (rl =? rn) && (rs =? checksum (gen_bytes rn rseed))
  end.

Definition i_nontrivial (c : icase) : bool :=
  match c with CId _ qid _ _ rid _ _ _ _ _ _ _ _ => negb (qid =? rid) || (qid =? 0) || (qid =? 65535) end.
