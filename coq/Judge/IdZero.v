(** DoH / DoQ id handling — verdicts for the cases of harness/idx. *)
From Verif Require Import Base.Prelude.
From Verif Require Export Model.IdZero.
Open Scope N_scope.

(** [doq]: false DoH, true DoQ. The query is [hi; lo] ++ gen_bytes n seed (caller id = hi*256+lo); the fake
    server answers [rh; rl] ++ gen_bytes rn rseed. Observed: the id and the (length, checksum) of the rest of
    what went on the wire, and of what the caller got back. *)
Inductive icase :=
| CId (doq : bool) (qid n seed rid rn rseed : N)
      (wire_id wire_len wire_sum ret_id ret_len ret_sum : N).

Definition mk (id n seed : N) : bytes := (id / 256) :: (id mod 256) :: gen_bytes n seed.

Definition i_agree (c : icase) : bool :=
  match c with
  | CId _ qid n seed rid rn rseed wi wl ws ri rl rs =>
    let q := mk qid n seed in
    let r := mk rid rn rseed in
    let w := wire_query q in
    let g := returned_reply q r in
    (get_id w =? wi) && (len (skipn 2 w) =? wl) && (checksum (skipn 2 w) =? ws)
    && (get_id g =? ri) && (len (skipn 2 g) =? rl) && (checksum (skipn 2 g) =? rs)
  end.

(** The property: id 0 on the wire and nothing else changed; the caller's id on the reply and nothing else changed. *)
Definition i_spec (c : icase) : bool :=
  match c with
  | CId _ qid n seed rid rn rseed wi wl ws ri rl rs =>
    (wi =? 0) && (wl =? n) && (ws =? checksum (gen_bytes n seed))
    && (ri =? qid) && (rl =? rn) && (rs =? checksum (gen_bytes rn rseed))
  end.

Definition i_nontrivial (c : icase) : bool :=
  match c with CId _ qid _ _ rid _ _ _ _ _ _ _ _ => negb (qid =? rid) || (qid =? 0) || (qid =? 65535) end.

(** * Replies stay the caller's (harness/idx Held)

    A sequence of exchanges on one real upstream (udp with TCP fallback; the first reply is truncated and the
    TCP retry cannot connect) whose successful replies the caller keeps until the end and then reads again.
    Per exchange: the query's name index and id; whether it succeeded; the name index and id of the reply when
    it came back, and again at the end of the sequence (0 0 when it failed). *)
Inductive hcase := CHeld (l : list (N * N * bool * N * N * N * N)).

Definition h_ok (x : N * N * bool * N * N * N * N) : bool :=
  let '(qn, qid, ok, rn, rid, ln, lid) := x in
  if ok then (rn =? qn) && (rid =? qid) && (ln =? rn) && (lid =? rid) else true.

(** The model: a reply is an immutable value answering its own query. *)
Definition h_agree (c : hcase) : bool := match c with CHeld l => forallb h_ok l end.
(** C01: what an exchange returned is the reply to its own query, and it stays that (it is not handed to, or
    overwritten for, another exchange while the caller holds it). *)
Definition h_spec (c : hcase) : bool := match c with CHeld l => forallb h_ok l end.
Definition h_nontrivial (c : hcase) : bool := match c with CHeld l => (3 <=? length l)%nat end.

(** * A failed stream write, then two exchanges at once (harness/idx WriteFault)

    On one QUIC connection: [nfail] exchanges whose stream write fails (the peer reset the stream), then the
    exchanges of [l] run concurrently, every one of them having built its payload before the first of them
    writes it; the fake server answers on each stream the query that arrived on that stream. [nfailed] of the
    first group returned an error; [None] in [l] = that call returned an error. *)
Inductive wcase := CWf (nfail nfailed : N) (l : list (option icase)).

(** The model: a failing write fails its own call and leaves nothing behind; with an honest server and no fault
    on their own streams the later calls all succeed, each as [i_agree] says. *)
Definition w_agree (c : wcase) : bool :=
  match c with
  | CWf nfail nfailed l =>
    (nfail =? nfailed) && forallb (fun x => match x with Some i => i_agree i | None => false end) l
  end.
(** C01: each call that succeeds sent its own question (id 0) on its stream and returns the answer to it under
    its own id, whatever happened to earlier calls and whatever else is in flight. *)
Definition w_spec (c : wcase) : bool :=
  match c with
  | CWf _ _ l => forallb (fun x => match x with Some i => i_spec i | None => true end) l
  end.
Definition w_nontrivial (c : wcase) : bool :=
  match c with CWf nfail _ l => (1 <=? nfail) && (2 <=? length l)%nat end.
