(** C20 — case type and verdict functions evaluated by [bin/check] on the
    observations of the Go driver (harness/cmd/c20).

    A case is one call of the REAL fallback plugin with scripted primary and
    secondary executables, run under a schedule that the driver enforces with
    the verif schedule points: each gate of [Model.Fallback.gates] names the
    event after which the driver lets the goroutine parked there continue.
    [agree] explores the SAME transition system the theorems are about
    ([Model.Fallback.gstep], restricted by those gates and by which
    environment events the configuration permits) and accepts the observation
    iff some reachable state in which the call has returned shows it. *)
From Verif Require Import Base.Prelude Gen.FallbackFacts.
From Verif Require Export Model.Fallback.  (* the generated case files name its constructors *)
Open Scope N_scope.

(** Threshold: [TNever] 60 s (cannot fire during a case), [TFires] 20 ms. *)
Inductive tmode := TNever | TFires.
(** Caller's context: no deadline (workers get the 5 s default, which cannot
    expire during a case), a deadline one hour away, a deadline 40 ms away. *)
Inductive dmode := DNone | DFar | DNear.

(** What the driver saw. [ORet r started ready sendhook pmid]: the call
    returned [r]; at that moment the secondary's Exec had been entered /
    "fallback.secondary.ready" / "fallback.secondary.send" / "fallback.primary.mid"
    had been reached. [OHung]: the call did not return within 4 s.
    [OBad]: it returned something that is neither worker's answer nor one of the
    three errors, or an error together with a response. *)
Inductive obs := OHung | OBad | ORet (r : result) (started ready sendhook pmid : bool).

Inductive case :=
  (** one call under an enforced schedule *)
| Case (po so : outcome) (standby : bool) (tm : tmode) (dl : dmode) (g : gates) (o : obs)
  (** the configuration path: the plugin built as the loader builds it (args
      map decoded by utils.WeakDecode, then fallback.Init) with [threshold]
      unset ([None]) or set to [cfg] ms and [always_standby: sb]; observed:
      the duration (ns) doFallback arms its threshold timer with and the
      standby flag it uses ([None]: the constructor failed) *)
| CConf (cfg : option Z) (sb : bool) (o : option (Z * bool))
  (** end to end, coarse: threshold [cfg] ms configured, the primary produces
      nothing before the call returns, the secondary answers at once;
      observed: whether the secondary was started (no standby) / released
      (standby) within [bound] ms of the call (best of three attempts), and
      the result *)
| CTiming (cfg : Z) (sb : bool) (bound : Z) (within : bool) (r : result)
  (** a call on an instance on which [n] earlier calls (always_standby as
      configured, threshold 50 ms) were abandoned by their callers before the
      threshold, their primaries still busy and their workers still parked
      while this call runs; the rest as in [Case] *)
| CSeq (n : N) (po so : outcome) (standby : bool) (tm : tmode) (dl : dmode) (g : gates) (o : obs).

Definition cond_n (c : cond) : N :=
  match c with CTrue => 0 | CDelay => 1 | CNever => 2 | CSstarted => 3 | CSready => 4
             | CSsendhook => 5 | CPmid => 6 | CRet => 7 end.
Definition cond_eqb (a b : cond) : bool := cond_n a =? cond_n b.

Definition is_near (d : dmode) : bool := match d with DNear => true | _ => false end.
Definition fires (t : tmode) : bool := match t with TFires => true | _ => false end.

(** The model configuration of a case: the statement order comes from the
    source ([source_params]); the timer may fire iff the threshold is short;
    the workers' deadline may expire iff the caller's deadline is near; the
    caller's context may end iff its deadline is near or the driver cancels. *)
Definition case_params (po so : outcome) (sb : bool) (tm : tmode) (dl : dmode) (g : gates) : params :=
  source_params po so sb (fires tm) (is_near dl) (is_near dl || negb (cond_eqb (g_ctx g) CNever)).

Definition case_gates (dl : dmode) (g : gates) : gates :=
  mkG (g_pexec g) (g_pmid g) (g_sexec g) (g_sready g) (g_ssend g)
      (if is_near dl then CTrue else g_ctx g).

Definition matches (sb : bool) (r : result) (sta rd sh pm : bool) (s : st) : bool :=
  match col s with
  | C_ret r' =>
    result_eqb r r'
    && (sb || Bool.eqb sta (ev_s_started s))   (* standby: "about to enter Exec" and "entered" are one model state *)
    && Bool.eqb rd (ev_s_ready s)
    && Bool.eqb sh (ev_s_sendhook s)
    && (negb pm || ev_p_mid s)                (* the primary reaches "mid" only after its first statement *)
  | _ => false
  end.

Definition agree (c : case) : bool :=
  match c with
  | Case po so sb tm dl g (ORet r sta rd sh pm) =>
    existsb (matches sb r sta rd sh pm) (reach_states (case_gates dl g) (case_params po so sb tm dl g))
  | Case _ _ _ _ _ _ _ => false
  | CSeq n po so sb tm dl g (ORet r sta rd sh pm) =>
    (* the model of a later call is the single-call model (Model.Fallback.call_model) *)
    let p := case_params po so sb tm dl g in
    match call_model (repeat (source_params OAns OAns sb true false true) (N.to_nat n)) p with
    | Some i => existsb (matches sb r sta rd sh pm) (states (reach_table (gstep (case_gates dl g) p) i))
    | None => false
    end
  | CSeq _ _ _ _ _ _ _ _ => false
  | CConf cfg sb (Some (eff, esb)) =>
    (eff =? effective_threshold (match cfg with Some c => c | None => 0 end))%Z && Bool.eqb esb sb
  | CConf _ _ None => false
  | CTiming cfg sb bound within r =>
    (* a timer fires no earlier than its duration, and (coarsely) not much later *)
    Bool.eqb within (effective_threshold cfg <? bound * 1000000)%Z && result_eqb r (RAns WS)
  end.

(** The property's own oracle on the observation, written from the property
    text and the meaning of the schedule, without the transition system. *)
Definition ans (o : outcome) : bool := match o with OAns => true | _ => false end.

(** The documented meaning of the setting: "Threshold in milliseconds. Default is 500." *)
Definition configured_ms (cfg : option Z) : Z :=
  match cfg with
  | Some c => if (0 <? c)%Z then c else 500%Z
  | None => 500%Z
  end.

Definition spec_call (po so : outcome) (sb : bool) (tm : tmode) (dl : dmode) (g : gates) (o : obs) : bool :=
  match o with
  | ORet r sta rd sh pm =>
    let quiet := negb (fires tm) && negb (is_near dl) in          (* neither threshold nor deadline can pass *)
    let no_ctx := negb (is_near dl) && cond_eqb (g_ctx g) CNever in (* the caller's context cannot end *)
    let p_after_ret := cond_eqb (g_pexec g) CRet in               (* the primary produces nothing before the call returns *)
    (* answers are genuine; an error only if both fail; the context's error only if it can end *)
    match r with
    | RAns WP => ans po && negb p_after_ret
    | RAns WS => ans so
    | RFail => negb (ans po) && negb (ans so)
    | RCtx => negb no_ctx
    end
    (* the primary's answer whenever it produces one within the threshold *)
    && (if quiet && ans po then match r with RAns WP | RCtx => true | _ => false end else true)
    (* the secondary's answer only if the primary failed or is slower than the threshold *)
    && (match r with RAns WS => negb (ans po) || negb quiet | _ => true end)
    (* primary slower than the threshold (it produces nothing before the return): the secondary's answer is used *)
    && (if fires tm && no_ctx && p_after_ret && ans so then result_eqb r (RAns WS) else true)
    (* without always_standby the secondary is not started while the primary is within the threshold *)
    && (if quiet && negb sb && sta then negb (ans po) && negb p_after_ret else true)
    (* with always_standby a finished secondary waits for the primary's signal *)
    && (if quiet && sb && ans so && sh then negb p_after_ret && (if ans po then pm else true) else true)
  | _ => false
  end.

Definition spec (c : case) : bool :=
  match c with
  | Case po so sb tm dl g o => spec_call po so sb tm dl g o
  (* the outcome of a call does not depend on earlier calls *)
  | CSeq _ po so sb tm dl g o => spec_call po so sb tm dl g o
  (* "the threshold" is the configured one (documented: milliseconds, default 500) *)
  | CConf cfg sb (Some (eff, esb)) =>
    (eff =? configured_ms cfg * 1000000)%Z && Bool.eqb esb sb
  | CConf _ _ None => false
  (* a primary slower than the configured threshold: the secondary is started / released when it passes, and used *)
  | CTiming cfg sb bound within r =>
    Bool.eqb within (configured_ms (Some cfg) <? bound)%Z && result_eqb r (RAns WS)
  end.

(** Non-trivial: always_standby with both answering, a short threshold, the
    caller's context ending, or a configured threshold value. *)
Definition nontrivial (c : case) : bool :=
  match c with
  | Case po so sb tm dl g _ =>
    (sb && ans po && ans so) || fires tm || is_near dl || negb (cond_eqb (g_ctx g) CNever)
  | CConf (Some c) _ _ => (0 <? c)%Z   (* a configured value *)
  | CConf None _ _ => false
  | CTiming _ _ _ _ _ => true
  | CSeq _ _ _ _ _ _ _ _ => true
  end.
