(** Finite sets of call ids as duplicate-free lists, pointwise updates of
    total functions, and counting — shared by the transition-system proofs. *)
From Coq Require Import List Arith NArith Bool Lia.
From Coq Require Import ZifyN ZifyNat ZifyBool.
Import ListNotations.
Open Scope N_scope.

Definition gupd {A} (f : nat -> A) (k : nat) (v : A) : nat -> A :=
  fun x => if Nat.eqb x k then v else f x.

Lemma gupd_same {A} (f : nat -> A) k v : gupd f k v k = v.
Proof. unfold gupd. rewrite Nat.eqb_refl. reflexivity. Qed.
Lemma gupd_other {A} (f : nat -> A) k v x : x <> k -> gupd f k v x = f x.
Proof. unfold gupd. intros H. destruct (Nat.eqb_spec x k); congruence. Qed.

Fixpoint gremove (c : nat) (l : list nat) : list nat :=
  match l with
  | [] => []
  | x :: t => if Nat.eqb x c then gremove c t else x :: gremove c t
  end.
Fixpoint gmem (c : nat) (l : list nat) : bool :=
  match l with [] => false | x :: t => Nat.eqb x c || gmem c t end.

Lemma gmem_In c l : gmem c l = true <-> In c l.
Proof.
  induction l as [|x l IH]; simpl; [split; [discriminate|tauto]|].
  rewrite orb_true_iff, IH, Nat.eqb_eq. tauto.
Qed.
Lemma gmem_false c l : gmem c l = false <-> ~ In c l.
Proof. rewrite <- gmem_In. destruct (gmem c l); split; congruence. Qed.
Lemma gremove_In c x l : In x (gremove c l) <-> In x l /\ x <> c.
Proof.
  induction l as [|y l IH]; simpl; [tauto|].
  destruct (Nat.eqb_spec y c); simpl; rewrite IH; intuition congruence.
Qed.
Lemma gremove_NoDup c l : NoDup l -> NoDup (gremove c l).
Proof.
  induction 1 as [|y l Hy Hl IH]; simpl; [constructor|].
  destruct (Nat.eqb_spec y c); [exact IH|]. constructor; [|exact IH].
  rewrite gremove_In. tauto.
Qed.

Definition b2n (b : bool) : N := if b then 1 else 0.

Section Count.
  Context {A : Type}.
  Definition gcnt (P : A -> bool) (f : nat -> A) (l : list nat) : N :=
    N.of_nat (length (filter (fun c => P (f c)) l)).

  Lemma gcnt_nil P f : gcnt P f [] = 0.
  Proof. reflexivity. Qed.
  Lemma gcnt_cons P f x l : gcnt P f (x :: l) = b2n (P (f x)) + gcnt P f l.
  Proof. unfold gcnt. cbn [filter]. destruct (P (f x)); cbn [length b2n]; lia. Qed.

  Lemma gcnt_upd_notin P f c v l : ~ In c l -> gcnt P (gupd f c v) l = gcnt P f l.
  Proof.
    induction l as [|x l IH]; intros H; [reflexivity|].
    rewrite !gcnt_cons, IH by (simpl in H; tauto).
    rewrite gupd_other by (simpl in H; intuition congruence). reflexivity.
  Qed.
  Lemma gcnt_upd_in P f c v l : NoDup l -> In c l ->
    gcnt P (gupd f c v) l + b2n (P (f c)) = gcnt P f l + b2n (P v).
  Proof.
    induction 1 as [|x l Hx Hl IH]; intros Hin; [destruct Hin|].
    rewrite !gcnt_cons. destruct Hin as [->|Hin].
    - rewrite gupd_same, gcnt_upd_notin by exact Hx. lia.
    - rewrite gupd_other by congruence. specialize (IH Hin). lia.
  Qed.
  Lemma gcnt_remove_notin P f c l : ~ In c l -> gcnt P f (gremove c l) = gcnt P f l.
  Proof.
    induction l as [|x l IH]; intros H; [reflexivity|]. simpl.
    destruct (Nat.eqb_spec x c); [simpl in H; intuition congruence|].
    rewrite !gcnt_cons, IH by (simpl in H; tauto). reflexivity.
  Qed.
  Lemma gcnt_remove_in P f c l : NoDup l -> In c l ->
    gcnt P f (gremove c l) + b2n (P (f c)) = gcnt P f l.
  Proof.
    induction 1 as [|x l Hx Hl IH]; intros Hin; [destruct Hin|]. simpl.
    destruct (Nat.eqb_spec x c) as [->|Hne].
    - rewrite gcnt_cons, gcnt_remove_notin by exact Hx. lia.
    - destruct Hin as [->|Hin]; [congruence|]. rewrite !gcnt_cons. specialize (IH Hin). lia.
  Qed.
  Lemma gcnt_upd_remove P f c v l : NoDup l -> In c l ->
    gcnt P (gupd f c v) (gremove c l) + b2n (P (f c)) = gcnt P f l.
  Proof.
    intros Hn Hin. rewrite gcnt_upd_notin by (rewrite gremove_In; tauto).
    apply gcnt_remove_in; assumption.
  Qed.
  (** Counting a predicate that splits into two exclusive ones on the list. *)
  Lemma gcnt_split P P1 P2 f l :
    (forall c, In c l -> b2n (P (f c)) = b2n (P1 (f c)) + b2n (P2 (f c))) ->
    gcnt P f l = gcnt P1 f l + gcnt P2 f l.
  Proof.
    induction l as [|x l IH]; intros H; [reflexivity|].
    rewrite !gcnt_cons. rewrite IH by (intros c Hc; apply H; simpl; auto).
    rewrite (H x) by (simpl; auto). lia.
  Qed.
  Lemma gcnt_zero P f l : (forall c, In c l -> P (f c) = false) -> gcnt P f l = 0.
  Proof.
    induction l as [|x l IH]; intros H; [reflexivity|].
    rewrite gcnt_cons. rewrite IH by (intros c Hc; apply H; simpl; auto).
    rewrite (H x) by (simpl; auto). reflexivity.
  Qed.
  Lemma gcnt_pos P f l c : In c l -> P (f c) = true -> 1 <= gcnt P f l.
  Proof.
    induction l as [|x l IH]; intros Hin Hp; [destruct Hin|].
    rewrite gcnt_cons. destruct Hin as [->|Hin]; [rewrite Hp; cbn [b2n]; lia|]. specialize (IH Hin Hp). lia.
  Qed.
End Count.
