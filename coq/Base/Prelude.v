(** Shared definitions: byte strings as [list N], the payload generator and the
    checksum that the Go harness implements identically (harness/hx/hx.go), and
    the small helpers the generated [cases.v] files use. No proofs about the
    models live here. *)
From Coq Require Export List NArith ZArith Bool Lia.
From Coq Require Import ZifyN ZifyNat ZifyBool.
Export ListNotations.
Open Scope N_scope.

Definition byte := N.
Definition bytes := list N.

Definition len (b : bytes) : N := N.of_nat (length b).

(** Linear congruential generator shared with Go (hx.LCG):
    x' = (x * 1103515245 + 12345) mod 2^31, byte = (x' / 2^16) mod 256. *)
(* [land]/[shiftr] instead of [mod]/[/]: same function, an order of magnitude faster under vm_compute *)
Definition lcg_next (x : N) : N := N.land (x * 1103515245 + 12345) 2147483647.
Definition lcg_byte (x : N) : N := N.land (N.shiftr x 16) 255.

Fixpoint gen_bytes_nat (n : nat) (x : N) : bytes :=
  match n with
  | O => []
  | S n' => let x' := lcg_next x in lcg_byte x' :: gen_bytes_nat n' x'
  end.
Definition gen_bytes (n seed : N) : bytes := gen_bytes_nat (N.to_nat n) seed.

(** Adler-32 style checksum shared with Go (hx.Sum). [red65521 x = x mod 65521]
    for x < 2*65521, which is all that occurs on bytes. *)
Definition red65521 (x : N) : N := if 65521 <=? x then x - 65521 else x.
Definition sum_step (st : N * N) (b : N) : N * N :=
  let a := red65521 (fst st + b) in
  let s := red65521 (snd st + a) in (a, s).
Definition checksum (b : bytes) : N :=
  let '(a, s) := fold_left sum_step b (1, 0) in s * 65536 + a.

Definition bytes_eqb (a b : bytes) : bool :=
  (length a =? length b)%nat && forallb (fun p => fst p =? snd p) (combine a b).

(** Index list of the cases on which [f] is false; the check scripts print it. *)
Fixpoint bad_idx_from {A} (i : N) (f : A -> bool) (l : list A) : list N :=
  match l with
  | [] => []
  | x :: t => if f x then bad_idx_from (i + 1) f t else i :: bad_idx_from (i + 1) f t
  end.
Definition bad_idx {A} (f : A -> bool) (l : list A) : list N := bad_idx_from 0 f l.

Definition count_true {A} (f : A -> bool) (l : list A) : N :=
  N.of_nat (length (filter f l)).

Definition list_eqb {A} (eqb : A -> A -> bool) : list A -> list A -> bool :=
  fix go (a b : list A) : bool :=
    match a, b with
    | [], [] => true
    | x :: a', y :: b' => eqb x y && go a' b'
    | _, _ => false
    end.

Definition option_eqb {A} (eqb : A -> A -> bool) (a b : option A) : bool :=
  match a, b with
  | None, None => true
  | Some x, Some y => eqb x y
  | _, _ => false
  end.

Lemma list_eqb_spec {A} (eqb : A -> A -> bool) :
  (forall x y, eqb x y = true <-> x = y) ->
  forall a b, list_eqb eqb a b = true <-> a = b.
Proof.
  intros H a; induction a as [|x a IH]; intros [|y b]; simpl; split; intro E;
    try reflexivity; try discriminate.
  - apply andb_true_iff in E as [E1 E2]. apply H in E1. apply IH in E2. congruence.
  - inversion E; subst. apply andb_true_iff; split; [apply H; reflexivity | apply IH; reflexivity].
Qed.

Lemma bad_idx_nil_forall {A} (f : A -> bool) l :
  bad_idx f l = [] <-> forallb f l = true.
Proof.
  unfold bad_idx. generalize 0. induction l as [|x l IH]; intro i; simpl.
  - tauto.
  - destruct (f x); simpl; [apply IH | split; discriminate].
Qed.
