(** C11 — the cache store is safe, exact and bounded under concurrency.
    Only statements, each closed by [exact] of a lemma from Proofs/CacheStore.v.

    Model (Model/CacheStore.v): 64 shards, each an association list; [sset] evicts ARBITRARY
    keys (the indices [ch] stand for Go's map iteration order); the cache on top (Opts.init,
    NewMapCache, Get = get + clock + del, Store = clock + set, Flush/Len/Range/gc = one
    locked step per shard). Concurrency: labels [Inv t op | Atomic t ch | Res t r | Tick d];
    a history is a label list; [lrun] accepts exactly the label lists the model can perform.
    Every theorem quantifies over ALL label lists / operation lists, all eviction choices,
    all sizes and all hash functions (the hash only selects the shard). *)
From Verif Require Import Base.Prelude Gen.Constants Gen.LockFacts Model.CacheStore Proofs.CacheStore.
Open Scope N_scope.

(** ** Bounded *)
(** Sequentially: after any operation list, with any clock readings and eviction choices,
    the number of entries is at most MapShardSize * (eff / MapShardSize) <= eff, where
    eff = max(size, minSize) is what Opts.init makes of the configured size. *)
Theorem c11_capacity hash size ops :
  (Z.of_N (c_len (fst (run hash (new size) ops))) <= capacity size)%Z /\
  (capacity size <= eff_size size)%Z.
Proof. exact (capacity_seq hash size ops). Qed.
Print Assumptions c11_capacity.

(** Concurrently: in every state any interleaving can reach, the entries number at most the
    capacity ... *)
Theorem c11_capacity_concurrent hash size ls sf :
  lrun hash (init size) ls = Some sf -> (Z.of_N (c_len (s_cache sf)) <= capacity size)%Z.
Proof. exact (capacity_all hash size ls sf). Qed.
Print Assumptions c11_capacity_concurrent.

(** ... and so is every value Len() returns, although it adds up 64 shard lengths read at
    64 different moments. *)
Theorem c11_len_bounded hash size ls sf q t m :
  lrun hash (init size) ls = Some sf -> nth_error ls q = Some (Res t (RLen m)) ->
  (Z.of_N m <= capacity size)%Z.
Proof. exact (len_results_bounded hash size ls sf q t m). Qed.
Print Assumptions c11_len_bounded.

(** the documented minimum: sizes below minSize (also 0 and negative ones) count as minSize *)
Theorem c11_minimum size : (Z.of_N cache_min_size <= eff_size size)%Z /\ (0 < per_shard (eff_size size))%Z.
Proof. exact (conj (eff_size_ge size) (per_shard_pos size)). Qed.
Print Assumptions c11_minimum.

(** ** Exact (sequential refinement) *)
(** After any operation list a lookup returns nothing, or exactly the (value, expiry) the
    unbounded abstract map [arun] holds under that key -- the last one stored and not since
    deleted, flushed or swept -- and only if it is not expired at the lookup's clock reading. *)
Theorem c11_get_exact hash size ops k now ch :
  let c := fst (run hash (new size) ops) in
  let a := arun (fun _ => None) ops in
  snd (exec hash c now ch (OGet k)) = RGet None \/
  exists v e, a k = Some (v, e) /\ ~ (e < now)%Z /\ snd (exec hash c now ch (OGet k)) = RGet (Some (v, e)).
Proof. exact (get_exact hash size ops k now ch). Qed.
Print Assumptions c11_get_exact.

(** ** pkg/lru and pkg/concurrent_lru (ShardedLRU): bounded and exact, sequentially *)
(** after any operation list (Add/Get/Del/Clean/Len/Flush) no shard holds more than maxSize
    entries ... *)
Theorem c11_lru_bounded hash n max ops i :
  0 < n -> 0 < max ->
  (length (sl_sh (fst (lrun_ops hash (slru_new n max) ops)) i) <= N.to_nat max)%nat.
Proof. exact (lru_bounded hash n max ops i). Qed.
Print Assumptions c11_lru_bounded.

(** ... and a Get returns nothing, or the value of the LATEST Add under that key that was not
    deleted, cleaned or flushed since -- never an overwritten one. *)
Theorem c11_lru_get_latest hash n max ops k :
  0 < n -> 0 < max ->
  let s := fst (lrun_ops hash (slru_new n max) ops) in
  let a := larun (fun _ => None) ops in
  snd (lexec hash s (LGet k)) = (LRGet None, []) \/
  exists v, a k = Some v /\ snd (lexec hash s (LGet k)) = (LRGet (Some v), []).
Proof. exact (lru_get_latest hash n max ops k). Qed.
Print Assumptions c11_lru_get_latest.

(** ** Safe under concurrency *)
(** For EVERY interleaving: a lookup of [k] that thread [t] began at position [pg] and that
    returned (v, e) at position [qg]
    - had not expired when it began (hence not at its own clock reading either);
    - returns what some Store of exactly (k, v, e) wrote, and that Store began before the
      lookup ended;
    - and no Store to [k] (certainly effective: unexpired even when it returned) or Flush that
      COMPLETED before the lookup BEGAN started after that Store had returned. *)
Theorem c11_history_ok hash size ls sf :
  lrun hash (init size) ls = Some sf ->
  forall pg qg t k v e,
    nth_error ls pg = Some (Inv t (OGet k)) ->
    nth_error ls qg = Some (Res t (RGet (Some (v, e)))) ->
    (pg < qg)%nat -> NoRes ls t pg qg ->
    (clock_at ls pg <= e)%Z /\
    exists ps ts, nth_error ls ps = Some (Inv ts (OStore k v e)) /\ (ps < qg)%nat /\
      forall pw qw, (qw < pg)%nat -> Overwriter ls k pw qw -> NoRes ls ts ps pw.
Proof. exact (history_ok_all hash size ls sf). Qed.
Print Assumptions c11_history_ok.

(** the boolean checkers the Judge evaluates on observed histories decide exactly that
    predicate, and every run of the model passes them *)
Theorem c11_checker_decides ls : history_ok_b ls = true <-> history_ok ls.
Proof. exact (history_ok_b_spec ls). Qed.
Print Assumptions c11_checker_decides.

Theorem c11_model_runs_pass hash size ls sf :
  lrun hash (init size) ls = Some sf -> history_ok_b ls = true /\ lens_ok_b size ls = true.
Proof. exact (history_ok_b_all hash size ls sf). Qed.
Print Assumptions c11_model_runs_pass.

(** ** No races on memory: under every schedule of lock sections (writers exclusive, readers
    shared) an accepted lock table means that two different threads are never at the same time
    inside two methods of one shard of which one writes the map and the other reads or writes it ... *)
Theorem c11_lock_discipline tbl ls s t1 r1 t2 r2 :
  check_locks tbl = true -> lk_run [] ls = Some s ->
  In (t1, r1) s -> In (t2, r2) s -> t1 <> t2 -> In r1 tbl -> In r2 tbl ->
  conflict r1 r2 = true -> False.
Proof. exact (lock_discipline tbl ls s t1 r1 t2 r2). Qed.
Print Assumptions c11_lock_discipline.

(** ... and the tables regenerated from the source on this run are accepted: every map write
    is under Lock, every read under RLock/Lock (table), and every function above the shards
    (Map.Set, Map.Get, ...) takes a shard's lock at most once on any path and never touches the
    map itself (callers) -- which is what makes "one shard method = one atomic step" of the
    concurrent model the right granularity for Map.Set/Get/Del. *)
Theorem c11_lock_table_sound :
  check_locks LockFacts.table = true /\ check_callers LockFacts.callers = true.
Proof. exact (lock_facts_ok_by LockFacts.table LockFacts.callers (eq_refl true)). Qed.
Print Assumptions c11_lock_table_sound.

(** ** Non-vacuity *)
(** A run in which a Get overlaps a Store to the same key, returns the stored value, a Flush
    follows and a later Get misses: accepted by the model, with a size below the minimum. *)
Definition demo : list label :=
  [Inv 1 (OStore 5 77 100%Z); Inv 2 (OGet 5); Atomic 1 []; Tick 3; Atomic 1 []; Atomic 2 [];
   Atomic 2 []; Res 2 (RGet (Some (77, 100%Z))); Res 1 RUnit; Inv 1 OFlush]
  ++ repeat (Atomic 1 []) 64 ++ [Res 1 RUnit; Inv 2 (OGet 5); Atomic 2 []; Res 2 (RGet None)].
Example c11_nonvacuous_run :
  (exists sf, lrun (fun k => k) (init 10) demo = Some sf) /\ history_ok_b demo = true.
Proof. split; [eexists|]; vm_compute; reflexivity. Qed.

(** the checker is not trivially true: a value overwritten by a completed Store is refused *)
Example c11_nonvacuous_reject :
  history_ok_b [Inv 1 (OStore 5 77 100%Z); Res 1 RUnit; Inv 1 (OStore 5 78 100%Z); Res 1 RUnit;
                Inv 2 (OGet 5); Res 2 (RGet (Some (77, 100%Z)))] = false.
Proof. vm_compute. reflexivity. Qed.

(** seventeen keys of one shard in a cache of configured size 10: one is evicted, whichever
    the eviction choice *)
Example c11_nonvacuous_evict :
  c_len (fst (run (fun k => k) (new 10)
     (map (fun j => (OStore (5 + 64 * N.of_nat j) 1 100%Z, 0%Z, [j])) (seq 0 17)))) = 16.
Proof. vm_compute. reflexivity. Qed.

(** the unrepaired flush (map re-made under RLock) is refused by the table check *)
Example c11_lock_check_rejects :
  check_locks (map (fun r => if String.eqb (lr_name r) (nth 4 required_methods (lr_name r))  (* "shard.flush" *)
                             then (lr_name r, 1, true, true, false, true) else r) LockFacts.table) = false
  /\ existsb (fun r => String.eqb (lr_name r) (nth 4 required_methods String.EmptyString)) LockFacts.table = true.
Proof. vm_compute. split; reflexivity. Qed.

(** a Set that checks presence under one acquisition and writes under another is refused *)
Example c11_caller_check_rejects :
  check_callers (map (fun r => if String.eqb (fst (fst r)) (nth 1 required_callers (fst (fst r)))  (* "Map.Set" *)
                               then (fst (fst r), 2, false) else r) LockFacts.callers) = false
  /\ check_callers LockFacts.callers = true.
Proof. vm_compute. split; reflexivity. Qed.

(** the LRU model: overwriting the newest entry replaces its value; the third key of a
    two-entry shard evicts the oldest *)
Example c11_nonvacuous_lru :
  map fst (snd (lrun_ops (fun k => k) (slru_new 1 2) [LAdd 4 1; LAdd 4 2; LGet 4; LAdd 8 1; LAdd 12 1; LGet 4; LLen]))
  = [LRUnit; LRUnit; LRGet (Some 2); LRUnit; LRUnit; LRGet None; LRNum 2].
Proof. vm_compute. reflexivity. Qed.
