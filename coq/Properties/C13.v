(** C13 — IP sets contain exactly the addresses their prefixes cover.
    Only statements, each closed by [exact] of a lemma from Proofs/Netlist.v.

    Reading guide. [norm] is what List.Append stores for a caller's prefix
    (to6, +96 for IPv4, Masked); [load] maps it over loaded entries (a bare
    address is a /32 resp. /128). Go's sort.Sort is unstable and List.Less looks
    at the address only, so "the list after sort.Sort" is ANY [l'] with
    [Permutation (stored prefixes) l'] and [Sorted base_le l']. [merge] is the
    loop of List.Sort, [contains]/[lookup] the binary search of List.Contains
    (result [Some _]: the loop ended within its fuel len+1).
    [cov l a] = some prefix of [l] covers [a] = [existsb (fun p => covers p a) l]. *)
From Verif Require Import Base.Prelude Model.Netlist Proofs.Netlist.
From Coq Require Import Permutation Sorting.Sorted.
Open Scope N_scope.

(** Main statement: for every multiset of prefixes (any family, any length,
    host bits set or not, nested, adjacent, duplicated, in any load order),
    whatever order the unstable sort leaves equal addresses in, and for every
    address: Contains answers yes iff one of the loaded prefixes covers it. *)
Theorem c13_contains_iff (ps : list rpfx) (l' : list pfx) :
  Permutation (map norm ps) l' -> Sorted base_le l' ->
  forall a, contains (merge l') a false = Some (existsb (fun p => covers p a) (map norm ps)).
Proof. exact (contains_iff ps l'). Qed.
Print Assumptions c13_contains_iff.

(** The same through the loaders' entry type and the caller's query type
    (IPv4 / IPv6 / zoned IPv6 / invalid address). *)
Theorem c13_lookup_iff (es : list entry) (l' : list pfx) :
  Permutation (load es) l' -> Sorted base_le l' ->
  forall q, lookup (merge l') q = Some (qcov (load es) q).
Proof. exact (lookup_iff es l'). Qed.
Print Assumptions c13_lookup_iff.

(** Independent of load order and duplicates: two loads with the same SET of
    entries answer every query alike. *)
Theorem c13_order_and_duplicates_irrelevant (es1 es2 : list entry) (l1 l2 : list pfx) :
  (forall e, In e es1 <-> In e es2) ->
  Permutation (load es1) l1 -> Sorted base_le l1 ->
  Permutation (load es2) l2 -> Sorted base_le l2 ->
  forall q, lookup (merge l1) q = lookup (merge l2) q.
Proof. exact (lookup_order_dup_indep es1 es2 l1 l2). Qed.
Print Assumptions c13_order_and_duplicates_irrelevant.

(** Appending to an already sorted (merged) list and sorting again gives the union. *)
Theorem c13_resort (es1 es2 : list entry) (l1 l2 : list pfx) :
  Permutation (load es1) l1 -> Sorted base_le l1 ->
  Permutation (merge l1 ++ load es2) l2 -> Sorted base_le l2 ->
  forall q, lookup (merge l2) q = Some (qcov (load (es1 ++ es2)) q).
Proof. exact (resort_iff es1 es2 l1 l2). Qed.
Print Assumptions c13_resort.

(** With sort.Sort as a contract (a permutation sorted by address): List.Sort +
    List.Contains, and the ip_set plugin = own entries OR the referenced sets. *)
Theorem c13_sort_contract (srt : list pfx -> list pfx) :
  (forall l, Permutation l (srt l)) -> (forall l, Sorted base_le (srt l)) ->
  forall es q, lookup (sort_with srt (load es)) q = Some (qcov (load es) q).
Proof. exact (sort_with_iff srt). Qed.
Print Assumptions c13_sort_contract.

Theorem c13_ipset_plugin (srt : list pfx -> list pfx) :
  (forall l, Permutation l (srt l)) -> (forall l, Sorted base_le (srt l)) ->
  forall own (sets : list (list (list pfx))) q,
  Forall (Forall asc) sets ->
  group_lookup (ipset_build srt own sets) q
  = Some (qcov (load own) q || existsb (fun g => existsb (fun e => qcov e q) g) sets).
Proof. exact (ipset_iff srt). Qed.
Print Assumptions c13_ipset_plugin.

(** Composition to any depth: whatever sets reference whatever sets, the matcher
    of a set answers yes exactly when an entry loaded ANYWHERE below it (own
    ips/files or any directly or indirectly referenced set) covers the address;
    and coverage of a concatenation is the disjunction (union of the members). *)
Theorem c13_set_tree_union (srt : list pfx -> list pfx) :
  (forall l, Permutation l (srt l)) -> (forall l, Sorted base_le (srt l)) ->
  forall (s : setdef) q, group_lookup (build_set srt s) q = Some (qcov (load (all_entries s)) q).
Proof. exact (set_tree_iff srt). Qed.
Print Assumptions c13_set_tree_union.

Theorem c13_union_is_disjunction es1 es2 q :
  qcov (load (es1 ++ es2)) q = qcov (load es1) q || qcov (load es2) q.
Proof. exact (eq_trans (f_equal (fun l => qcov l q) (load_app es1 es2)) (qcov_app (load es1) (load es2) q)). Qed.
Print Assumptions c13_union_is_disjunction.

(** ... where every sorted list satisfies [asc] (well formed, each element ends
    before the next begins), so sets built by the plugin qualify. *)
Theorem c13_sorted_list_is_asc (srt : list pfx -> list pfx) :
  (forall l, Permutation l (srt l)) -> (forall l, Sorted base_le (srt l)) ->
  forall es, asc (sort_with srt (load es))
             /\ forall a, cov (sort_with srt (load es)) a = cov (load es) a.
Proof. exact (fun P S es => sort_with_asc srt P S (load es) (load_wf es)). Qed.
Print Assumptions c13_sorted_list_is_asc.

(** The concrete sort the Judge runs is an instance of the contract. *)
Theorem c13_judge_sort_instance es q :
  lookup (sort_with isort (load es)) q = Some (qcov (load es) q).
Proof. exact (isort_lookup_iff es q). Qed.
Print Assumptions c13_judge_sort_instance.

(** What "covers" means. Host bits of the rule are irrelevant; an IPv6 rule /n
    covers the addresses agreeing on the first n of 128 bits, an IPv4 rule /n
    covers (of the IPv4 addresses) those agreeing on the first n of 32 bits and
    no non-mapped IPv6 address; a bare address covers itself only. *)
Theorem c13_covers_v6 b n a :
  covers (norm (A6 b, n)) a = (a / 2 ^ (128 - n) =? b / 2 ^ (128 - n)).
Proof. exact (covers_norm_v6 b n a). Qed.
Print Assumptions c13_covers_v6.

Theorem c13_covers_v4 b n a :
  n <= 32 -> covers (norm (A4 b, n)) (to6 (A4 a)) = (a / 2 ^ (32 - n) =? b / 2 ^ (32 - n)).
Proof. exact (covers_norm_v4 b n a). Qed.
Print Assumptions c13_covers_v4.

Theorem c13_v4_rule_covers_only_mapped b n a :
  n <= 32 -> b < 2 ^ 32 -> covers (norm (A4 b, n)) a = true -> v4_base <= a < v4_base + 2 ^ 32.
Proof. exact (covers_v4_only_mapped b n a). Qed.
Print Assumptions c13_v4_rule_covers_only_mapped.

Theorem c13_single_address x a : covers (norm (entry_pfx (EAddr x))) a = (a =? to6 x).
Proof. exact (covers_single x a). Qed.
Print Assumptions c13_single_address.

(** An IPv4 address and its IPv4-mapped IPv6 form are the same, on the rule
    side and on the query side (in the model this is how to6 is defined; that
    the code does the same is what the differential run checks). *)
Theorem c13_v4_mapped_rule b n : norm (A4 b, n) = norm (A6 (v4_base + b), n + 96).
Proof. exact (v4_mapped_rule b n). Qed.
Print Assumptions c13_v4_mapped_rule.

Theorem c13_v4_mapped_query e a : lookup e (Q4 a) = lookup e (Q6 (v4_base + a)).
Proof. exact (v4_mapped_query e a). Qed.
Print Assumptions c13_v4_mapped_query.

(** What must NOT happen: Sort never invents a prefix. Everything the sorted
    list holds is the stored form of a prefix the caller loaded, and the list
    never grows (so the memory an IP set needs is bounded by what was loaded). *)
Theorem c13_sort_only_drops (l : list pfx) :
  (forall p, In p (merge l) -> In p l) /\ (length (merge l) <= length l)%nat.
Proof. exact (merge_only_drops l). Qed.
Print Assumptions c13_sort_only_drops.

Theorem c13_sorted_list_from_loaded (ps : list rpfx) (l' : list pfx) p :
  Permutation (map norm ps) l' -> In p (merge l') -> exists r, In r ps /\ p = norm r.
Proof. exact (sorted_list_from_loaded ps l' p). Qed.
Print Assumptions c13_sorted_list_from_loaded.

(** Non-vacuity: a load with a duplicate, a nested pair sharing its base
    address (10.0.0.0/8 with host bits set, 10.0.0.0/24), two adjacent /25 and an
    IPv4-mapped IPv6 rule; [l'] is a sorted permutation that is NOT the one
    insertion sort produces; probes on both sides of a boundary. *)
Example c13_nonvacuous :
  let ps := [ (A4 167772160, 24); (A4 167837953, 8); (A4 167772160, 24);
              (A4 3232235520, 25); (A4 3232235648, 25);
              (A6 (v4_base + 2886729728), 108) ] in
  let l' := [ norm (A4 167772160, 24); norm (A4 167772160, 24); norm (A4 167837953, 8);
              norm (A6 (v4_base + 2886729728), 108);
              norm (A4 3232235520, 25); norm (A4 3232235648, 25) ] in
  Permutation (map norm ps) l' /\ Sorted base_le l'
  /\ length (merge l') = 4%nat
  /\ lookup (merge l') (Q4 184549375) = Some true      (* 10.255.255.255 *)
  /\ lookup (merge l') (Q4 184549376) = Some false     (* 11.0.0.0 *)
  /\ lookup (merge l') (Q4 3232235775) = Some true     (* 192.168.0.255 *)
  /\ lookup (merge l') (Q4 3232235776) = Some false    (* 192.168.1.0 *)
  /\ lookup (merge l') (Q4 2887778303) = Some true     (* 172.31.255.255 *)
  /\ lookup (merge l') (Q6 (v4_base + 2887778304)) = Some false.
Proof.
  cbv zeta. split; [|split].
  - vm_compute.
    apply perm_skip. eapply perm_trans; [apply perm_swap|]. apply perm_skip. apply perm_skip.
    eapply perm_trans; [apply perm_skip; apply perm_swap|].
    eapply perm_trans; [apply perm_swap|]. apply perm_skip. apply Permutation_refl.
  - repeat constructor; vm_compute; discriminate.
  - vm_compute. repeat split; reflexivity.
Qed.
