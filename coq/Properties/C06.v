(** C06 — sequences execute exactly as their rules say.
    Only statements, each closed by [exact] of a lemma from Proofs/Sequence.v.

    [machine]/[exec_walker] is the code (ChainWalker.ExecNext and the built-in
    actions), [spec_rules] the property's sentence as a big-step interpreter
    (Model/Sequence.v). Everything is stated for an arbitrary kind of query
    context [State] and arbitrary plugins [E]: matchers answering true / false
    / error depending on the context, executables changing the context or
    failing, wrapping plugins that are any function of (their continuation,
    the context). Programs are arbitrary [rules] trees: any number of
    sequences referring to earlier ones, any length, any nesting depth. *)
From Verif Require Import Base.Prelude Model.Sequence Proofs.Sequence.
Open Scope N_scope.

(** The walker is read as data: [(rs, stack)] = chain suffix [rs] at position
    p, [stack] = the chain of jumpBack walkers, innermost first. *)

(** ** The code computes what the sentence says *)

(** Executing a sequence with the code gives the trace, final context and
    returned error that the big-step reading of the rules gives. The one
    assumption: a wrapping plugin can do nothing with its continuation but run it. *)
Theorem c06_machine_refines_spec State (E : env State) :
  wrappers_extensional E ->
  forall prog st, run_seq E prog st = spec_seq E prog st.
Proof. exact (machine_refines_spec State E). Qed.
Print Assumptions c06_machine_refines_spec.

(** The same from any point inside any nesting of jumps: the walker computes
    "what the rest of this sequence says, then the pending jump returns". *)
Theorem c06_walker_refines_spec State (E : env State) :
  wrappers_extensional E ->
  forall rs stack st,
    exec_walker E (rs, stack) st
    = glue (spec_rules E rs (run_stack E stack) st) (run_stack E stack).
Proof. exact (walker_refines_spec State E). Qed.
Print Assumptions c06_walker_refines_spec.

(** The plugins the differential run uses satisfy the assumption. *)
Theorem c06_harness_refines_spec prog st :
  run_seq harness_env prog st = spec_seq harness_env prog st.
Proof. exact (machine_refines_spec hstate harness_env harness_env_ext prog st). Qed.
Print Assumptions c06_harness_refines_spec.

(** ** Matchers: left to right, '!' applied, stop at the first that does not hold *)

(** All matchers of a rule are evaluated, in order, exactly when all hold. *)
Theorem c06_matchers_all_hold State (E : env State) ms st t :
  match_loop E ms st = (t, VTrue) ->
  t = map (ev_of State E st) ms /\ forall x, In x ms -> holds E x st = VTrue.
Proof. exact (match_loop_true State E ms st t). Qed.
Print Assumptions c06_matchers_all_hold.

(** Otherwise evaluation stops at the first matcher that is false after
    negation, or fails: the ones before it hold, the ones after it are not evaluated. *)
Theorem c06_matchers_short_circuit State (E : env State) ms st t v :
  match_loop E ms st = (t, v) -> v <> VTrue ->
  exists before x rest,
    ms = before ++ x :: rest /\
    (forall y, In y before -> holds E y st = VTrue) /\
    holds E x st = v /\
    t = map (ev_of State E st) (before ++ [x]).
Proof. exact (match_loop_stops State E ms st t v). Qed.
Print Assumptions c06_matchers_short_circuit.

Theorem c06_negation State (E : env State) m st :
  holds E (true, m) st
  = match match_o E m st with MTrue => VFalse | MFalse => VTrue | MErr c => VErr c end.
Proof. exact (holds_negated State E m st). Qed.
Print Assumptions c06_negation.

(** ** The action runs only if all matched; rules are visited in order *)

(** A rule whose matchers do not all hold is skipped: its action contributes
    nothing and execution goes on with the next rule. *)
Theorem c06_rule_skipped_when_not_matched State (E : env State) ms a rest stack st tm :
  match_loop E ms st = (tm, VFalse) ->
  exec_walker E (RCons (Rule ms a) rest, stack) st = pre tm (exec_walker E (rest, stack) st).
Proof. exact (walker_not_matched State E ms rest stack st tm a). Qed.
Print Assumptions c06_rule_skipped_when_not_matched.

(** A plain action that succeeds is followed by the next rule, on the context it left. *)
Theorem c06_exec_then_next_rule State (E : env State) ms e rest stack st tm st' :
  match_loop E ms st = (tm, VTrue) -> exec_o E e st = (st', None) ->
  exec_walker E (RCons (Rule ms (Exec e)) rest, stack) st
  = pre (tm ++ [EExec e]) (exec_walker E (rest, stack) st').
Proof. exact (fun Hm => walker_exec_ok State E ms rest stack st tm Hm e st'). Qed.
Print Assumptions c06_exec_then_next_rule.

(** ** accept and reject end all processing *)

(** Whatever follows in this sequence and whatever jump returns are pending:
    nothing more runs, the caller gets nil. *)
Theorem c06_accept_ends_everything State (E : env State) ms rest stack st tm :
  match_loop E ms st = (tm, VTrue) ->
  exec_walker E (RCons (Rule ms Accept) rest, stack) st = (tm, st, None).
Proof. exact (walker_accept State E ms rest stack st tm). Qed.
Print Assumptions c06_accept_ends_everything.

Theorem c06_reject_ends_everything State (E : env State) ms rc rest stack st tm :
  match_loop E ms st = (tm, VTrue) ->
  exec_walker E (RCons (Rule ms (Reject rc)) rest, stack) st = (tm, reject_o E rc st, None).
Proof. exact (fun Hm => walker_reject State E ms rest stack st tm Hm rc). Qed.
Print Assumptions c06_reject_ends_everything.

(** ... also when it happens anywhere below (inside jumped or gone-to
    sequences, inside a wrapper's continuation): if a rule list ends with
    [Stop], nothing pending behind it runs. *)
Theorem c06_stop_ends_everything State (E : env State) :
  wrappers_extensional E ->
  forall rs k st t s, spec_rules E rs k st = (t, s, Stop) -> machine E rs k st = (t, s, None).
Proof. exact (stop_ends_everything State E). Qed.
Print Assumptions c06_stop_ends_everything.

(** ** return *)

(** At top level (no pending jump) return ends the execution ... *)
Theorem c06_return_ends_at_top_level State (E : env State) ms rest st tm :
  match_loop E ms st = (tm, VTrue) ->
  exec_walker E (RCons (Rule ms Return) rest, []) st = (tm, st, None).
Proof. exact (walker_return_top State E ms rest st tm). Qed.
Print Assumptions c06_return_ends_at_top_level.

(** ... inside a jumped sequence it resumes right after the calling jump. *)
Theorem c06_return_resumes_after_jump State (E : env State) ms rest caller stack st tm :
  match_loop E ms st = (tm, VTrue) ->
  exec_walker E (RCons (Rule ms Return) rest, caller :: stack) st
  = pre tm (exec_walker E (caller, stack) st).
Proof. exact (fun Hm => walker_return_back State E ms rest stack st tm Hm caller). Qed.
Print Assumptions c06_return_resumes_after_jump.

(** ** jump runs the target and then continues *)

Theorem c06_jump_enters_target State (E : env State) ms tgt rest stack st tm :
  match_loop E ms st = (tm, VTrue) ->
  exec_walker E (RCons (Rule ms (Jump tgt)) rest, stack) st
  = pre tm (exec_walker E (tgt, rest :: stack) st).
Proof. exact (fun Hm => walker_jump State E ms rest stack st tm Hm tgt). Qed.
Print Assumptions c06_jump_enters_target.

(** the end of a jumped sequence resumes after the jump *)
Theorem c06_end_of_target_resumes State (E : env State) caller stack st :
  exec_walker E (RNil, caller :: stack) st = exec_walker E (caller, stack) st.
Proof. exact (walker_end_back State E stack st caller). Qed.
Print Assumptions c06_end_of_target_resumes.

(** Put together: if the target, run on its own, falls off its end or
    returns, the rules after the jump run next, on the context the target left. *)
Theorem c06_jump_then_continue State (E : env State) :
  wrappers_extensional E ->
  forall ms tgt rest k st tm t s r,
    match_loop E ms st = (tm, VTrue) ->
    spec_rules E tgt (machine E rest k) st = (t, s, r) -> r = Continue \/ r = Ret ->
    machine E (RCons (Rule ms (Jump tgt)) rest) k st = pre (tm ++ t) (machine E rest k s).
Proof. exact (jump_then_continue State E). Qed.
Print Assumptions c06_jump_then_continue.

(** ** goto runs the target and never comes back *)

(** Neither the rest of this sequence nor any pending jump return ([stack],
    i.e. also when the goto is inside a jumped sequence) survives a goto. *)
Theorem c06_goto_never_returns State (E : env State) ms tgt rest stack st tm :
  match_loop E ms st = (tm, VTrue) ->
  exec_walker E (RCons (Rule ms (Goto tgt)) rest, stack) st
  = pre tm (exec_walker E (tgt, []) st).
Proof. exact (fun Hm => walker_goto State E ms rest stack st tm Hm tgt). Qed.
Print Assumptions c06_goto_never_returns.

(** ** errors abort everything and are reported to the caller *)

Theorem c06_matcher_error_aborts State (E : env State) ms a rest stack st tm c :
  match_loop E ms st = (tm, VErr c) ->
  exec_walker E (RCons (Rule ms a) rest, stack) st = (tm, st, Some c).
Proof. exact (walker_match_error State E ms rest stack st tm a c). Qed.
Print Assumptions c06_matcher_error_aborts.

Theorem c06_action_error_aborts State (E : env State) ms e rest stack st tm st' c :
  match_loop E ms st = (tm, VTrue) -> exec_o E e st = (st', Some c) ->
  exec_walker E (RCons (Rule ms (Exec e)) rest, stack) st = (tm ++ [EExec e], st', Some c).
Proof. exact (fun Hm => walker_exec_error State E ms rest stack st tm Hm e st' c). Qed.
Print Assumptions c06_action_error_aborts.

(** A sequence used as a plain action of another sequence ([exec: $seq], run
    by Sequence.Exec on a fresh walker): an error raised inside it, at any
    depth, aborts the calling sequence with everything pending and is
    reported — whatever kind of error value it is (errors are opaque here). *)
Theorem c06_nested_sequence_error_aborts State (E : env State) :
  wrappers_extensional E ->
  forall ms tgt rest k st tm t s c,
    match_loop E ms st = (tm, VTrue) ->
    spec_rules E tgt done st = (t, s, Err c) ->
    machine E (RCons (Rule ms (Call tgt)) rest) k st = (tm ++ t, s, Some c).
Proof. exact (call_error_aborts State E). Qed.
Print Assumptions c06_nested_sequence_error_aborts.

(** However else the called sequence ends (accept/reject/return inside it end
    the called sequence only), the caller goes on with its next rule. *)
Theorem c06_nested_sequence_then_continue State (E : env State) :
  wrappers_extensional E ->
  forall ms tgt rest k st tm t s r,
    match_loop E ms st = (tm, VTrue) ->
    spec_rules E tgt done st = (t, s, r) -> (forall c, r <> Err c) ->
    machine E (RCons (Rule ms (Call tgt)) rest) k st = pre (tm ++ t) (machine E rest k s).
Proof. exact (call_then_continue State E). Qed.
Print Assumptions c06_nested_sequence_then_continue.

(** ... from any depth: if a rule list ends with [Err c], nothing pending
    behind it runs and the caller gets [c]. *)
Theorem c06_error_aborts_everything State (E : env State) :
  wrappers_extensional E ->
  forall rs k st t s c, spec_rules E rs k st = (t, s, Err c) -> machine E rs k st = (t, s, Some c).
Proof. exact (error_aborts_everything State E). Qed.
Print Assumptions c06_error_aborts_everything.

(** ** wrapping plugins receive the rest of the chain as a reusable continuation *)

(** The continuation handed to the wrapper is the walker on the remaining
    rules with the same pending jump returns: a function of the context only.
    However often and on whatever contexts the wrapper runs it, every run is a
    run of [exec_walker E (rest, stack)] — by [c06_walker_refines_spec], of
    "the remaining rules, then the pending jump returns". *)
Theorem c06_wrapper_receives_rest_of_chain State (E : env State) ms w rest stack st tm :
  match_loop E ms st = (tm, VTrue) ->
  exec_walker E (RCons (Rule ms (Wrap w)) rest, stack) st
  = pre tm (wrap_o E w (exec_walker E (rest, stack)) st).
Proof. exact (fun Hm => walker_wrap State E ms rest stack st tm Hm w). Qed.
Print Assumptions c06_wrapper_receives_rest_of_chain.

(** A wrapper that runs its continuation [n] times on copies of the context
    gets [n] identical sub-traces (each followed by the wrapper's own report),
    and leaves the context alone. *)
Theorem c06_continuation_reusable State (E : env State) code w n fail ms rest stack st tm t s :
  (forall k st, wrap_o E w k st = rep_wrapper code w n true fail k st) ->
  match_loop E ms st = (tm, VTrue) ->
  exec_walker E (rest, stack) st = (t, s, None) ->
  exec_walker E (RCons (Rule ms (Wrap w)) rest, stack) st
  = (tm ++ EWrap w 0 :: repeat_app (t ++ [EWrap w (2 + code s)]) n ++ [EWrap w 1], st, fail).
Proof. exact (continuation_reusable State E code w n fail ms rest stack st tm t s). Qed.
Print Assumptions c06_continuation_reusable.

(** Run on the context itself, the second run executes the same remaining
    rules from the context the first run left. *)
Theorem c06_continuation_reusable_in_place State (E : env State) code w fail ms rest stack st tm t1 s1 t2 s2 :
  (forall k st, wrap_o E w k st = rep_wrapper code w 2 false fail k st) ->
  match_loop E ms st = (tm, VTrue) ->
  exec_walker E (rest, stack) st = (t1, s1, None) ->
  exec_walker E (rest, stack) s1 = (t2, s2, None) ->
  exec_walker E (RCons (Rule ms (Wrap w)) rest, stack) st
  = (tm ++ EWrap w 0 :: (t1 ++ [EWrap w (2 + code s1)]) ++ (t2 ++ [EWrap w (2 + code s2)]) ++ [EWrap w 1],
     s2, fail).
Proof. exact (continuation_reusable_in_place State E code w fail ms rest stack st tm t1 s1 t2 s2). Qed.
Print Assumptions c06_continuation_reusable_in_place.

(** A wrapper may keep the continuation and run it later (after the jump that
    was on the stack when it was made has long returned): each such run on a
    copy of the context kept with it executes the same remaining rules and
    pending jump returns, with the same result, as the run in place. *)
Theorem c06_continuation_reusable_later State (E : env State) code w n ms rest stack st tm t s r :
  (forall k st, wrap_o E w k st = keep_wrapper code w n true k st) ->
  match_loop E ms st = (tm, VTrue) ->
  exec_walker E (rest, stack) st = (t, s, r) ->
  exec_walker E (RCons (Rule ms (Wrap w)) rest, stack) st
  = (tm ++ EWrap w 0 :: repeat_app (t ++ [EWrap w (2 + code s); EWrap w (3000 + errc r)]) n
        ++ t ++ match r with None => [EWrap w 1] | Some _ => [] end, s, r).
Proof. exact (continuation_reusable_later State E code w n ms rest stack st tm t s r). Qed.
Print Assumptions c06_continuation_reusable_later.

(** ** building: targets are resolved when the rule is built *)

(** The sequence built last is resolved against exactly the sequences built
    before it (so it cannot name itself or a later one), and building stops at
    the first sequence that does not resolve. Programs are therefore finite
    trees, which is what makes [machine] a total function. *)
Theorem c06_build_resolves_against_earlier K ss name rs :
  build_all K (ss ++ [(name, rs)])
  = match build_all K ss with
    | inr j => inr j
    | inl reg =>
      match resolve_rules K reg rs with
      | None => inr (N.of_nat (length ss))
      | Some c => inl ((name, c) :: reg)
      end
    end.
Proof. exact (build_all_snoc K ss name rs). Qed.
Print Assumptions c06_build_resolves_against_earlier.

Theorem c06_jump_target_captured K reg name :
  resolve_action K reg (TJump name) = option_map Jump (lookup reg name)
  /\ resolve_action K reg (TGoto name) = option_map Goto (lookup reg name).
Proof. exact (conj (resolve_jump K reg name) (resolve_goto K reg name)). Qed.
Print Assumptions c06_jump_target_captured.

(** ** rule text *)

(** Rendering a matcher reference with any number of blanks in front, after
    the '!', between name and arguments and at the end, and parsing it with
    parseMatch, gives back the reference. *)
Theorem c06_parse_match_roundtrip l a b r reverse is_tag name args :
  plain_name name -> plain_args args ->
  parse_match (render_match l a b r reverse is_tag name args)
  = MatchConfig (if is_tag then name else []) (if is_tag then [] else name) args reverse.
Proof. exact (parse_match_roundtrip l a b r reverse is_tag name args). Qed.
Print Assumptions c06_parse_match_roundtrip.

Theorem c06_parse_exec_roundtrip l b r is_tag name args :
  plain_name name -> plain_args args ->
  parse_exec (render_exec l b r is_tag name args)
  = (if is_tag then name else [], if is_tag then [] else name, args).
Proof. exact (parse_exec_roundtrip l b r is_tag name args). Qed.
Print Assumptions c06_parse_exec_roundtrip.

(** ** Non-vacuity *)

(** s0 = [ !$m1 -> $x0 ; $m0 !$m3 -> return ; $x1 (fails, never reached) ]
    main = [ $w5 (runs the rest twice on copies) ; jump s0 ; reject 3 ; $x4 ]
    The wrapper's continuation contains the jump, the return inside it, and
    the reject after it; both runs give the same sub-trace; the reject on the
    copies is not seen by the caller; $x1 and $x4 never run. *)
Definition ex_s0 : rules :=
  RCons (Rule [(true, 1)] (Exec 0))
 (RCons (Rule [(false, 0); (true, 3)] Return)
 (RCons (Rule [] (Exec 1)) RNil)).
Definition ex_main : rules :=
  RCons (Rule [] (Wrap 5))
 (RCons (Rule [] (Jump ex_s0))
 (RCons (Rule [] (Reject 3))
 (RCons (Rule [] (Exec 4)) RNil))).

Example c06_nonvacuous :
  let sub := [EMatch 1 MFalse; EExec 0; EMatch 0 MTrue; EMatch 3 MFalse; EWrap 5 6] in
  run_seq harness_env ex_main None = (EWrap 5 0 :: sub ++ sub ++ [EWrap 5 1], None, None)
  /\ spec_seq harness_env ex_main None = run_seq harness_env ex_main None
  /\ (forall k st, wrap_o harness_env 5 k st = rep_wrapper hcode 5 2 true None k st)
  /\ match_loop harness_env [(false, 0); (true, 3)] None = ([EMatch 0 MTrue; EMatch 3 MFalse], VTrue)
  /\ parse_match (render_match 1 2 1 1 true true [109; 51] []) = MatchConfig [109; 51] [] [] true.
Proof. repeat split. Qed.
