(** C12 — domain rules match exactly the names they describe.
    Only statements, each closed by [exact] of a lemma from Proofs/Domain.v.

    Conventions. Strings are byte lists. [rs] is the list of (rule text, value)
    pairs in the order they are added; "rs = rs1 ++ (p, v) :: rs2" singles out
    one rule, rs2 being the rules added after it. [labels s] are the labels the
    code scans from the normalised string, top-level label first, so "r is a
    label suffix of n" reads [prefix_of (labels r) (labels n)]. The regexp engine
    is an arbitrary pair of functions [re_valid] (Compile succeeds) and
    [re_match] (MatchString): every theorem holds for all of them. Where Go
    iterates over a map (keyword, regexp) the model returns the list of values
    Match may return; [[]] means "no match". *)
From Verif Require Import Base.Prelude Model.Domain Proofs.Domain.
Open Scope N_scope.

(** ** normalisation: names and rules are lower-cased and lose one trailing dot *)

Theorem c12_normalize_case a b : to_lower a = to_lower b -> normalize a = normalize b.
Proof. exact (normalize_case a b). Qed.
Print Assumptions c12_normalize_case.

Theorem c12_normalize_trailing_dot s : normalize (s ++ [c_dot]) = to_lower s.
Proof. exact (normalize_dot s). Qed.
Print Assumptions c12_normalize_trailing_dot.

Theorem c12_trim_one_dot_only s :
  (exists s', s = s' ++ [c_dot] /\ trim_dot s = s') \/ ((forall s', s <> s' ++ [c_dot]) /\ trim_dot s = s).
Proof. exact (trim_dot_cases s). Qed.
Print Assumptions c12_trim_one_dot_only.

Theorem c12_normalize_idempotent s : valid_name s -> normalize (normalize s) = normalize s.
Proof. exact (normalize_idem s). Qed.
Print Assumptions c12_normalize_idempotent.

(** ** the reverse label scanner *)

(** On every string (no validity assumption, fuel never exhausted) the scanner
    yields the dot-separated pieces right to left, except a leading empty one. *)
Theorem c12_scanner_general s : scan_all s = rev (drop_empty_head (split_dots (trim_dot s))).
Proof. exact (scan_all_general s). Qed.
Print Assumptions c12_scanner_general.

(** On a valid name (non-empty labels, any case, with or without trailing dot)
    the labels are exactly the dot-separated pieces of the normalised name. *)
Theorem c12_scanner_labels s : valid_name s -> labels s = rev (split_dots (normalize s)).
Proof. exact (labels_valid s). Qed.
Print Assumptions c12_scanner_labels.

(** ** 'full:' rules match the whole name; the last rule added for a name gives the value *)

Theorem c12_full_iff {V} (rs : list (str * V)) (n : str) (v : V) :
  full_match (add_all full_add rs []) n = Some v <->
  exists rs1 p rs2, rs = rs1 ++ (p, v) :: rs2 /\ normalize p = normalize n /\
                    Forall (fun r => normalize (fst r) <> normalize n) rs2.
Proof. exact (full_iff rs n v). Qed.
Print Assumptions c12_full_iff.

(** ** 'domain:' rules match the name itself and every subdomain on a label boundary *)

(** For ALL rule lists and ALL names: the value returned is that of the rule
    with the most labels among the rules whose labels are a label suffix of the
    name's, the last added among equals; [None] iff there is no such rule. *)
Theorem c12_domain_iff {V} (rs : list (str * V)) (n : str) (v : V) :
  sub_match (add_all sub_add rs empty_trie) n = Some v <->
  exists rs1 r rs2, rs = rs1 ++ (r, v) :: rs2 /\
    prefix_of (labels r) (labels n) /\
    (forall r' v', In (r', v') rs1 -> prefix_of (labels r') (labels n) ->
                   (length (labels r') <= length (labels r))%nat) /\
    (forall r' v', In (r', v') rs2 -> prefix_of (labels r') (labels n) ->
                   (length (labels r') < length (labels r))%nat).
Proof. exact (domain_iff rs n v). Qed.
Print Assumptions c12_domain_iff.

Theorem c12_domain_none_iff {V} (rs : list (str * V)) (n : str) :
  sub_match (add_all sub_add rs empty_trie) n = None <->
  forall r v, In (r, v) rs -> ~ prefix_of (labels r) (labels n).
Proof. exact (domain_none_iff rs n). Qed.
Print Assumptions c12_domain_none_iff.

(** In terms of the strings, for a valid rule pattern and a valid name: the rule
    describes the name iff the normalised name IS the normalised pattern or ends
    with "." ++ pattern ... *)
Theorem c12_domain_label_boundary r n :
  valid_name r -> valid_name n ->
  (prefix_of (labels r) (labels n) <->
   normalize n = normalize r \/ exists m, normalize n = m ++ c_dot :: normalize r).
Proof. exact (domain_describes_string r n). Qed.
Print Assumptions c12_domain_label_boundary.

(** ... and never when the pattern is a mere string suffix (preceded by anything but a dot). *)
Theorem c12_domain_never_string_suffix r n m c :
  valid_name r -> valid_name n ->
  normalize n = m ++ c :: normalize r -> c <> c_dot ->
  ~ prefix_of (labels r) (labels n).
Proof. exact (domain_not_string_suffix r n m c). Qed.
Print Assumptions c12_domain_never_string_suffix.

(** ** 'keyword:' rules match any substring *)

Theorem c12_contains_iff s k : contains s k = true <-> exists a b, s = a ++ k ++ b.
Proof. exact (contains_iff s k). Qed.
Print Assumptions c12_contains_iff.

(** [v] may be returned iff it is the value of a keyword rule whose normalised
    keyword occurs in the normalised name and which was not overwritten by a
    later rule with the same keyword. *)
Theorem c12_keyword_iff {V} (rs : list (str * V)) (n : str) (v : V) :
  In v (kw_allowed (add_all kw_add rs []) n) <->
  exists rs1 p rs2, rs = rs1 ++ (p, v) :: rs2 /\
    contains (normalize n) (normalize p) = true /\
    Forall (fun r => normalize (fst r) <> normalize p) rs2.
Proof. exact (keyword_iff rs n v). Qed.
Print Assumptions c12_keyword_iff.

(** ** 'regexp:' rules match by regular expression on the normalised name; the
    expression itself is taken as written; one that does not compile is no rule *)

Theorem c12_regexp_iff {V} (re_valid : str -> bool) (re_match : str -> str -> bool)
        (rs : list (str * V)) (n : str) (v : V) :
  In v (re_allowed re_match (add_all (re_add_skip re_valid) rs []) n) <->
  exists rs1 e rs2, rs = rs1 ++ (e, v) :: rs2 /\
    re_valid e = true /\ re_match e (normalize n) = true /\
    Forall (fun r => fst r <> e) rs2.
Proof. exact (regexp_iff re_valid re_match rs n v). Qed.
Print Assumptions c12_regexp_iff.

(** ** rule strings: "type:pattern" split at the first colon; default type otherwise *)

Theorem c12_rule_type_prefix dflt typ pat :
  nocolon typ -> typ <> [] -> parse_rule dflt (typ ++ c_colon :: pat) = dispatch typ pat.
Proof. exact (parse_rule_prefixed dflt typ pat). Qed.
Print Assumptions c12_rule_type_prefix.

Theorem c12_rule_default_type dflt s : nocolon s -> parse_rule dflt s = dispatch dflt s.
Proof. exact (parse_rule_default dflt s). Qed.
Print Assumptions c12_rule_default_type.

Theorem c12_rule_empty_type dflt pat : parse_rule dflt (c_colon :: pat) = dispatch dflt pat.
Proof. exact (parse_rule_empty_type dflt pat). Qed.
Print Assumptions c12_rule_empty_type.

(** the four type names, and nothing else, select a matcher *)
Theorem c12_type_names typ :
  (typ = s_full /\ type_of_name typ = Some TFull) \/
  (typ = s_domain /\ type_of_name typ = Some TDomain) \/
  (typ = s_regexp /\ type_of_name typ = Some TRegexp) \/
  (typ = s_keyword /\ type_of_name typ = Some TKeyword) \/
  (typ <> s_full /\ typ <> s_domain /\ typ <> s_regexp /\ typ <> s_keyword /\ type_of_name typ = None).
Proof. exact (type_of_name_cases typ). Qed.
Print Assumptions c12_type_names.

(** ** the mix matcher (domain sets, hosts, redirect) *)

(** A set matches a name if and only if some rule describes it — for all rule
    lists (any mix of types, rules that are refused included), all default
    types, all names. [describes] unfolds to: full = same normalised string,
    domain = label suffix, regexp = compiles and matches the normalised name,
    keyword = substring of the normalised name. *)
Theorem c12_mix_iff {V} (re_valid : str -> bool) (re_match : str -> str -> bool)
        (dflt : str) (rs : list (str * V)) (n : str) :
  mix_allowed re_match (fst (mix_add_all re_valid dflt rs empty_mix)) n <> [] <->
  exists s v, In (s, v) rs /\ describes re_valid re_match dflt s n.
Proof. exact (mix_iff re_valid re_match dflt rs n). Qed.
Print Assumptions c12_mix_iff.

(** The value: that of the full matcher on the full rules if it matches, else of
    the domain matcher on the domain rules, else of a matching regexp, else of
    a matching keyword (each characterised by the theorems above). *)
Theorem c12_mix_value_precedence {V} (re_valid : str -> bool) (re_match : str -> str -> bool)
        (dflt : str) (rs : list (str * V)) (n : str) :
  mix_allowed re_match (fst (mix_add_all re_valid dflt rs empty_mix)) n =
  match full_match (add_all full_add (rules_of dflt TFull rs) []) n with
  | Some v => [v]
  | None =>
    match sub_match (add_all sub_add (rules_of dflt TDomain rs) empty_trie) n with
    | Some v => [v]
    | None =>
      match re_allowed re_match (add_all (re_add_skip re_valid) (rules_of dflt TRegexp rs) []) n with
      | (_ :: _) as vs => vs
      | [] => kw_allowed (add_all kw_add (rules_of dflt TKeyword rs) []) n
      end
    end
  end.
Proof. exact (mix_precedence re_valid re_match dflt rs n). Qed.
Print Assumptions c12_mix_value_precedence.

(** [rules_of dflt ty rs] are exactly the patterns of the rule strings of type [ty] *)
Theorem c12_rules_of_type {V} dflt ty (rs : list (str * V)) pat v :
  In (pat, v) (rules_of dflt ty rs) <-> exists s, In (s, v) rs /\ parse_rule dflt s = Ok (ty, pat).
Proof. exact (in_rules_of dflt ty rs pat v). Qed.
Print Assumptions c12_rules_of_type.

(** ** consumers that drop an empty set (domain_set, base_domain / qname): [if m.Len() > 0] *)

(** One accepted rule of any single type — full, keyword, a regexp that compiles,
    or a domain rule other than the root domain — makes Len() positive whatever
    else the set contains, so the provider keeps the loaded set and c12_mix_iff
    applies to what the consumer sees. (A set whose only rules are root-domain
    rules "domain:" / "." has Len() = 0 in the code and is dropped; such patterns
    have an empty label and are outside the property.) *)
Theorem c12_nonempty_set_is_kept {V} (re_valid : str -> bool) dflt (rs : list (str * V)) s v ty pat :
  In (s, v) rs -> parse_rule dflt s = Ok (ty, pat) ->
  (ty = TRegexp -> re_valid pat = true) ->
  (ty = TDomain -> labels pat <> []) ->
  0 < mix_len (fst (mix_add_all re_valid dflt rs empty_mix)).
Proof. exact (mix_len_pos re_valid dflt rs s v ty pat). Qed.
Print Assumptions c12_nonempty_set_is_kept.

(** ** sets assembled from several members ([sets:] of domain_set, [$tag] of the qname matcher) *)

(** A group of member matchers, each loaded from its own rule list, matches a
    name iff some rule of some member describes it (the union of the rules). *)
Theorem c12_group_iff {V} (re_valid : str -> bool) (re_match : str -> str -> bool)
        dflt (rss : list (list (str * V))) n :
  group_matches re_match (map (fun rs => fst (mix_add_all re_valid dflt rs empty_mix)) rss) n = true <->
  exists rs s v, In rs rss /\ In (s, v) rs /\ describes re_valid re_match dflt s n.
Proof. exact (group_iff re_valid re_match dflt rss n). Qed.
Print Assumptions c12_group_iff.

(** What a domain_set hands out: its own matcher (when Len() > 0) and every member
    of every referenced set; nesting is flattened, every member counts. *)
Theorem c12_set_of_sets {V} (re_match : str -> str -> bool) (own : @mix V) (refs : list (list (@mix V))) n :
  group_matches re_match (set_members own refs) n =
  (negb (mix_len own =? 0) && group_matches re_match [own] n)
  || existsb (fun g => group_matches re_match g n) refs.
Proof. exact (set_members_matches re_match own refs n). Qed.
Print Assumptions c12_set_of_sets.

(** ** text files: one rule per line, '#' comments, surrounding white space, blank lines *)

(** The loader runs Load on every rule line the scanner delivers and stops at the
    first refused line; it reports success only if no line was refused AND the
    scanner read the text to its end ([scan_lines]: bufio.Scanner gives up on a
    line of 64 KiB or more). *)
Theorem c12_loader_lines {V} (re_valid : str -> bool) (parse : @parse_fn V) dflt text (m : mix) :
  fst (load_text re_valid parse dflt text m) = fst (load_list re_valid parse dflt 0 (delivered_rules text) m) /\
  (snd (load_text re_valid parse dflt text m) = 0 <->
   snd (load_list re_valid parse dflt 0 (delivered_rules text) m) = 0 /\ snd (scan_lines text) = false).
Proof. exact (load_text_scanned re_valid parse dflt text m). Qed.
Print Assumptions c12_loader_lines.

(** Either the load reports an error, or EVERY rule line of the text is in the
    set: a successful load equals Load on all the rule strings of the whole text
    ([text_rules] splits the complete text, whatever the line lengths). *)
Theorem c12_loader_complete {V} (re_valid : str -> bool) (parse : @parse_fn V) dflt text (m : mix) :
  snd (load_text re_valid parse dflt text m) = 0 ->
  snd (scan_lines text) = false /\
  fst (load_text re_valid parse dflt text m) = fst (load_list re_valid parse dflt 0 (text_rules text) m) /\
  snd (load_list re_valid parse dflt 0 (text_rules text) m) = 0.
Proof. exact (load_text_complete re_valid parse dflt text m). Qed.
Print Assumptions c12_loader_complete.

(** The scanner delivers all lines unless it gives up, and never gives up on a text under 64 KiB. *)
Theorem c12_scanner_delivers_all text :
  snd (scan_lines text) = false -> fst (scan_lines text) = split_lines text.
Proof. exact (scan_lines_ok text). Qed.
Print Assumptions c12_scanner_delivers_all.

Theorem c12_scanner_short_text text :
  N.of_nat (length text) < max_scan_token -> snd (scan_lines text) = false.
Proof. exact (scan_lines_short text). Qed.
Print Assumptions c12_scanner_short_text.

Theorem c12_loader_adds {V} (re_valid : str -> bool) (parse : @parse_fn V) dflt ss idx (m m' : mix) :
  load_list re_valid parse dflt idx ss m = (m', 0) ->
  exists rules, map parse ss = map Some rules /\
                mix_add_all re_valid dflt rules m = (m', map (fun _ => 0) rules).
Proof. exact (load_list_ok re_valid parse dflt ss idx m m'). Qed.
Print Assumptions c12_loader_adds.

Theorem c12_comment_removed l :
  exists rest, l = remove_comment l ++ rest /\ nohash (remove_comment l) /\
               (rest = [] \/ exists r, rest = c_hash :: r).
Proof. exact (remove_comment_spec l). Qed.
Print Assumptions c12_comment_removed.

Theorem c12_trimmed s :
  exists a b, s = a ++ trim_space s ++ b /\ all_space a /\ all_space b /\
    match trim_space s with [] => True | c :: _ => is_space c = false end /\
    match rev (trim_space s) with [] => True | c :: _ => is_space c = false end.
Proof. exact (trim_space_spec s). Qed.
Print Assumptions c12_trimmed.

(** ** non-vacuity *)

(** "B.A." and "ab.a" are valid names; with the rules domain:a=1, domain:B.A.=2,
    domain:b.a=3, full:ab.a=4, keyword:b=5 and an engine that matches nothing:
    "x.b.a" gets 3 (longest domain rule, last added among equals), "ab.a" gets 4
    (full wins), "ab.a." too, "ab.ab" gets 5 (keyword only), "bb.a" gets 1 (not 3:
    "b.a" is only a string suffix), "x" nothing. *)
Example c12_nonvacuous :
  let d := [100; 111; 109; 97; 105; 110; 58] in   (* "domain:" *)
  let rs := [(d ++ [97], 1); (d ++ [66; 46; 65; 46], 2); (d ++ [98; 46; 97], 3);
             ([102; 117; 108; 108; 58; 97; 98; 46; 97], 4);
             ([107; 101; 121; 119; 111; 114; 100; 58; 98], 5)] in
  let m := fst (mix_add_all (fun _ => false) [] rs empty_mix) in
  let ask := mix_allowed (fun _ _ => false) m in
  valid_name [66; 46; 65; 46] /\ valid_name [97; 98; 46; 97] /\
  ask [120; 46; 98; 46; 97] = [3] /\ ask [97; 98; 46; 97] = [4] /\ ask [65; 66; 46; 97; 46] = [4] /\
  ask [97; 98; 46; 97; 98] = [5] /\ ask [98; 98; 46; 97] = [1] /\ ask [120] = [].
Proof.
  cbv zeta. split; [|split]; [repeat constructor; discriminate | repeat constructor; discriminate |].
  vm_compute. repeat split.
Qed.
