(** C20 — fallback prefers the primary and fails over only when it should.

    Only statements, each closed by [exact] of a lemma from Proofs/Fallback.v.

    Every theorem quantifies over ALL parameter values — primary outcome and
    secondary outcome in {answer, no answer, error}, always_standby on/off,
    whether the threshold timer / the workers' deadline / the caller's context
    may fire during the call — and over ALL interleavings of the primary
    worker, the secondary worker, the collecting caller and those environment
    events: [reachable (step p) (init p) s] holds for every state [s] of every
    run of the model Model/Fallback.v. The state space is genuinely finite
    (two workers, one collector, a result channel of capacity
    [fallback_chan_cap] = 2, five set-once flags), which is what makes the
    proof by exhaustive exploration (kernel-checked closure + [vm_compute]) a
    proof for all schedules.

    The order of the primary's two statements is NOT fixed by hand:
    [source_params] takes it from Gen/FallbackFacts.v, which tools/gofacts
    regenerates from fallback.go on every run; with the original order
    (close(primDone) before respChan <- r) these proofs do not go through and
    [c20_original_order_refuted] exhibits the bad run (finding F8, repaired).

    Vocabulary: [col s = C_ret r] — the call has returned [r]
    ([RAns WP] primary's answer, [RAns WS] secondary's answer, [RFail]
    ErrFailed, [RCtx] the context's error); [p_sig s = PSintime] — when the
    primary executed its first signalling statement neither the threshold
    timer nor the workers' deadline had fired ("the primary produced its
    result within the threshold"). *)
From Verif Require Import Base.Prelude Gen.Constants Gen.FallbackFacts Model.Fallback Proofs.Fallback.
Open Scope N_scope.

(** The primary's answer is returned whenever the primary produces one within
    the threshold (unless the caller's context ended first). *)
Theorem c20_primary_wins_in_time po so sb tm dm cm s r :
  let p := source_params po so sb tm dm cm in
  reachable (step p) (init p) s ->
  po = OAns -> p_sig s = PSintime -> col s = C_ret r -> r = RAns WP \/ r = RCtx.
Proof. exact (fun R => primary_wins_in_time (source_params po so sb tm dm cm) s eq_refl R r). Qed.
Print Assumptions c20_primary_wins_in_time.

(** The secondary's answer is used only if the primary failed (error or no
    answer), or the threshold (or the workers' deadline, see the report) passed
    before the primary signalled. *)
Theorem c20_secondary_only_if_needed po so sb tm dm cm s :
  let p := source_params po so sb tm dm cm in
  reachable (step p) (init p) s ->
  col s = C_ret (RAns WS) ->
  prim_failed s = true \/ (p_sig s <> PSintime /\ (timer_fired s = true \/ sdl_fired s = true)).
Proof. exact (secondary_only_if_needed (source_params po so sb tm dm cm) s eq_refl). Qed.
Print Assumptions c20_secondary_only_if_needed.

(** ... in which case (in every case, in fact) the first answer to arrive
    wins: a returned answer is the first non-nil result that was queued. *)
Theorem c20_first_to_arrive_wins po so sb tm dm cm s w :
  let p := source_params po so sb tm dm cm in
  reachable (step p) (init p) s ->
  col s = C_ret (RAns w) -> first_ans s = Some w.
Proof. exact (fun R => first_to_arrive_wins (source_params po so sb tm dm cm) s eq_refl R w). Qed.
Print Assumptions c20_first_to_arrive_wins.

(** Returned answers are genuine: the worker named really produced one. *)
Theorem c20_answers_genuine po so sb tm dm cm s :
  let p := source_params po so sb tm dm cm in
  reachable (step p) (init p) s ->
  (col s = C_ret (RAns WP) -> po = OAns) /\ (col s = C_ret (RAns WS) -> so = OAns).
Proof. exact (answers_genuine (source_params po so sb tm dm cm) s eq_refl). Qed.
Print Assumptions c20_answers_genuine.

(** An error is reported only if both fail — and, unless the context ended,
    it IS reported when both fail. *)
Theorem c20_error_iff_both_fail po so sb tm dm cm s r :
  let p := source_params po so sb tm dm cm in
  reachable (step p) (init p) s ->
  col s = C_ret r -> r <> RCtx -> (r = RFail <-> (po <> OAns /\ so <> OAns)).
Proof. exact (fun R => error_iff_both_fail (source_params po so sb tm dm cm) s eq_refl R r). Qed.
Print Assumptions c20_error_iff_both_fail.

(** Without always_standby the secondary is not even started unless the
    primary has failed or the threshold timer has fired. *)
Theorem c20_no_standby_secondary_not_started_before_threshold po so tm dm cm s :
  let p := source_params po so false tm dm cm in
  reachable (step p) (init p) s ->
  ev_s_started s = true -> prim_failed s = true \/ timer_fired s = true.
Proof. exact (fun R => no_standby_secondary_not_started_before_threshold (source_params po so false tm dm cm) s eq_refl R eq_refl). Qed.
Print Assumptions c20_no_standby_secondary_not_started_before_threshold.

(** With always_standby a finished secondary holding an answer waits: it gets
    past its standby select only after primDone, primFailed, the timer or its
    deadline ... *)
Theorem c20_standby_secondary_waits po tm dm cm s :
  let p := source_params po OAns true tm dm cm in
  reachable (step p) (init p) s ->
  ev_s_sendhook s = true ->
  prim_done s = true \/ prim_failed s = true \/ timer_fired s = true \/ sdl_fired s = true.
Proof. exact (fun R => standby_secondary_waits (source_params po OAns true tm dm cm) s eq_refl R eq_refl eq_refl). Qed.
Print Assumptions c20_standby_secondary_waits.

(** ... and its answer is discarded if the primary succeeds in time. *)
Theorem c20_standby_answer_discarded_when_primary_ok so tm dm cm s :
  let p := source_params OAns so true tm dm cm in
  reachable (step p) (init p) s ->
  p_sig s = PSintime -> col s <> C_ret (RAns WS).
Proof. exact (fun R => standby_answer_discarded_when_primary_ok (source_params OAns so true tm dm cm) s eq_refl R eq_refl eq_refl). Qed.
Print Assumptions c20_standby_answer_discarded_when_primary_ok.

(** The call ends when the caller's context ends: once it has ended the
    collector can return the context's error at once, whatever the workers
    do; and that error is returned only if the context has ended. *)
Theorem c20_ends_with_ctx po so sb tm dm cm s :
  let p := source_params po so sb tm dm cm in
  reachable (step p) (init p) s ->
  ctx_done s = true -> returned s = false ->
  exists s', In s' (step p s) /\ col s' = C_ret RCtx.
Proof. exact (ends_with_ctx (source_params po so sb tm dm cm) s eq_refl). Qed.
Print Assumptions c20_ends_with_ctx.

Theorem c20_ctx_error_only_when_ctx_ended po so sb tm dm cm s :
  let p := source_params po so sb tm dm cm in
  reachable (step p) (init p) s ->
  col s = C_ret RCtx -> ctx_done s = true.
Proof. exact (ctx_error_only_when_ctx_ended (source_params po so sb tm dm cm) s eq_refl). Qed.
Print Assumptions c20_ctx_error_only_when_ctx_ended.

(** No deadlock, no leak. While the call has not returned, some goroutine can
    move without any timer, deadline or context event (the executables are
    assumed to return); every step decreases a measure, so every run is
    finite; in a state where nothing can move the call has returned and both
    workers have finished; and a worker is never blocked on the result
    channel (queued + still-to-be-sent results never exceed its capacity). *)
Theorem c20_progress_without_environment po so sb tm dm cm s :
  let p := source_params po so sb tm dm cm in
  reachable (step p) (init p) s ->
  returned s = false -> sys_step p s <> [].
Proof. exact (progress_without_environment (source_params po so sb tm dm cm) s eq_refl). Qed.
Print Assumptions c20_progress_without_environment.

Theorem c20_runs_are_finite po so sb tm dm cm s s' :
  let p := source_params po so sb tm dm cm in
  reachable (step p) (init p) s -> In s' (step p s) -> (measure s' < measure s)%nat.
Proof. exact (steps_decrease (source_params po so sb tm dm cm) s s' eq_refl). Qed.
Print Assumptions c20_runs_are_finite.

Theorem c20_terminal_returned po so sb tm dm cm s :
  let p := source_params po so sb tm dm cm in
  reachable (step p) (init p) s ->
  terminal p s = true -> returned s = true /\ workers_done s = true.
Proof. exact (terminal_returned (source_params po so sb tm dm cm) s eq_refl). Qed.
Print Assumptions c20_terminal_returned.

Theorem c20_channel_never_blocks po so sb tm dm cm s :
  let p := source_params po so sb tm dm cm in
  reachable (step p) (init p) s ->
  (length (chan s) + (if p_will_send p s then 1 else 0) + (if s_may_send s then 1 else 0) <= 2)%nat.
Proof. exact (channel_never_blocks (source_params po so sb tm dm cm) s eq_refl). Qed.
Print Assumptions c20_channel_never_blocks.

(** Runs under a scheduler that holds goroutines at the schedule points (what
    the harness does, and what Judge.C20.agree explores) are runs of [step]:
    all theorems above apply to them. *)
Theorem c20_gated_runs_are_runs g p s :
  reachable (gstep g p) (init p) s -> reachable (step p) (init p) s.
Proof. exact (greachable_sub g p s). Qed.
Print Assumptions c20_gated_runs_are_runs.

(** Finding F8 (repaired): with the ORIGINAL statement order an
    always_standby secondary overtakes a primary that answered in time. *)
Theorem c20_original_order_refuted :
  exists s, let p := mkP OAns OAns true false false false false in
            reachable (step p) (init p) s
            /\ p_sig s = PSintime /\ prim_failed s = false /\ timer_fired s = false /\ sdl_fired s = false
            /\ col s = C_ret (RAns WS).
Proof. exact standby_race_refuted. Qed.
Print Assumptions c20_original_order_refuted.

(** "The threshold" of all statements above is the configured one: the
    duration newFallbackPlugin stores (the function
    [fallback_effective_threshold], translated by tools/gofacts from the
    statements that compute fallback.fastFallbackDuration from
    args.Threshold, in ns) is exactly the configured number of milliseconds
    whenever that is positive (up to the int64 range of time.Duration, where
    the translation into Z is faithful), and the default
    [fallback_default_threshold] (500 ms) when it is unset, 0 or negative;
    and it is the function [effective_threshold] that Judge.C20 compares the
    real constructor with. *)
Theorem c20_configured_threshold_is_effective cfg :
  (0 < cfg)%Z -> (cfg * 1000000 < 2 ^ 63)%Z ->
  fallback_effective_threshold cfg = (cfg * 1000000)%Z.
Proof. exact (fun H _ => source_threshold_configured cfg H). Qed.
Print Assumptions c20_configured_threshold_is_effective.

Theorem c20_unset_threshold_is_default cfg :
  (cfg <= 0)%Z -> fallback_effective_threshold cfg = fallback_default_threshold.
Proof. exact (source_threshold_default cfg). Qed.
Print Assumptions c20_unset_threshold_is_default.

Theorem c20_source_threshold_as_modelled cfg :
  fallback_effective_threshold cfg = effective_threshold cfg.
Proof. exact (source_threshold_as_modelled cfg). Qed.
Print Assumptions c20_source_threshold_as_modelled.

(** The outcome of a call does not depend on earlier calls on the same
    instance, however they ended (answered, failed, abandoned by their caller
    with workers still running): a call shares nothing with other calls but
    the timer pool, and the threshold timer is owned by the secondary
    goroutine from Get to its deferred Release ([timer_private], regenerated
    from the source), so the model of any call of a sequence is the
    single-call model all theorems above are about. *)
Theorem c20_calls_independent earlier p : call_model earlier p = Some (init p).
Proof. exact (calls_independent earlier p). Qed.
Print Assumptions c20_calls_independent.

(** The structure of doFallback that the model transcribes, as tools/gofacts
    finds it in the source: statement orders, channel capacity, collection
    rounds, the cases of the secondary's two selects, and the duration the
    threshold timer is armed with (the configured field itself: the threshold
    counts from the moment the plugin is entered, whatever the age of the
    query context). *)
From Coq Require Import String.
Example c20_source_shape_as_modelled :
  fallback_send_before_done = true /\ fallback_fail_close_before_send = true
  /\ fallback_chan_cap = 2 /\ fallback_collect_rounds = 2
  /\ fallback_wait_cases = ["primDone return"; "primFailed"; "timer.C"]%string
  /\ fallback_hold_cases = ["ctx.Done()"; "primDone"; "primFailed"; "timer.C"]%string
  /\ fallback_timer_owned_by_secondary = true
  /\ fallback_timer_arg = "f.fastFallbackDuration"%string
  /\ fallback_standby_field_from = "args.AlwaysStandby"%string
  /\ fallback_default_threshold = 500000000%Z.
Proof. repeat split. Qed.

(** Non-vacuity: with always_standby and both workers answering there is a
    run in which the secondary finishes first and waits, the primary answers
    in time, the timer fires afterwards, the secondary queues its answer
    too — and the call returns the primary's answer. *)
Example c20_nonvacuous :
  let p := source_params OAns OAns true true false false in
  exists s, reachable (step p) (init p) s
            /\ p_sig s = PSintime /\ ev_s_sendhook s = true /\ timer_fired s = true
            /\ first_ans s = Some WP /\ col s = C_ret (RAns WP) /\ terminal p s = true.
Proof.
  cbv zeta.
  destruct (follow (step (source_params OAns OAns true true false false))
                   (init (source_params OAns OAns true true false false))
                   [1; 1; 0; 0; 1; 0; 0; 0]%nat) as [s|] eqn:F; [|vm_compute in F; discriminate].
  exists s. split.
  - exact (follow_reachable _ _ _ _ _ (reach_init _ _) F).
  - vm_compute in F. injection F as <-. vm_compute. repeat split.
Qed.
