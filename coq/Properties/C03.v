(** C03 — every valid query gets one reply with its own ID and question.
    Only statements, each closed by [exact] of a lemma from Proofs/Handler.v.

    Reading guide (see also Properties/C15.v). [entry ups clock xp wp mp prog]
    is the entry sequence [prog] — ANY program (rules, matchers, accept /
    reject / return / jump / goto, nested to any depth) over ANY tables of the
    modelled plugins: cache, redirect, ecs_handler, forward_edns0opt, the
    dual-stack selector ([wp]), hosts, black_hole, arbitrary, ttl, forward,
    drop_resp, fallback over two sub-programs ([xp]; [depth] bounds how deep
    fallbacks nest, the theorems hold for every bound) and read-only matchers
    ([mp]) — run on the fresh context [new_context q udp ca] and the
    plugin state [w]; it yields the context [c], the new plugin state and the
    error [err] of Entry.Exec. [reply_msg truncate c err] is the message Handle
    then hands to the pack function, [handle ...] all of Handle.

    Hypotheses. The upstream oracles echo the question ([ups_echo]); the
    caches are consistent ([store_ok]: every entry answers the question its
    key was built from — true of the empty cache and preserved, theorem
    [store_ok_preserved], which is where the guard of commit 8cf695f is needed);
    Qtype/Qclass are 16 bit ([wf_question]); miekg's Truncate and the pack
    function are known through their contracts only.

    fallback and dual_selector run sub-chains on copies of the context in
    other goroutines; the model sequences them and leaves their timers out
    (fallback's threshold does not expire, dual_selector's reference query
    answers within its grace period): which copy is adopted is then a function
    of the sub-results, and the theorems hold for it whatever they are.

    The lazy cache ([WCache inst lazy], lazy > 0) serves a retained stale entry
    and refreshes it by running the rest of the chain on a copy; that run is
    sequenced before the foreground's. [w_stale] says which entries are stale,
    [w_sf] that a refresh is in flight; the theorems hold for every value. *)
From Verif Require Import Base.Prelude Gen.Constants.
From Verif Require Import Model.Msg Model.Handler Model.Sequence Model.Plugins Proofs.Handler.
From Verif Require Model.CacheKey Proofs.CacheKey.
From Verif Require Judge.C03.
Open Scope N_scope.

(** Malformed queries (QR set, not exactly one question, answer or authority
    records, more than one additional record) get no DNS reply, whatever the
    program; the plugins are not even run. *)
Theorem malformed_dropped ups clock xp wp mp truncate packs depth prog w q udp ca :
  m_qr q = true \/ length (m_question q) <> 1%nat \/ m_answer q <> [] \/ m_ns q <> [] \/ (1 < length (m_extra q))%nat ->
  handle truncate packs (entry ups clock xp wp mp depth prog) w q udp ca = (w, None).
Proof. exact (malformed_dropped ups clock xp wp mp truncate packs depth prog w q udp ca). Qed.
Print Assumptions malformed_dropped.

(** Every well-formed query receives exactly one reply, and it carries the
    query's ID and question (name bytes, type, class) unchanged with QR and RA
    set — for EVERY program over the modelled plugins. The reply exists when
    the outcome's rcode is 0..15 or the client sent an OPT (an extended rcode
    cannot be packed otherwise) and the message fits 65535 bytes. *)
Theorem reply_exactly_one_id_question ups clock xp wp mp truncate packs plen depth prog w q udp ca qu c w' err :
  (forall u q r, ups u q = Some r -> m_id r = m_id q /\ m_question r = m_question q /\ m_qr r = true) ->
  (forall size m, trunc_rel m (truncate size m) = true) ->
  (forall m, (m_rcode m < 16 \/ opts_of (m_extra m) <> []) -> plen m <= 65535 -> packs m = true) ->
  valid_query q = true -> m_question q = [qu] -> CacheKey.wf_question qu -> store_ok w ->
  entry ups clock xp wp mp depth prog (new_context q udp ca, w) = ((c, w'), err) ->
  (m_rcode (base_reply c err) < 16 \/ find_opt (m_extra q) <> None) ->
  plen (reply_msg truncate c err) <= 65535 ->
  exists r, handle truncate packs (entry ups clock xp wp mp depth prog) w q udp ca = (w', Some r)
            /\ r = reply_msg truncate c err
            /\ m_id r = m_id q /\ m_question r = m_question q /\ m_qr r = true /\ m_ra r = true
            /\ store_ok w'.
Proof.
  exact (fun H1 H2 H3 => reply_exactly_one_id_question ups clock xp wp mp truncate packs depth plen H1 H2 H3
                           prog w q udp ca qu c w' err).
Qed.
Print Assumptions reply_exactly_one_id_question.

(** SERVFAIL if the plugin chain returned an error: that rcode and no record
    besides the response OPT. *)
Theorem servfail_on_error ups clock xp wp mp truncate depth prog w q udp ca qu c w' e :
  (forall u q r, ups u q = Some r -> m_id r = m_id q /\ m_question r = m_question q /\ m_qr r = true) ->
  (forall size m, trunc_rel m (truncate size m) = true) ->
  valid_query q = true -> m_question q = [qu] -> CacheKey.wf_question qu -> store_ok w ->
  entry ups clock xp wp mp depth prog (new_context q udp ca, w) = ((c, w'), Some e) ->
  let r := reply_msg truncate c (Some e) in
  m_rcode r = rcode_servfail /\ m_answer r = [] /\ m_ns r = []
  /\ m_extra r = match c_resp_opt c with Some o => [OPT o] | None => [] end.
Proof. exact (fun H1 H2 => servfail_on_error ups clock xp wp mp truncate depth H1 H2 prog w q udp ca qu c w' e). Qed.
Print Assumptions servfail_on_error.

(** REFUSED if it produced no answer. *)
Theorem refused_on_no_answer ups clock xp wp mp truncate depth prog w q udp ca qu c w' :
  (forall u q r, ups u q = Some r -> m_id r = m_id q /\ m_question r = m_question q /\ m_qr r = true) ->
  (forall size m, trunc_rel m (truncate size m) = true) ->
  valid_query q = true -> m_question q = [qu] -> CacheKey.wf_question qu -> store_ok w ->
  entry ups clock xp wp mp depth prog (new_context q udp ca, w) = ((c, w'), None) -> c_resp c = None ->
  let r := reply_msg truncate c None in
  m_rcode r = Msg.rcode_refused /\ m_answer r = [] /\ m_ns r = []
  /\ m_extra r = match c_resp_opt c with Some o => [OPT o] | None => [] end.
Proof. exact (fun H1 H2 => refused_on_no_answer ups clock xp wp mp truncate depth H1 H2 prog w q udp ca qu c w'). Qed.
Print Assumptions refused_on_no_answer.

(** Otherwise the plugins' answer [a]: RA forced and the response OPT appended
    ([finish_reply c a]), sent as is over TCP; over UDP any truncation of it
    that the contract of Msg.Truncate allows (header, rcode and question kept,
    a prefix of each section, OPT kept, TC = TC || dropped). *)
Theorem answer_is_plugins_answer ups clock xp wp mp truncate depth prog w q udp ca qu c w' a :
  (forall u q r, ups u q = Some r -> m_id r = m_id q /\ m_question r = m_question q /\ m_qr r = true) ->
  (forall size m, trunc_rel m (truncate size m) = true) ->
  valid_query q = true -> m_question q = [qu] -> CacheKey.wf_question qu -> store_ok w ->
  entry ups clock xp wp mp depth prog (new_context q udp ca, w) = ((c, w'), None) -> c_resp c = Some a ->
  let r := reply_msg truncate c None in
  let full := finish_reply c a in
  m_rcode r = m_rcode a /\ m_opcode r = m_opcode a
  /\ trunc_rel full r = true /\ (udp = false -> r = full)
  /\ m_answer full = m_answer a /\ m_ns full = m_ns a
  /\ m_extra full = m_extra a ++ match c_resp_opt c with Some o => [OPT o] | None => [] end.
Proof. exact (fun H1 H2 => answer_is_plugins_answer ups clock xp wp mp truncate depth H1 H2 prog w q udp ca qu c w' a). Qed.
Print Assumptions answer_is_plugins_answer.

(** Over UDP the reply never exceeds max(512, the client's advertised EDNS size) bytes. *)
Theorem udp_size_bound ups clock xp wp mp truncate plen depth prog w q ca c w' err :
  (forall size m, plen (truncate size m) <= N.max 512 size) ->
  entry ups clock xp wp mp depth prog (new_context q true ca, w) = ((c, w'), err) ->
  plen (reply_msg truncate c err) <= N.max 512 (advertised q).
Proof. exact (fun H => udp_size_bound ups clock xp wp mp truncate depth plen H prog w q ca c w' err). Qed.
Print Assumptions udp_size_bound.

(** ... and sets TC when records were dropped to fit (and otherwise leaves TC as it was). *)
Theorem tc_iff_dropped ups clock xp wp mp truncate depth prog w q udp ca qu c w' err :
  (forall u q r, ups u q = Some r -> m_id r = m_id q /\ m_question r = m_question q /\ m_qr r = true) ->
  (forall size m, trunc_rel m (truncate size m) = true) ->
  valid_query q = true -> m_question q = [qu] -> CacheKey.wf_question qu -> store_ok w ->
  entry ups clock xp wp mp depth prog (new_context q udp ca, w) = ((c, w'), err) ->
  let r := reply_msg truncate c err in
  m_tc r = (m_tc (base_reply c err) || dropped (finish_reply c (base_reply c err)) r).
Proof. exact (fun H1 H2 => tc_iff_dropped ups clock xp wp mp truncate depth H1 H2 prog w q udp ca qu c w' err). Qed.
Print Assumptions tc_iff_dropped.

(** The cache consistency the theorems start from holds for the empty cache and
    survives every query, so they apply to every query of any sequence. *)
Theorem store_ok_preserved ups clock xp wp mp truncate packs depth prog w q udp ca qu :
  (forall u q r, ups u q = Some r -> m_id r = m_id q /\ m_question r = m_question q /\ m_qr r = true) ->
  valid_query q = true -> m_question q = [qu] -> CacheKey.wf_question qu -> store_ok w ->
  store_ok (fst (handle truncate packs (entry ups clock xp wp mp depth prog) w q udp ca)).
Proof. exact (fun H => store_ok_preserved ups clock xp wp mp truncate packs depth H prog w q udp ca qu). Qed.
Print Assumptions store_ok_preserved.

Theorem store_ok_empty : store_ok empty_world.
Proof. exact store_ok_empty. Qed.
Print Assumptions store_ok_empty.

(** * Not vacuous *)

(** An upstream that echoes id and question. *)
Definition up1 (_ : N) (q : msg) : option msg :=
  Some (with_answer (with_question (set_reply q) (m_question q)) [Judge.C15.R [] 1 1 300 7]).
Lemma up1_echo : forall u q r, up1 u q = Some r -> m_id r = m_id q /\ m_question r = m_question q /\ m_qr r = true.
Proof. intros u q r H. inversion H. repeat split. Qed.

(** The shape of the repaired defect F9: [hosts a.test; redirect a.test -> b.test;
    cache; forward]. First a.test (answered by hosts, renamed by redirect, seen
    by the cache), then b.test: the second reply carries b.test's own question,
    id 9, QR and RA. *)
Definition xp1 (i : N) : xplugin :=
  nth (N.to_nat i) [XHosts (fun n => if name_eqb n Judge.C15.n0 then ([5], []) else ([], [])); XForward 0] XDropResp.
Definition wp1 (i : N) : wplugin :=
  nth (N.to_nat i) [WRedirect (fun n => if name_eqb n Judge.C15.n0 then Some Judge.C15.n1 else None); WCache 0 0] (WCache 0 0).
Definition prog1 : rules :=
  RCons (Rule [] (Exec 0)) (RCons (Rule [] (Wrap 0)) (RCons (Rule [] (Wrap 1)) (RCons (Rule [(true, 0)] (Exec 1)) RNil))).
Definition qa1 : msg := Judge.C15.mk 8 256 0 [Judge.C15.Q Judge.C15.n0 1 1] [] [] [].
Definition qb1 : msg := Judge.C15.mk 9 256 0 [Judge.C15.Q Judge.C15.n1 1 1] [] [] [].
Definition run1 := handle (fun _ m => m) (fun _ => true)
                          (entry up1 (fun _ => Some 0) xp1 wp1 (fun _ => MHasResp) 1 prog1).

Example c03_nonvacuous :
  let '(w1, r1) := run1 empty_world qa1 false None in
  let '(w2, r2) := run1 w1 qb1 false None in
  option_map (fun r => (m_id r, m_question r, m_qr r, m_ra r, length (m_answer r))) r1
    = Some (8, [Judge.C15.Q Judge.C15.n0 1 1], true, true, 2%nat)
  /\ option_map (fun r => (m_id r, m_question r, m_qr r, m_ra r, length (m_answer r))) r2
    = Some (9, [Judge.C15.Q Judge.C15.n1 1 1], true, true, 1%nat).
Proof. vm_compute. split; reflexivity. Qed.

(** The theorem applies to that run: its hypotheses hold. *)
Example c03_theorem_applies :
  exists w' r, run1 empty_world qa1 false None = (w', Some r) /\ m_id r = 8 /\ m_question r = m_question qa1.
Proof.
  pose (s := entry up1 (fun _ => Some 0) xp1 wp1 (fun _ => MHasResp) 1 prog1 (new_context qa1 false None, empty_world)).
  assert (Hrc : m_rcode (base_reply (fst (fst s)) (snd s)) = 0) by (vm_compute; reflexivity).
  destruct s as [[c w'] err] eqn:He. cbn [fst snd] in Hrc.
  assert (Hlt : m_rcode (base_reply c err) < 16) by (rewrite Hrc; reflexivity).
  destruct (reply_exactly_one_id_question up1 (fun _ => Some 0) xp1 wp1 (fun _ => MHasResp) (fun _ m => m)
              (fun _ => true) (fun _ => 0) 1%nat prog1 empty_world qa1 false None (Judge.C15.Q Judge.C15.n0 1 1) c w' err
              up1_echo (fun size m => trunc_rel_refl m) (fun _ _ _ => eq_refl) eq_refl eq_refl
              (conj eq_refl eq_refl) store_ok_empty He (or_introl Hlt) (N.le_0_l _))
    as (r & H1 & _ & H3 & H4 & _).
  exists w', r. auto.
Qed.

(** Truncation: a reply the contract allows, with TC set because a record was dropped. *)
Example c03_truncation_example :
  let full := Judge.C15.mk 1 33152 0 [Judge.C15.Q Judge.C15.n0 16 1]
                [Judge.C15.R Judge.C15.n0 16 1 300 1; Judge.C15.R Judge.C15.n0 16 1 300 2] [] [] in
  let cut := Judge.C15.mk 1 33664 0 [Judge.C15.Q Judge.C15.n0 16 1] [Judge.C15.R Judge.C15.n0 16 1 300 1] [] [] in
  trunc_rel full cut = true /\ dropped full cut = true /\ m_tc cut = true.
Proof. vm_compute. repeat split. Qed.

(** fallback and the dual-stack selector: [cache; prefer_ipv4; fallback (forward u0 | hosts)]:
    the AAAA query for a name without A is answered by the primary, with its
    own id and question; with a failing primary the secondary's answer is used. *)
Definition up3 (u : N) (q : msg) : option msg :=
  if u =? 0 then
    match m_question q with
    | qu :: _ => if qtype qu =? 28
                 then Some (with_answer (with_question (set_reply q) (m_question q)) [Judge.C15.R [] 28 1 300 9])
                 else Some (with_question (set_reply q) (m_question q))
    | [] => None
    end
  else None.
Definition sub_p (u : N) : rules := RCons (Rule [] (Exec u)) RNil.
Definition xp3 (i : N) : xplugin :=
  nth (N.to_nat i) [XForward 0; XForward 1; XBlackHole [] [77];
                    XFallback (sub_p 0) (sub_p 2) false; XFallback (sub_p 1) (sub_p 2) true] XDropResp.
Definition wp3 (i : N) : wplugin := nth (N.to_nat i) [WCache 0 0; WDual 0 false] (WCache 0 0).
Definition prog3 (fb : N) : rules :=
  RCons (Rule [] (Wrap 0)) (RCons (Rule [] (Wrap 1)) (RCons (Rule [] (Exec fb)) RNil)).
Definition q3 : msg := Judge.C15.mk 11 256 0 [Judge.C15.Q Judge.C15.n3 28 1] [] [] [].

Example c03_fallback_dual_nonvacuous :
  let run fb := snd (handle (fun _ m => m) (fun _ => true)
                            (entry up3 (fun _ => Some 0) xp3 wp3 (fun _ => MHasResp) 2 (prog3 fb))
                            empty_world q3 true None) in
  option_map (fun r => (m_id r, m_question r, m_qr r, m_ra r, m_answer r)) (run 3)
    = Some (11, [Judge.C15.Q Judge.C15.n3 28 1], true, true, [Judge.C15.R [] 28 1 300 9])
  /\ option_map (fun r => (m_id r, m_question r, m_qr r, m_ra r, m_answer r)) (run 4)
    = Some (11, [Judge.C15.Q Judge.C15.n3 28 1], true, true, [Judge.C15.R Judge.C15.n3 28 1 300 77]).
Proof. split; vm_compute; reflexivity. Qed.
