(** C02 — a reply that arrives in time is never lost (pipelined / UDP connection).
    Statements only; proofs in Proofs/Tdc.v. "The reply is received" is the
    reader's hand-off step [LHandoff] (the reader has read the frame and
    dispatched it); every schedule of callers, reader, faults and cancellation
    is a label list. *)
From Verif Require Import Base.Prelude Gen.Constants Model.Tdc Proofs.Tdc.
From Verif Require Model.Reuse Proofs.Reuse.
Open Scope N_scope.

(** Once a reply has been handed to a call, the only thing that call can ever
    return is that reply (with the caller's id restored) — whatever follows:
    EOF, read error, write error, Close, context expiry, further replies. *)
Theorem c02_reply_not_lost maxcq tcp nq ls s c r res :
  run (init maxcq tcp nq) ls = Some s ->
  cgot (calls s c) = Some r -> cres (calls s c) = Some res ->
  res = ROk (restore (calls s c) r).
Proof. exact (reply_not_lost maxcq tcp nq ls s c r res). Qed.
Print Assumptions c02_reply_not_lost.

(** The hand-off of the first reply to a call that has not returned cannot
    fail, wherever the caller is: inside Write, between Write and its wait,
    waiting, or on an error exit. *)
Theorem c02_first_handoff_succeeds maxcq tcp nq ls s c r :
  run (init maxcq tcp nq) ls = Some s ->
  hold s = Some r -> htarget s = Some (Some c) ->
  cres (calls s c) = None -> cgot (calls s c) = None ->
  exists s', step s LHandoff = Some s' /\ cgot (calls s' c) = Some r /\ cbuf (calls s' c) = Some r.
Proof. exact (first_handoff_succeeds maxcq tcp nq ls s c r). Qed.
Print Assumptions c02_first_handoff_succeeds.

(** A call that was handed a reply is not blocked: in its wait the reply case
    is enabled, on an error exit the reply is taken first; both return it. *)
Theorem c02_delivered_call_returns_it maxcq tcp nq ls s c r :
  run (init maxcq tcp nq) ls = Some s ->
  cgot (calls s c) = Some r -> cres (calls s c) = None ->
  cbuf (calls s c) = Some r /\
  (cpc (calls s c) = PWaiting ->
     exists s', step s (LSelect c SelReply) = Some s' /\
                cres (calls s' c) = Some (ROk (restore (calls s c) r))) /\
  (forall e, cpc (calls s c) = PExiting e ->
     exists s', step s (LTake c) = Some s' /\
                cres (calls s' c) = Some (ROk (restore (calls s c) r))).
Proof. exact (delivered_call_returns_it maxcq tcp nq ls s c r). Qed.
Print Assumptions c02_delivered_call_returns_it.

(** Non-vacuity: the reply arrives during the send, the peer closes right
    after it, the context expires too — the call still returns the reply. *)
Example c02_nonvacuous :
  let r := mkReply 7 7 100 (Some 0%nat) in
  match run (init 4 true 7)
        [LReserve 0 11; LCheck 0; LAdd 0; LWriteBegin 0; LRecv r; LLookup; LHandoff; LRecvErr;
         LCtx 0; LWriteEnd 0 true; LArm 0; LSelect 0 SelClose; LTake 0] with
  | Some s => cres (calls s 0%nat) = Some (ROk (mkReply 7 11 100 (Some 0%nat)))
  | None => False
  end.
Proof. vm_compute. reflexivity. Qed.

(** * The non-pipelined transport (reuse.go, Model.Reuse) *)
Import Model.Reuse Proofs.Reuse.

(** Once the reader has handed a reply to an exchange, the only thing the call
    can return is that reply — not the close error of an EOF right behind it,
    not a context error, and it is not retried. *)
Theorem c02_reuse_reply_not_lost ls s c r res :
  xrun xinit ls = Some s -> ugot (xcalls s c) = Some r -> ures (xcalls s c) = Some res -> res = XOk r.
Proof. exact (reuse_reply_not_lost ls s c r res). Qed.
Print Assumptions c02_reuse_reply_not_lost.

Theorem c02_reuse_delivered_call_returns_it ls s c r :
  xrun xinit ls = Some s -> ugot (xcalls s c) = Some r -> ures (xcalls s c) = None ->
  in_attempt (upc (xcalls s c)) = true /\ ubuf (xcalls s c) = Some r /\
  (upc (xcalls s c) = UWaiting -> exists s', xstep s (MSelect c XSelReply) = Some s' /\ ures (xcalls s' c) = Some (XOk r)) /\
  (forall e, upc (xcalls s c) = UExiting e -> exists s', xstep s (MTake c) = Some s' /\ ures (xcalls s' c) = Some (XOk r)).
Proof. exact (reuse_delivered_call_returns_it ls s c r). Qed.
Print Assumptions c02_reuse_delivered_call_returns_it.

(** Non-vacuity: the reply and the EOF behind it are both processed while the
    caller is still inside Write; the close case is taken in the wait; the call returns the reply. *)
Example c02_reuse_nonvacuous :
  match xrun xinit [MBegin 0; MGetIdle 0 None; MDialDone 0 true; MDialRecv 0; MInstall 0; MWriteBegin 0;
                    MRecv 0 (mkXR 100 (Some 0%nat)); MDispatch 0; MRecvErr 0; MWriteEnd 0 true; MSelect 0 XSelClose; MTake 0] with
  | Some s => ures (xcalls s 0%nat) = Some (XOk (mkXR 100 (Some 0%nat)))
  | None => False
  end.
Proof. vm_compute. reflexivity. Qed.
