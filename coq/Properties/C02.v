(** C02 — a reply that arrives in time is never lost (pipelined / UDP connection).
    Statements only; proofs in Proofs/Tdc.v. "The reply is received" is the
    reader's hand-off step [LHandoff] (the reader has read the frame and
    dispatched it); every schedule of callers, reader, faults and cancellation
    is a label list. *)
From Verif Require Import Base.Prelude Gen.Constants Model.Tdc Proofs.Tdc.
Open Scope N_scope.

(** Once a reply has been handed to a call, the only thing that call can ever
    return is that reply (with the caller's id restored) — whatever follows:
    EOF, read error, write error, Close, context expiry, further replies. *)
Theorem c02_reply_not_lost maxcq tcp nq ls s c r res :
  run (init maxcq tcp nq) ls = Some s ->
  cgot (calls s c) = Some r -> cres (calls s c) = Some res ->
  res = ROk (restore (calls s c) r).
Proof. exact (reply_not_lost maxcq tcp nq ls s c r res). Qed.
Print Assumptions c02_reply_not_lost.

(** The hand-off of the first reply to a call that has not returned cannot
    fail, wherever the caller is: inside Write, between Write and its wait,
    waiting, or on an error exit. *)
Theorem c02_first_handoff_succeeds maxcq tcp nq ls s c r :
  run (init maxcq tcp nq) ls = Some s ->
  hold s = Some r -> htarget s = Some (Some c) ->
  cres (calls s c) = None -> cgot (calls s c) = None ->
  exists s', step s LHandoff = Some s' /\ cgot (calls s' c) = Some r /\ cbuf (calls s' c) = Some r.
Proof. exact (first_handoff_succeeds maxcq tcp nq ls s c r). Qed.
Print Assumptions c02_first_handoff_succeeds.

(** A call that was handed a reply is not blocked: in its wait the reply case
    is enabled, on an error exit the reply is taken first; both return it. *)
Theorem c02_delivered_call_returns_it maxcq tcp nq ls s c r :
  run (init maxcq tcp nq) ls = Some s ->
  cgot (calls s c) = Some r -> cres (calls s c) = None ->
  cbuf (calls s c) = Some r /\
  (cpc (calls s c) = PWaiting ->
     exists s', step s (LSelect c SelReply) = Some s' /\
                cres (calls s' c) = Some (ROk (restore (calls s c) r))) /\
  (forall e, cpc (calls s c) = PExiting e ->
     exists s', step s (LTake c) = Some s' /\
                cres (calls s' c) = Some (ROk (restore (calls s c) r))).
Proof. exact (delivered_call_returns_it maxcq tcp nq ls s c r). Qed.
Print Assumptions c02_delivered_call_returns_it.

(** Non-vacuity: the reply arrives during the send, the peer closes right
    after it, the context expires too — the call still returns the reply. *)
Example c02_nonvacuous :
  let r := mkReply 7 7 100 (Some 0%nat) in
  match run (init 4 true 7)
        [LReserve 0 11; LCheck 0; LAdd 0; LWriteBegin 0; LRecv r; LLookup; LHandoff; LRecvErr;
         LCtx 0; LWriteEnd 0 true; LArm 0; LSelect 0 SelClose; LTake 0] with
  | Some s => cres (calls s 0%nat) = Some (ROk (mkReply 7 11 100 (Some 0%nat)))
  | None => False
  end.
Proof. vm_compute. reflexivity. Qed.
