(** C15 — EDNS0 is terminated, not leaked, between client and upstream.
    Only statements, each closed by [exact] of a lemma from Proofs/Handler.v.

    Reading guide. [handle truncate packs (entry ups clock xp wp mp depth prog) w q udp ca]
    is EntryHandler.Handle on the client message [q] (transport flag, client
    address) with the sequence program [prog] as entry, over ANY plugin tables
    ([xp]: hosts / black_hole / arbitrary / ttl / forward / drop_resp /
    fallback over two sub-programs, [wp]: cache (also lazy) / redirect / ecs_handler /
    forward_edns0opt / dual_selector, [mp]: matchers), ANY
    upstream oracles [ups] and cache clock [clock], for ANY nesting bound
    [depth] of fallback sub-sequences, starting from the plugin state [w]
    (cache contents, upstream log, dual_selector memory); it returns the new state and the
    reply ([None] = no reply). [prog] ranges over all sequence programs (rules
    with matchers, accept / reject / return / jump / goto), so every chain and
    every order of the plugins is covered, including the same plugin twice.
    [w_log]: the messages handed to upstreams (as they see them on the wire).
    [find_opt (m_extra q)]: the client's OPT, if any. [opts_of l]: the OPT
    records of a section, in order.

    [truncate] is miekg's Msg.Truncate, known only through its contract
    [trunc_rel] (the same boolean relation Judge.C15.agree checks on every
    observed UDP reply); [packs] is the pack function handed to Handle. *)
From Verif Require Import Base.Prelude Gen.Constants.
From Verif Require Import Model.Msg Model.Handler Model.Sequence Model.Plugins Proofs.Handler.
From Verif Require Judge.C15.
Open Scope N_scope.

(** The query sent upstream always carries exactly one fresh OPT (UDP size
    edns0Size = Gen.edns0_size, DO clear, version 0), and each of its options
    is there because a plugin of the table put it there: a client option whose
    code a forward_edns0opt lists, the client's client-subnet option through an
    ecs_handler with forward = true, or the client-subnet option an
    ecs_handler builds from its preset / the client address. No hypothesis on
    the upstreams, the program or the query. *)
Theorem upstream_query_one_fresh_opt ups clock xp wp mp truncate packs depth prog w q udp ca :
  w_log w = [] ->
  forall u m, In (u, m) (w_log (fst (handle truncate packs (entry ups clock xp wp mp depth prog) w q udp ca))) ->
  exists o, opts_of (m_extra m) = [o] /\ o_udp o = edns0_size /\ o_do o = false /\ o_ver o = 0
            /\ forall e, In e (o_opts o) -> allowed_up wp (find_opt (m_extra q)) ca e.
Proof. exact (upstream_query_one_fresh_opt ups clock xp wp mp truncate packs depth prog w q udp ca). Qed.
Print Assumptions upstream_query_one_fresh_opt.

(** In particular: without a forwarding plugin in the table nothing of the
    client's OPT reaches an upstream. *)
Theorem upstream_query_no_options_without_plugin ups clock xp wp mp truncate packs depth prog w q udp ca :
  (forall i, match wp i with WCache _ _ | WRedirect _ => True | _ => False end) ->
  w_log w = [] ->
  forall u m, In (u, m) (w_log (fst (handle truncate packs (entry ups clock xp wp mp depth prog) w q udp ca))) ->
  exists o, opts_of (m_extra m) = [o] /\ o_opts o = [].
Proof. exact (upstream_no_options_without_plugin ups clock xp wp mp truncate packs depth prog w q udp ca). Qed.
Print Assumptions upstream_query_no_options_without_plugin.

(** The reply carries exactly one OPT if and only if the client's query had one
    (and none otherwise). Upstream replies are assumed to carry at most one OPT. *)
Theorem reply_opt_iff_client_opt ups clock xp wp mp truncate packs depth prog w q udp ca w' r :
  (forall u q r, ups u q = Some r -> (count_opt (m_extra r) <= 1)%nat) ->
  (forall size m, trunc_rel m (truncate size m) = true) ->
  stores_no_opt w ->
  handle truncate packs (entry ups clock xp wp mp depth prog) w q udp ca = (w', Some r) ->
  count_opt (m_extra r) = match find_opt (m_extra q) with Some _ => 1%nat | None => 0%nat end.
Proof. exact (fun H1 H2 => reply_opt_iff_client_opt ups clock xp wp mp truncate packs depth H1 H2 prog w q udp ca w' r). Qed.
Print Assumptions reply_opt_iff_client_opt.

(** ... with the client's DO bit mirrored (and it is a fresh OPT: size edns0Size, version 0). *)
Theorem do_mirrored ups clock xp wp mp truncate packs depth prog w q udp ca w' r co ro :
  (forall u q r, ups u q = Some r -> (count_opt (m_extra r) <= 1)%nat) ->
  (forall size m, trunc_rel m (truncate size m) = true) ->
  stores_no_opt w ->
  handle truncate packs (entry ups clock xp wp mp depth prog) w q udp ca = (w', Some r) ->
  find_opt (m_extra q) = Some co -> In ro (opts_of (m_extra r)) ->
  o_do ro = o_do co /\ o_udp ro = edns0_size /\ o_ver ro = 0.
Proof. exact (fun H1 H2 => do_mirrored ups clock xp wp mp truncate packs depth H1 H2 prog w q udp ca w' r co ro). Qed.
Print Assumptions do_mirrored.

(** ... and none of the upstream's EDNS options unless a plugin forwards them
    explicitly: every option of the reply's OPT is an option of the OPT of some
    upstream reply AND a forward_edns0opt lists its code or it is the
    client-subnet option and an ecs_handler has forward = true. *)
Theorem reply_options_only_forwarded ups clock xp wp mp truncate packs depth prog w q udp ca w' r ro e :
  (forall u q r, ups u q = Some r -> (count_opt (m_extra r) <= 1)%nat) ->
  (forall size m, trunc_rel m (truncate size m) = true) ->
  stores_no_opt w ->
  handle truncate packs (entry ups clock xp wp mp depth prog) w q udp ca = (w', Some r) ->
  In ro (opts_of (m_extra r)) -> In e (o_opts ro) ->
  (exists u q' r' o', ups u q' = Some r' /\ find_opt (m_extra r') = Some o' /\ In e (o_opts o'))
  /\ ((exists i codes, wp i = WFwdOpt codes /\ In (fst e) codes)
      \/ (exists i send preset m4 m6, wp i = WEcs true send preset m4 m6 /\ fst e = ecs_code)).
Proof. exact (fun H1 H2 => reply_options_only_forwarded ups clock xp wp mp truncate packs depth H1 H2 prog w q udp ca w' r ro e). Qed.
Print Assumptions reply_options_only_forwarded.

(** TTL rewriting never alters, moves or duplicates an OPT: after the ttl
    plugin (fixed TTL, minimum, maximum, any combination) and after each helper
    of pkg/dnsutils every section has the same OPT records at the same positions. *)
Theorem ttl_ops_skip_opt fx mn mx delta t m :
  same_opts m (ttl_apply fx mn mx m) /\ same_opts m (set_ttl t m) /\ same_opts m (apply_min_ttl t m)
  /\ same_opts m (apply_max_ttl t m) /\ same_opts m (subtract_ttl delta m).
Proof. exact (ttl_ops_skip_opt fx mn mx delta t m). Qed.
Print Assumptions ttl_ops_skip_opt.

(** Cached answers never contain an OPT in their additional section: an
    invariant of the cache contents over any query, program, upstream
    behaviour and timing (so over any sequence of queries). *)
Theorem cache_stores_no_opt ups clock xp wp mp truncate packs depth prog w q udp ca :
  stores_no_opt w ->
  stores_no_opt (fst (handle truncate packs (entry ups clock xp wp mp depth prog) w q udp ca)).
Proof. exact (cache_stores_no_opt ups clock xp wp mp truncate packs depth prog w q udp ca). Qed.
Print Assumptions cache_stores_no_opt.

(** ... and what the plugin chain leaves in R() — cached, TTL-rewritten,
    redirected or fresh from an upstream — has no OPT in its additional section. *)
Theorem response_has_no_opt ups clock xp wp mp depth prog w q udp ca c w' err r :
  (forall u q r, ups u q = Some r -> (count_opt (m_extra r) <= 1)%nat) ->
  stores_no_opt w ->
  entry ups clock xp wp mp depth prog (new_context q udp ca, w) = ((c, w'), err) ->
  c_resp c = Some r -> opts_of (m_extra r) = [].
Proof. exact (fun H => response_has_no_opt ups clock xp wp mp depth H prog w q udp ca c w' err r). Qed.
Print Assumptions response_has_no_opt.

(** Truncation keeps the OPT: any result allowed by the contract of
    Msg.Truncate has the same OPT records as the message before. *)
Theorem truncate_keeps_one_opt m m' :
  trunc_rel m m' = true -> (count_opt (m_extra m) <= 1)%nat -> opts_of (m_extra m') = opts_of (m_extra m).
Proof. exact (trunc_rel_keeps_opts m m'). Qed.
Print Assumptions truncate_keeps_one_opt.

(** Context.Copy: a copy agrees with the original on everything a plugin can
    read and is a value of its own (Judge.C15's CCopy cases check on the real
    structure that no later write to one shows in the other). *)
Theorem copy_isolated c w :
  let c' := fst (ctx_copy (c, w)) in
  c_query c' = c_query c /\ c_client_opt c' = c_client_opt c /\ c_resp c' = c_resp c
  /\ c_resp_opt c' = c_resp_opt c /\ c_upstream_opt c' = c_upstream_opt c
  /\ c_from_udp c' = c_from_udp c /\ c_client_addr c' = c_client_addr c.
Proof. exact (copy_isolated c w). Qed.
Print Assumptions copy_isolated.

(** fallback hands back a response and nothing else: options its branches
    forwarded into the response OPTs of their context copies never reach the
    client's OPT; the query is untouched. For any way of running sub-sequences. *)
Theorem fallback_keeps_resp_opt runsub pr se sb c w :
  c_resp_opt (fst (fst (fallback_exec runsub pr se sb (c, w)))) = c_resp_opt c
  /\ c_query (fst (fst (fallback_exec runsub pr se sb (c, w)))) = c_query c.
Proof. exact (fallback_keeps_resp_opt runsub pr se sb c w). Qed.
Print Assumptions fallback_keeps_resp_opt.

(** dual_selector ends with the response OPT it was given (when it blocks) or
    with the one of ONE run of the rest of the chain on the unchanged query
    (the preferred type, or the sub-run of the original query it lets pass):
    never with anything the reference query's sub-run wrote into its copy. *)
Theorem dual_resp_opt_adopted inst v6 k c w :
  let out := dual_exec inst v6 k (c, w) in
  c_resp_opt (fst (ost out)) = c_resp_opt c
  \/ (exists s, c_resp_opt (fst (ost out)) = c_resp_opt (fst (ost (k s)))
                /\ c_query (fst s) = c_query c /\ c_resp_opt (fst s) = c_resp_opt c).
Proof. exact (dual_resp_opt_adopted inst v6 k c w). Qed.
Print Assumptions dual_resp_opt_adopted.

(** * Not vacuous *)

(** An upstream that answers every query with a record and an OPT carrying
    client-subnet, cookie and padding; the contract is satisfiable (the
    identity satisfies its relational part). *)
Definition up0 (_ : N) (q : msg) : option msg :=
  Some (with_extra (with_answer (set_reply q) [Judge.C15.R [] 1 1 300 7])
                   [OPT (Opt 1232 true 0 0 [(8, 5); (10, 7); (12, 9)])]).
Lemma up0_ok : forall u q r, up0 u q = Some r -> (count_opt (m_extra r) <= 1)%nat.
Proof. intros u q r H. inversion H. cbn. lia. Qed.
Lemma id_contract : forall (size : N) m, trunc_rel m ((fun _ m => m) size m) = true.
Proof. intros size m. apply trunc_rel_refl. Qed.

(** [forward_edns0opt 10; ecs_handler forward; cache; forward] on a client query
    with client-subnet, cookie and padding, DO set: the upstream receives one
    fresh OPT with exactly cookie and client-subnet; the reply has one OPT, DO
    set, with exactly the upstream's cookie and client-subnet (no padding). *)
Definition wp0 (i : N) : wplugin :=
  nth (N.to_nat i) [WFwdOpt [10]; WEcs true false None 24 48; WCache 0 0] (WCache 0 0).
Definition prog0 : rules :=
  RCons (Rule [] (Wrap 0)) (RCons (Rule [] (Wrap 1)) (RCons (Rule [] (Wrap 2)) (RCons (Rule [] (Exec 0)) RNil))).
Definition q0 : msg :=
  Judge.C15.mk 77 256 0 [Judge.C15.Q Judge.C15.n0 1 1] [] [] [Judge.C15.O 4096 true 0 0 [(8, 1); (10, 2); (12, 3)]].

Example c15_nonvacuous :
  let res := handle (fun _ m => m) (fun _ => true)
                    (entry up0 (fun _ => Some 0) (fun _ => XForward 0) wp0 (fun _ => MHasResp) 1 prog0)
                    empty_world q0 true None in
  map (fun x => opts_of (m_extra (snd x))) (w_log (fst res)) = [[Opt 1200 false 0 0 [(10, 2); (8, 1)]]]
  /\ option_map (fun r => opts_of (m_extra r)) (snd res) = Some [Opt 1200 true 0 0 [(8, 5); (10, 7)]]
  /\ stores_no_opt empty_world.
Proof. split; [vm_compute; reflexivity|]. split; [vm_compute; reflexivity|]. intros i k v []. Qed.

(** The same run through the theorems (their hypotheses hold for [up0] and the identity). *)
Example c15_theorems_apply w' r :
  handle (fun _ m => m) (fun _ => true)
         (entry up0 (fun _ => Some 0) (fun _ => XForward 0) wp0 (fun _ => MHasResp) 1 prog0)
         empty_world q0 true None = (w', Some r) ->
  count_opt (m_extra r) = 1%nat.
Proof.
  intro H.
  exact (reply_opt_iff_client_opt up0 (fun _ => Some 0) (fun _ => XForward 0) wp0 (fun _ => MHasResp)
           (fun _ m => m) (fun _ => true) 1%nat prog0 empty_world q0 true None w' r up0_ok id_contract
           (fun i k v (F : In (k, v) []) => match F with end) H).
Qed.

(** A truncated reply that satisfies the contract: records dropped, TC set, OPT kept. *)
Example c15_contract_example :
  trunc_rel
    (Judge.C15.mk 1 33152 0 [Judge.C15.Q Judge.C15.n0 16 1]
       [Judge.C15.R Judge.C15.n0 16 1 300 1; Judge.C15.R Judge.C15.n0 16 1 300 2] [] [Judge.C15.O 1200 true 0 0 []])
    (Judge.C15.mk 1 33664 0 [Judge.C15.Q Judge.C15.n0 16 1]
       [Judge.C15.R Judge.C15.n0 16 1 300 1] [] [Judge.C15.O 1200 true 0 0 []]) = true.
Proof. vm_compute. reflexivity. Qed.

(** [prefer_ipv4; forward_edns0opt 10; forward] on an AAAA query with OPT, with
    an upstream whose A reply has no A record and cookie 100 and whose AAAA
    reply has cookie 200: both sub-queries reach the upstream, the client gets
    exactly the cookie of the reply it is served. *)
Definition up2 (_ : N) (q : msg) : option msg :=
  match m_question q with
  | qu :: _ =>
    if qtype qu =? 28
    then Some (with_extra (with_answer (with_question (set_reply q) (m_question q)) [Judge.C15.R [] 28 1 300 9])
                          [OPT (Opt 1232 false 0 0 [(10, 200)])])
    else Some (with_extra (with_question (set_reply q) (m_question q)) [OPT (Opt 1232 false 0 0 [(10, 100)])])
  | [] => None
  end.
Definition wp2 (i : N) : wplugin := nth (N.to_nat i) [WDual 0 false; WFwdOpt [10]] (WCache 0 0).
Definition prog2 : rules := RCons (Rule [] (Wrap 0)) (RCons (Rule [] (Wrap 1)) (RCons (Rule [] (Exec 0)) RNil)).
Definition q2 : msg :=
  Judge.C15.mk 5 256 0 [Judge.C15.Q Judge.C15.n0 28 1] [] [] [Judge.C15.O 4096 true 0 0 [(10, 2)]].

Example c15_dual_selector_nonvacuous :
  let res := handle (fun _ m => m) (fun _ => true)
                    (entry up2 (fun _ => Some 0) (fun _ => XForward 0) wp2 (fun _ => MHasResp) 1 prog2)
                    empty_world q2 false None in
  length (w_log (fst res)) = 2%nat
  /\ option_map (fun r => opts_of (m_extra r)) (snd res) = Some [Opt 1200 true 0 0 [(10, 200)]].
Proof. split; vm_compute; reflexivity. Qed.
