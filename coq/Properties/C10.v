(** C10 — cached answers are isolated from every caller's mutations.
    Only statements, each closed by [exact] of a lemma from Proofs/CacheIso.v.

    Vocabulary (Model/CacheIso.v, Proofs/CacheIso.v):
    - a history is a list of [op]: [Store c k v] (the rest of the chain, for client
      [c], builds a response with value [v], keeps it, and the cache is offered it
      under key [k]), [Restore k h] (the cache is offered a message somebody
      already holds), [Hit c k q a] (lookup for client [c] with query id [q]; [a] is
      the TTL rewriting of that lookup), [Mutate h mu] (the holder of handle [h]
      writes to ANY field of it: id, header bits, question, a record's TTL / name /
      type, rdata bytes in place, a new rdata slice, append a record or an OPT,
      truncate, delete an element, store a pointer to a record or to the rdata of another message it
      holds), [Drop k], [Flush], [Dump] (writeDump reads every stored message), [Load l]
      (readDump builds one message per entry of a dump);
    - [handles s]: every message ever passed in or handed out; [cache s]: the
      cache's private messages; [served s]: the value every lookup returned;
    - [separated H m1 m2]: m1 <> m2 and no section array, no record and no rdata
      buffer is reachable from both;
    - [hit_value q a v = set_id q (adjust_val a v)];
    - [cache_val s k]: the value the cache holds under [k]. *)
From Verif Require Import Base.Prelude Gen.Constants Model.CacheIso Proofs.CacheIso.
Open Scope N_scope.

(** ** No shared mutable state *)

(** After every history, the copy kept inside the cache shares no object with
    any message any caller was ever handed or ever passed in. *)
Theorem c10_cache_separated ops k c h :
  let s := run ops in
  In (k, c) (cache s) -> In h (handles s) -> separated (hp s) c h.
Proof. exact (cache_separated ops k c h). Qed.
Print Assumptions c10_cache_separated.

(** Messages held by different clients (queries) share no object, whatever
    pointer juggling each of them does with its own messages. *)
Theorem c10_clients_separated ops h1 h2 :
  let s := run ops in
  In h1 (handles s) -> In h2 (handles s) -> owner s h1 <> owner s h2 -> separated (hp s) h1 h2.
Proof. exact (clients_separated ops h1 h2). Qed.
Print Assumptions c10_clients_separated.

(** Every hit hands out a message that shares nothing with any message handed
    out or passed in before (same client or not), nor with the cache. *)
Theorem c10_hit_fresh ops c k q a item :
  let s := run ops in
  lookup k (cache s) = Some item ->
  let s' := step s (Hit c k q a) in
  exists m, handles s' = handles s ++ [m] /\
    (forall h, In h (handles s) -> separated (hp s') m h) /\
    (forall k' c', In (k', c') (cache s') -> separated (hp s') m c').
Proof. exact (hit_fresh ops c k q a item). Qed.
Print Assumptions c10_hit_fresh.

(** ** Nobody's writes change what another query is served *)

(** Concurrent queries: whatever another client or the cache does next (any
    operation, including every mutation) leaves the value of a message a client
    holds unchanged. *)
Theorem c10_other_clients_invisible ops o h :
  let s := run ops in
  In h (handles s) -> actor s o <> owner s h ->
  value (hp (step s o)) h = value (hp s) h.
Proof. exact (other_clients_invisible ops o h). Qed.
Print Assumptions c10_other_clients_invisible.

(** Later queries: no write through any handle changes the value the cache
    holds under any key. *)
Theorem c10_mutation_keeps_cache ops h mu k :
  let s := run ops in cache_val (step s (Mutate h mu)) k = cache_val s k.
Proof. exact (mutation_keeps_cache ops h mu k). Qed.
Print Assumptions c10_mutation_keeps_cache.

(** A hit returns exactly the value the cache holds, TTLs rewritten, and
    leaves the cache's values as they were; a miss returns nothing. *)
Theorem c10_hit_serves_cached ops c k q a v :
  let s := run ops in
  cache_val s k = Some v ->
  served (step s (Hit c k q a)) = served s ++ [Some (hit_value q a v)] /\
  (forall k', cache_val (step s (Hit c k q a)) k' = cache_val s k').
Proof. exact (hit_serves_cached ops c k q a v). Qed.
Print Assumptions c10_hit_serves_cached.

Theorem c10_miss_serves_nothing ops c k q a :
  let s := run ops in
  cache_val s k = None -> step s (Hit c k q a) = mkst (hp s) (cache s) (handles s) (served s ++ [None]).
Proof. exact (miss_serves_nothing ops c k q a). Qed.
Print Assumptions c10_miss_serves_nothing.

(** What the cache holds is the value the offered message had at the moment
    it was offered (without OPT records in the additional section), whatever
    happens to that message afterwards; other keys are not touched. *)
Theorem c10_store_caches_snapshot ops c k v k' :
  let s := run ops in
  cache_val (step s (Store c k v)) k' =
  if (k' =? k) && answers v k && admissible v then Some (strip_opt v) else cache_val s k'.
Proof. exact (store_caches_snapshot ops c k v k'). Qed.
Print Assumptions c10_store_caches_snapshot.

Theorem c10_restore_caches_snapshot ops k h m k' :
  let s := run ops in
  nth_error (handles s) h = Some m ->
  let v := value (hp s) m in
  cache_val (step s (Restore k h)) k' =
  if (k' =? k) && answers v k && admissible v then Some (strip_opt v) else cache_val s k'.
Proof. exact (restore_caches_snapshot ops k h m k'). Qed.
Print Assumptions c10_restore_caches_snapshot.

(** The sequence of values returned by all lookups of a history is the same
    with and without the mutations, byte for byte. (A message that is offered
    to the cache AFTER its holder changed it is of course stored as changed:
    [Restore] steps are covered by c10_restore_caches_snapshot; the erasure
    statement is about histories whose stores are [Store] steps, from any
    reachable state [run pre] on.) *)
Theorem c10_mutations_invisible ops :
  no_restore ops -> served (run ops) = served (run (erase_mutations ops)).
Proof. exact (mutations_invisible ops). Qed.
Print Assumptions c10_mutations_invisible.

Theorem c10_mutations_invisible_from pre ops :
  no_restore ops ->
  served (run_from (run pre) ops) = served (run_from (run pre) (erase_mutations ops)).
Proof. exact (mutations_invisible_from pre ops). Qed.
Print Assumptions c10_mutations_invisible_from.

(** ** Each hit carries the id of the query it answers; the cache keeps no OPT *)

Theorem c10_hit_id q a v : mv_id (hit_value q a v) = q.
Proof. exact (hit_id q a v). Qed.
Print Assumptions c10_hit_id.

Theorem c10_cached_has_no_opt ops k v :
  cache_val (run ops) k = Some v -> forall r, In r (mv_ex v) -> v_type r <> type_opt.
Proof. exact (cached_has_no_opt ops k v). Qed.
Print Assumptions c10_cached_has_no_opt.

(** ** The cache's own dump and load (writeDump / readDump)

    [Dump]: every stored message is read; [Load l]: one message per entry of
    the dump is built and stored under the entry's key. *)

(** A dump changes nothing, not a single stored object: the state is the
    same, so every later lookup returns what it returned before the dump. *)
Theorem c10_dump_preserves_store ops : step (run ops) Dump = run ops.
Proof. exact (dump_preserves_store ops). Qed.
Print Assumptions c10_dump_preserves_store.

Theorem c10_dump_invisible ops rest : run_from (run ops) (Dump :: rest) = run_from (run ops) rest.
Proof. exact (dump_invisible ops rest). Qed.
Print Assumptions c10_dump_invisible.

(** After a load each key of the dump holds the value of its own (last) entry,
    other keys keep theirs, and no message any caller holds changes. *)
Theorem c10_load_caches_values ops l k :
  let s := run ops in
  cache_val (step s (Load l)) k = loaded k l (cache_val s k) /\
  handles (step s (Load l)) = handles s /\ served (step s (Load l)) = served s /\
  (forall h, In h (handles s) -> value (hp (step s (Load l))) h = value (hp s) h).
Proof. exact (load_caches_values ops l k). Qed.
Print Assumptions c10_load_caches_values.

(** Every item a load creates (the one made from entry [e], after the entries
    [l] before it) is a message of its own: no object shared with any item that
    existed before or was created earlier by the same load, nor with any
    message a caller holds. *)
Theorem c10_load_items_disjoint ops l e :
  let s := step (run ops) (Load l) in
  let s' := step (run ops) (Load (l ++ [e])) in
  exists c, cache s' = (fst e, c) :: cache s /\ value (hp s') c = strip_opt (snd e) /\
    (forall k' c', In (k', c') (cache s) -> separated (hp s') c c') /\
    (forall h, In h (handles s) -> separated (hp s') c h).
Proof. exact (load_items_disjoint ops l e). Qed.
Print Assumptions c10_load_items_disjoint.

(** Round trip: whatever happens in between, loading a dump gives every key
    that was in it exactly the value it held when the dump was written. *)
Theorem c10_dump_load_roundtrip ops mid keys k v :
  NoDup keys -> In k keys ->
  cache_val (run ops) k = Some v ->
  cache_val (step (run_from (run ops) mid) (Load (dump_of (run ops) keys))) k = Some v.
Proof. exact (dump_load_roundtrip ops mid keys k v). Qed.
Print Assumptions c10_dump_load_roundtrip.

(** ** Non-vacuity: a concrete history in which the stored message and a hit
    are rewritten in every way before the next hit of the same key *)

Definition ex_v : mval :=
  mkmv 11 33152 [7]
       [mkrv 1 1 5000 [10; 0; 0; 1]; mkrv 1 16 6000 [3; 4]]
       [mkrv 2 2 7000 [9]]
       [mkrv 0 41 0 [5]; mkrv 3 28 8000 [1; 2; 3; 4]].

Definition ex_ops : list op :=
  [ Store 0 7 ex_v;
    Mutate 0 (MSetTtl An 0 0); Mutate 0 (MSetByte An 0 3 99); Mutate 0 (MTrunc Ns 0);
    Mutate 0 (MAppend Ex (mkrv 0 41 0 [])); Mutate 0 (MSetHdr 0);
    Hit 1 7 100 (ASub 0);
    Mutate 1 (MSetName An 1 9); Mutate 1 (MSetByte Ex 0 0 255); Mutate 1 (MLinkRec An 0 1 Ex 0);
    Mutate 1 (MSetId 5);
    Hit 2 7 200 (ASub 1) ].

Example c10_nonvacuous :
  no_restore ex_ops /\
  length (filter is_mutate ex_ops) = 9%nat /\
  served (run ex_ops) =
    [Some (hit_value 100 (ASub 0) (strip_opt ex_v)); Some (hit_value 200 (ASub 1) (strip_opt ex_v))] /\
  (* the callers' own messages did change *)
  map (value (hp (run ex_ops))) (handles (run ex_ops)) <>
  map (value (hp (run (erase_mutations ex_ops)))) (handles (run (erase_mutations ex_ops))).
Proof. repeat split; try (vm_compute; reflexivity). vm_compute. discriminate. Qed.

(** Dump, writes, /flush and load in one history: the hits before the dump,
    after the dump and after the load are the same values, and the two loaded
    items are different messages. *)
Definition ex_w : mval := mkmv 12 33152 [8] [mkrv 2 28 4000 [1; 2]] [] [].
Definition ex_ops2 : list op :=
  [ Store 0 7 ex_v; Store 1 8 ex_w; Hit 0 7 1 (ASub 0); Hit 0 8 2 (ASub 0) ].
Definition ex_rest : list op :=
  [ Mutate 0 (MSetTtl An 0 0); Mutate 2 (MSetByte An 0 0 9); Flush; Hit 1 7 3 (ASub 0) ].

Example c10_dump_load_nonvacuous :
  let s := run (ex_ops2 ++ [Dump] ++ ex_rest ++ [Load (dump_of (run ex_ops2) [7; 8])] ++
                [Hit 2 7 1 (ASub 0); Hit 2 8 2 (ASub 0)]) in
  served s = served (run ex_ops2) ++ [None] ++ served (run ex_ops2) /\
  match cache s with
  | (k2, c2) :: (k1, c1) :: _ => c1 <> c2 /\ reach_recs (hp s) c1 <> reach_recs (hp s) c2
  | _ => False
  end.
Proof. vm_compute. repeat split; discriminate. Qed.
