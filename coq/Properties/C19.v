(** C19 — cache dumps reload faithfully; damaged dumps are harmless.
    Only statements, each closed by [exact] of a lemma from Proofs/Dump.v.

    Every theorem is universally quantified over the message type [M] and the
    external functions (miekg [pack]/[unpack], protobuf [marshal]/[unmarshal]
    and the per-entry size [esz] = proto.Size, gzip [gz]/[gunzip]); what is
    assumed about them is written out as premises:
    - Hpack:   Unpack after a successful Pack gives the message back;
    - Hproto:  Unmarshal after Marshal gives the block back;
    - Hsize:   a marshalled block is no longer than the sum of (proto.Size + 16) of its entries;
    - Hgz:     a complete gzip file decompresses to its header name and plaintext and ends with a clean EOF;
    - Hcut:    a strict prefix of a gzip file either fails to open or yields a prefix of the plaintext
               followed by an error (never a clean EOF).
    Times: [Z] nanoseconds in memory, whole seconds in the dump. The cache is a
    list of items in Range order; [now1] is the clock at the dump, [now2] at the
    load. *)
From Verif Require Import Base.Prelude Gen.Constants Model.Dump Proofs.Dump.
Open Scope N_scope.

(** Dump, then load into an empty cache: no error; exactly the items that were
    not expired at the dump and (to the second) at the load are stored, in
    order, each with its key, its message and its stored / message-expiry /
    cache-expiry times cut to whole seconds ([reload_item]); the entry count
    reported is the number of entries dumped. Premise [Hfit]: every dumped
    entry alone fits a block (proto.Size + 16 <= 1 MiB; DNS messages are at most
    64 KiB). That every block written then fits the loader's limit is proved,
    not assumed. *)
Theorem c19_reload_faithful
  (M : Type) (pack : M -> option bytes) (unpack : bytes -> option M)
  (marshal : list entry -> bytes) (unmarshal : bytes -> option (list entry))
  (esz : entry -> N) (gz : bytes -> bytes -> bytes) (gunzip : bytes -> gz_result)
  (now1 now2 : Z) (c : cache M) (file : bytes)
  (Hpack : forall m b, pack m = Some b -> unpack b = Some m)
  (Hproto : forall b, unmarshal (marshal b) = Some b)
  (Hsize : forall b, len (marshal b) <= sum_sz esz b)
  (Hgz : forall name p, gunzip (gz name p) = GzOpen name p true)
  (Hfit : forall e, In e (live_entries pack now1 c) -> esz e + 16 <= cache_dump_max_block_len) :
  write_dump pack marshal esz gz now1 c = Some file ->
  read_dump unpack unmarshal gunzip now2 file =
    (map reload_item (filter (survives now1 now2) c), llen (live_entries pack now1 c), LOk).
Proof. exact (reload_faithful M pack unpack marshal unmarshal esz gz gunzip now1 now2 c file Hpack Hproto Hsize Hgz Hfit). Qed.
Print Assumptions c19_reload_faithful.

(** "To the second": a reloaded time t' satisfies t' <= t < t' + 1 s. *)
Theorem c19_times_to_the_second (t : Z) : (trunc_s t <= t < trunc_s t + 1000000000)%Z.
Proof. exact (trunc_bounds t). Qed.
Print Assumptions c19_times_to_the_second.

(** Hence the age subtracted from the TTLs grows by 0 or 1 second, and a served
    TTL stays or drops by one (dnsutils.SubtractTTL on one record). *)
Theorem c19_served_ttl_after_reload (ttl : N) (now stored : Z) :
  let d := age_s now stored in
  let d' := age_s now (trunc_s stored) in
  (d' = d \/ d' = d + 1)%Z
  /\ (sub_ttl ttl d' = sub_ttl ttl d \/ sub_ttl ttl d' + 1 = sub_ttl ttl d).
Proof.
  exact (conj (age_after_reload now stored)
              (sub_ttl_after_reload ttl _ _ (age_after_reload now stored))).
Qed.
Print Assumptions c19_served_ttl_after_reload.

(** What clients are served after the restart: a key the first cache answers
    fresh at [now] (and whose expiries, cut to the second, have not passed) is
    answered by the reloaded cache with the same message, aged by the same
    number of seconds or one more. Keys are unique, as in a map. *)
Theorem c19_served_after_reload
  (M : Type) (pack : M -> option bytes) (unpack : bytes -> option M)
  (marshal : list entry -> bytes) (unmarshal : bytes -> option (list entry))
  (esz : entry -> N) (gz : bytes -> bytes -> bytes) (gunzip : bytes -> gz_result)
  (lazy : bool) (now1 now2 now : Z) (c : cache M) (file k : bytes) (it : item M)
  (Hpack : forall m b, pack m = Some b -> unpack b = Some m)
  (Hproto : forall b, unmarshal (marshal b) = Some b)
  (Hsize : forall b, len (marshal b) <= sum_sz esz b)
  (Hgz : forall name p, gunzip (gz name p) = GzOpen name p true)
  (Hfit : forall e, In e (live_entries pack now1 c) -> esz e + 16 <= cache_dump_max_block_len) :
  NoDup (map i_key c) ->
  write_dump pack marshal esz gz now1 c = Some file ->
  lookup k c = Some it ->
  (now1 <= now2 <= now)%Z ->
  (now <= trunc_s (i_cexp it))%Z -> (now < trunc_s (i_mexp it))%Z ->
  exists d d',
    serve lazy now c k = Some (i_msg it, Some d)
    /\ serve lazy now (fst (load_into unpack unmarshal gunzip [] now2 file)) k = Some (i_msg it, Some d')
    /\ (d' = d \/ d' = d + 1)%Z.
Proof. exact (serve_after_reload M unpack unmarshal gunzip pack marshal esz gz lazy now1 now2 now c file k it Hpack Hproto Hsize Hgz Hfit). Qed.
Print Assumptions c19_served_after_reload.

(** Every truncated copy [z] (any strict prefix = any crash point of the
    periodic dump) of a dump reports an error, and the items it stores are a
    prefix of — in particular a subset of — what the intact dump stores. No
    premise on sizes or on the other libraries: only the gzip contracts. *)
Theorem c19_truncated_reports_error_and_prefix
  (M : Type) (pack : M -> option bytes) (unpack : bytes -> option M)
  (marshal : list entry -> bytes) (unmarshal : bytes -> option (list entry))
  (esz : entry -> N) (gz : bytes -> bytes -> bytes) (gunzip : bytes -> gz_result)
  (now1 now2 : Z) (c : cache M) (file z : bytes)
  (Hgz : forall name p, gunzip (gz name p) = GzOpen name p true)
  (Hcut : forall name p z, strict_prefix z (gz name p) ->
          gunzip z = GzErr \/ exists p', prefix p' p /\ gunzip z = GzOpen name p' false) :
  write_dump pack marshal esz gz now1 c = Some file -> strict_prefix z file ->
  exists its en e,
    read_dump unpack unmarshal gunzip now2 z = (its, en, LErr e)
    /\ prefix its (fst (fst (read_dump unpack unmarshal gunzip now2 file))).
Proof. exact (truncated_prefix M pack unpack marshal unmarshal esz gz gunzip now1 now2 c file z Hgz Hcut). Qed.
Print Assumptions c19_truncated_reports_error_and_prefix.

(** ... and each of them is the reload of an item of the dumped cache. *)
Theorem c19_truncated_reports_error_and_subset
  (M : Type) (pack : M -> option bytes) (unpack : bytes -> option M)
  (marshal : list entry -> bytes) (unmarshal : bytes -> option (list entry))
  (esz : entry -> N) (gz : bytes -> bytes -> bytes) (gunzip : bytes -> gz_result)
  (now1 now2 : Z) (c : cache M) (file z : bytes)
  (Hpack : forall m b, pack m = Some b -> unpack b = Some m)
  (Hproto : forall b, unmarshal (marshal b) = Some b)
  (Hsize : forall b, len (marshal b) <= sum_sz esz b)
  (Hgz : forall name p, gunzip (gz name p) = GzOpen name p true)
  (Hcut : forall name p z, strict_prefix z (gz name p) ->
          gunzip z = GzErr \/ exists p', prefix p' p /\ gunzip z = GzOpen name p' false)
  (Hfit : forall e, In e (live_entries pack now1 c) -> esz e + 16 <= cache_dump_max_block_len) :
  write_dump pack marshal esz gz now1 c = Some file -> strict_prefix z file ->
  exists its en e,
    read_dump unpack unmarshal gunzip now2 z = (its, en, LErr e)
    /\ prefix its (map reload_item (filter (survives now1 now2) c))
    /\ forall it', In it' its ->
         exists it, In it c /\ survives now1 now2 it = true /\ it' = reload_item it.
Proof. exact (truncated_subset M pack unpack marshal unmarshal esz gz gunzip now1 now2 c file z Hpack Hproto Hsize Hgz Hcut Hfit). Qed.
Print Assumptions c19_truncated_reports_error_and_subset.

(** Any file at all whose decompression does not end with a clean EOF is reported as an error. *)
Theorem c19_unclean_is_error
  (M : Type) (unpack : bytes -> option M) (unmarshal : bytes -> option (list entry))
  (gunzip : bytes -> gz_result) (now : Z) (z name p : bytes) :
  gunzip z = GzOpen name p false -> exists e, snd (read_dump unpack unmarshal gunzip now z) = LErr e.
Proof. exact (unclean_is_error M unpack unmarshal gunzip now z name p). Qed.
Print Assumptions c19_unclean_is_error.

(** An announced block length above dumpMaximumBlockLength is refused by the
    check that precedes the buffer allocation: the result does not depend on
    anything after the 8 header bytes, nothing is stored. *)
Theorem c19_block_len_limit
  (M : Type) (unpack : bytes -> option M) (unmarshal : bytes -> option (list entry))
  (now : Z) (h rest : bytes) (clean : bool) :
  length h = 8%nat -> cache_dump_max_block_len < be_dec h ->
  load_plain unpack unmarshal now (h ++ rest) clean = ([], 0, LErr EBig)
  /\ read_blocks (S (length (h ++ rest))) (h ++ rest) clean = ([], [], BBig).
Proof.
  exact (fun Hh Hb => conj (load_plain_big M unpack unmarshal now h rest clean Hh Hb)
                           (read_blocks_big (length (h ++ rest)) h rest clean Hh Hb)).
Qed.
Print Assumptions c19_block_len_limit.

(** Arbitrary input: the read loop terminates within (input length + 1) steps
    — the result is the same for every larger fuel and is never "out of
    fuel" — and every body buffer it asks for is at most
    dumpMaximumBlockLength bytes. *)
Theorem c19_load_total (p : bytes) (clean : bool) :
  snd (read_blocks (S (length p)) p clean) <> BFuel
  /\ (forall fuel, (length p < fuel)%nat ->
        read_blocks fuel p clean = read_blocks (S (length p)) p clean)
  /\ Forall (fun a => a <= cache_dump_max_block_len) (snd (fst (read_blocks (S (length p)) p clean))).
Proof. exact (load_total p clean). Qed.
Print Assumptions c19_load_total.

(** The payloads read from a prefix of ANY byte string are a prefix of those
    read from the whole: what a partial file yields never depends on the
    missing part. *)
Theorem c19_partial_input_prefix
  (M : Type) (unpack : bytes -> option M) (unmarshal : bytes -> option (list entry))
  (now : Z) (p s : bytes) (c1 c2 : bool) :
  prefix (fst (fst (load_plain unpack unmarshal now p c1)))
         (fst (fst (load_plain unpack unmarshal now (p ++ s) c2))).
Proof. exact (load_plain_prefix M unpack unmarshal now p s c1 c2). Qed.
Print Assumptions c19_partial_input_prefix.

(** A cleanly ending part of a dump's plaintext that reads without error is a
    whole number of its blocks (so a file that loads without error is never a
    dump cut in the middle of a block). *)
Theorem c19_clean_prefix_is_whole_blocks (p s : bytes) (ps : list bytes) :
  Forall (fun a => len a <= cache_dump_max_block_len) ps ->
  p ++ s = plaintext ps ->
  snd (read_blocks (S (length p)) p true) = BEof ->
  exists k, fst (fst (read_blocks (S (length p)) p true)) = firstn k ps /\ p = plaintext (firstn k ps).
Proof. exact (clean_prefix_is_whole_blocks p s ps). Qed.
Print Assumptions c19_clean_prefix_is_whole_blocks.

(** Refutation kept (finding F11, repaired by /repo commit 435e2d0): with the
    grouping by entry count only, a block can marshal to more than the loader
    accepts, and then the dump loads NOTHING. *)
Theorem c19_count_only_grouping_refuted
  (M : Type) (pack : M -> option bytes) (unpack : bytes -> option M)
  (marshal : list entry -> bytes) (unmarshal : bytes -> option (list entry))
  (now1 now2 : Z) (c : cache M) (b : list entry) (bs : list (list entry)) :
  dump_loop_count_only pack now1 c [] = (b :: bs, true) ->
  cache_dump_max_block_len < len (marshal b) -> len (marshal b) < 2 ^ 64 ->
  read_gz unpack unmarshal now2 (GzOpen dump_header (plaintext (map marshal (b :: bs))) true)
    = ([], 0, LErr EBig).
Proof. exact (count_only_refuted M pack unpack marshal unmarshal now1 now2 c b bs). Qed.
Print Assumptions c19_count_only_grouping_refuted.

(** Non-vacuity. Messages are numbers packed as one byte, a block is marshalled
    as the concatenation of (key length, key, message, three times) — enough to
    satisfy the contracts on these values; gzip is "name length ++ name ++
    plaintext". Three items: one expired at the dump, one stored at x.7 s, one
    at an exact second. The dump succeeds, reloading stores exactly the two live
    ones with times cut to the second, and a copy cut inside the second entry
    reports an error and stores nothing foreign. *)
Definition ex_pack (m : N) : option bytes := Some [m].
Definition ex_unpack (b : bytes) : option N := match b with [m] => Some m | _ => None end.
Definition ex_marshal (b : list entry) : bytes :=
  flat_map (fun e => [len (e_key e)] ++ e_key e ++ e_msg e
                     ++ [Z.to_N (e_cexp e); Z.to_N (e_mexp e); Z.to_N (e_stored e)]) b.
Fixpoint ex_unmarshal_aux (fuel : nat) (p : bytes) : option (list entry) :=
  match fuel, p with
  | _, [] => Some []
  | S f, kl :: t =>
    let k := firstn (N.to_nat kl) t in
    match skipn (N.to_nat kl) t with
    | m :: ce :: me :: st :: t' =>
      match ex_unmarshal_aux f t' with
      | Some r => Some (mkEntry k [m] (Z.of_N ce) (Z.of_N me) (Z.of_N st) :: r)
      | None => None
      end
    | _ => None
    end
  | O, _ => None
  end.
Definition ex_unmarshal (p : bytes) : option (list entry) := ex_unmarshal_aux (length p) p.
Definition ex_esz (e : entry) : N := len (e_key e) + 5.
Definition ex_gz (name p : bytes) : bytes := len name :: name ++ p.
Definition ex_gunzip (z : bytes) : gz_result :=
  match z with
  | [] => GzErr
  | n :: t => if len t <? n then GzErr
              else GzOpen (firstn (N.to_nat n) t) (skipn (N.to_nat n) t) true
  end.
Definition ex_cache : cache N :=
  [ mkItem [7] 41 100700000000 400000000000 50000000000      (* expired at the dump (now1 = 60 s) *)
  ; mkItem [8] 42 100700000000 400000000000 500999999999
  ; mkItem [9; 9] 43 90000000000 300000000000 600000000000 ].

Example c19_nonvacuous :
  exists file,
    write_dump ex_pack ex_marshal ex_esz ex_gz 60000000000 ex_cache = Some file
    /\ read_dump ex_unpack ex_unmarshal ex_gunzip 61000000000 file
       = ([ mkItem [8] 42 100000000000 400000000000 500000000000
          ; mkItem [9; 9] 43 90000000000 300000000000 600000000000 ], 2, LOk)
    /\ fst (fst (load_plain ex_unpack ex_unmarshal 61000000000
                   (firstn 20 (plaintext (map ex_marshal (fst (dump ex_pack ex_esz 60000000000 ex_cache)))))
                   false)) = []
    /\ snd (load_plain ex_unpack ex_unmarshal 61000000000
                   (firstn 20 (plaintext (map ex_marshal (fst (dump ex_pack ex_esz 60000000000 ex_cache)))))
                   false) = LErr EBody.
Proof. eexists. split; [vm_compute; reflexivity|]. vm_compute. repeat split. Qed.
