(** C17 — truncated UDP replies are retried over TCP.
    Only statements, each closed by [exact] of a lemma from Proofs/UdpTc.v. *)
From Coq Require Import String.   (* before Prelude: [length], [++] stay the list ones *)
From Verif Require Import Base.Prelude Gen.Constants Model.UdpTc Proofs.UdpTc.
From Verif Require Model.Addr Model.Retry.
Open Scope N_scope.

(** ** The TC test *)

(** For EVERY header (no bound on any field) and every message body,
    msgTruncated of the encoded message is the header's TC flag. *)
Theorem c17_tc_bit h rest : msg_truncated (encode_header h ++ rest) = Some (h_tc h).
Proof. exact (tc_bit h rest). Qed.
Print Assumptions c17_tc_bit.

(** On raw bytes: it reads bit 1 of byte 2 and nothing else ... *)
Theorem c17_trunc_is_bit1_of_byte2 b x :
  nth_error b 2 = Some x -> msg_truncated b = Some ((x / 2) mod 2 =? 1).
Proof. exact (msg_truncated_arith b x). Qed.
Print Assumptions c17_trunc_is_bit1_of_byte2.

(** ... and, as coded, has no length check: exactly the slices of fewer than
    three bytes make it panic ([None]); 3..11 bytes are still tested. *)
Theorem c17_short_msg b : msg_truncated b = None <-> (length b <= 2)%nat.
Proof. exact (msg_truncated_short b). Qed.
Print Assumptions c17_short_msg.

(** [encode_header] is the 12 byte RFC 1035 header when the fields are in range,
    every pair of flag bytes is the encoding of a header whose TC flag is bit 1
    of the first, and a header is determined by its encoding. *)
Theorem c17_header_encoding h :
  wf_headerb h = true ->
  length (encode_header h) = 12%nat /\ Forall (fun x => x < 256) (encode_header h).
Proof. exact (encode_header_wf h). Qed.
Print Assumptions c17_header_encoding.

Theorem c17_every_flag_byte_is_a_header id b2 b3 qd an ns ar :
  b2 < 256 -> b3 < 256 ->
  let h := header_of_flags id b2 b3 qd an ns ar in
  flags_hi h = b2 /\ flags_lo h = b3 /\ h_tc h = N.testbit b2 1.
Proof. exact (flags_of_header_of_flags id b2 b3 qd an ns ar). Qed.
Print Assumptions c17_every_flag_byte_is_a_header.

Theorem c17_header_determined_by_encoding h :
  wf_headerb h = true ->
  header_of_flags (h_id h) (flags_hi h) (flags_lo h) (h_qd h) (h_an h) (h_ns h) (h_ar h) = h.
Proof. exact (header_of_flags_of_header h). Qed.
Print Assumptions c17_header_determined_by_encoding.

(** ** udpWithFallback.ExchangeContext, for every UDP outcome and every TCP outcome *)

(** TCP is used exactly when the UDP exchange succeeded and its reply has TC set. *)
Theorem c17_fallback_iff_tc q udp tcp :
  tcp_used (snd (udp_with_fallback q udp tcp)) = true <->
  exists r, udp = Reply r /\ msg_truncated r = Some true.
Proof. exact (fallback_iff_tc q udp tcp). Qed.
Print Assumptions c17_fallback_iff_tc.

(** What is handed to the TCP transport is the caller's query, unchanged, at most once. *)
Theorem c17_tcp_gets_same_query q udp tcp :
  snd (udp_with_fallback q udp tcp) = [] \/ snd (udp_with_fallback q udp tcp) = [q].
Proof. exact (tcp_gets_same_query q udp tcp). Qed.
Print Assumptions c17_tcp_gets_same_query.

(** TC set: the caller gets whatever the TCP exchange of the same query gives
    (reply or error), the UDP reply is dropped. *)
Theorem c17_result_is_tcp_reply_when_tc q r tcp :
  msg_truncated r = Some true ->
  udp_with_fallback q (Reply r) tcp = (of_outcome (tcp q), [q]).
Proof. exact (result_is_tcp_reply_when_tc q r tcp). Qed.
Print Assumptions c17_result_is_tcp_reply_when_tc.

Theorem c17_tcp_reply_returned q r tcp t :
  msg_truncated r = Some true -> tcp q = Reply t ->
  udp_with_fallback q (Reply r) tcp = (RReply t, [q]).
Proof. exact (tcp_reply_returned q r tcp t). Qed.
Print Assumptions c17_tcp_reply_returned.

Theorem c17_tcp_error_propagates q r tcp e :
  msg_truncated r = Some true -> tcp q = Err e ->
  udp_with_fallback q (Reply r) tcp = (RErr e, [q]).
Proof. exact (tcp_error_propagates q r tcp e). Qed.
Print Assumptions c17_tcp_error_propagates.

(** TC clear: the UDP reply is returned as it is and TCP is not touched. *)
Theorem c17_result_is_udp_reply_otherwise q r tcp :
  msg_truncated r = Some false ->
  udp_with_fallback q (Reply r) tcp = (RReply r, []).
Proof. exact (result_is_udp_reply_otherwise q r tcp). Qed.
Print Assumptions c17_result_is_udp_reply_otherwise.

Theorem c17_udp_error_propagates q e tcp : udp_with_fallback q (Err e) tcp = (RErr e, []).
Proof. exact (udp_error_propagates q e tcp). Qed.
Print Assumptions c17_udp_error_propagates.

(** The same, by the header of the UDP reply: all flag combinations, any body. *)
Theorem c17_fallback_by_header q h rest tcp :
  udp_with_fallback q (Reply (encode_header h ++ rest)) tcp =
  if h_tc h then (of_outcome (tcp q), [q]) else (RReply (encode_header h ++ rest), []).
Proof. exact (fallback_by_header q h rest tcp). Qed.
Print Assumptions c17_fallback_by_header.

(** ** The UDP transport below it *)

(** The reply it hands up is the first arriving datagram (cut to the 4095 byte
    receive buffer) that has at least 12 bytes and the id the query went out with. *)
Theorem c17_udp_reply_is_valid_datagram qid ds p :
  udp_receive qid ds = Some p ->
  tr_dns_header_len <= len p /\ len p <= udp_rx_buf /\ get_id p = qid /\
  exists d, In d ds /\ p = udp_rx d.
Proof. exact (udp_receive_some qid ds p). Qed.
Print Assumptions c17_udp_reply_is_valid_datagram.

Theorem c17_short_or_foreign_datagram_ignored qid d ds :
  len (udp_rx d) < tr_dns_header_len \/ get_id (udp_rx d) <> qid ->
  udp_receive qid (d :: ds) = udp_receive qid ds.
Proof. exact (udp_receive_skip qid d ds). Qed.
Print Assumptions c17_short_or_foreign_datagram_ignored.

Theorem c17_first_valid_datagram_wins qid d ds :
  tr_dns_header_len <= len d -> len d <= udp_rx_buf -> get_id d = qid ->
  udp_receive qid (d :: ds) = Some d.
Proof. exact (udp_receive_first qid d ds). Qed.
Print Assumptions c17_first_valid_datagram_wins.

(** The caller's id is put back, nothing else changes (in particular not the TC bit). *)
Theorem c17_id_restored q qid ds r :
  udp_exchange q qid ds = Reply r ->
  (2 <= length q)%nat -> Forall (fun x => x < 256) q ->
  firstn 2 r = firstn 2 q /\
  exists p, udp_receive qid ds = Some p /\ skipn 2 r = skipn 2 p /\ length r = length p.
Proof. exact (udp_exchange_id q qid ds r). Qed.
Print Assumptions c17_id_restored.

(** Because of the 12 byte minimum, msgTruncated's missing length check cannot fire here. *)
Theorem c17_no_panic q qid ds r tcp :
  udp_exchange q qid ds = Reply r -> fst (udp_with_fallback q (Reply r) tcp) <> RPanic.
Proof. exact (udp_exchange_no_panic q qid ds r tcp). Qed.
Print Assumptions c17_no_panic.

(** ** The TCP transport used for the retry (one query at a time) *)

(** A server that answers with a frame of at least 13 bytes: that reply comes
    back, the server saw exactly the caller's query, and a connection is opened
    unless an idle one exists. *)
Theorem c17_tcp_answer idle beh f q :
  answers beh f -> min_frame_len <= len (f q) ->
  let t := reuse_exchange true idle beh q in
  fst t = Reply (f q) /\ te_seen (snd t) = [q] /\ te_conns (snd t) = (if idle then 0 else 1).
Proof. exact (reuse_answer idle beh f q). Qed.
Print Assumptions c17_tcp_answer.

Theorem c17_tcp_small_frame_is_error idle beh f q :
  answers beh f -> len (f q) < min_frame_len ->
  exists e, fst (reuse_exchange true idle beh q) = Err e.
Proof. exact (reuse_small_frame_is_error idle beh f q). Qed.
Print Assumptions c17_tcp_small_frame_is_error.

Theorem c17_tcp_refused beh q :
  reuse_exchange false false beh q = (Err e_refused, mkEff false 0 []).
Proof. exact (reuse_refused beh q). Qed.
Print Assumptions c17_tcp_refused.

Theorem c17_tcp_dies l idle beh q :
  dies beh -> exists e, fst (reuse_exchange l idle beh q) = Err e.
Proof. exact (reuse_dies l idle beh q). Qed.
Print Assumptions c17_tcp_dies.

(** Whatever happens (including the retry on a new connection after a dead idle
    one), the server only ever sees the caller's query, and at most one
    connection is opened per exchange. *)
Theorem c17_tcp_sees_only_the_query l idle beh q :
  Forall (eq q) (te_seen (snd (reuse_exchange l idle beh q))).
Proof. exact (reuse_seen_same_query l idle beh q). Qed.
Print Assumptions c17_tcp_sees_only_the_query.

Theorem c17_tcp_at_most_one_conn l idle beh q : te_conns (snd (reuse_exchange l idle beh q)) <= 1.
Proof. exact (reuse_conns_le_1 l idle beh q). Qed.
Print Assumptions c17_tcp_at_most_one_conn.

(** ** The property, for any query of any sequence of queries on one upstream

    State [s] is arbitrary (idle TCP connection or not, any next wire id), the
    UDP and TCP servers are arbitrary functions.  If the datagram the UDP
    transport accepts has header [h]:
    TC set  => result is the TCP exchange's, the TCP server saw only the caller's query;
    TC clear => result is that datagram with the caller's id, the TCP server saw
               nothing, no connection was opened and the idle state is untouched. *)
Theorem c17_step l s x h rest :
  udp_receive (s_qid s) (st_udp x (udp_wire_query (st_q x) (s_qid s))) = Some (encode_header h ++ rest) ->
  let o := snd (session_step l s x) in
  let t := reuse_exchange l (s_idle s) (st_tcp x) (st_q x) in
  if h_tc h then
    o_res o = of_outcome (fst t) /\ o_tcp_seen o = te_seen (snd t) /\
    Forall (eq (st_q x)) (o_tcp_seen o) /\ o_conns o = te_conns (snd t) /\ o_conns o <= 1
  else
    o_res o = RReply (put_id (get_id (st_q x)) (encode_header h ++ rest)) /\
    o_tcp_seen o = [] /\ o_conns o = 0 /\
    s_idle (fst (session_step l s x)) = s_idle s.
Proof. exact (step_by_header l s x h rest). Qed.
Print Assumptions c17_step.

(** Every step of every session satisfies [step_ok] (Proofs/UdpTc.v): no valid
    datagram => timeout error without TCP; TC => TCP outcome; no TC => UDP reply
    without TCP. *)
Theorem c17_session l xs s : session_ok l s xs (run_session l s xs).
Proof. exact (run_session_ok l xs s). Qed.
Print Assumptions c17_session.

(** ** "... to the same server"

    For every upstream string and every Opt.DialAddr for which NewUpstream
    builds a plain-UDP upstream, the address the TCP retry dials is the address
    the UDP query is sent to (and that is the C18 target: DialAddr when set,
    else the url host; port from it or 53). *)
Theorem c17_retry_same_server addr dial_addr d :
  udp_upstream_dials addr dial_addr = Some d -> d_tcp d = d_udp d.
Proof. exact (retry_same_server addr dial_addr d). Qed.
Print Assumptions c17_retry_same_server.

Theorem c17_udp_dials_target addr dial_addr d :
  udp_upstream_dials addr dial_addr = Some d ->
  exists t, Addr.new_upstream Addr.ip_literal addr dial_addr false = Some t /\
            Addr.t_transport t = Addr.TUdp /\ d_udp d = (Addr.t_host t, Addr.t_port t).
Proof. exact (udp_dials_target addr dial_addr d). Qed.
Print Assumptions c17_udp_dials_target.

(** ** Time

    The caller's deadline is the only limit udpWithFallback puts on the retry
    (besides the TCP connection's own query deadline): if the UDP reply (TC set)
    is there at [t_udp] and the TCP exchange takes [t_tcp], both inside the
    caller's deadline, the caller gets the TCP reply. *)
Theorem c17_late_tcp_reply_is_returned q deadline t_udp r t_tcp tcp t :
  t_udp + t_tcp < deadline -> t_tcp < tcp_query_timeout_ms ->
  msg_truncated r = Some true -> tcp q = Reply t ->
  udp_with_fallback_timed q deadline t_udp (Reply r) t_tcp tcp = (RReply t, [q]).
Proof. exact (timed_tcp_reply q deadline t_udp r t_tcp tcp t). Qed.
Print Assumptions c17_late_tcp_reply_is_returned.

Theorem c17_caller_deadline_is_an_error q deadline t_udp udp t_tcp tcp :
  deadline <= t_udp + t_tcp ->
  (forall r, udp = Reply r -> msg_truncated r = Some true) ->
  exists e, fst (udp_with_fallback_timed q deadline t_udp udp t_tcp tcp) = RErr e.
Proof. exact (timed_gives_up q deadline t_udp udp t_tcp tcp). Qed.
Print Assumptions c17_caller_deadline_is_an_error.

(** ** Retries whose caller gave up never cross replies

    For every sequence of retries (waiting or abandoned) and late replies,
    starting with no connections: every retry that waits gets the reply the
    server derived from ITS query ([reply_ok], Proofs/UdpTc.v), because an
    abandoned connection is not idle until its owed reply has been read
    ([pool_ok] is invariant). *)
Theorem c17_no_crossed_replies f es : Forall2 (reply_ok f) es (rrun f rpool0 es).
Proof. exact (rrun_own_replies f es rpool0 pool0_ok). Qed.
Print Assumptions c17_no_crossed_replies.

(** ** Dead idle connections in the way of the retry

    The TCP leg's retry loop is [Retry.loop Retry.reuse_cfg] (Model/Retry.v,
    shape and constant regenerated from reuse.go).  With [k] idle connections
    that each fail mid-exchange (query read, connection closed) and a server
    that answers on a new connection: for k <= maxRetry + 1 the caller of the
    fallback gets the TCP reply, from one new connection, and the server saw
    the caller's query k + 1 times and nothing else; one more dead connection
    and the last error is returned without dialling. *)
Theorem c17_retry_budget : Retry.allowed Retry.reuse_cfg = reuse_max_retry + 1.
Proof. exact reuse_allowed. Qed.
Print Assumptions c17_retry_budget.

Theorem c17_stale_conns_then_fresh k f q :
  N.of_nat k <= reuse_max_retry + 1 ->
  reuse_stale k f q = (Reply (f q), mkEff true 1 (repeat q (S k))).
Proof. exact (reuse_stale_answered k f q). Qed.
Print Assumptions c17_stale_conns_then_fresh.

Theorem c17_fallback_over_stale_conns q r k f :
  msg_truncated r = Some true -> N.of_nat k <= reuse_max_retry + 1 ->
  udp_with_fallback q (Reply r) (fun q' => fst (reuse_stale k f q')) = (RReply (f q), [q]).
Proof. exact (fallback_over_stale_conns q r k f). Qed.
Print Assumptions c17_fallback_over_stale_conns.

Theorem c17_one_stale_conn_too_many k f q :
  N.of_nat k = reuse_max_retry + 2 ->
  reuse_stale k f q = (Err e_closed, mkEff false 0 (repeat q k)).
Proof. exact (reuse_stale_too_many k f q). Qed.
Print Assumptions c17_one_stale_conn_too_many.

(** ** Re-sent UDP queries

    Every datagram of an exchange (the first, each 1 s re-send) is the same
    bytes under the same wire id, so a server may answer any of them, echoing
    the id it received: the reply is taken by the waiting exchange, and the rest
    (TC => TCP) is as for an answered first datagram. *)
Theorem c17_resend_same_datagram q qid n d : In d (udp_sends q qid n) -> d = udp_wire_query q qid.
Proof. exact (resend_same_datagram q qid n d). Qed.
Print Assumptions c17_resend_same_datagram.

Theorem c17_answer_to_any_send_accepted q qid n d r ds :
  In d (udp_sends q qid n) -> qid < 65536 ->
  get_id r = get_id d -> tr_dns_header_len <= len r -> len r <= udp_rx_buf ->
  udp_receive qid (r :: ds) = Some r.
Proof. exact (answer_to_any_send_accepted q qid n d r ds). Qed.
Print Assumptions c17_answer_to_any_send_accepted.

(** ** Idle connections the server closed while idle

    Once the client has seen them die they are in no pool any more: for ANY
    number [k] of them the retry is answered from one fresh connection. *)
Theorem c17_dead_idle_conns_are_harmless k f q :
  reuse_dead_idle k f q = (Reply (f q), mkEff true 1 [q]).
Proof. exact (reuse_dead_idle_answered k f q). Qed.
Print Assumptions c17_dead_idle_conns_are_harmless.

Theorem c17_fallback_over_dead_idle_conns q r k f :
  msg_truncated r = Some true ->
  udp_with_fallback q (Reply r) (fun q' => fst (reuse_dead_idle k f q')) = (RReply (f q), [q]).
Proof. exact (fallback_over_dead_idle_conns q r k f). Qed.
Print Assumptions c17_fallback_over_dead_idle_conns.

(** Non-vacuity of the above: url host 127.0.0.2 (no port), DialAddr 127.0.0.1:5353. *)
Example c17_dials_nonvacuous :
  udp_upstream_dials (Addr.lit "udp://127.0.0.2"%string) (Addr.lit "127.0.0.1:5353"%string)
  = Some (mkDials (Addr.lit "127.0.0.1"%string, 5353) (Addr.lit "127.0.0.1"%string, 5353)).
Proof. vm_compute. reflexivity. Qed.

(** Non-vacuity: a reply with flag bytes 0x87 0x80 (QR, AA, TC, RD) preceded by
    an 11 byte datagram with TC set and followed by a second reply: the caller
    gets the TCP server's answer, which saw the caller's query on one new
    connection; with flag byte 0x85 (TC clear) the caller gets the UDP reply. *)
Example c17_nonvacuous :
  let q := encode_header (header_of_flags 4660 1 0 1 0 0 0) ++ [3; 119; 119; 119; 0; 0; 1; 0; 1] in
  let udp b2 := fun w => [firstn 11 (be16 (get_id w) ++ [130; 0; 0; 0; 0; 0; 0; 0; 0; 0]);
                          encode_header (header_of_flags (get_id w) b2 128 1 0 0 0) ++ skipn 12 w] in
  let tcp := TAnswer (fun w => encode_header (header_of_flags (get_id w) 133 128 1 1 0 0) ++ skipn 12 w ++ [7]) in
  let o1 := snd (session_step true sess0 (mkStep q (udp 135) tcp)) in
  let o2 := snd (session_step true sess0 (mkStep q (udp 133) tcp)) in
  (o_res o1 = RReply (encode_header (header_of_flags 4660 133 128 1 1 0 0) ++ skipn 12 q ++ [7])
   /\ o_tcp_seen o1 = [q] /\ o_conns o1 = 1)
  /\ (o_res o2 = RReply (encode_header (header_of_flags 4660 133 128 1 0 0 0) ++ skipn 12 q)
   /\ o_tcp_seen o2 = [] /\ o_conns o2 = 0).
Proof. vm_compute. repeat split. Qed.
