(** C18 — upstreams connect to exactly the address the user configured.
    Only statements, each closed by [exact] of a lemma from Proofs/Addr.v.

    Strings are lists of character codes; [lit "tls"] is a literal. The model
    functions ([new_upstream], [parse_dial_addr], [split_host_port], ...) are
    the ones Judge.C18 runs against the Go code on every check. [is_ip] stands
    for netip.ParseAddr and is arbitrary in every theorem. *)
From Coq Require Import Ascii String.
From Verif Require Import Base.Prelude Model.Addr Proofs.Addr.
Open Scope N_scope.

(** *** The whole address (NewUpstream)

    For every scheme of the table (udp, tcp, tcp+pipeline: 53; tls,
    tls+pipeline, quic, doq: 853; https, h3: 443), every well-formed URL
    endpoint [e] — hostname/IPv4 [h] or [h:p], IPv6 text as [v], [[v]] or
    [[v]:p], any text of name characters resp. of name characters and at least
    two colons, any decimal port 1..65535 of any length — every path, every
    well-formed dial_addr (same forms except "[v]" without port), with or
    without SOCKS5:
    the upstream dials exactly the host of dial_addr if given, else of the URL,
    on the port written next to that host, else the scheme's default; the TLS
    server name (tls, https, h3, quic) is the URL host whatever dial_addr
    says; the only refusal is a non-IP host where the transport needs an IP
    (udp always, tcp unless through SOCKS5). Note: with a dial_addr the port of
    the URL is not used. *)
Theorem c18_dial_target (is_ip : str -> bool) nm tr def e path dial socks :
  In (nm, tr, def) scheme_table ->
  wf_ep e = true -> url_ok_ep e = true -> wf_path path = true -> dial_wf dial = true ->
  let eff := match dial with Some d => d | None => e end in
  new_upstream is_ip (lit nm ++ lit "://" ++ render_ep e ++ path) (render_dial dial) socks =
  if needs_ip tr socks && negb (is_ip (ep_host eff)) then None
  else Some {| t_transport := tr;
               t_host := ep_host eff;
               t_port := match ep_port eff with Some d => dec_value d | None => def end;
               t_tls_name := if has_tls_name tr then Some (ep_host e) else None;
               t_http_host := match tr with
                              | THttps | TH3 => Some (http_host_of (render_ep e))
                              | _ => None
                              end |}.
Proof. exact (dial_target is_ip nm tr def e path dial socks). Qed.
Print Assumptions c18_dial_target.

(** The same without a scheme: udp, port 53. *)
Theorem c18_dial_target_no_scheme (is_ip : str -> bool) e path dial socks :
  wf_ep e = true -> url_ok_ep e = true -> wf_path path = true -> dial_wf dial = true ->
  contains (lit "://") (render_ep e ++ path) = false ->
  let eff := match dial with Some d => d | None => e end in
  new_upstream is_ip (render_ep e ++ path) (render_dial dial) socks =
  if negb (is_ip (ep_host eff)) then None
  else Some {| t_transport := TUdp;
               t_host := ep_host eff;
               t_port := match ep_port eff with Some d => dec_value d | None => 53 end;
               t_tls_name := None;
               t_http_host := None |}.
Proof. exact (dial_target_no_scheme is_ip e path dial socks). Qed.
Print Assumptions c18_dial_target_no_scheme.

(** Every connection an upstream opens goes to its one target. The plain udp
    upstream (scheme udp or none) dials twice — the UDP socket, and a TCP
    connection when a UDP reply comes back truncated — and both go to the
    configured host and port (dial_addr wins over the URL host, default 53
    filled in). *)
Theorem c18_every_dial_site_same_target t site :
  In site (dial_sites t) -> snd (fst site) = t_host t /\ snd site = t_port t.
Proof. exact (dial_sites_same t site). Qed.
Print Assumptions c18_every_dial_site_same_target.

Theorem c18_udp_both_dial_sites (is_ip : str -> bool) nm def e path dial socks t :
  In (nm, TUdp, def) scheme_table ->
  wf_ep e = true -> url_ok_ep e = true -> wf_path path = true -> dial_wf dial = true ->
  new_upstream is_ip (lit nm ++ lit "://" ++ render_ep e ++ path) (render_dial dial) socks = Some t ->
  let h := ep_host (eff_ep e dial) in
  let p := port_or (ep_port (eff_ep e dial)) def in
  dial_sites t = [(NetUdp, h, p); (NetTcp, h, p)].
Proof. exact (udp_sites_configured is_ip nm def e path dial socks t). Qed.
Print Assumptions c18_udp_both_dial_sites.

Theorem c18_udp_both_dial_sites_no_scheme (is_ip : str -> bool) e path dial socks t :
  wf_ep e = true -> url_ok_ep e = true -> wf_path path = true -> dial_wf dial = true ->
  contains (lit "://") (render_ep e ++ path) = false ->
  new_upstream is_ip (render_ep e ++ path) (render_dial dial) socks = Some t ->
  let h := ep_host (eff_ep e dial) in
  let p := port_or (ep_port (eff_ep e dial)) 53 in
  dial_sites t = [(NetUdp, h, p); (NetTcp, h, p)].
Proof. exact (udp_sites_configured_no_scheme is_ip e path dial socks t). Qed.
Print Assumptions c18_udp_both_dial_sites_no_scheme.

(** NewUpstream is a function of its arguments only: in a sequence of calls
    (for instance sharing one Opt.TLSConfig) every upstream is the one the call
    alone would give; so with ServerName left empty the TLS name of each is its
    own URL host, whatever was created before. (Trivial over the model, which
    has no state; the content is that the Go code agrees with it on sequences
    created from one shared tls.Config, and leaves that config unchanged.) *)
Theorem c18_calls_independent (is_ip : str -> bool) before c after :
  nth_error (new_upstreams is_ip (before ++ c :: after)) (length before)
  = Some (new_upstream is_ip (fst (fst c)) (snd (fst c)) (snd c)).
Proof. exact (new_upstreams_independent is_ip before c after). Qed.
Print Assumptions c18_calls_independent.

Theorem c18_tls_name_in_any_sequence (is_ip : str -> bool) before after nm tr def e path dial socks :
  In (nm, tr, def) scheme_table -> has_tls_name tr = true ->
  wf_ep e = true -> url_ok_ep e = true -> wf_path path = true -> dial_wf dial = true ->
  needs_ip tr socks && negb (is_ip (ep_host (eff_ep e dial))) = false ->
  exists t,
    nth_error (new_upstreams is_ip
                 (before ++ (lit nm ++ lit "://" ++ render_ep e ++ path, render_dial dial, socks) :: after))
              (length before) = Some (Some t)
    /\ effective_tls_name [] t = Some (ep_host e).
Proof. exact (seq_tls_name is_ip before after nm tr def e path dial socks). Qed.
Print Assumptions c18_tls_name_in_any_sequence.

(** With Opt.Bootstrap: resolving the host through the bootstrap server
    changes neither the host that is resolved nor the port — the connection
    goes to (address of the host the user wrote) : (the port the user wrote,
    else the scheme default); and the bootstrap is only consulted for a host
    that is not an IP literal, and not when a proxy is used (quic/h3 have no
    proxy support). *)
Theorem c18_bootstrap_keeps_port (is_ip : str -> bool) nm tr def e path dial socks bs t plan :
  In (nm, tr, def) scheme_table ->
  wf_ep e = true -> url_ok_ep e = true -> wf_path path = true -> dial_wf dial = true ->
  new_upstream_bs is_ip (lit nm ++ lit "://" ++ render_ep e ++ path) (render_dial dial) socks bs = Some (t, plan) ->
  plan_host plan = ep_host (eff_ep e dial) /\ plan_port plan = port_or (ep_port (eff_ep e dial)) def.
Proof. exact (bootstrap_keeps_port is_ip nm tr def e path dial socks bs t plan). Qed.
Print Assumptions c18_bootstrap_keeps_port.

Theorem c18_bootstrap_keeps_target (is_ip : str -> bool) addr dial socks bs t plan :
  new_upstream_bs is_ip addr dial socks bs = Some (t, plan) ->
  new_upstream is_ip addr dial socks = Some t /\ plan_host plan = t_host t /\ plan_port plan = t_port t
  /\ (forall h p, plan = DialBootstrap h p ->
        (socks = false \/ t_transport t = TH3 \/ t_transport t = TQuic) /\ is_ip (t_host t) = false /\ bs <> []).
Proof. exact (bootstrap_keeps_target is_ip addr dial socks bs t plan). Qed.
Print Assumptions c18_bootstrap_keeps_target.

(** *** Refusals happen at creation *)

(** A scheme outside the table (after the helper rewriting) is refused. *)
Theorem c18_unknown_scheme_refused (is_ip : str -> bool) s url_host dial socks :
  classify s = None -> upstream_of_url is_ip s url_host dial socks = None.
Proof. exact (unknown_scheme_refused is_ip s url_host dial socks). Qed.
Print Assumptions c18_unknown_scheme_refused.

(** A port text that is not a decimal number 0..65535 (empty, "65536", "+53",
    "5a", ...) is refused, for every scheme: in the URL host ... *)
Theorem c18_bad_url_port_refused (is_ip : str -> bool) s h d br socks :
  nobr h -> (br = false -> nocolon h) -> nocolon d -> nobr d -> parse_uint16 d = None ->
  let host := (if br then c_lbr :: h ++ [c_rbr] else h) ++ c_colon :: d in
  upstream_of_url is_ip s host [] socks = None.
Proof. exact (bad_url_port_refused is_ip s h d br socks). Qed.
Print Assumptions c18_bad_url_port_refused.

(** ... and in dial_addr. *)
Theorem c18_bad_dial_port_refused (is_ip : str -> bool) s url_host h d br socks :
  nobr h -> (br = false -> nocolon h) -> nocolon d -> nobr d -> parse_uint16 d = None ->
  let dial := (if br then c_lbr :: h ++ [c_rbr] else h) ++ c_colon :: d in
  upstream_of_url is_ip s url_host dial socks = None.
Proof. exact (bad_dial_port_refused is_ip s url_host h d br socks). Qed.
Print Assumptions c18_bad_dial_port_refused.

(** A bare IPv6 text whose last group is not decimal ("fe80::abcd") cannot be
    told from host:port by net/url and is refused, never reinterpreted. *)
Theorem c18_bare_v6_hex_tail_refused (is_ip : str -> bool) sch v path dial socks :
  scheme_tok sch = true -> forallb inner_char v = true -> has c_colon v = true ->
  wf_path path = true -> forallb is_digit (after_last_colon v) = false ->
  new_upstream is_ip (sch ++ lit "://" ++ v ++ path) dial socks = None.
Proof. exact (bare_v6_hex_tail_refused is_ip sch v path dial socks). Qed.
Print Assumptions c18_bare_v6_hex_tail_refused.

(** *** parseDialAddr: accepted strings denote what they say (reject_or_exact)

    For ALL strings: if (host, port) comes back, then either the effective
    address [a] (dial_addr if non-empty, else the URL host) is not of the form
    host:port for net.SplitHostPort and is used whole with the default port,
    or it is literally [host ":" digits] (host without colon and brackets) or
    ["[" host "]:" digits], the digits are a number 0..65535, and the port is
    that number (0 = "no port": the default). *)
Theorem c18_reject_or_exact u d def h p :
  parse_dial_addr u d def = Some (h, p) ->
  let a := eff_addr u d in
  (exists err, split_host_port a = ShpErr err /\ h = a /\ p = def)
  \/ (exists ds,
        ((a = h ++ c_colon :: ds /\ nocolon h) \/ a = c_lbr :: h ++ c_rbr :: c_colon :: ds)
        /\ nobr h /\ ds <> [] /\ forallb is_digit ds = true /\ dec_value ds <= 65535
        /\ p = (if dec_value ds =? 0 then def else dec_value ds)).
Proof. exact (parse_dial_addr_sound u d def h p). Qed.
Print Assumptions c18_reject_or_exact.

(** The only refusal: the address splits as host:port and the port text is not a 16 bit decimal. *)
Theorem c18_refused_iff_bad_port u d def :
  parse_dial_addr u d def = None <->
  exists h ps, split_host_port (eff_addr u d) = ShpOk h ps /\ parse_uint16 ps = None.
Proof. exact (parse_dial_addr_none u d def). Qed.
Print Assumptions c18_refused_iff_bad_port.

(** For the endpoints of the grammar (URL host trimmed as NewUpstream does). *)
Theorem c18_parse_dial_addr_exact e dial def :
  wf_ep e = true -> dial_wf dial = true ->
  parse_dial_addr (trim_v6_brackets (render_ep e)) (render_dial dial) def =
  Some (ep_host (eff_ep e dial), port_or (ep_port (eff_ep e dial)) def).
Proof. exact (parse_dial_ep e dial def). Qed.
Print Assumptions c18_parse_dial_addr_exact.

(** The TLS server name derived from the URL host is the host the user wrote. *)
Theorem c18_tls_name_is_url_host e :
  wf_ep e = true -> try_remove_port (trim_v6_brackets (render_ep e)) = ep_host e.
Proof. exact (try_remove_trim_ep e). Qed.
Print Assumptions c18_tls_name_is_url_host.

(** *** The building blocks, for all strings *)

(** Brackets come off exactly (fails for the old [len-2] code, below). *)
Theorem c18_trim_brackets s : trim_v6_brackets (c_lbr :: s ++ [c_rbr]) = s.
Proof. exact (trim_bracketed s). Qed.
Print Assumptions c18_trim_brackets.

(** Refutation kept: the code before 0359ae1 turned "[::1]" into "::". *)
Theorem c18_brackets_off_by_one_refuted :
  trim_v6_brackets_old (lit "[::1]") = lit "::" /\ trim_v6_brackets (lit "[::1]") = lit "::1".
Proof. exact brackets_off_by_one. Qed.
Print Assumptions c18_brackets_off_by_one_refuted.

(** net.SplitHostPort: "h:d", "[v]:d", and bare text with two or more colons. *)
Theorem c18_split_name_port h d :
  nocolon h -> nobr h -> nocolon d -> nobr d -> split_host_port (h ++ c_colon :: d) = ShpOk h d.
Proof. exact (split_name_port h d). Qed.
Print Assumptions c18_split_name_port.

Theorem c18_split_bracketed v d :
  nobr v -> nocolon d -> nobr d -> split_host_port (c_lbr :: v ++ c_rbr :: c_colon :: d) = ShpOk v d.
Proof. exact (split_bracketed v d). Qed.
Print Assumptions c18_split_bracketed.

Theorem c18_split_bare_v6 s :
  (nth 0 s 0 =? c_lbr) = false -> (2 <= count_colon s)%nat -> split_host_port s = ShpErr ETooManyColons.
Proof. exact (split_many_colons s). Qed.
Print Assumptions c18_split_bare_v6.

Theorem c18_split_sound s h d :
  split_host_port s = ShpOk h d ->
  nobr h /\ nocolon d /\ nobr d /\
  ((s = h ++ c_colon :: d /\ nocolon h) \/ s = c_lbr :: h ++ c_rbr :: c_colon :: d).
Proof. exact (split_sound s h d). Qed.
Print Assumptions c18_split_sound.

(** Port text: accepted exactly when it is a non-empty decimal digit string of
    value at most 65535 (any number of leading zeros), and then it is that value. *)
Theorem c18_port_text s :
  parse_uint16 s =
  if negb (is_nil s) && forallb is_digit s && (dec_value s <=? 65535) then Some (dec_value s) else None.
Proof. exact (parse_uint16_spec s). Qed.
Print Assumptions c18_port_text.

(** The scheme table: helper rewriting and switch select the stated transport and default port. *)
Theorem c18_scheme_defaults nm tr def :
  In (nm, tr, def) scheme_table ->
  scheme_tok (lit nm) = true /\ map to_lower (lit nm) = lit nm
  /\ classify (lit nm) = Some tr /\ default_port tr = def.
Proof. exact (scheme_row nm tr def). Qed.
Print Assumptions c18_scheme_defaults.

(** *** Non-vacuity: concrete well-formed addresses satisfy the hypotheses, and
    the model (with the transcribed netip.ParseAddr as [is_ip]) computes the
    stated targets. *)
Example c18_nonvacuous_tls_v6_dial :
  let e := EV6 (lit "2001:db8::1") true None in
  let dial := Some (EName (lit "1.2.3.4") (Some (lit "8853"))) in
  In ("tls+pipeline"%string, TTls, 853) scheme_table
  /\ wf_ep e = true /\ url_ok_ep e = true /\ wf_path (lit "/x") = true /\ dial_wf dial = true
  /\ new_upstream ip_literal (lit "tls+pipeline://[2001:db8::1]/x") (lit "1.2.3.4:8853") false
     = Some (mk_target TTls (lit "1.2.3.4") 8853 (Some (lit "2001:db8::1")) None).
Proof. vm_compute. repeat split; auto 10. Qed.

Example c18_nonvacuous_forms :
  forallb (fun a => match new_upstream ip_literal (lit (fst a)) [] true with
                    | Some t => str_eqb (t_host t) (lit (fst (snd a))) && (t_port t =? snd (snd a))
                    | None => false
                    end)
    [ ("udp://[::1]", ("::1", 53)); ("::1", ("::1", 53)); ("tcp://2001:db8::53", ("2001:db8::53", 53));
      ("tls://[2001:0db8:0000:0000:0000:0000:0000:0001]:8853", ("2001:0db8:0000:0000:0000:0000:0000:0001", 8853));
      ("https://dns.example/dns-query", ("dns.example", 443)); ("h3://[::ffff:1.2.3.4]", ("::ffff:1.2.3.4", 443));
      ("quic://1.2.3.4:00853", ("1.2.3.4", 853)); ("doq://dns.example", ("dns.example", 853)) ]%string = true
  /\ new_upstream ip_literal (lit "udp://fe80::abcd") [] false = None
  /\ new_upstream ip_literal (lit "tls://dns.example:65536") [] true = None
  /\ new_upstream ip_literal (lit "udp://dns.example") [] false = None.
Proof. vm_compute. repeat split. Qed.
