(** C01 — every upstream exchange returns the reply to its own query
    (ID-multiplexed connection: plain UDP, pipelined TCP/DoT).
    Statements only; proofs in Proofs/Tdc.v. *)
From Verif Require Import Base.Prelude Gen.Constants Model.Tdc Proofs.Tdc.
From Verif Require Model.Reuse Proofs.Reuse.
From Verif Require Model.IdZero Proofs.IdZero.
Open Scope N_scope.

(** For every schedule (label list) whose environment obeys the scope clause
    of the property ([env_ok]: the server answers a query under the wire id it
    was written with and only after it was written; a frame is looked up
    before its wire id has been re-assigned; a stray's id matches no
    outstanding query): a successful call returns a reply the server produced
    for that very call, with the caller's own message id restored. The caller
    ids are arbitrary (they may collide, be 0 or 0xFFFF). *)
Theorem c01_no_misdelivery maxcq tcp nq ls s c r :
  run (init maxcq tcp nq) ls = Some s -> env_ok (init maxcq tcp nq) ls ->
  cres (calls s c) = Some (ROk r) ->
  rfor r = Some c /\ rid r = corig (calls s c).
Proof. exact (no_misdelivery maxcq tcp nq ls s c r). Qed.
Print Assumptions c01_no_misdelivery.

(** Wire ids of calls that are in the waiter table at the same time differ. *)
Theorem c01_wire_ids_unique maxcq tcp nq ls s c1 c2 :
  run (init maxcq tcp nq) ls = Some s ->
  registered (cpc (calls s c1)) = true -> registered (cpc (calls s c2)) = true ->
  cwid (calls s c1) = cwid (calls s c2) -> c1 = c2.
Proof. exact (wid_unique maxcq tcp nq ls s c1 c2). Qed.
Print Assumptions c01_wire_ids_unique.

(** The id handed out is free, is one of the [fuel] candidates after the
    counter (mod 2^16), every earlier candidate is taken, and the counter ends
    right behind it — so an id is not handed out again before the 16-bit
    counter has wrapped around. *)
Theorem c01_alloc_spec fuel q nq w nq' :
  nq < 65536 -> alloc fuel q nq = (Some w, nq') ->
  q w = None /\
  exists j, (j < fuel)%nat /\ w = wrap16 (nq + N.of_nat j) /\ nq' = wrap16 (w + 1) /\
            forall i, (i < j)%nat -> q (wrap16 (nq + N.of_nat i)) <> None.
Proof.
  exact (fun Hn Ha => conj (alloc_fresh fuel q nq w nq' Ha) (alloc_spec fuel q nq w nq' Hn Ha)).
Qed.
Print Assumptions c01_alloc_spec.

(** Frames whose id matches no outstanding query, and duplicates, change no call. *)
Theorem c01_stray_or_duplicate_dropped s s' r :
  hold s = Some r ->
  (htarget s = Some None \/
   exists c, htarget s = Some (Some c) /\ (cbuf (calls s c) <> None \/ cres (calls s c) <> None)) ->
  step s LHandoff = Some s' -> calls s' = calls s.
Proof. exact (stray_or_duplicate_dropped s s' r). Qed.
Print Assumptions c01_stray_or_duplicate_dropped.

(** Non-vacuity: two calls with the same caller id 0xFFFF across a wire-id
    wrap, replies in reverse order with a duplicate and a stray in between. *)
Example c01_nonvacuous :
  let r0 := mkReply 65535 65535 100 (Some 0%nat) in
  let r1 := mkReply 0 0 101 (Some 1%nat) in
  let ls := [LReserve 0 65535; LReserve 1 65535; LCheck 0; LAdd 0; LCheck 1; LAdd 1;
             LWriteBegin 0; LWriteEnd 0 true; LArm 0; LWriteBegin 1; LWriteEnd 1 true; LArm 1;
             LRecv r1; LLookup; LHandoff; LRecv r1; LLookup; LHandoff;
             LRecv (mkReply 9 9 900 None); LLookup; LHandoff;
             LRecv r0; LLookup; LHandoff; LSelect 0 SelReply; LSelect 1 SelReply] in
  match run (init 4 true 65535) ls with
  | Some s => cres (calls s 0%nat) = Some (ROk (mkReply 65535 65535 100 (Some 0%nat)))
              /\ cres (calls s 1%nat) = Some (ROk (mkReply 0 65535 101 (Some 1%nat)))
  | None => False
  end.
Proof. vm_compute. split; reflexivity. Qed.

(** * The non-pipelined transport (reuse.go, Model.Reuse) *)
Import Model.Reuse Proofs.Reuse.

(** Under the property's assumption for reused connections (the server sends
    one reply per query, in order: [xenv]) a successful call returns the reply
    the server produced for that very call — for every schedule of callers,
    dials, readers, faults, retries and Close. *)
Theorem c01_reuse_no_misdelivery ls s c r :
  xrun xinit ls = Some s -> xenv xinit ls -> ures (xcalls s c) = Some (XOk r) -> xfor r = Some c.
Proof. exact (reuse_no_misdelivery ls s c r). Qed.
Print Assumptions c01_reuse_no_misdelivery.

(** A surplus reply (nobody is waiting on the connection) closes the connection and removes it from the pool. *)
Theorem c01_reuse_surplus_closes ls s n r s' :
  xrun xinit ls = Some s ->
  xexists (conns s n) = true -> xhold (conns s n) = Some r -> xwaiting (conns s n) = None ->
  xstep s (MDispatch n) = Some s' -> xclosed (conns s' n) = true /\ ~ In n (idle s') /\ ~ In n (cset s').
Proof. exact (reuse_surplus_closes ls s n r s'). Qed.
Print Assumptions c01_reuse_surplus_closes.

Example c01_reuse_nonvacuous :
  match xrun xinit [MBegin 0; MGetIdle 0 None; MDialDone 0 true; MDialRecv 0; MInstall 0; MWriteBegin 0; MWriteEnd 0 true;
                    MRecv 0 (mkXR 100 (Some 0%nat)); MDispatch 0; MSelect 0 XSelReply;
                    MBegin 1; MGetIdle 1 (Some 0%nat); MInstall 1; MWriteBegin 1; MWriteEnd 1 true;
                    MRecv 0 (mkXR 101 (Some 1%nat)); MDispatch 0; MSelect 1 XSelReply] with
  | Some s => ures (xcalls s 0%nat) = Some (XOk (mkXR 100 (Some 0%nat))) /\ ures (xcalls s 1%nat) = Some (XOk (mkXR 101 (Some 1%nat)))
              /\ idle s = [0%nat]
  | None => False
  end.
Proof. vm_compute. repeat split; reflexivity. Qed.

(** * DoH and DoQ: id 0 on the wire, the caller's id on the reply *)
Import Model.IdZero Proofs.IdZero.

(** The query goes out with message id 0 and is otherwise untouched. *)
Theorem c01_wire_id_zero q :
  (2 <= length q)%nat -> get_id (wire_query q) = 0 /\ skipn 2 (wire_query q) = skipn 2 q /\ length (wire_query q) = length q.
Proof. exact (wire_id_zero q). Qed.
Print Assumptions c01_wire_id_zero.

(** The reply comes back with the caller's original id (any id, 0 and 0xFFFF included) and is otherwise untouched. *)
Theorem c01_reply_id_restored q r :
  Forall (fun b => b < 256) q -> (2 <= length r)%nat ->
  get_id (returned_reply q r) = get_id q /\ skipn 2 (returned_reply q r) = skipn 2 r /\ length (returned_reply q r) = length r.
Proof. exact (reply_id_restored q r). Qed.
Print Assumptions c01_reply_id_restored.
