(** C07 — exchanges always terminate; Close releases everything.
    PARTIAL: this file carries the safety core at connection level (the
    ID-multiplexed connection of conn_traditional.go): every wait has a
    wake-up, faults close the connection once and for good, a closed
    connection wakes every waiter and refuses later calls. Real-time liveness
    (the Go scheduler runs ready goroutines; net.Conn honours deadlines) and
    goroutine release are observed by the harness, not proved. Statements only;
    proofs in Proofs/Tdc.v. *)
From Verif Require Import Base.Prelude Gen.Constants Model.Tdc Proofs.Tdc.
From Verif Require Model.Lazy Proofs.Lazy.
From Verif Require Model.Reuse Proofs.Reuse.
From Verif Require Gen.LockOrderFacts Model.LockOrder Proofs.LockOrder.
From Verif Require Model.PPool Proofs.PPool.
Open Scope N_scope.

(** Any write error, read error / EOF / deadline expiry, or Close closes the connection. *)
Theorem c07_fault_closes s l s' :
  step s l = Some s' ->
  match l with LWriteEnd _ false | LResendEnd _ false | LRecvErr | LClose => True | _ => False end ->
  closed s' = true.
Proof. exact (fault_closes s l s'). Qed.
Print Assumptions c07_fault_closes.

(** Closed is final and the close error is set exactly once. *)
Theorem c07_closed_is_final s l s' :
  step s l = Some s' -> closed s = true -> closed s' = true /\ close_err s' = close_err s.
Proof. exact (closed_monotone s l s'). Qed.
Print Assumptions c07_closed_is_final.

(** A waiting call's wake-ups: context end, connection close, a delivered reply. *)
Theorem c07_waiter_wakes s c :
  cpc (calls s c) = PWaiting ->
  (cctx (calls s c) = true -> exists s', step s (LSelect c SelCtx) = Some s') /\
  (closed s = true -> exists s', step s (LSelect c SelClose) = Some s') /\
  (forall r, cbuf (calls s c) = Some r -> exists s', step s (LSelect c SelReply) = Some s').
Proof. exact (waiter_wakes s c). Qed.
Print Assumptions c07_waiter_wakes.

(** No waiting call is stuck for good, in any reachable state and whatever the
    other callers do or do not do: the reader alone (finishing the frame it
    holds, then its always-armed read deadline expiring or the peer failing)
    leads to a state in which the call's wait is enabled. *)
Theorem c07_waiting_call_can_be_woken maxcq tcp nq ls s c :
  run (init maxcq tcp nq) ls = Some s -> cpc (calls s c) = PWaiting ->
  exists rs s1 k s2, forallb reader_label rs = true /\ run s rs = Some s1 /\
                     cpc (calls s1 c) = PWaiting /\ step s1 (LSelect c k) = Some s2.
Proof. exact (waiting_call_can_be_woken maxcq tcp nq ls s c). Qed.
Print Assumptions c07_waiting_call_can_be_woken.

(** An error exit always completes (the call returns an error, or the reply it was handed). *)
Theorem c07_error_exit_returns maxcq tcp nq ls s c r :
  run (init maxcq tcp nq) ls = Some s ->
  cgot (calls s c) = Some r -> cres (calls s c) = None ->
  forall e, cpc (calls s c) = PExiting e -> exists s', step s (LTake c) = Some s'.
Proof.
  exact (fun R G E e P =>
    match proj2 (proj2 (delivered_call_returns_it maxcq tcp nq ls s c r R G E)) e P with
    | ex_intro _ s' (conj H _) => ex_intro _ s' H
    end).
Qed.
Print Assumptions c07_error_exit_returns.

(** After the connection is closed, later calls fail at once and create nothing. *)
Theorem c07_after_close_refuses s c orig s' :
  closed s = true -> step s (LReserve c orig) = Some s' -> cres (calls s' c) = Some (RRefused true).
Proof. exact (after_close_refuses s c orig s'). Qed.
Print Assumptions c07_after_close_refuses.

Theorem c07_after_close_exchange_fails s c s' :
  closed s = true -> step s (LCheck c) = Some s' -> cres (calls s' c) = Some (RErr EClosed).
Proof. exact (after_close_exchange_fails s c s'). Qed.
Print Assumptions c07_after_close_exchange_fails.

(** When a caller arms the read deadline it is the waiting-reply one … *)
Theorem c07_arm_sets_waiting_deadline s c s' :
  step s (LArm c) = Some s' -> waiting_resp s' = true /\ (waiting_resp s = false -> hd ArmIdle (arms s') = ArmWaiting).
Proof. exact (arm_sets_waiting_deadline s c s'). Qed.
Print Assumptions c07_arm_sets_waiting_deadline.

(** … but (finding F10, recorded in known_findings.json) after ANY frame the
    reader re-arms the idle timeout although another query is still written
    and unanswered: with the 5 minute idle timeout of plain UDP upstreams a
    silent server is then only detected after minutes, not tens of seconds. *)
Theorem c07_idle_rearm_refuted :
  exists ls s, run (init 4 false 0) ls = Some s /\
    cpc (calls s 1%nat) = PWaiting /\ cgot (calls s 1%nat) = None /\ reader_dead s = false /\
    hd ArmWaiting (arms s) = ArmIdle.
Proof. exact idle_rearm_refuted. Qed.
Print Assumptions c07_idle_rearm_refuted.

(** Non-vacuity: two waiting calls, the peer goes away, both are woken with the read error. *)
Example c07_nonvacuous :
  match run (init 4 true 0)
        [LReserve 0 1; LReserve 1 2; LCheck 0; LAdd 0; LWriteBegin 0; LWriteEnd 0 true; LArm 0;
         LCheck 1; LAdd 1; LWriteBegin 1; LWriteEnd 1 true; LArm 1; LRecvErr;
         LSelect 0 SelClose; LTake 0; LSelect 1 SelClose; LTake 1; LReserve 2 3] with
  | Some s => cres (calls s 0%nat) = Some (RErr ERead) /\ cres (calls s 1%nat) = Some (RErr ERead)
              /\ cres (calls s 2%nat) = Some (RRefused true) /\ live s = []
  | None => False
  end.
Proof. vm_compute. repeat split; reflexivity. Qed.

(** * Dial level (lazyDnsConn, Model.Lazy) *)
Import Model.Lazy Proofs.Lazy.

(** A caller queued on a connection that is still dialing is woken by the end
    of the dial — success, error, or Close cancelling it — and by its context. *)
Theorem c07_early_waiter_wakes s c :
  qpc (lcalls s c) = QEarlyWait ->
  (ldial s <> Dialing -> exists s', lstep s (ZGo c) = Some s') /\
  (qctx (lcalls s c) = true -> exists s', lstep s (ZCtxExit c) = Some s').
Proof. exact (early_waiter_wakes s c). Qed.
Print Assumptions c07_early_waiter_wakes.

(** After Close, in every reachable state, a reservation that gets through is refused as closed. *)
Theorem c07_lazy_after_close_refuses maxq im ls s c s' :
  lrun (linit maxq im) ls = Some s -> lclosed s = true ->
  lstep s (ZReserve c) = Some s' -> qres (lcalls s' c) = Some (LRRefused true).
Proof. exact (lazy_after_close_refuses maxq im ls s c s'). Qed.
Print Assumptions c07_lazy_after_close_refuses.

(** Non-vacuity: Close while dialing wakes both queued callers with the cancellation error. *)
Example c07_lazy_nonvacuous :
  match lrun (linit 3 3) [ZReserve 0; ZReserve 1; ZStart 0; ZStart 1; ZClose; ZGo 0; ZGo 1; ZReserve 2] with
  | Some s => qres (lcalls s 0%nat) = Some (LRErr LECancelled) /\ qres (lcalls s 1%nat) = Some (LRErr LECancelled)
              /\ qres (lcalls s 2%nat) = Some (LRRefused true) /\ lreserved s = 0
  | None => False
  end.
Proof. vm_compute. repeat split; reflexivity. Qed.

(** * The non-pipelined transport (reuse.go, Model.Reuse) *)
Import Model.Reuse Proofs.Reuse.

(** Close of the transport closes every connection it ever opened; afterwards calls fail at once. *)
Theorem c07_reuse_tclose_closes_all ls s s' n :
  xrun xinit ls = Some s -> xstep s MTClose = Some s' ->
  tclosed s' = true /\ (xexists (conns s' n) = true -> xclosed (conns s' n) = true).
Proof. exact (reuse_tclose_closes_all ls s s' n). Qed.
Print Assumptions c07_reuse_tclose_closes_all.

Theorem c07_reuse_after_close_fails s c pick s' :
  tclosed s = true -> xstep s (MGetIdle c pick) = Some s' -> ures (xcalls s' c) = Some (XErr XClosedT).
Proof. exact (reuse_after_close_fails s c pick s'). Qed.
Print Assumptions c07_reuse_after_close_fails.

Theorem c07_reuse_waiter_wakes s c :
  upc (xcalls s c) = UWaiting ->
  (uctx (xcalls s c) = true -> exists s', xstep s (MSelect c XSelCtx) = Some s') /\
  (xclosed (conns s (uconn (xcalls s c))) = true -> exists s', xstep s (MSelect c XSelClose) = Some s') /\
  (forall r, ubuf (xcalls s c) = Some r -> exists s', xstep s (MSelect c XSelReply) = Some s').
Proof. exact (reuse_waiter_wakes s c). Qed.
Print Assumptions c07_reuse_waiter_wakes.

(** * Lock order (all of pkg/upstream/transport; Model.LockOrder, Gen.LockOrderFacts)

    Threads that take locks (mutexes, and sync.Once while its function runs) only in strictly
    increasing rank and release what they took never deadlock: for every number of threads, all
    programs obeying the discipline and every schedule, the state reached is finished or some thread
    can move. *)
Import Model.LockOrder Proofs.LockOrder.
Theorem c07_lock_order_no_deadlock (rank : nat -> nat) (ps : list prog) (sched : list nat) :
  forallb (ordered rank []) ps = true ->
  let s := lrun (init_of ps) sched in
  finished s = true \/ exists i s1, LockOrder.lstep s i = Some s1.
Proof. exact (ordered_no_deadlock rank ps sched). Qed.
Print Assumptions c07_lock_order_no_deadlock.

(** The nesting table regenerated from the Go source on every run (which lock class may be acquired
    while which is held, calls followed through the package) is consistent with the ranking: every
    mutex / once of the package is ranked, every nesting goes strictly upwards, and the translator
    resolved every lock operation. This is the statement that broke for defect F13
    (closeOnce -> ReuseConnTransport.m against ReuseConnTransport.m -> closeOnce). *)
Theorem c07_transport_lock_order :
  edges_ok transport_rank transport_exempt Gen.LockOrderFacts.lock_classes Gen.LockOrderFacts.lock_edges = true
  /\ Gen.LockOrderFacts.lock_unresolved = [].
Proof. exact (conj (eq_refl true) eq_refl). Qed.
Print Assumptions c07_transport_lock_order.

(** Non-vacuity: the inverted order deadlocks in the model (both threads stuck, nobody finished); the
    repaired order obeys the discipline. *)
Example c07_lock_inversion_deadlocks :
  let s := lrun (init_of inverted_progs) [0; 1]%nat in
  finished s = false /\ LockOrder.lstep s 0 = None /\ LockOrder.lstep s 1 = None.
Proof. exact inversion_deadlocks. Qed.
Example c07_repaired_order_disciplined : forallb (ordered (fun l => l) []) repaired_progs = true.
Proof. exact repaired_disciplined. Qed.

(** * The pipeline transport's pool after Close (Model.PPool): every later call fails at once with
    "transport closed", asks no connection and changes nothing, for ever. *)
Import Model.PPool Proofs.PPool.
Theorem c07_pool_after_close ls s vs f s1 o :
  prun pinit ls = Some s -> pt_closed s = true ->
  pstep s (PGet vs f) = Some (s1, o) -> o = Some PoErrClosed /\ s1 = s /\ vs = [].
Proof.
  intros _ Hc Hs. destruct (pool_after_close s vs f s1 o Hc Hs) as [A B]. split; [exact A|]. split; [exact B|].
  cbn [pstep] in Hs. rewrite Hc in Hs. destruct vs; [reflexivity|discriminate].
Qed.
Print Assumptions c07_pool_after_close.

Theorem c07_pool_closed_forever ls s s1 : prun s ls = Some s1 -> pt_closed s = true -> pt_closed s1 = true.
Proof. exact (pool_closed_forever ls s s1). Qed.
Print Assumptions c07_pool_closed_forever.
