(** C04 — a cached answer is only served to the same question.
    Only statements, each closed by [exact] of a lemma from Proofs/CacheKey.v.

    [msg_key] is getMsgKey as Cache.Exec uses it ([None] = "", skip the cache);
    [wf_qmsg]: Qtype and Qclass are below 65536 (they are uint16 in Go); names
    are arbitrary byte lists of ANY length (no 255 bound is needed: the name is
    what follows six fixed-width bytes, so the wrap of the length byte at 256 is
    harmless). *)
From Verif Require Import Base.Prelude Gen.Constants Model.CacheKey Proofs.CacheKey.
From Verif Require Judge.C04.
Open Scope N_scope.

(** Two messages with the same key ask the same question (same name byte for
    byte, same type, same class) with the same AD, CD and DO — over all 65536
    types, all classes, the 8 flag combinations and all names. *)
Theorem c04_key_injective q1 q2 k :
  wf_qmsg q1 -> wf_qmsg q2 ->
  msg_key q1 = Some k -> msg_key q2 = Some k ->
  (exists qu1 qu2, q_question q1 = [qu1] /\ q_question q2 = [qu2] /\
     qname qu1 = qname qu2 /\ qtype qu1 = qtype qu2 /\ qclass qu1 = qclass qu2) /\
  q_ad q1 = q_ad q2 /\ q_cd q1 = q_cd q2 /\ msg_do q1 = msg_do q2.
Proof. exact (key_injective q1 q2 k). Qed.
Print Assumptions c04_key_injective.

(** Contrapositive: queries that differ in any of these never share an entry. *)
Theorem c04_different_never_share q1 q2 k1 k2 :
  wf_qmsg q1 -> wf_qmsg q2 ->
  ~ same_question_and_flags q1 q2 ->
  msg_key q1 = Some k1 -> msg_key q2 = Some k2 -> k1 <> k2.
Proof. exact (different_never_share q1 q2 k1 k2). Qed.
Print Assumptions c04_different_never_share.

(** Conversely the same question and flags give the same key (the cache is of use). *)
Theorem c04_same_question_same_key q1 q2 :
  bypasses q1 = false -> bypasses q2 = false ->
  same_question_and_flags q1 q2 -> msg_key q1 = msg_key q2.
Proof. exact (key_complete q1 q2). Qed.
Print Assumptions c04_same_question_same_key.

(** The cache is skipped exactly for QR set, opcode other than QUERY, or a
    number of questions other than one; such a query neither reads nor writes. *)
Theorem c04_skip_characterisation q :
  msg_key q = None <->
  (q_qr q || negb (q_opcode q =? 0) || match q_question q with [_] => false | _ => true end) = true.
Proof. exact (msg_key_none_iff q). Qed.
Print Assumptions c04_skip_characterisation.

Theorem c04_skipped_query_touches_nothing st q om oh :
  bypasses q = true -> exec_query st q om oh = (st, Bypass).
Proof. exact (bypass_touches_nothing st q om oh). Qed.
Print Assumptions c04_skipped_query_touches_nothing.

(** History level: after ANY history of executions, expiries/evictions of
    arbitrary entries and flushes, a query that is served a cached answer [v] is
    served an answer that some earlier execution stored, the query of that
    execution has the same question and flags, and [v] carries the query's own
    question. *)
Theorem c04_hit_only_same_question h q v :
  Forall wf_op h -> wf_qmsg q ->
  served h q = Hit v ->
  exists q0 om oh,
    In (Query q0 om oh) h /\ (om = Some v \/ oh = Some v) /\
    same_question_and_flags q0 q /\ answers_question v q = true.
Proof. exact (hit_only_same_question h q v). Qed.
Print Assumptions c04_hit_only_same_question.

(** What the store holds under a key always answers a query with that key (a
    background update of the lazy cache is the step [Query q r r] for the query
    it was started for; [Judge.C04.lazy_run] runs it that way). *)
Theorem c04_held_entry_answers_its_key h k v :
  lookup k (final h) = Some v ->
  exists q om oh, In (Query q om oh) h /\ msg_key q = Some k /\ answers_question v q = true.
Proof. exact (held_entry_answers_its_key h k v). Qed.
Print Assumptions c04_held_entry_answers_its_key.

(** A dump is the store's content and loading it is the identity on it: after a
    reload (restart) a key yields only what the dump or the cache held under that
    very key ([Judge.C04.hist_run] runs dump / reload steps with [reload]). *)
Theorem c04_reload_serves_only_what_was_held fresh dump st k v :
  lookup k (reload fresh dump st) = Some v -> lookup k dump = Some v \/ lookup k st = Some v.
Proof. exact (reload_serves_only_what_was_held fresh dump st k v). Qed.
Print Assumptions c04_reload_serves_only_what_was_held.

(** The same, for the outcome recorded at any position of any run (this is the
    list [Judge.C04.agree] compares with the observed one). *)
Theorem c04_run_hits_only_same_question h1 q om oh h2 v :
  Forall wf_op (h1 ++ Query q om oh :: h2) ->
  nth (length h1) (snd (run (h1 ++ Query q om oh :: h2))) Bypass = Hit v ->
  exists q0 om0 oh0,
    In (Query q0 om0 oh0) h1 /\ (om0 = Some v \/ oh0 = Some v) /\
    same_question_and_flags q0 q /\ answers_question v q = true.
Proof. exact (run_hits_only_same_question h1 q om oh h2 v). Qed.
Print Assumptions c04_run_hits_only_same_question.

(** Not vacuous: right after an answer was stored, a query with the same
    question and flags is served exactly that answer (either order of the pair). *)
Theorem c04_same_question_is_served st q1 q2 r :
  bypasses q1 = false -> bypasses q2 = false ->
  answers_question r q1 = true -> r_ok r = true ->
  same_question_and_flags q1 q2 ->
  forall om oh, snd (exec_query (fst (exec_query st q1 (Some r) (Some r))) q2 om oh) = Hit r.
Proof. exact (same_question_is_served st q1 q2 r). Qed.
Print Assumptions c04_same_question_is_served.

(** The oracle [Judge.C04.spec] applies to the observations is this notion. *)
Theorem c04_judge_oracle_is_the_property q1 q2 :
  Judge.C04.same_qf_b q1 q2 = true <-> same_question_and_flags q1 q2.
Proof. exact (same_qf_b_iff q1 q2). Qed.
Print Assumptions c04_judge_oracle_is_the_property.

(** Scope of "DO": the message the cache sees is [qCtx.Q()]; NewContext gives it
    a fresh OPT, so the client's DO is clear there unless a plugin sets it. *)
Theorem c04_ctx_query_do_clear q : msg_do (ctx_query q) = false.
Proof. exact (ctx_query_do_clear q). Qed.
Print Assumptions c04_ctx_query_do_clear.

(** Refutations kept for the key derivation before the repair 70156c0 (F3):
    A (1) and CAA (257) collided, and so did classes IN (1) and CH (3). *)
Theorem c04_legacy_type_collision_refuted :
  legacy_key_of false false false (mkqu [97; 46] 1 1) =
  legacy_key_of false false false (mkqu [97; 46] 257 1).
Proof. exact legacy_type_collision. Qed.
Print Assumptions c04_legacy_type_collision_refuted.

Theorem c04_legacy_class_collision_refuted :
  legacy_key_of false false false (mkqu [97; 46] 1 1) =
  legacy_key_of false false false (mkqu [97; 46] 1 3).
Proof. exact legacy_class_collision. Qed.
Print Assumptions c04_legacy_class_collision_refuted.

(** Non-vacuity. Keys exist and differ for A/CAA, IN/CH, DO on/off and for two
    names whose lengths (1 and 257) have the same length byte. *)
Example c04_nonvacuous_keys :
  let q t c ex n := mkq false 0 false false [mkqu n t c] ex in
  msg_key (q 1 1 [] [97; 46]) = Some [0; 0; 1; 0; 1; 2; 97; 46] /\
  msg_key (q 257 1 [] [97; 46]) = Some [0; 1; 1; 0; 1; 2; 97; 46] /\
  msg_key (q 1 3 [] [97; 46]) = Some [0; 0; 1; 0; 3; 2; 97; 46] /\
  msg_key (q 1 1 [XOther; XOpt 32768] [97; 46]) = Some [4; 0; 1; 0; 1; 2; 97; 46] /\
  (exists k1 k2, msg_key (q 1 1 [] [46]) = Some k1 /\ msg_key (q 1 1 [] (repeat 97 256 ++ [46])) = Some k2 /\
     nth 5 k1 0 = nth 5 k2 0 /\ k1 <> k2).
Proof.
  cbv zeta. repeat split; try (vm_compute; reflexivity).
  eexists. eexists. split; [vm_compute; reflexivity|]. split; [vm_compute; reflexivity|].
  split; [vm_compute; reflexivity | vm_compute; discriminate].
Qed.

(** A history in which the hypotheses of the history theorem are met: the answer
    stored for (a., A, IN) is served to the same question and not to (a., CAA, IN),
    (a., A, CH), (A., A, IN) or the same question with CD set. *)
Example c04_nonvacuous_history :
  let q cd t c n := mkq false 0 false cd [mkqu n t c] [XOpt 0] in
  let r := mkr [mkqu [97; 46] 1 1] true 7 in
  let h := [Query (q false 1 1 [97; 46]) (Some r) None] in
  served h (q false 1 1 [97; 46]) = Hit r /\
  served h (q false 257 1 [97; 46]) = Miss /\
  served h (q false 1 3 [97; 46]) = Miss /\
  served h (q false 1 1 [65; 46]) = Miss /\
  served h (q true 1 1 [97; 46]) = Miss /\
  served (h ++ [Flush]) (q false 1 1 [97; 46]) = Miss.
Proof. vm_compute. repeat split; reflexivity. Qed.
