(** C09 — per-connection concurrency limits hold and capacity never leaks
    (established ID-multiplexed connection). Statements only; proofs in Proofs/Tdc.v. *)
From Verif Require Import Base.Prelude Gen.Constants Model.Tdc Proofs.Tdc.
Open Scope N_scope.

(** In every reachable state the two counters are exact: [reserved] is the
    number of calls holding a reservation, [qlen] the number of calls in the
    waiter table — no double counting, no underflow — and their sum never
    exceeds the configured limit. *)
Theorem c09_accounting_exact maxcq tcp nq ls s :
  run (init maxcq tcp nq) ls = Some s ->
  reserved s = cnt holds_res (calls s) (live s) /\
  qlen s = cnt registered (calls s) (live s) /\
  reserved s + qlen s <= max_cq s /\ max_cq s = maxcq.
Proof. exact (accounting_exact maxcq tcp nq ls s). Qed.
Print Assumptions c09_accounting_exact.

(** At no instant does the connection carry more unanswered queries than its limit. *)
Theorem c09_inflight_le_limit maxcq tcp nq ls s :
  run (init maxcq tcp nq) ls = Some s ->
  cnt registered (calls s) (live s) <= maxcq.
Proof. exact (inflight_le_limit maxcq tcp nq ls s). Qed.
Print Assumptions c09_inflight_le_limit.

(** After any history, when every call has returned or withdrawn, the
    connection is exactly as empty as a fresh one. *)
Theorem c09_no_leak maxcq tcp nq ls s :
  run (init maxcq tcp nq) ls = Some s -> live s = [] ->
  reserved s = 0 /\ qlen s = 0 /\ forall w, queue s w = None.
Proof. exact (no_leak maxcq tcp nq ls s). Qed.
Print Assumptions c09_no_leak.

(** A live connection holding fewer calls than its limit admits another one. *)
Theorem c09_admits_below_limit maxcq tcp nq ls s c orig :
  run (init maxcq tcp nq) ls = Some s ->
  closed s = false -> cpc (calls s c) = PIdle -> ~ In c (live s) ->
  cnt holds_res (calls s) (live s) + cnt registered (calls s) (live s) < maxcq ->
  exists s', step s (LReserve c orig) = Some s' /\ cpc (calls s' c) = PReserved /\ cres (calls s' c) = None.
Proof. exact (admits_below_limit maxcq tcp nq ls s c orig). Qed.
Print Assumptions c09_admits_below_limit.

(** At the limit the connection refuses and counts nothing. *)
Theorem c09_refuses_at_limit s c orig s' :
  step s (LReserve c orig) = Some s' -> closed s = false -> max_cq s <= qlen s + reserved s ->
  cres (calls s' c) = Some (RRefused false) /\ reserved s' = reserved s /\ qlen s' = qlen s.
Proof. exact (refuses_at_limit s c orig s'). Qed.
Print Assumptions c09_refuses_at_limit.

(** Non-vacuity: limit 2; two calls admitted, a third refused; one withdraws,
    one completes; the connection is empty again and admits two more. *)
Example c09_nonvacuous :
  match run (init 2 true 0)
        [LReserve 0 1; LReserve 1 1; LReserve 2 1; LWithdraw 0; LCheck 1; LAdd 1; LWriteBegin 1;
         LWriteEnd 1 true; LArm 1; LRecv (mkReply 0 0 5 (Some 1%nat)); LLookup; LHandoff;
         LSelect 1 SelReply; LReserve 3 1; LReserve 4 1; LReserve 5 1] with
  | Some s => cres (calls s 2%nat) = Some (RRefused false) /\ cres (calls s 5%nat) = Some (RRefused false)
              /\ reserved s = 2 /\ qlen s = 0 /\ live s = [4%nat; 3%nat]
  | None => False
  end.
Proof. vm_compute. repeat split; reflexivity. Qed.
