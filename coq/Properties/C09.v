(** C09 — per-connection concurrency limits hold and capacity never leaks
    (established ID-multiplexed connection). Statements only; proofs in Proofs/Tdc.v. *)
From Verif Require Import Base.Prelude Gen.Constants Model.Tdc Proofs.Tdc.
From Verif Require Model.Lazy Proofs.Lazy.
From Verif Require Model.Reuse Proofs.Reuse.
From Verif Require Model.PPool Proofs.PPool.
From Verif Require Proofs.ReuseOwn.
Open Scope N_scope.

(** In every reachable state the two counters are exact: [reserved] is the
    number of calls holding a reservation, [qlen] the number of calls in the
    waiter table — no double counting, no underflow — and their sum never
    exceeds the configured limit. *)
Theorem c09_accounting_exact maxcq tcp nq ls s :
  run (init maxcq tcp nq) ls = Some s ->
  reserved s = cnt holds_res (calls s) (live s) /\
  qlen s = cnt registered (calls s) (live s) /\
  reserved s + qlen s <= max_cq s /\ max_cq s = maxcq.
Proof. exact (accounting_exact maxcq tcp nq ls s). Qed.
Print Assumptions c09_accounting_exact.

(** At no instant does the connection carry more unanswered queries than its limit. *)
Theorem c09_inflight_le_limit maxcq tcp nq ls s :
  run (init maxcq tcp nq) ls = Some s ->
  cnt registered (calls s) (live s) <= maxcq.
Proof. exact (inflight_le_limit maxcq tcp nq ls s). Qed.
Print Assumptions c09_inflight_le_limit.

(** After any history, when every call has returned or withdrawn, the
    connection is exactly as empty as a fresh one. *)
Theorem c09_no_leak maxcq tcp nq ls s :
  run (init maxcq tcp nq) ls = Some s -> live s = [] ->
  reserved s = 0 /\ qlen s = 0 /\ forall w, queue s w = None.
Proof. exact (no_leak maxcq tcp nq ls s). Qed.
Print Assumptions c09_no_leak.

(** A live connection holding fewer calls than its limit admits another one. *)
Theorem c09_admits_below_limit maxcq tcp nq ls s c orig :
  run (init maxcq tcp nq) ls = Some s ->
  closed s = false -> cpc (calls s c) = PIdle -> ~ In c (live s) ->
  cnt holds_res (calls s) (live s) + cnt registered (calls s) (live s) < maxcq ->
  exists s', step s (LReserve c orig) = Some s' /\ cpc (calls s' c) = PReserved /\ cres (calls s' c) = None.
Proof. exact (admits_below_limit maxcq tcp nq ls s c orig). Qed.
Print Assumptions c09_admits_below_limit.

(** At the limit the connection refuses and counts nothing. *)
Theorem c09_refuses_at_limit s c orig s' :
  step s (LReserve c orig) = Some s' -> closed s = false -> max_cq s <= qlen s + reserved s ->
  cres (calls s' c) = Some (RRefused false) /\ reserved s' = reserved s /\ qlen s' = qlen s.
Proof. exact (refuses_at_limit s c orig s'). Qed.
Print Assumptions c09_refuses_at_limit.

(** Non-vacuity: limit 2; two calls admitted, a third refused; one withdraws,
    one completes; the connection is empty again and admits two more. *)
Example c09_nonvacuous :
  match run (init 2 true 0)
        [LReserve 0 1; LReserve 1 1; LReserve 2 1; LWithdraw 0; LCheck 1; LAdd 1; LWriteBegin 1;
         LWriteEnd 1 true; LArm 1; LRecv (mkReply 0 0 5 (Some 1%nat)); LLookup; LHandoff;
         LSelect 1 SelReply; LReserve 3 1; LReserve 4 1; LReserve 5 1] with
  | Some s => cres (calls s 2%nat) = Some (RRefused false) /\ cres (calls s 5%nat) = Some (RRefused false)
              /\ reserved s = 2 /\ qlen s = 0 /\ live s = [4%nat; 3%nat]
  | None => False
  end.
Proof. vm_compute. repeat split; reflexivity. Qed.

(** * The connection while it is still dialing (lazyDnsConn, Model.Lazy) *)
Import Model.Lazy Proofs.Lazy.

(** In every reachable state of the dialing connection the counters are exact
    and within their limits: early reservations = callers that entered while
    dialing and have not returned, never more than the queue limit;
    reservations of the real connection never more than its limit; the wait
    group counts exactly the early callers that still have to re-reserve. *)
Theorem c09_lazy_accounting maxq im ls s :
  lrun (linit maxq im) ls = Some s ->
  lreserved s = gcnt kearly (lcalls s) (llive s) /\ lreserved s <= maxq /\
  icount s = gcnt kinner (lcalls s) (llive s) /\ icount s <= im /\
  ((ldial s = Dialing \/ ldial s = DialOk) -> lwg s = gcnt kpend (lcalls s) (llive s)).
Proof. exact (lazy_accounting maxq im ls s). Qed.
Print Assumptions c09_lazy_accounting.

Theorem c09_lazy_no_leak maxq im ls s :
  lrun (linit maxq im) ls = Some s -> llive s = [] ->
  lreserved s = 0 /\ icount s = 0 /\ ((ldial s = Dialing \/ ldial s = DialOk) -> lwg s = 0).
Proof. exact (lazy_no_leak maxq im ls s). Qed.
Print Assumptions c09_lazy_no_leak.

(** Queries queued while the connection was dialing are not refused once the
    dial succeeds with an equal (or larger) limit. *)
Theorem c09_early_callers_served maxq im ls s c :
  lrun (linit maxq im) ls = Some s -> maxq <= im ->
  qpc (lcalls s c) = QEarlyGo -> iclosed s = false ->
  exists s', lstep s (ZReReserve c) = Some s' /\ qpc (lcalls s' c) = QInner /\ qres (lcalls s' c) = None.
Proof. exact (early_callers_served maxq im ls s c). Qed.
Print Assumptions c09_early_callers_served.

(** The pipelined upstreams as pkg/upstream/upstream.go configures them (pairs regenerated from NewUpstream on
    every run: queue limit while dialing, limit of the dialled connection): the premise of
    [c09_early_callers_served] holds for each, so no query queued during a dial is refused by the connection
    that dial produces. *)
Theorem c09_configured_limits_admit_queued p :
  In p upstream_pipeline_limits -> fst p <= snd p.
Proof.
  intros Hp.
  assert (H : forallb (fun q : N * N => fst q <=? snd q) upstream_pipeline_limits = true) by (vm_compute; reflexivity).
  rewrite forallb_forall in H. apply N.leb_le, H, Hp.
Qed.
Print Assumptions c09_configured_limits_admit_queued.

Theorem c09_configured_early_callers_served p ls s c :
  In p upstream_pipeline_limits ->
  lrun (linit (fst p) (snd p)) ls = Some s ->
  qpc (lcalls s c) = QEarlyGo -> iclosed s = false ->
  exists s', lstep s (ZReReserve c) = Some s' /\ qpc (lcalls s' c) = QInner /\ qres (lcalls s' c) = None.
Proof.
  intros Hp Hr Hq Hc.
  exact (c09_early_callers_served (fst p) (snd p) ls s c Hr (c09_configured_limits_admit_queued p Hp) Hq Hc).
Qed.
Print Assumptions c09_configured_early_callers_served.

Example c09_configured_limits_nonvacuous : upstream_pipeline_limits <> [].
Proof. discriminate. Qed.

(** While dialing: below the queue limit a caller is admitted, at the limit refused (nothing counted). *)
Theorem c09_lazy_admits_while_dialing s c :
  ldial s = Dialing -> lfast s = 0 -> qpc (lcalls s c) = QIdle -> ~ In c (llive s) ->
  exists s', lstep s (ZReserve c) = Some s' /\
    (if lmaxq s <=? lreserved s then qres (lcalls s' c) = Some (LRRefused false) /\ lreserved s' = lreserved s
     else qpc (lcalls s' c) = QEarly /\ lreserved s' = lreserved s + 1).
Proof. exact (lazy_admits_while_dialing s c). Qed.
Print Assumptions c09_lazy_admits_while_dialing.

(** Non-vacuity: queue limit 2 = real limit 2; a third caller is refused while
    dialing; after the dial both queued callers get their reservation, a late
    caller has to wait for them and is then refused by the (full) real connection. *)
Example c09_lazy_nonvacuous :
  match lrun (linit 2 2) [ZReserve 0; ZReserve 1; ZReserve 2; ZStart 0; ZStart 1; ZDialDone true; ZGo 0; ZGo 1;
                          ZReReserve 1; ZReReserve 0; ZReserve 3] with
  | Some s => qres (lcalls s 2%nat) = Some (LRRefused false) /\ qpc (lcalls s 0%nat) = QInner /\ qpc (lcalls s 1%nat) = QInner
              /\ qres (lcalls s 3%nat) = Some (LRRefused false) /\ lstep (match lrun (linit 2 2) [ZReserve 0; ZDialDone true] with Some x => x | None => s end) (ZReserve 5) = None
  | None => False
  end.
Proof. vm_compute. repeat split; reflexivity. Qed.

(** * The non-pipelined transport: one query per connection (reuse.go, Model.Reuse) *)
Import Model.Reuse Proofs.Reuse.

(** Under the one-reply-per-query assumption no connection of the non-pipelined
    transport ever carries more than one written, unanswered query. *)
Theorem c09_reuse_one_query_per_conn ls s n :
  xrun xinit ls = Some s -> xenv xinit ls -> xout (conns s n) <= 1.
Proof. exact (reuse_one_query_per_conn ls s n). Qed.
Print Assumptions c09_reuse_one_query_per_conn.

(** * The pipeline transport's connection pool (pipeline.go getReservedExchanger; Model.PPool)

    A reservation on a new connection (the only case in which the attempt counts as "new"): the
    connection did not exist, no connection that was asked admitted the query, and either every pooled
    connection was asked or more than the bound refused — the transport opens a connection instead of
    putting a query on one without room. Holds in every reachable state of the pool. *)
Import Model.PPool Proofs.PPool.
Theorem c09_pool_opens_new_only_when_none_admits ls s vs f s1 n :
  prun pinit ls = Some s ->
  pstep s (PGet vs f) = Some (s1, Some (PoConn n true)) ->
  n = pt_next s /\ ~ In n (pt_pool s) /\ In n (pt_pool s1)
  /\ (forall m r, In (m, r) vs -> r <> RAdmit)
  /\ ((forall m, In m (pt_pool s) -> exists r, In (m, r) vs /\ r <> RAdmit)
      \/ pipeline_max_reserve_attempt < N.of_nat (length vs)).
Proof. intros Hr. exact (pool_get_new s vs f s1 n (poolinv_run ls pinit s poolinv_init Hr)). Qed.
Print Assumptions c09_pool_opens_new_only_when_none_admits.

(** A reservation on a pooled connection is made on one that admitted it (never on one that answered
    "full" or "closed"), and that connection stays pooled. *)
Theorem c09_pool_reuses_only_admitting s vs f s1 n :
  pstep s (PGet vs f) = Some (s1, Some (PoConn n false)) ->
  In n (pt_pool s) /\ In (n, RAdmit) vs /\ In n (pt_pool s1)
  /\ (forall m r, In (m, r) vs -> r = RAdmit -> m = n) /\ pt_next s1 = pt_next s.
Proof. exact (pool_get_reused s vs f s1 n). Qed.
Print Assumptions c09_pool_reuses_only_admitting.

(** Capacity is never thrown away: only connections that reported themselves closed leave the pool,
    and those do leave it. *)
Theorem c09_pool_keeps_live_connections ls s vs f s1 o m :
  prun pinit ls = Some s -> pstep s (PGet vs f) = Some (s1, o) ->
  (In m (pt_pool s) -> ~ In (m, RClosed) vs -> In m (pt_pool s1))
  /\ (In (m, RClosed) vs -> ~ In m (pt_pool s1)).
Proof.
  intros Hr Hs. split.
  - exact (pool_only_closed_removed s vs f s1 o m Hs).
  - exact (pool_closed_removed s vs f s1 o m (poolinv_run ls pinit s poolinv_init Hr) Hs).
Qed.
Print Assumptions c09_pool_keeps_live_connections.

(** Non-vacuity: two full connections and a closed one — the closed one is dropped, a third is opened. *)
Example c09_pool_nonvacuous :
  match prun pinit [PGet [] true; PGet [(0%nat, RFull)] true] with
  | Some s => pstep s (PGet [(1%nat, RClosed); (0%nat, RFull)] true)
              = Some (mkPS false 3 [2%nat; 0%nat], Some (PoConn 2 true))
  | None => False
  end.
Proof. vm_compute. reflexivity. Qed.

(** * "No counter underflows or panics": the non-pipelined transport never installs an exchange on a
    connection that still has a waiter (the Go code panics there with "bug: reusableConn: concurrent
    exchange calls"). In every reachable state a call that holds a connection can install itself;
    a connection is held by at most one call, and an idle connection has no waiter. *)
Theorem c09_reuse_install_never_panics ls s c :
  Model.Reuse.xrun Model.Reuse.xinit ls = Some s -> Model.Reuse.upc (Model.Reuse.xcalls s c) = Model.Reuse.UHave ->
  exists s', Model.Reuse.xstep s (Model.Reuse.MInstall c) = Some s'.
Proof. exact (Proofs.ReuseOwn.reuse_install_enabled ls s c). Qed.
Print Assumptions c09_reuse_install_never_panics.
