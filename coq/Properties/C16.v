(** C16 — stream framing is exact in both directions.
    Only statements, each closed by [exact] of a lemma from Proofs/Framing.v. *)
From Verif Require Import Base.Prelude Gen.Constants Model.Framing Proofs.Framing.
From Coq Require Import Permutation.
Open Scope N_scope.

(** A writer produces exactly "two byte big-endian length ++ message", and
    refuses exactly the messages longer than 65535 bytes. *)
Theorem c16_writer_exact m f : frame m = Some f -> f = enc_len (len m) ++ m /\ len m <= 65535.
Proof. exact (frame_some m f). Qed.
Print Assumptions c16_writer_exact.

Theorem c16_oversize_refused m : frame m = None <-> 65535 < len m.
Proof. exact (frame_none m). Qed.
Print Assumptions c16_oversize_refused.

(** Any message of 13..65535 bytes framed by the writer comes back
    byte-for-byte through the reader, however the stream is cut into reads
    (any stream [s] that delivers the frame followed by [rest]). *)
Theorem c16_roundtrip_any_reads s m f rest :
  13 <= len m -> frame m = Some f -> flat s = f ++ rest ->
  exists s', read_frame s = (Ok m, s') /\ flat s' = rest.
Proof. exact (read_frame_roundtrip s m f rest). Qed.
Print Assumptions c16_roundtrip_any_reads.

Theorem c16_roundtrip_any_chunking fuel sizes m f rest :
  13 <= len m -> frame m = Some f ->
  exists s', read_frame (chunk_by fuel sizes sizes (f ++ rest)) = (Ok m, s') /\ flat s' = rest.
Proof. exact (roundtrip_any_chunking fuel sizes m f rest). Qed.
Print Assumptions c16_roundtrip_any_chunking.

(** The reader never returns anything but the announced bytes, and never fewer than 13. *)
Theorem c16_reader_sound s m s' :
  read_frame s = (Ok m, s') ->
  exists h, length h = 2%nat /\ flat s = h ++ m ++ flat s' /\ len m = dec_len h /\ 13 <= len m.
Proof. exact (read_frame_sound s m s'). Qed.
Print Assumptions c16_reader_sound.

(** A short or failing stream is an error, never a truncated or padded message. *)
Theorem c16_truncated_is_error s m f k :
  13 <= len m -> frame m = Some f -> (k < length f)%nat -> nofail s = true -> flat s = firstn k f ->
  exists e s', read_frame s = (Er e, s') /\ (e = EEOF \/ e = EUnexpectedEOF).
Proof. exact (read_frame_truncated s m f k). Qed.
Print Assumptions c16_truncated_is_error.

Theorem c16_small_length_refused s h rest :
  length h = 2%nat -> dec_len h <= 12 -> flat s = h ++ rest ->
  exists s', read_frame s = (Er ETooSmall, s').
Proof. exact (read_frame_small s h rest). Qed.
Print Assumptions c16_small_length_refused.

(** Frames written whole, in any order, decode to the same messages in that order. *)
Theorem c16_whole_frames_any_order ms ms' s :
  Forall valid_msg ms -> Permutation ms ms' -> nofail s = true ->
  flat s = concat (map frame_bytes ms') ->
  read_frames (S (length ms')) s = (ms', EEOF).
Proof. exact (whole_frames_any_order ms ms' s). Qed.
Print Assumptions c16_whole_frames_any_order.

(** Non-vacuity: a 13 byte message, delivered one byte per read followed by
    three stray bytes, is decoded exactly and the stray bytes remain. *)
Example c16_nonvacuous :
  let m := gen_bytes 13 5 in
  exists f, frame m = Some f /\
  fst (read_frame (chunk_by 100 [1%nat] [1%nat] (f ++ [1;2;3]))) = Ok m.
Proof. eexists. split; [reflexivity|]. vm_compute. reflexivity. Qed.
