From Verif Require Import Base.Prelude Gen.Constants Model.Framing.
Example placeholder : frame [1;2;3] = Some [0;3;1;2;3].
Proof. reflexivity. Qed.
Print Assumptions placeholder.
