(** C08 — failures of reused connections are retried, fresh ones reported.
    The retry loops of both transports as a function of what each pass is
    handed by the environment (pool, dialer, server, caller's context): the
    theorems hold for EVERY such script. The shape of the retry condition and
    its constants are regenerated from the source on every run
    (Gen.RetryFacts, Gen.Constants). Statements only; proofs in Proofs/Retry.v.
    PARTIAL in one respect: which connections the pool hands out (and that dead
    ones are dropped from it) is not part of this model; it is observed by the
    harness (schedule points at connection creation) and judged per query. *)
From Verif Require Import Base.Prelude Gen.Constants Gen.RetryFacts Model.Retry Proofs.Retry.
From Verif Require Model.Reuse Proofs.Reuse.
From Verif Require Model.PPool Proofs.PPool.
Open Scope N_scope.

(** No query makes more than 4 passes through the loop, hence is never
    transmitted on more than 4 connections (with the constants and comparison
    operators the source has now: 3 for the pipelined, 4 for the non-pipelined transport). *)
Theorem c08_pipeline_attempts_le_4 sc : (snd (loop pipeline_cfg 0 sc) <= 4)%nat.
Proof. exact (pipeline_attempts_le_4 sc). Qed.
Print Assumptions c08_pipeline_attempts_le_4.

Theorem c08_reuse_attempts_le_4 sc : (snd (loop reuse_cfg 0 sc) <= 4)%nat.
Proof. exact (reuse_attempts_le_4 sc). Qed.
Print Assumptions c08_reuse_attempts_le_4.

Theorem c08_attempts_bounded c sc : (snd (loop c 0 sc) <= N.to_nat (allowed c) + 1)%nat.
Proof. exact (attempts_bounded c sc). Qed.
Print Assumptions c08_attempts_bounded.

(** An exchange failure is reported only when the last attempt was on a
    connection opened for this call, or the budget is exhausted, or (pipeline)
    the caller's context had ended. *)
Theorem c08_failure_justified c sc n :
  only_reused c = true ->
  loop c 0 sc = (FErr, n) ->
  exists a, nth_error sc (n - 1) = Some (Exch a) /\ a_ok a = false /\
            (a_new a = true \/ N.of_nat n = allowed c + 1 \/ (checks_ctx c = true /\ a_ctx_dead a = true)).
Proof. exact (failure_justified c sc n). Qed.
Print Assumptions c08_failure_justified.

Example c08_both_loops_retry_only_reused : only_reused pipeline_cfg = true /\ only_reused reuse_cfg = true.
Proof. split; reflexivity. Qed.

(** Transparent retry: failures on pooled connections within the budget and
    with a live context are followed by another attempt; if a fresh
    connection then works the call succeeds. *)
Theorem c08_retry_succeeds c pre a :
  Forall (fun p => exists b, p = Exch b /\ a_ok b = false /\ a_new b = false /\ a_ctx_dead b = false) pre ->
  N.of_nat (length pre) <= allowed c -> a_ok a = true ->
  forall rest, loop c 0 (pre ++ Exch a :: rest) = (FOk, S (length pre)).
Proof. exact (retry_succeeds c pre a). Qed.
Print Assumptions c08_retry_succeeds.

(** Every pass before the last one is a failed exchange on a pooled connection. *)
Theorem c08_passes_before_last_failed c sc retry f n i p :
  loop c retry sc = (f, n) -> (S i < n)%nat -> nth_error sc i = Some p ->
  exists a, p = Exch a /\ a_ok a = false /\ (only_reused c = true -> a_new a = false).
Proof. exact (passes_before_last_failed c sc retry f n i p). Qed.
Print Assumptions c08_passes_before_last_failed.

(** Non-vacuity: two stale pooled connections, then a fresh one that works. *)
Example c08_nonvacuous :
  loop pipeline_cfg 0 [Exch (mkAtt false false false); Exch (mkAtt false false false); Exch (mkAtt true true false)] = (FOk, 3%nat)
  /\ loop reuse_cfg 0 [Exch (mkAtt false false false); Exch (mkAtt false false false); Exch (mkAtt false false false);
                       Exch (mkAtt false false false); Exch (mkAtt true true false)] = (FErr, 4%nat).
Proof. split; reflexivity. Qed.

(** * The pool of the non-pipelined transport (Model.Reuse): dead connections are removed when detected *)
Import Model.Reuse Proofs.Reuse.

Theorem c08_reuse_dead_conn_removed ls s n :
  xrun xinit ls = Some s -> xclosed (conns s n) = true -> ~ In n (cset s) /\ ~ In n (idle s).
Proof. exact (reuse_dead_conn_removed ls s n). Qed.
Print Assumptions c08_reuse_dead_conn_removed.

(** … so the pool never hands out a connection it knows to be closed. *)
Theorem c08_reuse_idle_conn_is_open ls s c n s' :
  xrun xinit ls = Some s -> xstep s (MGetIdle c (Some n)) = Some s' -> tclosed s = false ->
  xexists (conns s n) = true /\ xclosed (conns s n) = false.
Proof. exact (reuse_idle_conn_is_open ls s c n s'). Qed.
Print Assumptions c08_reuse_idle_conn_is_open.

(** * Which attempts are "on a new connection" (pipeline.go getReservedExchanger; Model.PPool)

    The flag that forbids a retry is set exactly when the pool created the connection in this very
    pass: a pooled connection is never reported as new, a created one never as reused. *)
Import Model.PPool Proofs.PPool.
Theorem c08_pool_isnew_iff_created ls s vs f s1 n isnew :
  prun pinit ls = Some s ->
  pstep s (PGet vs f) = Some (s1, Some (PoConn n isnew)) ->
  (isnew = true <-> ~ In n (pt_pool s)) /\ (isnew = false <-> In n (pt_pool s)).
Proof.
  intros Hr Hs. pose proof (poolinv_run ls pinit s poolinv_init Hr) as I.
  destruct isnew.
  - destruct (pool_get_new s vs f s1 n I Hs) as (_ & Hn & _). split; split; try tauto; try discriminate.
  - destruct (pool_get_reused s vs f s1 n Hs) as (Hi & _). split; split; try tauto; try discriminate.
Qed.
Print Assumptions c08_pool_isnew_iff_created.
