(** C14 — forward returns the first good answer among the queried upstreams.
    Only statements, each closed by [exact] of a lemma from Proofs/Forward.v.

    Reading guide. [clamp c] is the concurrency after the two [if]s of
    [exchange]; [targets r c n] are the list positions queried from start [r];
    [queries q r c n] pairs every queried position with the bytes it is handed;
    [collect c arr] is the collection loop run on the arrivals [arr] in the order
    in which its [select] took them ([AReply rcode tag] a parsed reply, [AErr] a
    failed or unparsable exchange, [ACtx] the caller's context ending);
    [step true c] is the goroutine protocol (c workers, the collector, the
    caller's context) and [reachable] ranges over all its interleavings. *)
From Verif Require Import Base.Prelude Gen.Constants Model.Forward Proofs.Forward.
Local Open Scope nat_scope.

(** "concurrency c (clamped to 1..3)": for every configured value. *)
Theorem c14_clamp_range c : 1 <= clamp c <= 3.
Proof. exact (clamp_range c). Qed.
Print Assumptions c14_clamp_range.

Theorem c14_clamp_cases c :
  ((c <= 0)%Z -> clamp c = 1) /\
  ((1 <= c <= 3)%Z -> clamp c = Z.to_nat c) /\
  ((3 < c)%Z -> clamp c = 3).
Proof. exact (clamp_cases c). Qed.
Print Assumptions c14_clamp_cases.

(** "c cyclically consecutive positions of U starting at a random one (wrapping
    around a shorter list)": for every start r, count c and list length n >= 1,
    exactly c positions, the i-th is (r+i) mod n, all inside the list, each the
    successor (mod n) of the previous one; distinct when c <= n, and repeating
    with period n when the list is shorter than c. *)
Theorem c14_targets_cyclic r c n d : 0 < n ->
  length (targets r c n) = c /\
  (forall i, i < c -> nth i (targets r c n) d = (r + i) mod n) /\
  (forall p, In p (targets r c n) -> p < n) /\
  (forall i, S i < c -> nth (S i) (targets r c n) d = (nth i (targets r c n) d + 1) mod n) /\
  (c <= n -> NoDup (targets r c n)) /\
  (forall i, i + n < c -> nth (i + n) (targets r c n) d = nth i (targets r c n) d).
Proof.
  exact (fun Hn => conj (targets_length r c n)
    (conj (fun i H => targets_nth r c n i d H)
    (conj (fun p H => targets_lt r c n p Hn H)
    (conj (fun i H => targets_consecutive r c n i d Hn H)
    (conj (targets_NoDup r c n)
          (fun i H => targets_wrap r c n i d Hn H)))))).
Qed.
Print Assumptions c14_targets_cyclic.

(** "sent byte-for-byte unchanged": every queried position gets exactly the
    packed query, and the queried positions are exactly the targets. (The model
    passes the bytes through; that the code does is checked on every run by
    comparing the bytes each upstream received.) *)
Theorem c14_payload_unchanged (Q : Type) (q : Q) r c n :
  map fst (queries q r c n) = targets r c n /\
  forall p b, In (p, b) (queries q r c n) -> b = q.
Proof.
  exact (conj (queries_positions q r c n) (fun p b H => proj1 (queries_payload q r c n p b H))).
Qed.
Print Assumptions c14_payload_unchanged.

(** "the first NOERROR or NXDOMAIN reply to arrive is returned": whatever
    arrived before it (errors, garbage, other rcodes — [nondec]) and whatever
    arrives after it, in every arrival order. *)
Theorem c14_first_good_wins c pre rc t post :
  length pre < c -> Forall nondec pre -> good_rcode rc = true ->
  collect c (pre ++ AReply rc t :: post) = RReply rc t.
Proof. exact (first_good_wins c pre rc t post). Qed.
Print Assumptions c14_first_good_wins.

(** "if none arrives the outcome is that of the last exchange to finish - its
    reply whatever the rcode, or an error if it failed or returned garbage". *)
Theorem c14_else_last c pre a post :
  S (length pre) = c -> Forall nondec pre ->
  collect c (pre ++ a :: post) =
  match a with AReply rc t => RReply rc t | AErr => RAllFailed | ACtx => RCtx end.
Proof. exact (else_last c pre a post). Qed.
Print Assumptions c14_else_last.

(** no queried upstream produced a parsable message: the error, for every mix
    of failures, garbage and timeouts *)
Theorem c14_all_failed_error c os :
  length os = c -> (forall o, In o os -> forall rc t, o <> UMsg rc t) ->
  collect c (map worker_result os) = RAllFailed.
Proof. exact (all_failed_error c os). Qed.
Print Assumptions c14_all_failed_error.

(** "or the context's error if the caller's context ends first" *)
Theorem c14_ctx_wins_if_first c pre post :
  length pre < c -> Forall nondec pre -> collect c (pre ++ ACtx :: post) = RCtx.
Proof. exact (ctx_wins_if_first c pre post). Qed.
Print Assumptions c14_ctx_wins_if_first.

Theorem c14_ctx_only_if_cancelled c arr : collect c arr = RCtx -> In ACtx (firstn c arr).
Proof. exact (ctx_only_if_cancelled c arr). Qed.
Print Assumptions c14_ctx_only_if_cancelled.

(** "A failing, slow or garbage-returning upstream never masks a good answer
    from another queried upstream": if a good reply is among the first c
    arrivals (anywhere, in any order, slow ones simply arrive later or never)
    and the context did not end, the call returns a good reply that was sent. *)
Theorem c14_bad_never_masks_good c arr rc t :
  In (AReply rc t) (firstn c arr) -> good_rcode rc = true -> ~ In ACtx (firstn c arr) ->
  exists rc' t', collect c arr = RReply rc' t' /\ good_rcode rc' = true /\ In (AReply rc' t') (firstn c arr).
Proof. exact (bad_never_masks_good c arr rc t). Qed.
Print Assumptions c14_bad_never_masks_good.

(** the returned reply is one that arrived (nothing is made up) *)
Theorem c14_result_sound c arr rc t : collect c arr = RReply rc t -> In (AReply rc t) (firstn c arr).
Proof. exact (result_sound c arr rc t). Qed.
Print Assumptions c14_result_sound.

(** the call keeps waiting exactly while fewer than c results arrived, none of
    them good, and the context has not ended — in particular "the call never
    outlives its context": with [ACtx] among the arrivals it is not waiting. *)
Theorem c14_waiting_iff c arr :
  collect c arr = RWaiting <-> length arr < c /\ Forall nondec arr.
Proof. exact (waiting_iff c arr). Qed.
Print Assumptions c14_waiting_iff.

(** the loop is the property's one-line reading, for every c and every arrival list *)
Theorem c14_collect_is_oracle c arr : collect c arr = oracle c arr.
Proof. exact (collect_oracle c arr). Qed.
Print Assumptions c14_collect_is_oracle.

(** "its helper goroutines end": in every interleaving of c workers (c = 1..3),
    the collector and a context that may be cancelled at any moment, every step
    consumes a measure that starts at 6 + 2c (no infinite run), and a state
    without successor has every worker ended and the collector returned (no
    worker is ever blocked for good on its send, whether or not the collector has
    left). A worker whose exchange is still running is always able to step: that
    is the 5-second upstream timeout, checked on every run by reading the deadline
    handed to the upstreams. *)
Theorem c14_workers_terminate c s : In c [1; 2; 3] ->
  reachable (step true c) (init c) s ->
  (forall s', In s' (step true c s) -> measure s' < measure s) /\
  (step true c s = [] -> Forall (fun w => w = WEnd) (ws s) /\ exists r, col s = CGone r).
Proof. exact (workers_terminate c s). Qed.
Print Assumptions c14_workers_terminate.

Theorem c14_measure_init c : measure (init c) = 6 + 2 * c.
Proof. exact (measure_init c). Qed.
Print Assumptions c14_measure_init.

(** the concurrent protocol computes [collect] on the order in which the
    collector's select received things, and the collector never waits for a
    result that no live worker can deliver *)
Theorem c14_protocol_result_is_collect c s r : In c [1; 2; 3] ->
  reachable (step true c) (init c) s -> (col s = CRet r \/ col s = CGone r) -> collect c (hist s) = r.
Proof. exact (protocol_result_is_collect c s r). Qed.
Print Assumptions c14_protocol_result_is_collect.

Theorem c14_collector_waits_for_live_workers c s i : In c [1; 2; 3] ->
  reachable (step true c) (init c) s -> col s = CWait i ->
  i = length (hist s) /\ collect c (hist s) = RWaiting /\ i < c /\ live_workers s = c - i.
Proof. exact (collector_waits_for_live_workers c s i). Qed.
Print Assumptions c14_collector_waits_for_live_workers.

(** "within the 5-second upstream timeout": whatever the caller's context (no
    deadline, or any time left on it - 1 s, 30 s, an hour), the context a helper
    hands to its upstream expires [queryTimeout] = 5 s after its creation, never
    later. That the code does this is checked on every run by reading the
    deadline of the context each upstream call received. *)
Theorem c14_upstream_deadline_bound (caller : option Z) :
  upstream_deadline caller = forward_query_timeout /\ (upstream_deadline caller <= 5000000000)%Z.
Proof. exact (upstream_deadline_bound caller). Qed.
Print Assumptions c14_upstream_deadline_bound.

(** Non-vacuity. Concurrency 9 on a list of 2 starting at 1: three queries to
    positions 1, 0, 1; SERVFAIL, an error, then NXDOMAIN, then NOERROR arrive:
    NXDOMAIN (the first good one) is returned. *)
Example c14_nonvacuous :
  targets 1 (clamp 9) 2 = [1; 0; 1] /\
  collect (clamp 9) [AReply 2 7; AErr; AReply 3 8; AReply 0 9] = RReply 3 8 /\
  collect (clamp 2) [AReply 2 7; AReply 5 8] = RReply 5 8 /\
  collect (clamp 2) [AReply 2 7; ACtx; AReply 0 8] = RCtx.
Proof. vm_compute. repeat split; reflexivity. Qed.

(** Without the [done] channel (a plain [resChan <- res]) the same exploration
    finds a worker blocked for good: the check above is not vacuous. *)
Example c14_plain_send_can_block :
  exists s, reachable (step false 2) (init 2) s /\ step false 2 s = [] /\ nth 1 (ws s) WEnd = WReady AErr.
Proof. exact plain_send_can_block. Qed.
