(** C05 — cached answers age correctly and expire on time.
    Only statements, each closed by [exact] of a lemma from Proofs/CacheTTL.v.

    Reading notes.
    - Instants and durations are nanoseconds ([Z]); TTLs are [N]; nothing is
      bounded: every TTL, every instant, every message, every schedule.
    - [get_resp_with secs] is getRespFromCache with the float64 computation
      "uint32(d.Seconds())" abstracted as [secs]; the theorems hold for EVERY
      [secs], in particular for [secs_go] (bit-exact binary64, what the Judge
      runs against the Go code) and for [secs_floor] (whole seconds, exact).
      That [secs_go d = secs_floor d] for d < 2^24 s is checked on the
      observed cases only, not proved (no floating-point theory is used).
    - [now1] is the clock reading inside pkg/cache Get, [now2] the later one
      inside getRespFromCache.
    - "Remaining lifetime" is read per record: ttl - elapsed. *)
From Verif Require Import Base.Prelude Gen.Constants Model.CacheTTL Proofs.CacheTTL.
Open Scope Z_scope.

(** ** Ageing *)

(** A fresh (non-stale) hit returns the stored reply with every record aged by
    e = uint32(seconds since it was stored): OPT untouched, any other TTL is
    ttl - e if that is positive and 1 otherwise; sections and order are kept. *)
Theorem c05_aging secs lazy_on now1 now2 e m :
  get_resp_with secs lazy_on now1 now2 (Some e) = Some (m, false) ->
  Forall2 (aged (elapsed_with secs now2 (e_stored e))) (m_rrs (e_msg e)) (m_rrs m).
Proof. exact (aging secs lazy_on now1 now2 e m). Qed.
Print Assumptions c05_aging.

(** never below 1, never above the record's remaining lifetime, exact while positive *)
Theorem c05_aged_bounds e r r' :
  aged e r r' -> rr_opt r = false ->
  (1 <= rr_ttl r' /\ rr_ttl r' <= N.max 1 (rr_ttl r - e) /\ (e < rr_ttl r -> rr_ttl r' = rr_ttl r - e))%N.
Proof. exact (aged_bounds e r r'). Qed.
Print Assumptions c05_aged_bounds.

(** with whole-second arithmetic the elapsed count is the floor of the age, for every age below 2^32 s *)
Theorem c05_elapsed_whole_seconds now stored :
  0 <= now - stored < 4294967296 * second ->
  elapsed_with secs_floor now stored = Z.to_N ((now - stored) / second).
Proof. exact (elapsed_floor_exact now stored). Qed.
Print Assumptions c05_elapsed_whole_seconds.

(** ** Expiry *)

(** Without lazy caching an entry is served iff the clock is strictly before the
    message expiry (time.Before) and the backend has not hidden it
    (hidden iff cache expiry is strictly before the clock). *)
Theorem c05_expiry_nonlazy secs now1 now2 e :
  get_resp_with secs false now1 now2 (Some e) <> None <->
  now2 < e_msg_exp e /\ now1 <= e_cache_exp e.
Proof. exact (expiry_nonlazy secs now1 now2 e). Qed.
Print Assumptions c05_expiry_nonlazy.

Theorem c05_nonlazy_never_stale secs now1 now2 en r :
  get_resp_with secs false now1 now2 en = Some r -> snd r = false.
Proof. exact (nonlazy_never_stale secs now1 now2 en r). Qed.
Print Assumptions c05_nonlazy_never_stale.

(** whatever the mode, nothing is served once the cache expiry has passed *)
Theorem c05_hidden_after_cache_expiry secs lazy_on now1 now2 e :
  e_cache_exp e < now1 -> get_resp_with secs lazy_on now1 now2 (Some e) = None.
Proof. exact (hidden_after_cache_expiry secs lazy_on now1 now2 e). Qed.
Print Assumptions c05_hidden_after_cache_expiry.

(** an entry made by saveRespToCache without lazy caching is served exactly
    until its message lifetime (see c05_lifetimes: the smallest TTL for an
    ordinary answer) has run out *)
Theorem c05_stored_then_served secs r lazy_ttl now e now1 now2 :
  save r lazy_ttl now = Some e -> lazy_ttl <= 0 -> now1 <= now2 ->
  (get_resp_with secs false now1 now2 (Some e) <> None <-> now2 < e_msg_exp e).
Proof. exact (stored_then_served secs r lazy_ttl now e now1 now2). Qed.
Print Assumptions c05_stored_then_served.

(** in particular an ordinary answer is not served once its smallest TTL has run out *)
Theorem c05_not_served_after_min_ttl secs r lazy_ttl now e now1 now2 :
  save r lazy_ttl now = Some e -> lazy_ttl <= 0 -> m_rcode r = 0%N -> has_answer r = true ->
  now1 <= now2 -> now + Z.of_N (min_ttl r) * second <= now2 ->
  get_resp_with secs false now1 now2 (Some e) = None.
Proof. exact (not_served_after_min_ttl secs r lazy_ttl now e now1 now2). Qed.
Print Assumptions c05_not_served_after_min_ttl.

(** ** Lazy caching *)

(** message expired, entry still in the cache: served with every non-OPT TTL
    equal to expiredMsgTtl (5), flagged as a lazy hit (Exec then calls doLazyUpdate) *)
Theorem c05_lazy_stale secs now1 now2 e :
  e_msg_exp e <= now2 -> now1 <= e_cache_exp e ->
  exists m, get_resp_with secs true now1 now2 (Some e) = Some (m, true) /\
            Forall2 (fixed cache_expired_msg_ttl) (m_rrs (e_msg e)) (m_rrs m).
Proof. exact (lazy_stale_full secs now1 now2 e). Qed.
Print Assumptions c05_lazy_stale.

(** a lazy hit happens only then *)
Theorem c05_stale_only_when secs lazy_on now1 now2 e m :
  get_resp_with secs lazy_on now1 now2 (Some e) = Some (m, true) ->
  lazy_on = true /\ e_msg_exp e <= now2 /\ now1 <= e_cache_exp e /\
  m = set_ttl cache_expired_msg_ttl (e_msg e).
Proof. exact (stale_hit secs lazy_on now1 now2 e m). Qed.
Print Assumptions c05_stale_only_when.

(** For every schedule of stale hits, refresh returns and singleflight
    clean-ups, at most one refresh per question is in flight. *)
Theorem c05_one_refresh_in_flight tr k : (in_flight k (sf_run sf_init tr) <= 1)%N.
Proof. exact (one_refresh_in_flight tr k). Qed.
Print Assumptions c05_one_refresh_in_flight.

(** after any schedule a stale hit leaves exactly one refresh for its question in flight *)
Theorem c05_stale_hit_refresh tr k : in_flight k (sf_run sf_init (tr ++ [StaleHit k])) = 1%N.
Proof. exact (stale_hit_refresh tr k). Qed.
Print Assumptions c05_stale_hit_refresh.

(** a burst of stale hits (any number, any interleaving of questions) starts exactly one refresh per question hit *)
Theorem c05_burst_one_refresh tr k :
  (forall l, In l tr -> exists k', l = StaleHit k') -> In (StaleHit k) tr ->
  in_flight k (sf_run sf_init tr) = 1%N.
Proof. exact (burst_one_refresh tr k). Qed.
Print Assumptions c05_burst_one_refresh.

(** when no refresh is in flight the singleflight slot is free, so the next stale hit starts one *)
Theorem c05_refresh_restarts tr k :
  in_flight k (sf_run sf_init tr) = 0%N -> sf_map (sf_run sf_init tr) k = None.
Proof. exact (refresh_restarts tr k). Qed.
Print Assumptions c05_refresh_restarts.

(** ** Admission and lifetimes *)

(** stored iff not truncated and NXDOMAIN, SERVFAIL, or NOERROR with a positive
    smallest TTL — for every lazy_cache_ttl that fits a time.Duration *)
Theorem c05_admission r lazy_ttl :
  lazy_ttl <= 9223372036 ->
  (save_decision r lazy_ttl <> None <->
   m_tc r = false /\
   (m_rcode r = 3%N \/ m_rcode r = 2%N \/ (m_rcode r = 0%N /\ (0 < min_ttl r)%N))).
Proof. exact (admission r lazy_ttl). Qed.
Print Assumptions c05_admission.

(** the rule as coded, including an overflowing lazy_cache_ttl *)
Theorem c05_admission_exact r lazy_ttl :
  save_decision r lazy_ttl <> None <->
  m_tc r = false /\
  (m_rcode r = 3%N \/ m_rcode r = 2%N \/
   (m_rcode r = 0%N /\ (0 < min_ttl r)%N /\
    (has_answer r = true -> 0 < lazy_ttl -> 0 < wrap64 (lazy_ttl * second)))).
Proof. exact (admission_exact r lazy_ttl). Qed.
Print Assumptions c05_admission_exact.

(** truncated replies, other rcodes and zero-TTL NOERROR replies are never stored *)
Theorem c05_never_stored r lazy_ttl :
  m_tc r = true \/ (m_rcode r <> 0%N /\ m_rcode r <> 2%N /\ m_rcode r <> 3%N) \/
  (m_rcode r = 0%N /\ min_ttl r = 0%N) ->
  save_decision r lazy_ttl = None.
Proof. exact (never_stored r lazy_ttl). Qed.
Print Assumptions c05_never_stored.

(** lifetimes: NXDOMAIN 30 s, SERVFAIL 5 s, empty NOERROR min(300 s, smallest
    TTL), NOERROR with an answer: the smallest TTL (cache entry kept for
    lazy_cache_ttl when that is on); the stored copy has no OPT in the
    additional section *)
Theorem c05_lifetimes r lazy_ttl now e :
  save r lazy_ttl now = Some e ->
  e_stored e = now /\ e_msg e = copy_no_opt r /\ now < e_msg_exp e /\ now < e_cache_exp e /\
  (m_rcode r = 3%N -> e_msg_exp e = now + 30 * second /\ e_cache_exp e = now + 30 * second) /\
  (m_rcode r = 2%N -> e_msg_exp e = now + 5 * second /\ e_cache_exp e = now + 5 * second) /\
  (m_rcode r = 0%N -> has_answer r = false ->
     e_msg_exp e = now + Z.of_N (N.min cache_max_empty_answer_ttl (min_ttl r)) * second /\
     e_cache_exp e = e_msg_exp e) /\
  (m_rcode r = 0%N -> has_answer r = true ->
     e_msg_exp e = now + Z.of_N (min_ttl r) * second /\
     e_cache_exp e = (if 0 <? lazy_ttl then now + wrap64 (lazy_ttl * second) else e_msg_exp e)).
Proof. exact (lifetimes r lazy_ttl now e). Qed.
Print Assumptions c05_lifetimes.

(** [min_ttl] is the smallest TTL over all three sections, OPT excluded, 0 without records *)
Theorem c05_min_ttl_le m r : In r (m_rrs m) -> rr_opt r = false -> (min_ttl m <= rr_ttl r)%N.
Proof. exact (min_ttl_le m r). Qed.
Print Assumptions c05_min_ttl_le.

Theorem c05_min_ttl_attained m :
  Forall (fun r => (rr_ttl r <= max_u32)%N) (m_rrs m) -> existsb non_opt (m_rrs m) = true ->
  exists r, In r (m_rrs m) /\ rr_opt r = false /\ rr_ttl r = min_ttl m.
Proof. exact (min_ttl_attained m). Qed.
Print Assumptions c05_min_ttl_attained.

Theorem c05_min_ttl_none m : existsb non_opt (m_rrs m) = false -> min_ttl m = 0%N.
Proof. exact (min_ttl_none m). Qed.
Print Assumptions c05_min_ttl_none.

(** ** OPT *)

Theorem c05_opt_untouched_aging e r r' : aged e r r' -> rr_opt r = true -> r' = r.
Proof. exact (aged_opt e r r'). Qed.
Print Assumptions c05_opt_untouched_aging.

Theorem c05_opt_untouched_stale t r r' : fixed t r r' -> rr_opt r = true -> r' = r.
Proof. exact (fixed_opt t r r'). Qed.
Print Assumptions c05_opt_untouched_stale.

(** storing drops OPT from the additional section and keeps every other record, in order *)
Theorem c05_copy_keeps_records r :
  filter non_opt (m_rrs (copy_no_opt r)) = filter non_opt (m_rrs r).
Proof. exact (copy_no_opt_non_opt r). Qed.
Print Assumptions c05_copy_keeps_records.

(** ** Histories *)

(** For every history of loads, queries (with or without a new reply), dumps,
    waits and sweeps, from any state: what the code shows is what a map from
    which nothing is ever removed shows — deleting expired entries (in Get and
    in the sweeper) cannot be observed, so a look-up is always
    getRespFromCache applied to the last entry written for the question. *)
Theorem c05_history_no_evict secs lazy_ttl c ops :
  forallb no_evict ops = true ->
  snd (run_gen true secs lazy_ttl c ops) = snd (run_gen false secs lazy_ttl c ops).
Proof. exact (history_no_evict secs lazy_ttl c ops). Qed.
Print Assumptions c05_history_no_evict.

(** with evictions by the size-bounded map a look-up may additionally miss
    (and a dump lack entries); nothing else can differ *)
Theorem c05_history_evict secs lazy_ttl c ops :
  Forall2 (obs_rel true) (snd (run_gen true secs lazy_ttl c ops)) (snd (run_gen false secs lazy_ttl c ops)).
Proof. exact (history_evict secs lazy_ttl c ops). Qed.
Print Assumptions c05_history_evict.

(** the reference: a query stores its accepted reply under its question, other operations keep it *)
Theorem c05_reference_store secs lazy_ttl c k m e :
  save m lazy_ttl (c_now c + tick) = Some e ->
  c_st (fst (step_gen false secs lazy_ttl c (OExec k (Some m)))) k = Some e.
Proof. exact (reference_store secs lazy_ttl c k m e). Qed.
Print Assumptions c05_reference_store.

Theorem c05_reference_keeps secs lazy_ttl c o k :
  (forall k' r, o <> OExec k' (Some r)) -> (forall k' r, o <> OExecR k' (Some r)) ->
  (forall a b d m, o <> OLoad k a b d m) ->
  c_st (fst (step_gen false secs lazy_ttl c o)) k = c_st c k.
Proof. exact (reference_keeps secs lazy_ttl c o k). Qed.
Print Assumptions c05_reference_keeps.

(** ** The refresh path stores by the same rule *)

(** The reply a background refresh (doLazyUpdate) obtains goes through the same
    store decision as a foreground reply: if it must not be stored
    ([save_decision = None], i.e. by c05_admission_exact / c05_never_stored:
    truncated, zero-TTL NOERROR, any rcode other than 0/2/3, ...) then every
    entry in the map after the query was there before — the stale entry is
    not replaced and nothing new appears. Holds for the code ([drop = true])
    and for the reference. *)
Theorem c05_refresh_never_stores drop secs lazy_ttl c k m x e :
  save_decision m lazy_ttl = None ->
  c_st (fst (step_gen drop secs lazy_ttl c (OExecR k (Some m)))) x = Some e -> c_st c x = Some e.
Proof. exact (refresh_never_stores drop secs lazy_ttl c k m x e). Qed.
Print Assumptions c05_refresh_never_stores.

(** and on a stale hit a storable reply replaces the stale entry, with the lifetimes of c05_lifetimes *)
Theorem c05_refresh_stores secs lazy_ttl c k m e0 e :
  c_st c k = Some e0 -> lazy_enabled lazy_ttl = true ->
  e_msg_exp e0 <= c_now c + tick <= e_cache_exp e0 ->
  save m lazy_ttl (c_now c + tick) = Some e ->
  c_st (fst (step_gen true secs lazy_ttl c (OExecR k (Some m)))) k = Some e.
Proof. exact (refresh_stores secs lazy_ttl c k m e0 e). Qed.
Print Assumptions c05_refresh_stores.

(** ** Non-vacuity *)

(** An answer with TTLs 10 and 3600 and an OPT, stored at 0 by the code's own
    store path, looked up 3.5 s later: 7 and 3597, OPT dropped by the store.
    Looked up at exactly 10 s without lazy caching: nothing; with lazy caching
    (entry kept 60 s): TTL 5 everywhere, flagged for refresh. *)
Example c05_nonvacuous :
  let r := Msg 0 false [RR 0 false 10; RR 1 false 3600; RR 2 true 32768] in
  exists e e',
    save r 0 0 = Some e /\ save r 60 0 = Some e' /\
    get_resp false 3500000000 3500000001 (Some e)
      = Some (Msg 0 false [RR 0 false 7; RR 1 false 3597], false) /\
    get_resp false 9999999999 9999999999 (Some e) <> None /\
    get_resp false 10000000000 10000000000 (Some e) = None /\
    get_resp true 10000000000 10000000000 (Some e')
      = Some (Msg 0 false [RR 0 false 5; RR 1 false 5], true) /\
    get_resp true 60000000001 60000000001 (Some e') = None /\
    in_flight 0 (sf_run sf_init [StaleHit 0; StaleHit 0; StaleHit 1; FnReturn 0 0; Cleanup 0 0; StaleHit 0]) = 1%N.
Proof. eexists; eexists. repeat split; try (vm_compute; reflexivity). vm_compute. discriminate. Qed.

(** The binary64 seconds of the running code against whole seconds, sampled
    where rounding is worst (999999999 ns past a whole second, every power of
    two up to 2^24 s and the seconds just below): equal. The bound is sharp:
    at 2^24 s + 999999999 ns the code counts one second more; beyond 2^32 s
    the count wraps; a time.Duration saturates at 2^63-1 ns. *)
Example c05_float_seconds_sampled :
  forallb (fun k => let s := Z.pow 2 (Z.of_nat k) in
             (secs_go ((s - 1) * second + 999999999) =? s - 1) &&
             (secs_go ((s - 2) * second + 999999999) =? s - 2) &&
             (secs_go (s * second) =? s))
          (seq 1 24) = true /\
  secs_go (16777215 * second + 999999999) = 16777215 /\
  secs_go (16777216 * second + 999999999) = 16777217 /\
  elapsed_with secs_go (4294967297 * second) 0 = 1%N /\
  elapsed_with secs_go (10000000000 * second) 0 = 633437444%N.
Proof. vm_compute. repeat split; reflexivity. Qed.
